import VibeProof.Model.QCache
/- Lemmas for C25: character facts and the re-scan lemma of the signature normaliser. -/
namespace VibeProof.QCache

/-! ### characters -/

theorem lookupC_mem (c l : Char) (tbl : List (Char × Char)) (h : lookupC c tbl = some l) :
    l ∈ tbl.map Prod.snd := by
  induction tbl with
  | nil => simp [lookupC] at h
  | cons x xs ih =>
    obtain ⟨u, l'⟩ := x
    simp only [lookupC] at h
    by_cases hc : c = u
    · simp only [hc, if_true] at h
      injection h with h
      subst h
      simp
    · simp only [hc, if_false] at h
      simp [ih h]

/-- everything `lower` can newly produce is a lower-case letter: not a blank, not a quote,
    not a dash, and itself a fixed point of `lower` -/
theorem lowers_facts : ∀ l ∈ upperLower.map Prod.snd,
    isWs l = false ∧ isQuote l = false ∧ l ≠ '-' ∧ lookupC l upperLower = none := by
  decide

theorem lower_cases (c : Char) : lower c = c ∨ lower c ∈ upperLower.map Prod.snd := by
  unfold lower
  cases h : lookupC c upperLower with
  | none => exact Or.inl rfl
  | some l => exact Or.inr (lookupC_mem c l _ h)

theorem lower_idem (c : Char) : lower (lower c) = lower c := by
  rcases lower_cases c with h | h
  · rw [h]; exact h
  · have := (lowers_facts _ h).2.2.2
    show (match lookupC (lower c) upperLower with | some l => l | none => lower c) = lower c
    rw [this]

theorem lower_ws (c : Char) (h : isWs c = false) : isWs (lower c) = false := by
  rcases lower_cases c with h1 | h1
  · rw [h1]; exact h
  · exact (lowers_facts _ h1).1

theorem lower_quote (c : Char) (h : isQuote c = false) : isQuote (lower c) = false := by
  rcases lower_cases c with h1 | h1
  · rw [h1]; exact h
  · exact (lowers_facts _ h1).2.1

theorem lower_dash (c : Char) (h : lower c = '-') : c = '-' := by
  rcases lower_cases c with h1 | h1
  · rw [h1] at h; exact h
  · exact absurd h (lowers_facts _ h1).2.2.1

theorem quote_not_ws (c : Char) (h : isQuote c = true) : isWs c = false := by
  simp only [isQuote, Bool.or_eq_true, beq_iff_eq] at h
  rcases h with (h | h) | h <;> subst h <;> decide

theorem quote_not_dash (c : Char) (h : isQuote c = true) : c ≠ '-' := by
  intro hc; subst hc; simp [isQuote] at h

/-! ### the rendered output never starts with a dash where a comment could be forged -/

theorem head_after_sep (s : List Char) :
    (∀ p, ((scan .comment p true s).map render).head? ≠ some '-') ∧
    ((scan .out true true s).map render).head? ≠ some '-' := by
  induction s with
  | nil => simp [scan]
  | cons c cs ih =>
    constructor
    · intro p
      simp only [scan]
      split
      · exact ih.2
      · exact ih.1 true
    · simp only [scan]
      split
      · exact ih.2
      · split
        · exact ih.1 true
        · simp [render]

theorem head_not_dash (cs : List Char) (h : cs.head? ≠ some '-') :
    ((scan .out false true cs).map render).head? ≠ some '-' := by
  cases cs with
  | nil => simp [scan]
  | cons c cs' =>
    have hc : c ≠ '-' := by simpa using h
    simp only [scan]
    split
    · exact (head_after_sep cs').2
    · split
      · rename_i hcm; exact absurd hcm.1 hc
      · simp only [Bool.false_and, Bool.false_eq_true, if_false, List.nil_append]
        split
        · simp [render, hc]
        · simp only [List.map_cons, render, List.head?_cons, ne_eq, Option.some.injEq]
          intro hl
          exact hc (lower_dash c hl)

/-! ### re-scanning the normal form gives the same pieces -/

/-- the mode in which the output of a scan started in mode `m` is read again: comments have
    vanished from the output, so what followed them is read in `out` mode -/
def reMode : Mode → Mode
  | .comment => .out
  | m => m

theorem rescan (s : List Char) : ∀ (m : Mode) (p e p' : Bool),
    (m = .out → p = false → p' = false) →
    scan (reMode m) p' e ((scan m p e s).map render) = scan m p e s := by
  induction s with
  | nil => intro m p e p' _; cases m <;> simp [scan, reMode]
  | cons c cs ih =>
    intro m p e p' hp
    cases m with
    | quote d =>
      simp only [scan, reMode, List.map_cons, render]
      congr 1
      by_cases hcd : c = d
      · simp only [hcd, if_true]
        exact ih .out false true false (fun _ _ => rfl)
      · simp only [hcd, if_false]
        exact ih (.quote d) false true false (fun h => by cases h)
    | comment =>
      simp only [scan, reMode]
      split
      · exact ih .out true e p' (fun _ h => by cases h)
      · exact ih .comment true e p' (fun h => by cases h)
    | out =>
      simp only [scan, reMode]
      by_cases hws : isWs c = true
      · simp only [hws, if_true]
        exact ih .out true e p' (fun _ h => by cases h)
      · have hwsf : isWs c = false := by simpa using hws
        simp only [hwsf, Bool.false_eq_true, if_false]
        by_cases hcm : c = '-' ∧ cs.head? = some '-'
        · simp only [hcm, and_self, if_true]
          exact ih .comment true e p' (fun h => by cases h)
        · simp only [hcm, if_false]
          -- the character is emitted; `x` is its rendering, `rest` the rendering of what follows
          by_cases hq : isQuote c = true
          · -- a quote character opens quoted text
            simp only [hq, if_true]
            have hx_ws : isWs c = false := hwsf
            have hnd : c ≠ '-' := quote_not_dash c hq
            have ihq := ih (.quote c) false true false (fun h => by cases h)
            simp only [reMode] at ihq
            by_cases hpe : (p && e) = true
            · have he : e = true := by simp only [Bool.and_eq_true] at hpe; exact hpe.2
              subst he
              simp only [hpe, if_true, List.cons_append, List.nil_append, List.map_cons, render]
              have h1 : isWs ' ' = true := by decide
              simp only [scan, h1, if_true, hx_ws, Bool.false_eq_true, if_false, hnd, false_and,
                Bool.and_self, hq, List.cons_append, List.nil_append]
              rw [ihq]
            · have hpef : (p && e) = false := by simpa using hpe
              have hp'e : (p' && e) = false := by
                cases e with
                | false => simp
                | true =>
                  have : p = false := by simpa using hpef
                  simp [hp rfl this]
              simp only [hpef, Bool.false_eq_true, if_false, List.nil_append, List.map_cons, render]
              simp only [scan, hx_ws, Bool.false_eq_true, if_false, hnd, false_and, hp'e, hq, if_true,
                List.nil_append]
              rw [ihq]
          · -- an ordinary character: emitted lower-cased
            have hqf : isQuote c = false := by simpa using hq
            simp only [hqf, Bool.false_eq_true, if_false]
            have hx_ws : isWs (lower c) = false := lower_ws c hwsf
            have hx_q : isQuote (lower c) = false := lower_quote c hqf
            have hncm : ¬ (lower c = '-' ∧ ((scan .out false true cs).map render).head? = some '-') := by
              intro ⟨h1, h2⟩
              have hc := lower_dash c h1
              have : cs.head? ≠ some '-' := fun hh => hcm ⟨hc, hh⟩
              exact head_not_dash cs this h2
            have iho := ih .out false true false (fun _ _ => rfl)
            simp only [reMode] at iho
            by_cases hpe : (p && e) = true
            · have he : e = true := by simp only [Bool.and_eq_true] at hpe; exact hpe.2
              subst he
              simp only [hpe, if_true, List.cons_append, List.nil_append, List.map_cons, render]
              have h1 : isWs ' ' = true := by decide
              simp only [scan, h1, if_true, hx_ws, Bool.false_eq_true, if_false, hncm,
                Bool.and_self, hx_q, List.cons_append, List.nil_append, lower_idem]
              rw [iho]
            · have hpef : (p && e) = false := by simpa using hpe
              have hp'e : (p' && e) = false := by
                cases e with
                | false => simp
                | true =>
                  have : p = false := by simpa using hpef
                  simp [hp rfl this]
              simp only [hpef, Bool.false_eq_true, if_false, List.nil_append, List.map_cons, render]
              simp only [scan, hx_ws, Bool.false_eq_true, if_false, hncm, hp'e, hx_q,
                List.nil_append, lower_idem]
              rw [iho]

end VibeProof.QCache
