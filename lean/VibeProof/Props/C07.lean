import VibeProof.Model.Agg
import VibeProof.Generated.Consts
import Std
/-
C07 — aggregates and grouping follow their SQL definitions on every input.

Statements are over the accumulator model of `AggregateAccumulator` (Model/Agg.lean) for every
list of argument values (no bound on length; empty, all-NULL, duplicates included) and over
`groupRows` for every row type, key type and key function.  Sums are exact integers and AVG the
exact pair (sum, count): floats are not modelled.
-/
namespace VibeProof.C07
open VibeProof VibeProof.Agg

/-- the non-NULL values of a column -/
def nonNull (xs : List Value) : List Value := xs.filter (fun v => !v.isNull)

/-- the integers of a column (what SUM / AVG look at) -/
def ints (xs : List Value) : List Int := xs.filterMap (fun v => match v with | .int i => some i | _ => none)

def isum (is : List Int) : Int := is.foldl (· + ·) 0

/-! ### COUNT -/

theorem count_fold (xs : List Value) (c : Nat) :
    xs.foldl Acc.accumulate (.count c false []) = .count (c + (nonNull xs).length) false [] := by
  induction xs generalizing c with
  | nil => simp [nonNull]
  | cons v vs ih =>
    cases v <;> simp [List.foldl_cons, Acc.accumulate, Value.isNull, nonNull, ih] <;> omega

/-- COUNT(x) is the number of non-NULL x — never NULL, 0 on the empty and on the all-NULL input -/
theorem C07_count (xs : List Value) :
    (accAll .count false xs).finalize = .val (.int (nonNull xs).length) := by
  simp [accAll, Acc.new, count_fold, Acc.finalize]

/-- COUNT(*) of a group is the number of its rows (for every group, including the empty one) -/
theorem C07_count_star (group : List Row) (d : Bool) (f : AggFn) :
    evalItem { fn := f, arg := none, distinct := d } group = .val (.int group.length) := by
  simp [evalItem]

/-! ### SUM / AVG -/

theorem isum_foldl (is : List Int) (a : Int) : is.foldl (· + ·) a = a + isum is := by
  unfold isum
  induction is generalizing a with
  | nil => simp
  | cons i is ih => simp only [List.foldl_cons]; rw [ih, ih (0 + i)]; omega

theorem isum_cons (i : Int) (is : List Int) : isum (i :: is) = i + isum is := by
  simp only [isum, List.foldl_cons]; rw [isum_foldl _ (0 + i)]; simp only [isum]; omega

theorem sum_fold (xs : List Value) (s : Int) (c : Nat) :
    xs.foldl Acc.accumulate (.sum s c false []) = .sum (s + isum (ints xs)) (c + (ints xs).length) false [] := by
  induction xs generalizing s c with
  | nil => simp [ints, isum]
  | cons v vs ih =>
    cases v with
    | int i =>
      simp only [List.foldl_cons, Acc.accumulate, Value.isNull, isNumeric, intOf, ints, List.filterMap_cons]
      simp only [Bool.false_or, Bool.not_true, Bool.false_eq_true, if_false]
      rw [ih]
      simp only [ints, isum, List.foldl_cons, List.length_cons]
      rw [isum_foldl _ (0 + i)]
      unfold isum
      congr 1 <;> omega
    | null => simpa [Acc.accumulate, Value.isNull, ints] using ih s c
    | str t => simpa [Acc.accumulate, Value.isNull, isNumeric, ints] using ih s c
    | bool b => simpa [Acc.accumulate, Value.isNull, isNumeric, ints] using ih s c

theorem avg_fold (xs : List Value) (s : Int) (c : Nat) :
    xs.foldl Acc.accumulate (.avg s c false []) = .avg (s + isum (ints xs)) (c + (ints xs).length) false [] := by
  induction xs generalizing s c with
  | nil => simp [ints, isum]
  | cons v vs ih =>
    cases v with
    | int i =>
      simp only [List.foldl_cons, Acc.accumulate, Value.isNull, isNumeric, intOf, ints, List.filterMap_cons]
      simp only [Bool.false_or, Bool.not_true, Bool.false_eq_true, if_false]
      rw [ih]
      simp only [ints, isum, List.foldl_cons, List.length_cons]
      rw [isum_foldl _ (0 + i)]
      unfold isum
      congr 1 <;> omega
    | null => simpa [Acc.accumulate, Value.isNull, ints] using ih s c
    | str t => simpa [Acc.accumulate, Value.isNull, isNumeric, ints] using ih s c
    | bool b => simpa [Acc.accumulate, Value.isNull, isNumeric, ints] using ih s c

/-- SUM is the sum of the non-NULL (numeric) values and NULL exactly when there are none -/
theorem C07_sum (xs : List Value) :
    (accAll .sum false xs).finalize =
      if ints xs = [] then .null else .val (.int (isum (ints xs))) := by
  simp only [accAll, Acc.new, sum_fold, Acc.finalize]
  cases h : ints xs <;> simp [isum]

/-- AVG is (sum of the non-NULL values) / (their number) and NULL exactly when there are none -/
theorem C07_avg (xs : List Value) :
    (accAll .avg false xs).finalize =
      if ints xs = [] then .null else .ratio (isum (ints xs)) (ints xs).length := by
  simp only [accAll, Acc.new, avg_fold, Acc.finalize]
  cases h : ints xs <;> simp [isum]

/-- NULLs are ignored: adding NULLs anywhere changes no aggregate over a column -/
theorem C07_nulls_ignored (a : Acc) : a.accumulate .null = a := by
  cases a <;> simp [Acc.accumulate, Value.isNull]

/-! ### no GROUP BY: exactly one row, for every input -/

/-- An aggregate query without GROUP BY, HAVING, LIMIT, OFFSET yields exactly one row on the
row path, whatever the table holds (empty table, all-NULL columns, rows all filtered out) -/
theorem C07_one_row (q : Stmt) (rows : List Row) (out : List (List Res))
    (hh : q.having = none) (hl : q.limit = none) (ho : q.offset = none)
    (h : rowPath q rows = .ok out) : out.length = 1 := by
  unfold rowPath at h
  cases hf : filterRows q.preds rows with
  | error e => simp [hf, bind, Except.bind] at h
  | ok fl =>
    simp [hf, bind, Except.bind, pure, Except.pure, hh, hl, ho, havingKeeps, limitOffset] at h
    rw [← h]; rfl

/-- … and COUNT in that row is a number, never NULL (empty input: 0) -/
theorem C07_count_never_null (it : Item) (group : List Row) (h : it.fn = .count) (hd : it.distinct = false) :
    ∃ n : Nat, evalItem it group = .val (.int n) := by
  unfold evalItem
  cases ha : it.arg with
  | none => exact ⟨_, rfl⟩
  | some c => simp only [h, hd]; exact ⟨_, C07_count _⟩

/-! ### MIN / MAX -/

/-- `compare_sql_values` is a total preorder on the values of `S` (true of every typed column:
see `orderedOn_ints`, `orderedOn_strs`) -/
structure OrderedOn (S : List Value) : Prop where
  trans : ∀ a b c, a ∈ S → b ∈ S → c ∈ S →
    (cmpSql a b).isLE = true → (cmpSql b c).isLE = true → (cmpSql a c).isLE = true
  swap : ∀ a b, a ∈ S → b ∈ S → cmpSql a b = (cmpSql b a).swap

theorem cmpSql_int (a b : Int) : cmpSql (.int a) (.int b) = compare a b := rfl
theorem cmpSql_str (a b : String) : cmpSql (.str a) (.str b) = compare a b := rfl

theorem orderedOn_ints (S : List Value) (h : ∀ v ∈ S, ∃ i, v = .int i) : OrderedOn S := by
  constructor
  · intro a b c ha hb hc
    obtain ⟨x, rfl⟩ := h a ha; obtain ⟨y, rfl⟩ := h b hb; obtain ⟨z, rfl⟩ := h c hc
    simp only [cmpSql_int]
    exact Std.TransCmp.isLE_trans
  · intro a b ha hb
    obtain ⟨x, rfl⟩ := h a ha; obtain ⟨y, rfl⟩ := h b hb
    simp only [cmpSql_int]
    exact Std.OrientedCmp.eq_swap

theorem orderedOn_strs (S : List Value) (h : ∀ v ∈ S, ∃ t, v = .str t) : OrderedOn S := by
  constructor
  · intro a b c ha hb hc
    obtain ⟨x, rfl⟩ := h a ha; obtain ⟨y, rfl⟩ := h b hb; obtain ⟨z, rfl⟩ := h c hc
    simp only [cmpSql_str]
    exact Std.TransCmp.isLE_trans
  · intro a b ha hb
    obtain ⟨x, rfl⟩ := h a ha; obtain ⟨y, rfl⟩ := h b hb
    simp only [cmpSql_str]
    exact Std.OrientedCmp.eq_swap

theorem OrderedOn.refl {S : List Value} (h : OrderedOn S) (a : Value) (ha : a ∈ S) :
    cmpSql a a = .eq := by
  have := h.swap a a ha ha
  cases hc : cmpSql a a <;> simp [hc] at this ⊢

theorem min_fold (xs : List Value) (cur : Option Value) :
    xs.foldl Acc.accumulate (.min cur false []) = .min ((nonNull xs).foldl minStep cur) false [] := by
  induction xs generalizing cur with
  | nil => simp [nonNull]
  | cons v vs ih =>
    cases v <;> simp [List.foldl_cons, Acc.accumulate, Value.isNull, isComparable, nonNull, ih]

theorem max_fold (xs : List Value) (cur : Option Value) :
    xs.foldl Acc.accumulate (.max cur false []) = .max ((nonNull xs).foldl maxStep cur) false [] := by
  induction xs generalizing cur with
  | nil => simp [nonNull]
  | cons v vs ih =>
    cases v <;> simp [List.foldl_cons, Acc.accumulate, Value.isNull, isComparable, nonNull, ih]

/-- invariant of the MIN scan: nothing seen yet, or the current value is a least seen value -/
def LeastOf (cur : Option Value) (seen : List Value) : Prop :=
  match cur with
  | none => seen = []
  | some m => m ∈ seen ∧ ∀ y, y ∈ seen → (cmpSql m y).isLE = true

def GreatestOf (cur : Option Value) (seen : List Value) : Prop :=
  match cur with
  | none => seen = []
  | some m => m ∈ seen ∧ ∀ y, y ∈ seen → (cmpSql m y).isGE = true

theorem least_step {S : List Value} (hS : OrderedOn S) (cur : Option Value) (pre : List Value) (v : Value)
    (hsub : ∀ x, x ∈ pre ++ [v] → x ∈ S) (h : LeastOf cur pre) : LeastOf (minStep cur v) (pre ++ [v]) := by
  have hv : v ∈ S := hsub v (by simp)
  have hvv := hS.refl v hv
  cases cur with
  | none =>
    simp only [LeastOf] at h
    subst h
    simp [minStep, LeastOf, hvv]
  | some c =>
    obtain ⟨hc, hall⟩ := h
    have hcS : c ∈ S := hsub c (by simp [hc])
    by_cases hlt : cmpSql v c = .lt
    · simp only [minStep, hlt, if_true, LeastOf]
      refine ⟨by simp, ?_⟩
      intro y hy
      rcases List.mem_append.mp hy with hy | hy
      · exact hS.trans v c y hv hcS (hsub y (by simp [hy])) (by simp [hlt]) (hall y hy)
      · simp at hy; subst hy; simp [hvv]
    · simp only [minStep, hlt, if_false, LeastOf]
      refine ⟨by simp [hc], ?_⟩
      intro y hy
      rcases List.mem_append.mp hy with hy | hy
      · exact hall y hy
      · simp at hy; subst hy
        have := hS.swap c y hcS hv
        cases hvc : cmpSql y c <;> simp [hvc] at hlt this ⊢ <;> simp [this]

theorem greatest_step {S : List Value} (hS : OrderedOn S) (cur : Option Value) (pre : List Value) (v : Value)
    (hsub : ∀ x, x ∈ pre ++ [v] → x ∈ S) (h : GreatestOf cur pre) : GreatestOf (maxStep cur v) (pre ++ [v]) := by
  have hv : v ∈ S := hsub v (by simp)
  have hvv := hS.refl v hv
  cases cur with
  | none =>
    simp only [GreatestOf] at h
    subst h
    simp [maxStep, GreatestOf, hvv]
  | some c =>
    obtain ⟨hc, hall⟩ := h
    have hcS : c ∈ S := hsub c (by simp [hc])
    by_cases hgt : cmpSql v c = .gt
    · simp only [maxStep, hgt, if_true, GreatestOf]
      refine ⟨by simp, ?_⟩
      intro y hy
      rcases List.mem_append.mp hy with hy | hy
      · -- v ≥ c ≥ y
        have hyS : y ∈ S := hsub y (by simp [hy])
        have h1 : (cmpSql y c).isLE = true := by
          have := hS.swap c y hcS hyS; have h2 := hall y hy
          cases hyc : cmpSql y c <;> simp [hyc] at this ⊢ <;> simp [this] at h2
        have h2 : (cmpSql c v).isLE = true := by
          have := hS.swap c v hcS hv; simp [hgt] at this; simp [this]
        have h3 := hS.trans y c v hyS hcS hv h1 h2
        have := hS.swap v y hv hyS
        cases hyv : cmpSql y v <;> simp [hyv] at h3 this ⊢ <;> simp [this]
      · simp at hy; subst hy; simp [hvv]
    · simp only [maxStep, hgt, if_false, GreatestOf]
      refine ⟨by simp [hc], ?_⟩
      intro y hy
      rcases List.mem_append.mp hy with hy | hy
      · exact hall y hy
      · simp at hy; subst hy
        have := hS.swap c y hcS hv
        cases hvc : cmpSql y c <;> simp [hvc] at hgt this ⊢ <;> simp [this]

theorem least_fold {S : List Value} (hS : OrderedOn S) (l pre : List Value) (cur : Option Value)
    (hsub : ∀ x, x ∈ pre ++ l → x ∈ S) (h : LeastOf cur pre) : LeastOf (l.foldl minStep cur) (pre ++ l) := by
  induction l generalizing pre cur with
  | nil => simpa using h
  | cons v vs ih =>
    have := ih (pre ++ [v]) (minStep cur v) (by simpa using hsub)
      (least_step hS cur pre v (fun x hx => hsub x (by simp at hx ⊢; rcases hx with hx | hx <;> simp [hx])) h)
    simpa using this

theorem greatest_fold {S : List Value} (hS : OrderedOn S) (l pre : List Value) (cur : Option Value)
    (hsub : ∀ x, x ∈ pre ++ l → x ∈ S) (h : GreatestOf cur pre) : GreatestOf (l.foldl maxStep cur) (pre ++ l) := by
  induction l generalizing pre cur with
  | nil => simpa using h
  | cons v vs ih =>
    have := ih (pre ++ [v]) (maxStep cur v) (by simpa using hsub)
      (greatest_step hS cur pre v (fun x hx => hsub x (by simp at hx ⊢; rcases hx with hx | hx <;> simp [hx])) h)
    simpa using this

/-- MIN is NULL exactly when there is no non-NULL value; otherwise it is one of the non-NULL
values and no non-NULL value is smaller -/
theorem C07_min (xs : List Value) (h : OrderedOn (nonNull xs)) :
    match (accAll .min false xs).finalize with
    | .null => nonNull xs = []
    | .val m => m ∈ nonNull xs ∧ ∀ y, y ∈ nonNull xs → (cmpSql m y).isLE = true
    | .ratio _ _ => False := by
  have := least_fold h (nonNull xs) [] none (by simp) rfl
  simp only [accAll, Acc.new, min_fold, Acc.finalize, List.nil_append] at this ⊢
  cases hr : (nonNull xs).foldl minStep none <;> simpa [hr, LeastOf] using this

/-- MAX: the same with "no non-NULL value is greater" -/
theorem C07_max (xs : List Value) (h : OrderedOn (nonNull xs)) :
    match (accAll .max false xs).finalize with
    | .null => nonNull xs = []
    | .val m => m ∈ nonNull xs ∧ ∀ y, y ∈ nonNull xs → (cmpSql m y).isGE = true
    | .ratio _ _ => False := by
  have := greatest_fold h (nonNull xs) [] none (by simp) rfl
  simp only [accAll, Acc.new, max_fold, Acc.finalize, List.nil_append] at this ⊢
  cases hr : (nonNull xs).foldl maxStep none <;> simpa [hr, GreatestOf] using this

/-- non-vacuity: an INTEGER column and a VARCHAR column with NULLs and duplicates satisfy `OrderedOn` -/
example : OrderedOn (nonNull [.int 3, .null, .int (-1), .int 3]) :=
  orderedOn_ints _ (by intro v hv; simp [nonNull, Value.isNull] at hv; rcases hv with h | h | h <;> exact ⟨_, h⟩)
example : OrderedOn (nonNull [.str "b", .null, .str "a"]) :=
  orderedOn_strs _ (by intro v hv; simp [nonNull, Value.isNull] at hv; rcases hv with h | h <;> exact ⟨_, h⟩)

/-! ### DISTINCT aggregates -/

/-- the values an aggregate looks at: non-NULL, and numeric for SUM / AVG -/
def relevant (f : AggFn) (v : Value) : Bool :=
  !v.isNull && (match f with | .sum | .avg => isNumeric v | _ => true)

def accFn : Acc → AggFn
  | .count .. => .count | .sum .. => .sum | .avg .. => .avg | .min .. => .min | .max .. => .max

def accDistinct : Acc → Bool
  | .count _ d _ | .sum _ _ d _ | .avg _ _ d _ | .min _ d _ | .max _ d _ => d

/-- the same running state in a non-DISTINCT accumulator -/
def nd : Acc → Acc
  | .count c _ _ => .count c false []
  | .sum s c _ _ => .sum s c false []
  | .avg s c _ _ => .avg s c false []
  | .min v _ _ => .min v false []
  | .max v _ _ => .max v false []

theorem finalize_nd (a : Acc) : a.finalize = (nd a).finalize := by cases a <;> rfl

theorem distinct_step (a : Acc) (hd : accDistinct a = true) (v : Value) :
    accFn (a.accumulate v) = accFn a ∧ accDistinct (a.accumulate v) = true ∧
    ((relevant (accFn a) v = true ∧ v ∉ a.seen ∧ (a.accumulate v).seen = v :: a.seen ∧
        nd (a.accumulate v) = (nd a).accumulate v) ∨
     ((relevant (accFn a) v = false ∨ v ∈ a.seen) ∧ a.accumulate v = a)) := by
  by_cases hc : v ∈ a.seen <;>
    cases a <;> simp only [accDistinct] at hd <;> subst hd <;> cases v <;>
    simp_all [Acc.accumulate, relevant, accFn, accDistinct, nd, Acc.seen, Value.isNull, isNumeric, isComparable]

theorem distinct_fold (f : AggFn) (xs : List Value) (a : Acc) (hf : accFn a = f) (hd : accDistinct a = true)
    (hnd : a.seen.Nodup) (hcore : nd a = a.seen.reverse.foldl Acc.accumulate (Acc.new f false)) :
    let b := xs.foldl Acc.accumulate a
    b.seen.Nodup ∧ (∀ v, v ∈ b.seen ↔ (v ∈ a.seen ∨ (v ∈ xs ∧ relevant f v = true))) ∧
    nd b = b.seen.reverse.foldl Acc.accumulate (Acc.new f false) := by
  induction xs generalizing a with
  | nil => simp [hnd, hcore]
  | cons x xs ih =>
    obtain ⟨h1, h2, h3⟩ := distinct_step a hd x
    simp only [List.foldl_cons]
    rcases h3 with ⟨hrel, hnot, hseen, hnd'⟩ | ⟨hskip, heq⟩
    · have := ih (a.accumulate x) (h1.trans hf) h2 (by rw [hseen]; exact List.nodup_cons.mpr ⟨hnot, hnd⟩)
        (by rw [hnd', hseen, hcore]; simp [List.foldl_append])
      obtain ⟨i1, i2, i3⟩ := this
      refine ⟨i1, ?_, i3⟩
      intro v
      rw [i2 v, hseen]
      simp only [List.mem_cons]
      constructor
      · rintro ((rfl | h) | h)
        · exact Or.inr ⟨Or.inl rfl, hf ▸ hrel⟩
        · exact Or.inl h
        · exact Or.inr ⟨Or.inr h.1, h.2⟩
      · rintro (h | ⟨rfl | h, hr⟩)
        · exact Or.inl (Or.inr h)
        · exact Or.inl (Or.inl rfl)
        · exact Or.inr ⟨h, hr⟩
    · rw [heq]
      obtain ⟨i1, i2, i3⟩ := ih a hf hd hnd hcore
      refine ⟨i1, ?_, i3⟩
      intro v
      rw [i2 v]
      simp only [List.mem_cons]
      constructor
      · rintro (h | h)
        · exact Or.inl h
        · exact Or.inr ⟨Or.inr h.1, h.2⟩
      · rintro (h | ⟨rfl | h, hr⟩)
        · exact Or.inl h
        · rcases hskip with hs | hs
          · rw [hf] at hs; rw [hs] at hr; cases hr
          · exact Or.inl hs
        · exact Or.inr ⟨h, hr⟩

/-- DISTINCT aggregates are the plain aggregates over the distinct relevant values: there is a
duplicate-free list `d` holding exactly the non-NULL (for SUM/AVG: numeric) values of the column
such that `f(DISTINCT xs) = f(d)` — for COUNT, SUM, AVG, MIN and MAX -/
theorem C07_distinct (f : AggFn) (xs : List Value) :
    ∃ d : List Value, d.Nodup ∧ (∀ v, v ∈ d ↔ (v ∈ xs ∧ relevant f v = true)) ∧
      (accAll f true xs).finalize = (accAll f false d).finalize := by
  have h := distinct_fold f xs (Acc.new f true) (by cases f <;> rfl) (by cases f <;> rfl)
    (by cases f <;> simp [Acc.new, Acc.seen]) (by cases f <;> simp [Acc.new, Acc.seen, nd])
  obtain ⟨h1, h2, h3⟩ := h
  refine ⟨(accAll f true xs).seen.reverse, (by simpa [List.Nodup, List.pairwise_reverse, ne_comm, accAll] using h1), ?_, ?_⟩
  · intro v
    rw [List.mem_reverse]
    have := h2 v
    simp only [accAll] at this ⊢
    rw [this]
    have : (Acc.new f true).seen = [] := by cases f <;> rfl
    simp [this]
  · rw [finalize_nd]
    simp only [accAll] at h3 ⊢
    rw [h3]

/-! ### combine (parallel merge of two accumulators) -/

theorem nonNull_append (xs ys : List Value) : nonNull (xs ++ ys) = nonNull xs ++ nonNull ys := by
  simp [nonNull]

theorem ints_append (xs ys : List Value) : ints (xs ++ ys) = ints xs ++ ints ys := by
  simp [ints]

theorem isum_append (a b : List Int) : isum (a ++ b) = isum a + isum b := by
  simp only [isum, List.foldl_append]; rw [isum_foldl]; simp only [isum]

/-- `combine (acc xs) (acc ys) = acc (xs ++ ys)` for COUNT, SUM and AVG (non-DISTINCT) -/
theorem C07_combine (f : AggFn) (hf : f = .count ∨ f = .sum ∨ f = .avg) (xs ys : List Value) :
    (accAll f false xs).combine (accAll f false ys) = .ok (accAll f false (xs ++ ys)) := by
  rcases hf with rfl | rfl | rfl
  · simp [accAll, Acc.new, count_fold, Acc.combine, nonNull_append]
  · simp [accAll, Acc.new, sum_fold, Acc.combine, ints_append, isum_append]
  · simp [accAll, Acc.new, avg_fold, Acc.combine, ints_append, isum_append]

/-! ### GROUP BY: `group_rows` -/

section Grouping
variable {α κ : Type} [BEq κ] [LawfulBEq κ]

def keys (g : List (κ × List α)) : List κ := g.map (·.1)

/-- the rows stored under a key (first entry with that key) -/
def find (k : κ) : List (κ × List α) → Option (List α)
  | [] => none
  | (k', rs) :: rest => if k' == k then some rs else find k rest

def total (g : List (κ × List α)) : Nat := (g.map (fun p => p.2.length)).sum

theorem keys_groupInsert (k : κ) (r : α) (g : List (κ × List α)) :
    keys (groupInsert k r g) = if k ∈ keys g then keys g else keys g ++ [k] := by
  induction g with
  | nil => simp [groupInsert, keys]
  | cons p rest ih =>
    obtain ⟨k', rs⟩ := p
    by_cases h : k' = k
    · subst h; simp [groupInsert, keys]
    · have hb : (k' == k) = false := by simpa using h
      have hne : ¬ k = k' := fun e => h e.symm
      simp only [keys] at ih
      simp only [groupInsert, hb, keys, List.map_cons, Bool.false_eq_true, if_false, List.mem_cons,
        hne, false_or, ih]
      split <;> simp_all

theorem nodup_groupInsert (k : κ) (r : α) (g : List (κ × List α)) (h : (keys g).Nodup) :
    (keys (groupInsert k r g)).Nodup := by
  rw [keys_groupInsert]
  split
  · exact h
  · rename_i hk
    refine List.nodup_append.mpr ⟨h, by simp, ?_⟩
    intro a ha b hb
    simp at hb; subst hb
    exact fun e => hk (e ▸ ha)

theorem find_groupInsert (k : κ) (r : α) (g : List (κ × List α)) (k' : κ) :
    find k' (groupInsert k r g) =
      if k == k' then some ((find k g).getD [] ++ [r]) else find k' g := by
  induction g with
  | nil =>
    by_cases h : k = k'
    · subst h; simp [groupInsert, find]
    · have : (k == k') = false := by simpa using h
      simp [groupInsert, find, this]
  | cons p rest ih =>
    obtain ⟨k0, rs0⟩ := p
    by_cases hk : k0 = k
    · subst hk
      by_cases h : k0 = k'
      · subst h; simp [groupInsert, find]
      · have : (k0 == k') = false := by simpa using h
        simp [groupInsert, find, this]
    · have hb : (k0 == k) = false := by simpa using hk
      simp only [groupInsert, hb, Bool.false_eq_true, if_false, find]
      by_cases h0 : k0 = k'
      · subst h0
        have : (k == k0) = false := by simpa using fun e => hk e.symm
        simp [this]
      · have hb' : (k0 == k') = false := by simpa using h0
        simp only [hb', Bool.false_eq_true, if_false, ih]

theorem total_groupInsert (k : κ) (r : α) (g : List (κ × List α)) :
    total (groupInsert k r g) = total g + 1 := by
  induction g with
  | nil => simp [groupInsert, total]
  | cons p rest ih =>
    obtain ⟨k0, rs0⟩ := p
    by_cases hk : (k0 == k) = true
    · simp [groupInsert, hk, total]; omega
    · simp only [total] at ih
      simp [groupInsert, hk, total, ih]; omega

theorem mem_iff_find (g : List (κ × List α)) (h : (keys g).Nodup) (k : κ) (rs : List α) :
    (k, rs) ∈ g ↔ find k g = some rs := by
  induction g with
  | nil => simp [find]
  | cons p rest ih =>
    obtain ⟨k0, rs0⟩ := p
    simp only [keys, List.map_cons, List.nodup_cons] at h
    by_cases hk : k0 = k
    · subst hk
      simp only [find, beq_self_eq_true, if_true, List.mem_cons, Prod.mk.injEq, true_and, Option.some.injEq]
      constructor
      · rintro (h1 | h1)
        · exact h1.symm
        · exact absurd (List.mem_map.mpr ⟨(k0, rs), h1, rfl⟩) h.1
      · intro h1; exact Or.inl h1.symm
    · have hb : (k0 == k) = false := by simpa using hk
      have hne : ¬ k = k0 := fun e => hk e.symm
      simp only [find, hb, Bool.false_eq_true, if_false, List.mem_cons, Prod.mk.injEq, hne, false_and, false_or]
      exact ih h.2

/-- what the fold has stored under key `k` after the rows `rows`, starting from the map `g` -/
theorem find_fold (key : α → κ) (rows : List α) (g : List (κ × List α)) (k : κ) :
    find k (rows.foldl (fun g r => groupInsert (key r) r g) g) =
      if rows.filter (fun r => key r == k) = [] then find k g
      else some ((find k g).getD [] ++ rows.filter (fun r => key r == k)) := by
  induction rows generalizing g with
  | nil => simp
  | cons r rs ih =>
    simp only [List.foldl_cons, ih, find_groupInsert, List.filter_cons]
    by_cases hk : key r = k
    · subst hk
      simp only [beq_self_eq_true, if_true]
      split <;> simp_all
    · have hb : (key r == k) = false := by simpa using hk
      simp only [hb, Bool.false_eq_true, if_false]

theorem nodup_fold (key : α → κ) (rows : List α) (g : List (κ × List α)) (h : (keys g).Nodup) :
    (keys (rows.foldl (fun g r => groupInsert (key r) r g) g)).Nodup := by
  induction rows generalizing g with
  | nil => simpa using h
  | cons r rs ih => exact ih _ (nodup_groupInsert _ _ _ h)

theorem total_fold (key : α → κ) (rows : List α) (g : List (κ × List α)) :
    total (rows.foldl (fun g r => groupInsert (key r) r g) g) = total g + rows.length := by
  induction rows generalizing g with
  | nil => simp
  | cons r rs ih => simp only [List.foldl_cons, ih, total_groupInsert, List.length_cons]; omega

/-- GROUP BY produces exactly one group per key: no key value occurs twice (NULL is a key value
like any other, so all NULL keys are one group) -/
theorem C07_group_keys_nodup (key : α → κ) (rows : List α) : (keys (groupRows key rows)).Nodup :=
  nodup_fold key rows [] (by simp [keys])

/-- … and the group of a key holds exactly the rows with that key, in input order; a key has a
group iff some row has it -/
theorem C07_group_content (key : α → κ) (rows : List α) (k : κ) (rs : List α) :
    (k, rs) ∈ groupRows key rows ↔ (rs = rows.filter (fun r => key r == k) ∧ rs ≠ []) := by
  rw [mem_iff_find _ (C07_group_keys_nodup key rows), groupRows, find_fold]
  simp only [find, Option.getD_none, List.nil_append]
  split
  · rename_i h
    simp only [h]
    constructor
    · intro e; cases e
    · intro e; exact absurd e.1 e.2
  · rename_i h
    simp only [Option.some.injEq]
    constructor
    · intro e; exact ⟨e.symm, e ▸ h⟩
    · intro e; exact e.1.symm

theorem C07_group_key_iff (key : α → κ) (rows : List α) (k : κ) :
    k ∈ keys (groupRows key rows) ↔ ∃ r, r ∈ rows ∧ key r = k := by
  constructor
  · intro h
    obtain ⟨⟨k', rs⟩, hm, rfl⟩ := List.mem_map.mp h
    obtain ⟨h1, h2⟩ := (C07_group_content key rows k' rs).mp hm
    cases rs with
    | nil => exact absurd rfl h2
    | cons r _ =>
      have : r ∈ rows.filter (fun r => key r == k') := by rw [← h1]; simp
      obtain ⟨hr, hk⟩ := List.mem_filter.mp this
      exact ⟨r, hr, by simpa using hk⟩
  · rintro ⟨r, hr, rfl⟩
    have hne : rows.filter (fun x => key x == key r) ≠ [] := by
      intro e
      have : r ∈ rows.filter (fun x => key x == key r) := List.mem_filter.mpr ⟨hr, by simp⟩
      simp [e] at this
    exact List.mem_map.mpr ⟨(key r, _), (C07_group_content key rows (key r) _).mpr ⟨rfl, hne⟩, rfl⟩

/-- the groups partition the input: their sizes add up to the number of rows -/
theorem C07_group_sizes (key : α → κ) (rows : List α) : total (groupRows key rows) = rows.length := by
  rw [groupRows, total_fold]; simp [total]

end Grouping

/-! ### AST-rebuilding passes preserve aggregates -/

/-- the subquery-rewrite traversal changes nothing but the subqueries: every aggregate node keeps
its function, its DISTINCT flag and its argument, in place -/
theorem C07_rewrite_preserves_expression (rw : Nat → Nat) (e : QExpr) :
    eraseSubs (rewriteAt rw e) = eraseSubs e := by
  induction e with
  | leaf t => rfl
  | agg f d a ih => simp [rewriteAt, eraseSubs, ih]
  | aggStar => rfl
  | un op a ih => simp [rewriteAt, eraseSubs, ih]
  | bin op a b iha ihb => simp [rewriteAt, eraseSubs, iha, ihb]
  | inSub a sub neg ih => simp [rewriteAt, eraseSubs, ih]
  | existsSub sub neg => rfl
  | scalarSub sub => rfl

/-- in particular the list of aggregates (function, DISTINCT) of every select item, WHERE and HAVING
expression is unchanged -/
theorem C07_rewrite_preserves_aggregates (rw : Nat → Nat) (e : QExpr) :
    aggNodes (rewriteAt rw e) = aggNodes e := by
  induction e with
  | leaf t => rfl
  | agg f d a ih => simp [rewriteAt, aggNodes, ih]
  | aggStar => rfl
  | un op a ih => simp [rewriteAt, aggNodes, ih]
  | bin op a b iha ihb => simp [rewriteAt, aggNodes, iha, ihb]
  | inSub a sub neg ih => simp [rewriteAt, aggNodes, ih]
  | existsSub sub neg => rfl
  | scalarSub sub => rfl

/-- the arm of `rewrite_expression_at` that rebuilds an aggregate node, as extracted from the source
on this run: it binds `name`, `distinct`, `args` and initialises the new node's `name` with
`name.clone()` and its `distinct` with `*distinct` (a constant there would drop or force DISTINCT) -/
theorem C07_rewrite_arm_const :
    VibeProof.Generated.c07RewriteAggPatterns = [["name", "distinct", "args"]] ∧
    (VibeProof.Generated.c07RewriteAggFields.map (fun fs => (fs.lookup "name", fs.lookup "distinct")))
      = [(some "name.clone()", some "*distinct")] := by
  decide

/-- NULL keys form one group: three rows with keys NULL, 1, NULL give two groups -/
example : (groupRows (fun r : Row => cell r 0) [[.null, .int 1], [.int 1, .int 2], [.null, .int 3]]).length = 2 := by decide

end VibeProof.C07
