//! C12 — referential integrity holds after every statement.
//!
//! Direct oracle: after every statement of a history on PAR / CH / GC (FOREIGN KEY chains with all
//! ON DELETE / ON UPDATE action combinations) brute-force `FKInv` on the real tables.
//! Correspondence: single-row parent DELETE / key UPDATE and child INSERT against the Lean model
//! (`Fk.onDeleteParent`, `Fk.onUpdateParent`, `Fk.rowOk`): accept/reject and the child table.
//! Self-referencing / cyclic schemas: deterministic probes, the cyclic one in a subprocess.
use vharness::*;
use vibesql_types::SqlValue;

const ACTIONS: [(&str, &str); 3] = [("NO ACTION", "noaction"), ("CASCADE", "cascade"), ("SET NULL", "setnull")];

fn rows_sx(tag: &str, rows: &[Vec<SqlValue>]) -> String {
    format!("({} {})", tag, rows.iter().map(|r| canon::row(r)).collect::<Vec<_>>().join(" "))
}

/// every child row with a NULL-free key has a parent row with that key
fn orphans(child: &[Vec<SqlValue>], fkcol: usize, parent: Option<&Vec<Vec<SqlValue>>>, pkcol: usize) -> Vec<String> {
    child
        .iter()
        .filter(|c| c[fkcol] != SqlValue::Null)
        .filter(|c| match parent {
            Some(p) => !p.iter().any(|q| q[pkcol] == c[fkcol]),
            None => true,
        })
        .map(|c| canon::row(c))
        .collect()
}

fn fkinv(db: &Db, with_gc: bool) -> Vec<String> {
    let par = db.scan("PAR");
    let ch = db.scan("CH").unwrap_or_default();
    let mut bad: Vec<String> = orphans(&ch, 1, par.as_ref(), 0).into_iter().map(|r| format!("CH{} has no PAR row", r)).collect();
    if with_gc {
        let gc = db.scan("GC").unwrap_or_default();
        bad.extend(orphans(&gc, 1, Some(&ch), 0).into_iter().map(|r| format!("GC{} has no CH row", r)));
    }
    bad
}

fn run_history(r: &mut Rng, k: u64, model: &mut model::Model, rep: &mut Report) {
    let (d1, u1, d2) = (r.below(3) as usize, r.below(2) as usize, r.below(3) as usize);
    let with_gc = r.chance(1, 2);
    let mut db = Db::new();
    db.must("CREATE TABLE PAR (ID INT PRIMARY KEY, V INT)");
    db.must(&format!("CREATE TABLE CH (ID INT PRIMARY KEY, PID INT, FOREIGN KEY (PID) REFERENCES PAR (ID) ON DELETE {} ON UPDATE {})", ACTIONS[d1].0, ACTIONS[u1].0));
    if with_gc {
        db.must(&format!("CREATE TABLE GC (ID INT PRIMARY KEY, CID INT, FOREIGN KEY (CID) REFERENCES CH (ID) ON DELETE {})", ACTIONS[d2].0));
    }
    // staging table: same column types as CH, no foreign keys
    db.must("CREATE TABLE STG (ID INT PRIMARY KEY, PID INT)");
    rep.count(&format!("on_delete_{}", ACTIONS[d1].1));
    rep.count(&format!("on_update_{}", ACTIONS[u1].1));
    if with_gc {
        rep.count(&format!("grandchild_on_delete_{}", ACTIONS[d2].1));
    }
    let (mut accepted, mut rejected) = (0, 0);
    let val = |r: &mut Rng, null_ok: bool| if null_ok && r.chance(1, 6) { "NULL".to_string() } else { r.range(1, 6).to_string() };
    for _ in 0..(10 + r.below(10)) {
        let kind = r.below(100);
        if kind >= 40 && kind < 46 {
            // INSERT INTO child SELECT … FROM staging: bulk transfer (SELECT *), and the other paths
            // (WHERE / column list); staging rows: valid keys, NULL keys, keys without parent
            db.exec("DELETE FROM STG");
            let n = 1 + r.below(4);
            let rows: Vec<String> = (0..n).map(|i| format!("({}, {})", 10 + i as i64 + r.range(0, 1) * 10, if r.chance(1, 4) { "NULL".to_string() } else { r.range(1, 8).to_string() })).collect();
            if !db.exec(&format!("INSERT INTO STG VALUES {}", rows.join(", "))).is_ok() {
                continue;
            }
            let (what, sql) = match r.below(3) {
                0 => ("insert_child_select_bulk", "INSERT INTO CH SELECT * FROM STG".to_string()),
                1 => ("insert_child_select_where", "INSERT INTO CH SELECT * FROM STG WHERE ID > 0".to_string()),
                _ => ("insert_child_select_columns", "INSERT INTO CH (ID, PID) SELECT ID, PID FROM STG".to_string()),
            };
            let par0 = db.scan("PAR").unwrap_or_default();
            let stg = db.scan("STG").unwrap_or_default();
            let ch0 = db.scan("CH").unwrap_or_default();
            let out = db.exec(&sql);
            rep.count(&format!("stmt_{}", what));
            if out.is_ok() { accepted += 1 } else { rejected += 1 }
            let has_orphan = stg.iter().any(|c| c[1] != SqlValue::Null && !par0.iter().any(|p| p[0] == c[1]));
            rep.count(if has_orphan { "select_insert_with_orphan_row" } else { "select_insert_all_rows_valid" });
            let bad = fkinv(&db, with_gc);
            let ch1 = db.scan("CH").unwrap_or_default();
            if out.is_panic() || !bad.is_empty() || (has_orphan && out.is_ok()) || (out.is_err() && ch1 != ch0) {
                rep.fail(FailKind::Oracle, None, &format!("{}: orphan row stored, violating statement accepted, or child table changed by the failing statement", what),
                    &format!("{}\n=> {}\norphans: {:?}", db.log.join(";\n"), out.brief(), bad));
                break;
            }
            continue;
        }
        let (what, sql): (&str, String) = if kind < 18 {
            let n = 1 + r.below(3);
            ("insert_parent", format!("INSERT INTO PAR VALUES {}", (0..n).map(|_| format!("({}, {})", r.range(1, 6), r.range(0, 9))).collect::<Vec<_>>().join(", ")))
        } else if kind < 40 {
            let n = 1 + r.below(3);
            ("insert_child", format!("INSERT INTO CH VALUES {}", (0..n).map(|_| format!("({}, {})", r.range(1, 8), val(r, true))).collect::<Vec<_>>().join(", ")))
        } else if kind < 52 && with_gc {
            ("insert_grandchild", format!("INSERT INTO GC VALUES ({}, {})", r.range(1, 8), val(r, true)))
        } else if kind < 64 {
            ("delete_parent_one", format!("DELETE FROM PAR WHERE ID = {}", r.range(1, 6)))
        } else if kind < 70 {
            ("delete_parent_many", format!("DELETE FROM PAR WHERE ID >= {}", r.range(1, 6)))
        } else if kind < 78 {
            ("update_parent_key", format!("UPDATE PAR SET ID = {} WHERE ID = {}", r.range(1, 7), r.range(1, 6)))
        } else if kind < 86 {
            ("update_child_fk", format!("UPDATE CH SET PID = {} WHERE ID = {}", val(r, true), r.range(1, 8)))
        } else if kind < 90 {
            ("update_child_key", format!("UPDATE CH SET ID = {} WHERE ID = {}", r.range(1, 8), r.range(1, 8)))
        } else if kind < 94 {
            ("delete_child", format!("DELETE FROM CH WHERE ID <= {}", r.range(1, 4)))
        } else if kind < 96 {
            ("delete_all_parents", "DELETE FROM PAR".to_string())
        } else if kind < 98 {
            ("truncate_parent", "TRUNCATE TABLE PAR".to_string())
        } else {
            ("truncate_child", "TRUNCATE TABLE CH".to_string())
        };
        let par0 = db.scan("PAR").unwrap_or_default();
        let ch0 = db.scan("CH").unwrap_or_default();
        let gc0 = db.scan("GC").unwrap_or_default();
        let out = db.exec(&sql);
        rep.count(&format!("stmt_{}", what));
        if out.is_ok() { accepted += 1 } else { rejected += 1 }
        if out.is_panic() {
            rep.fail(FailKind::Oracle, None, "executor panicked", &db.log.join(";\n"));
            break;
        }
        let bad = fkinv(&db, with_gc);
        if !bad.is_empty() {
            rep.fail(FailKind::Oracle, None, &format!("orphan child row after a {} statement", what),
                &format!("{}\n=> {}\norphans: {:?}", db.log.join(";\n"), out.brief(), bad));
            break;
        }
        // ---- correspondence: the whole DELETE with its recursive cascade (`deleteWithFks`)
        if matches!(what, "delete_parent_one" | "delete_parent_many" | "delete_all_parents") {
            let words: Vec<&str> = sql.split_whitespace().collect();
            let ids: Vec<String> = par0
                .iter()
                .filter_map(|p| if let SqlValue::Integer(i) = p[0] { Some(i) } else { None })
                .filter(|i| match what {
                    "delete_parent_one" => *i == words.last().unwrap().parse::<i64>().unwrap(),
                    "delete_parent_many" => *i >= words.last().unwrap().parse::<i64>().unwrap(),
                    _ => true,
                })
                .map(|i| format!("I{}", i))
                .collect();
            let mut fks = format!("(1 0 (1) (0) {})", ACTIONS[d1].1);
            let mut tabs = format!("{} {}", canon::rows_seq(&par0), canon::rows_seq(&ch0));
            if with_gc {
                fks.push_str(&format!(" (2 1 (1) (0) {})", ACTIONS[d2].1));
                tabs.push_str(&format!(" {}", canon::rows_seq(&gc0)));
            }
            let req = format!("casc (fks {}) (tables {}) 0 (sel {})", fks, tabs, ids.join(" "));
            let reply = model.ask(&req);
            let code = if out.is_ok() {
                let mut v = vec![canon::rows_seq(&db.scan("PAR").unwrap_or_default()), canon::rows_seq(&db.scan("CH").unwrap_or_default())];
                if with_gc {
                    v.push(canon::rows_seq(&db.scan("GC").unwrap_or_default()));
                }
                format!("(ok {})", v.join(" "))
            } else {
                "(reject)".to_string()
            };
            rep.count(if with_gc { "cascade_correspondence_three_tables" } else { "cascade_correspondence_two_tables" });
            if reply != code {
                rep.fail(FailKind::ModelDiff, None, &format!("model and code disagree on the cascade of a {} statement", what),
                    &format!("{}\nmodel request: {}\ncode: {}\nmodel: {}", db.log.join(";\n"), req, code, reply));
                break;
            }
            rep.traces_validated += 1;
        }
        // ---- correspondence on the PAR → CH key (grandchildren can veto a cascade: two-table schemas only)
        if !with_gc {
            let ch1 = db.scan("CH").unwrap_or_default();
            let words: Vec<&str> = sql.split_whitespace().collect();
            let req = match what {
                "delete_parent_one" => {
                    let id: i64 = words.last().unwrap().parse().unwrap();
                    par0.iter().find(|p| p[0] == SqlValue::Integer(id)).map(|p| format!("delparent {} (1) (0) {} {}", ACTIONS[d1].1, rows_sx("children", &ch0), canon::row(p)))
                }
                "update_parent_key" => {
                    let (new, old): (i64, i64) = (words[5].parse().unwrap(), words.last().unwrap().parse().unwrap());
                    let clash = new != old && par0.iter().any(|p| p[0] == SqlValue::Integer(new));
                    par0.iter().find(|p| p[0] == SqlValue::Integer(old)).filter(|_| !clash).map(|p| {
                        let mut p2 = p.clone();
                        p2[0] = SqlValue::Integer(new);
                        format!("updparent {} (1) (0) {} {} {}", ACTIONS[u1].1, rows_sx("children", &ch0), canon::row(p), canon::row(&p2))
                    })
                }
                _ => None,
            };
            if let Some(req) = req {
                let reply = model.ask(&req);
                let code = if out.is_ok() { format!("(ok {})", canon::rows_seq(&ch1)) } else { "(reject)".to_string() };
                if reply != code {
                    rep.fail(FailKind::ModelDiff, None, &format!("model and code disagree on a {} statement", what),
                        &format!("{}\nmodel request: {}\ncode: {}\nmodel: {}", db.log.join(";\n"), req, code, reply));
                    break;
                }
                rep.traces_validated += 1;
            }
            if what == "insert_child" && sql.matches('(').count() == 1 {
                let inner = &sql[sql.find('(').unwrap() + 1..sql.len() - 1];
                let vals: Vec<String> = inner.split(", ").map(|v| if v == "NULL" { "N".into() } else { format!("I{}", v) }).collect();
                let pk_clash = ch0.iter().any(|c| canon::val(&c[0]) == vals[0]);
                if !pk_clash {
                    let reply = model.ask(&format!("inschild (1) (0) {} ({})", rows_sx("parents", &par0), vals.join(" ")));
                    let code = if out.is_ok() { "(accept)" } else { "(reject)" };
                    if reply != code {
                        rep.fail(FailKind::ModelDiff, None, "model and code disagree on a child INSERT", &format!("{}\ncode: {}\nmodel: {}", db.log.join(";\n"), code, reply));
                        break;
                    }
                    rep.traces_validated += 1;
                }
            }
        }
    }
    rep.case(&format!("hist{} {}", k, db.log.join(";")), accepted > 0 && rejected > 0);
    rep.sample(serde_json::json!({"history": db.log.iter().take(10).collect::<Vec<_>>() }));
}

// ---------------------------------------------------------------------------------------------
// junction tables: children with two foreign keys (to different parents in either declaration
// order, or both to the same parent), optionally a grandchild of the junction
// ---------------------------------------------------------------------------------------------

struct FkSpec {
    child: usize,
    col: usize,
    parent: usize,
    action: usize,
}

const JT: [&str; 4] = ["A", "B", "LINK", "G"];

fn jscan(db: &Db, n: usize) -> Vec<Vec<Vec<SqlValue>>> {
    (0..n).map(|i| db.scan(JT[i]).unwrap_or_default()).collect()
}

/// per foreign key: child rows whose non-NULL key is not a parent key
fn jorphans(tabs: &[Vec<Vec<SqlValue>>], fks: &[FkSpec]) -> Vec<String> {
    let mut bad = vec![];
    for f in fks {
        for o in orphans(&tabs[f.child], f.col, Some(&tabs[f.parent]), 0) {
            bad.push(format!("{}{} (column {}) has no {} row", JT[f.child], o, f.col, JT[f.parent]));
        }
    }
    bad
}

fn jfks_sx(fks: &[FkSpec]) -> String {
    fks.iter().map(|f| format!("({} {} ({}) (0) {})", f.child, f.parent, f.col, ACTIONS[f.action].1)).collect::<Vec<_>>().join(" ")
}

fn jtabs_sx(tabs: &[Vec<Vec<SqlValue>>]) -> String {
    tabs.iter().map(|t| canon::rows_seq(t)).collect::<Vec<_>>().join(" ")
}

fn run_junction(r: &mut Rng, k: u64, fixed: Option<(usize, usize, bool, Vec<String>)>, model: &mut model::Model, rep: &mut Report) {
    // parents of LINK.X and LINK.Y: (A,B), (B,A) or (A,A)
    let (px, py, with_g) = match &fixed {
        Some((x, y, g, _)) => (*x, *y, *g),
        None => {
            let (x, y) = [(0, 1), (1, 0), (0, 0), (1, 1)][r.below(4) as usize];
            (x, y, r.chance(1, 2))
        }
    };
    let (ax, ay, ag) = (r.below(3) as usize, r.below(3) as usize, r.below(3) as usize);
    let mut fks = vec![FkSpec { child: 2, col: 1, parent: px, action: ax }, FkSpec { child: 2, col: 2, parent: py, action: ay }];
    let ntab = if with_g { 4 } else { 3 };
    let mut db = Db::new();
    db.must("CREATE TABLE A (ID INT PRIMARY KEY, V INT)");
    db.must("CREATE TABLE B (ID INT PRIMARY KEY, V INT)");
    db.must(&format!(
        "CREATE TABLE LINK (ID INT PRIMARY KEY, X INT, Y INT, FOREIGN KEY (X) REFERENCES {} (ID) ON DELETE {}, FOREIGN KEY (Y) REFERENCES {} (ID) ON DELETE {})",
        JT[px], ACTIONS[ax].0, JT[py], ACTIONS[ay].0
    ));
    if with_g {
        db.must(&format!("CREATE TABLE G (ID INT PRIMARY KEY, LID INT, FOREIGN KEY (LID) REFERENCES LINK (ID) ON DELETE {})", ACTIONS[ag].0));
        fks.push(FkSpec { child: 3, col: 1, parent: 2, action: ag });
    }
    rep.count(&format!("junction_parents_{}{}{}", JT[px], JT[py], if with_g { "_with_grandchild" } else { "" }));
    let val = |r: &mut Rng| if r.chance(1, 6) { "NULL".to_string() } else { r.range(1, 4).to_string() };
    let script: Vec<String> = match &fixed {
        Some((_, _, _, s)) => s.clone(),
        None => (0..(10 + r.below(8)))
            .map(|_| match r.below(100) {
                0..=13 => format!("INSERT INTO A VALUES ({}, 0), ({}, 0)", r.range(1, 4), r.range(1, 4) + 4),
                14..=27 => format!("INSERT INTO B VALUES ({}, 0), ({}, 0)", r.range(1, 4), r.range(1, 4) + 4),
                28..=49 => format!("INSERT INTO LINK VALUES ({}, {}, {}), ({}, {}, {})", r.range(1, 6), val(r), val(r), r.range(7, 12), val(r), val(r)),
                50..=57 if with_g => format!("INSERT INTO G VALUES ({}, {})", r.range(1, 9), if r.chance(1, 5) { "NULL".to_string() } else { r.range(1, 12).to_string() }),
                50..=57 => format!("INSERT INTO LINK VALUES ({}, {}, {})", r.range(1, 12), val(r), val(r)),
                58..=64 => format!("DELETE FROM A WHERE ID = {}", r.range(1, 4)),
                65..=71 => format!("DELETE FROM B WHERE ID >= {}", r.range(1, 4)),
                72..=75 => format!("UPDATE LINK SET X = {} WHERE ID = {}", val(r), r.range(1, 12)),
                76..=79 => format!("UPDATE LINK SET Y = {} WHERE ID <= {}", val(r), r.range(1, 12)),
                80..=82 => format!("UPDATE {} SET ID = {} WHERE ID = {}", JT[r.below(2) as usize], r.range(1, 8), r.range(1, 4)),
                83..=86 => format!("TRUNCATE TABLE {} CASCADE", JT[r.below(2) as usize]),
                87..=89 => format!("TRUNCATE TABLE {}", JT[r.below(3) as usize]),
                90..=91 => "TRUNCATE TABLE LINK CASCADE".to_string(),
                92..=95 => format!("DELETE FROM {}", JT[r.below(2) as usize]),
                _ => format!("DELETE FROM LINK WHERE ID <= {}", r.range(1, 6)),
            })
            .collect(),
    };
    let (mut accepted, mut rejected) = (0, 0);
    for sql in &script {
        let before = jscan(&db, ntab);
        let out = db.exec(sql);
        let after = jscan(&db, ntab);
        let words: Vec<&str> = sql.split_whitespace().collect();
        rep.count(&format!("junction_stmt_{}_{}", words[0].to_lowercase(), if sql.contains("CASCADE") { "cascade" } else { words[2].to_lowercase().as_str().to_owned().leak() }));
        if out.is_ok() { accepted += 1 } else { rejected += 1 }
        let bad = jorphans(&after, &fks);
        if out.is_panic() || !bad.is_empty() {
            rep.fail(FailKind::Oracle, None, &format!("orphan row after a {} {} statement on a schema with a two-key child", words[0], if sql.contains("CASCADE") { "CASCADE" } else { "" }),
                &format!("{}\n=> {}\norphans: {:?}", db.log.join(";\n"), out.brief(), bad));
            break;
        }
        // correspondence: TRUNCATE … CASCADE and parent DELETEs against the model
        let tnum = |name: &str| JT.iter().position(|t| *t == name);
        let req = if words[0] == "TRUNCATE" && sql.contains("CASCADE") {
            tnum(words[2]).map(|t| format!("trunc (fks {}) (tables {}) {}", jfks_sx(&fks), jtabs_sx(&before), t))
        } else if words[0] == "DELETE" && (words[2] == "A" || words[2] == "B") {
            let t = tnum(words[2]).unwrap();
            let ids: Vec<String> = before[t]
                .iter()
                .filter_map(|p| if let SqlValue::Integer(i) = p[0] { Some(i) } else { None })
                .filter(|i| if words.len() <= 3 { true } else if words[5] == "=" { *i == words[6].parse::<i64>().unwrap() } else { *i >= words[6].parse::<i64>().unwrap() })
                .map(|i| format!("I{}", i))
                .collect();
            Some(format!("casc (fks {}) (tables {}) {} (sel {})", jfks_sx(&fks), jtabs_sx(&before), t, ids.join(" ")))
        } else {
            None
        };
        if let Some(req) = req {
            let reply = model.ask(&req);
            let code = if out.is_ok() { format!("(ok {})", jtabs_sx(&after)) } else { "(reject)".to_string() };
            // an empty DELETE FROM t without referencing rows may take the truncate fast path: same result
            if reply != code && !(reply == "(cycle)" && !out.is_ok()) {
                rep.fail(FailKind::ModelDiff, None, &format!("model and code disagree on `{} {} …` with a two-key child", words[0], words[1]),
                    &format!("{}\nmodel request: {}\ncode: {}\nmodel: {}", db.log.join(";\n"), req, code, reply));
                break;
            }
            rep.traces_validated += 1;
        }
    }
    rep.case(&format!("junction{} {}", k, db.log.join(";")), accepted > 0 && (rejected > 0 || fixed.is_some()));
}

fn junction_probes(model: &mut model::Model, rep: &mut Report) {
    let mut r = Rng::new(7);
    let fill = vec![
        "INSERT INTO A VALUES (1, 0), (2, 0)".to_string(),
        "INSERT INTO B VALUES (1, 0), (2, 0)".to_string(),
        "INSERT INTO LINK VALUES (1, 1, 1), (2, 1, 2), (3, NULL, 2), (4, 2, NULL)".to_string(),
    ];
    let mut k = 900000;
    for (px, py) in [(0usize, 1usize), (1, 0), (0, 0), (1, 1)] {
        for with_g in [false, true] {
            for tail in [
                vec!["TRUNCATE TABLE B CASCADE"],
                vec!["TRUNCATE TABLE A CASCADE"],
                vec!["TRUNCATE TABLE A", "TRUNCATE TABLE B RESTRICT", "TRUNCATE TABLE LINK CASCADE", "TRUNCATE TABLE A"],
                vec!["DELETE FROM B WHERE ID = 2", "DELETE FROM A WHERE ID >= 1"],
                vec!["DELETE FROM B", "DELETE FROM A"],
                vec!["UPDATE B SET ID = 9 WHERE ID = 2", "UPDATE A SET ID = 9 WHERE ID = 1", "UPDATE LINK SET Y = 7 WHERE ID = 1"],
            ] {
                // several action draws per shape
                for _ in 0..3 {
                    let mut s = fill.clone();
                    if with_g {
                        s.push("INSERT INTO G VALUES (1, 1), (2, 3), (3, NULL)".into());
                    }
                    s.extend(tail.iter().map(|x| x.to_string()));
                    run_junction(&mut r, k, Some((px, py, with_g, s)), model, rep);
                    rep.count("junction_probes");
                    k += 1;
                }
            }
        }
    }
}

/// self-referencing table with random actions: chains, trees, cycles (PID updates), rows referencing
/// themselves; DELETE of one row / a range / everything; orphan oracle + the model's repaired recursion
fn run_selfref(r: &mut Rng, k: u64, model: &mut model::Model, rep: &mut Report) {
    let a = r.below(3) as usize;
    let mut db = Db::new();
    db.must("CREATE TABLE T (ID INT PRIMARY KEY, PID INT)");
    if r.chance(1, 2) {
        db.must(&format!("ALTER TABLE T ADD CONSTRAINT FKS FOREIGN KEY (PID) REFERENCES T (ID) ON DELETE {}", ACTIONS[a].0));
    } else {
        // the same declared at column level inside CREATE TABLE (self-reference resolves against the new table)
        db = Db::new();
        db.must(&format!("CREATE TABLE T (ID INT PRIMARY KEY, PID INT REFERENCES T (ID) ON DELETE {})", ACTIONS[a].0));
    }
    rep.count(&format!("selfref_on_delete_{}", ACTIONS[a].1));
    let (mut accepted, mut rejected) = (0, 0);
    for _ in 0..(8 + r.below(8)) {
        let sql = match r.below(10) {
            0..=3 => format!("INSERT INTO T VALUES ({}, {})", r.range(1, 7), if r.chance(1, 3) { "NULL".to_string() } else { r.range(1, 7).to_string() }),
            4..=6 => format!("UPDATE T SET PID = {} WHERE ID = {}", if r.chance(1, 5) { "NULL".to_string() } else { r.range(1, 7).to_string() }, r.range(1, 7)),
            7..=8 => format!("DELETE FROM T WHERE ID = {}", r.range(1, 7)),
            _ => format!("DELETE FROM T WHERE ID >= {}", r.range(1, 7)),
        };
        let before = db.scan("T").unwrap_or_default();
        let out = db.exec(&sql);
        let after = db.scan("T").unwrap_or_default();
        rep.count(&format!("selfref_stmt_{}", sql.split_whitespace().next().unwrap().to_lowercase()));
        if out.is_ok() { accepted += 1 } else { rejected += 1 }
        let bad = self_orphans(&db);
        if out.is_panic() || !bad.is_empty() {
            rep.fail(FailKind::Oracle, None, "orphan row on a self-referencing table", &format!("{}\n=> {}\norphans {:?}", db.log.join(";\n"), out.brief(), bad));
            break;
        }
        if sql.starts_with("DELETE") {
            let w: Vec<&str> = sql.split_whitespace().collect();
            let n: i64 = w[6].parse().unwrap();
            let ids: Vec<String> = before.iter().filter_map(|x| if let SqlValue::Integer(i) = x[0] { Some(i) } else { None })
                .filter(|i| if w[5] == "=" { *i == n } else { *i >= n }).map(|i| format!("I{}", i)).collect();
            let reply = model.ask(&format!("casc (fks (0 0 (1) (0) {})) (tables {}) 0 (sel {})", ACTIONS[a].1, canon::rows_seq(&before), ids.join(" ")));
            let code = if out.is_ok() { format!("(ok {})", canon::rows_seq(&after)) } else { "(reject)".to_string() };
            if reply != code {
                rep.fail(FailKind::ModelDiff, None, "model and code disagree on a DELETE on a self-referencing table", &format!("{}\ncode {} model {}", db.log.join(";\n"), code, reply));
                break;
            }
            rep.traces_validated += 1;
        }
    }
    rep.case(&format!("selfref{} {}", k, db.log.join(";")), accepted > 0 && rejected > 0);
}

// ---------------------------------------------------------------------------------------------
// referential actions inside transactions with savepoints
// ---------------------------------------------------------------------------------------------

fn bag3(db: &Db, with_gc: bool) -> Vec<Vec<String>> {
    let mut v = vec![canon::bag_vec(&db.scan("PAR").unwrap_or_default()), canon::bag_vec(&db.scan("CH").unwrap_or_default())];
    if with_gc {
        v.push(canon::bag_vec(&db.scan("GC").unwrap_or_default()));
    }
    v
}

/// BEGIN … SAVEPOINT … <statements with referential actions> … ROLLBACK TO SAVEPOINT … [COMMIT | ROLLBACK],
/// nested savepoints and RELEASE: no orphan after EVERY step, and after ROLLBACK TO s (ROLLBACK) the
/// contents of all tables equal those at SAVEPOINT s (BEGIN)
fn run_savepoint(r: &mut Rng, k: u64, fixed: Option<(usize, usize, usize, Vec<String>)>, rep: &mut Report) {
    let (d1, u1, d2) = match &fixed { Some((a, b, c, _)) => (*a, *b, *c), None => (r.below(3) as usize, r.below(3) as usize, r.below(3) as usize) };
    let with_gc = fixed.is_some() || r.chance(1, 2);
    let mut db = Db::new();
    db.must("CREATE TABLE PAR (ID INT PRIMARY KEY, V INT)");
    db.must(&format!("CREATE TABLE CH (ID INT PRIMARY KEY, PID INT, FOREIGN KEY (PID) REFERENCES PAR (ID) ON DELETE {} ON UPDATE {})", ACTIONS[d1].0, ACTIONS[u1].0));
    if with_gc {
        db.must(&format!("CREATE TABLE GC (ID INT PRIMARY KEY, CID INT, FOREIGN KEY (CID) REFERENCES CH (ID) ON DELETE {} ON UPDATE {})", ACTIONS[d2].0, ACTIONS[(d2 + 1) % 3].0));
    }
    db.must("INSERT INTO PAR VALUES (1, 0), (2, 0), (3, 0), (4, 0)");
    db.must("INSERT INTO CH VALUES (1, 1), (2, 1), (3, 2), (4, NULL), (5, 3)");
    if with_gc {
        db.must("INSERT INTO GC VALUES (1, 1), (2, 3), (3, NULL), (4, 5)");
    }
    rep.count(&format!("savepoint_on_delete_{}_on_update_{}", ACTIONS[d1].1, ACTIONS[u1].1));
    let dml = |r: &mut Rng| -> String {
        match r.below(9) {
            0 => format!("DELETE FROM PAR WHERE ID = {}", r.range(1, 5)),
            1 => format!("DELETE FROM PAR WHERE ID >= {}", r.range(2, 4)),
            2 | 3 => format!("UPDATE PAR SET ID = {} WHERE ID = {}", r.range(5, 9), r.range(1, 4)),
            4 => format!("UPDATE CH SET ID = {} WHERE ID = {}", r.range(6, 9), r.range(1, 5)),
            5 => format!("UPDATE CH SET PID = {} WHERE ID = {}", r.range(1, 5), r.range(1, 5)),
            6 => format!("INSERT INTO CH VALUES ({}, {})", r.range(6, 12), r.range(1, 5)),
            7 => format!("INSERT INTO PAR VALUES ({}, 1)", r.range(5, 9)),
            _ => format!("DELETE FROM CH WHERE ID = {}", r.range(1, 5)),
        }
    };
    let script: Vec<String> = match &fixed {
        Some((_, _, _, s)) => s.clone(),
        None => {
            let mut s = vec!["BEGIN".to_string()];
            if r.chance(1, 2) {
                s.push(dml(r));
            }
            s.push("SAVEPOINT S1".into());
            for _ in 0..(1 + r.below(3)) {
                s.push(dml(r));
            }
            if r.chance(1, 2) {
                s.push("SAVEPOINT S2".into());
                for _ in 0..(1 + r.below(2)) {
                    s.push(dml(r));
                }
                s.push(if r.chance(2, 3) { "ROLLBACK TO SAVEPOINT S2" } else { "RELEASE SAVEPOINT S2" }.into());
                if r.chance(1, 2) {
                    s.push(dml(r));
                }
            }
            s.push("ROLLBACK TO SAVEPOINT S1".into());
            if r.chance(1, 2) {
                s.push(dml(r));
                if r.chance(1, 2) {
                    s.push("ROLLBACK TO SAVEPOINT S1".into());
                }
            }
            s.push(if r.chance(1, 2) { "COMMIT" } else { "ROLLBACK" }.into());
            s
        }
    };
    let mut marks: std::collections::HashMap<String, Vec<Vec<String>>> = Default::default();
    let mut nontrivial = false;
    for sql in &script {
        let w: Vec<&str> = sql.split_whitespace().collect();
        let before = bag3(&db, with_gc);
        if w[0] == "BEGIN" {
            marks.insert("BEGIN".into(), before.clone());
        }
        if w[0] == "SAVEPOINT" {
            marks.insert(w[1].to_string(), before.clone());
        }
        let out = db.exec(sql);
        let after = bag3(&db, with_gc);
        rep.count(&format!("savepoint_step_{}", if w[0] == "ROLLBACK" && w.len() > 1 { "rollback_to" } else { w[0] }.to_lowercase()));
        let mut bad: Vec<String> = orphans(&db.scan("CH").unwrap_or_default(), 1, db.scan("PAR").as_ref(), 0).into_iter().map(|x| format!("CH{} has no PAR row", x)).collect();
        if with_gc {
            bad.extend(orphans(&db.scan("GC").unwrap_or_default(), 1, db.scan("CH").as_ref(), 0).into_iter().map(|x| format!("GC{} has no CH row", x)));
        }
        if out.is_panic() || !bad.is_empty() {
            rep.fail(FailKind::Oracle, None, &format!("orphan row after `{}` inside a transaction with savepoints", if w[0] == "ROLLBACK" && w.len() > 1 { "ROLLBACK TO SAVEPOINT" } else { w[0] }),
                &format!("{}\n=> {}\norphans: {:?}", db.log.join(";\n"), out.brief(), bad));
            break;
        }
        if out.is_err() && w[0] != "BEGIN" && before != after && (w[0] == "INSERT" || w[0] == "UPDATE") {
            // (failing DELETE with cascades is the recorded C11 finding; not judged here)
            rep.fail(FailKind::Oracle, None, "tables changed by a failing statement inside a transaction", &format!("{}\n=> {}", db.log.join(";\n"), out.brief()));
            break;
        }
        let expect = if w[0] == "ROLLBACK" && w.len() > 1 { marks.get(w[3]) } else if w[0] == "ROLLBACK" { marks.get("BEGIN") } else { None };
        if let Some(exp) = expect {
            if out.is_ok() {
                nontrivial = nontrivial || before != after;
                if &after != exp {
                    rep.fail(FailKind::Oracle, None, &format!("after `{}` the tables differ from their contents at the savepoint / BEGIN", if w.len() > 1 { "ROLLBACK TO SAVEPOINT" } else { "ROLLBACK" }),
                        &format!("{}\nexpected {:?}\nfound    {:?}", db.log.join(";\n"), exp, after));
                    break;
                }
            }
        }
    }
    rep.case(&format!("savepoint{} {}", k, db.log.join(";")), nontrivial);
}

fn savepoint_probes(rep: &mut Report) {
    let mut r = Rng::new(11);
    let mut k = 800000;
    for d1 in 0..3 {
        for u1 in 0..3 {
            for d2 in 0..3 {
                for body in [
                    vec!["UPDATE PAR SET ID = 10 WHERE ID = 1"],
                    vec!["DELETE FROM PAR WHERE ID = 1"],
                    vec!["DELETE FROM PAR WHERE ID >= 1"],
                    vec!["UPDATE PAR SET ID = 10 WHERE ID = 1", "DELETE FROM PAR WHERE ID = 2", "UPDATE CH SET ID = 30 WHERE ID = 3"],
                ] {
                    let mut s = vec!["BEGIN".to_string(), "SAVEPOINT S1".into()];
                    s.extend(body.iter().map(|x| x.to_string()));
                    s.push("ROLLBACK TO SAVEPOINT S1".into());
                    s.push("DELETE FROM PAR WHERE ID = 1".into());
                    s.push("ROLLBACK TO SAVEPOINT S1".into());
                    s.push("COMMIT".into());
                    run_savepoint(&mut r, k, Some((d1, u1, d2, s)), rep);
                    rep.count("savepoint_probes");
                    k += 1;
                }
            }
        }
    }
}

fn self_ref_db() -> Db {
    let mut db = Db::new();
    db.must("CREATE TABLE T (ID INT PRIMARY KEY, PID INT)");
    db.must("ALTER TABLE T ADD CONSTRAINT FKS FOREIGN KEY (PID) REFERENCES T (ID) ON DELETE CASCADE");
    db
}

fn self_orphans(db: &Db) -> Vec<String> {
    let t = db.scan("T").unwrap_or_default();
    orphans(&t, 1, Some(&t), 0)
}

fn probes(model: &mut model::Model, rep: &mut Report) {
    // self-referencing CASCADE, referrers stored after the deleted row: fine
    let mut db = self_ref_db();
    for q in ["INSERT INTO T VALUES (1, NULL)", "INSERT INTO T VALUES (2, 1)", "INSERT INTO T VALUES (3, 2)", "INSERT INTO T VALUES (4, NULL)", "DELETE FROM T WHERE ID = 1"] {
        db.exec(q);
    }
    rep.case("selfref forward chain", true);
    if !self_orphans(&db).is_empty() || db.scan("T").unwrap_or_default().len() != 1 {
        rep.fail(FailKind::Oracle, None, "self-referencing cascade (referrers stored after the parent) left orphans or survivors", &format!("{}\nrows {}", db.log.join(";\n"), canon::rows_seq(&db.scan("T").unwrap_or_default())));
    }
    // regression (repaired): referrer stored BEFORE the deleted row - the selected row is found again after
    // the cascade; several self-referencing shapes incl. cycles and a row referencing itself, compared with
    // the model's repaired recursion (`deleteWithFksV`)
    for (name, setup, del) in [
        ("stale positions", vec!["INSERT INTO T VALUES (2, NULL)", "INSERT INTO T VALUES (1, NULL)", "INSERT INTO T VALUES (3, NULL)", "INSERT INTO T VALUES (4, 3)", "UPDATE T SET PID = 1 WHERE ID = 2"], "DELETE FROM T WHERE ID = 1"),
        ("two-cycle", vec!["INSERT INTO T VALUES (1, NULL)", "INSERT INTO T VALUES (2, 1)", "INSERT INTO T VALUES (3, NULL)", "UPDATE T SET PID = 2 WHERE ID = 1"], "DELETE FROM T WHERE ID = 1"),
        ("self-loop", vec!["INSERT INTO T VALUES (1, NULL)", "INSERT INTO T VALUES (2, 1)", "INSERT INTO T VALUES (5, NULL)", "UPDATE T SET PID = 1 WHERE ID = 1"], "DELETE FROM T WHERE ID = 1"),
        ("three-cycle with tail", vec!["INSERT INTO T VALUES (1, NULL)", "INSERT INTO T VALUES (2, 1)", "INSERT INTO T VALUES (3, 2)", "INSERT INTO T VALUES (4, 3)", "INSERT INTO T VALUES (9, NULL)", "UPDATE T SET PID = 3 WHERE ID = 1"], "DELETE FROM T WHERE ID = 2"),
        ("cycle, delete all", vec!["INSERT INTO T VALUES (1, NULL)", "INSERT INTO T VALUES (2, 1)", "UPDATE T SET PID = 2 WHERE ID = 1", "INSERT INTO T VALUES (3, 2)"], "DELETE FROM T WHERE ID >= 1"),
    ] {
        let mut db = self_ref_db();
        for q in setup {
            db.must(q);
        }
        let before = db.scan("T").unwrap_or_default();
        let out = db.exec(del);
        let after = db.scan("T").unwrap_or_default();
        rep.case(&format!("selfref {}", name), true);
        rep.count("self_reference_probes");
        let ids: Vec<String> = before.iter().filter_map(|r| if let SqlValue::Integer(i) = r[0] { Some(i) } else { None })
            .filter(|i| if del.contains(">=") { *i >= 1 } else { *i == del.split_whitespace().last().unwrap().parse::<i64>().unwrap() })
            .map(|i| format!("I{}", i)).collect();
        let reply = model.ask(&format!("casc (fks (0 0 (1) (0) cascade)) (tables {}) 0 (sel {})", canon::rows_seq(&before), ids.join(" ")));
        if !out.is_ok() || reply != format!("(ok {})", canon::rows_seq(&after)) {
            rep.fail(FailKind::ModelDiff, None, "model and code disagree on a DELETE on a self-referencing CASCADE table", &format!("{}\n=> {}\ncode {} model {}", db.log.join(";\n"), out.brief(), canon::rows_seq(&after), reply));
        }
        if !self_orphans(&db).is_empty() || after.iter().any(|r| ids.contains(&canon::val(&r[0]))) {
            rep.fail(FailKind::Oracle, None, "DELETE on a self-referencing table left an orphan or kept a selected row",
                &format!("{}\n=> {}\nrows {}\norphans {:?}", db.log.join(";\n"), out.brief(), canon::rows_seq(&after), self_orphans(&db)));
        }
    }
    // INSERT INTO child SELECT … FROM a staging table without (or with other) foreign keys
    for (src_ddl, src_name) in [
        ("CREATE TABLE STG (ID INT PRIMARY KEY, PID INT)", "STG"),
        ("CREATE TABLE STG (ID INT PRIMARY KEY, PID INT, FOREIGN KEY (PID) REFERENCES PAR2 (ID))", "STG"),
    ] {
        for (what, sel) in [
            ("bulk", format!("INSERT INTO CH SELECT * FROM {}", src_name)),
            ("where", format!("INSERT INTO CH SELECT * FROM {} WHERE ID > 0", src_name)),
            ("columns", format!("INSERT INTO CH (ID, PID) SELECT ID, PID FROM {}", src_name)),
        ] {
            for (rows, must_reject) in [
                ("(1, 1), (2, NULL), (3, 7)", true),   // 7 is no PAR key (it is a PAR2 key)
                ("(3, 7)", true),
                ("(1, 1), (2, NULL), (3, 2)", false),
                ("(2, NULL)", false),
            ] {
                let mut db = Db::new();
                db.must("CREATE TABLE PAR (ID INT PRIMARY KEY, V INT)");
                db.must("CREATE TABLE PAR2 (ID INT PRIMARY KEY, V INT)");
                db.must("CREATE TABLE CH (ID INT PRIMARY KEY, PID INT, FOREIGN KEY (PID) REFERENCES PAR (ID) ON DELETE CASCADE)");
                db.must(src_ddl);
                db.must("INSERT INTO PAR VALUES (1, 0), (2, 0)");
                db.must("INSERT INTO PAR2 VALUES (1, 0), (2, 0), (7, 0)");
                db.must("INSERT INTO CH VALUES (9, 1)");
                db.must(&format!("INSERT INTO {} VALUES {}", src_name, rows));
                let ch0 = db.scan("CH").unwrap_or_default();
                let out = db.exec(&sel);
                rep.count(&format!("probe_select_insert_{}", what));
                rep.case(&format!("select-insert {} {} {}", src_ddl.len(), what, rows), true);
                let bad = fkinv(&db, false);
                let ch1 = db.scan("CH").unwrap_or_default();
                if !bad.is_empty() || (must_reject && out.is_ok()) || (!must_reject && !out.is_ok()) || (out.is_err() && ch0 != ch1) {
                    rep.fail(FailKind::Oracle, None, &format!("INSERT INTO child SELECT … ({} path) from a staging table: orphan stored / wrong accept-reject / partial insert", what),
                        &format!("{}\n=> {}\norphans: {:?}\nCH: {}", db.log.join(";\n"), out.brief(), bad, canon::rows_seq(&ch1)));
                }
            }
        }
    }
    // DROP TABLE of a referenced parent
    let mut db = Db::new();
    db.must("CREATE TABLE PAR (ID INT PRIMARY KEY, V INT)");
    db.must("CREATE TABLE CH (ID INT PRIMARY KEY, PID INT, FOREIGN KEY (PID) REFERENCES PAR (ID))");
    db.must("INSERT INTO PAR VALUES (1, 1)");
    db.must("INSERT INTO CH VALUES (1, 1)");
    let out = db.exec("DROP TABLE PAR");
    rep.case("drop referenced parent", true);
    let out2 = db.exec("DROP TABLE PAR CASCADE");
    db.must("DROP TABLE CH");
    let out3 = db.exec("DROP TABLE PAR");
    let mut sdb = self_ref_db();
    let out4 = sdb.exec("DROP TABLE T");
    if out.is_ok() || out2.is_ok() || !out3.is_ok() || !out4.is_ok() {
        rep.fail(FailKind::Oracle, None, "DROP TABLE of a referenced parent must be rejected; after the child is gone (or for a table referencing only itself) it must succeed",
            &format!("{}\n{}\nreferenced: {} / {}; unreferenced: {}; self-referencing: {}", db.log.join(";\n"), sdb.log.join(";\n"), out.brief(), out2.brief(), out3.brief(), out4.brief()));
    }
    // column-level REFERENCES
    let mut db = Db::new();
    db.must("CREATE TABLE PAR (ID INT PRIMARY KEY, V INT)");
    db.must("CREATE TABLE CH (ID INT PRIMARY KEY, PID INT REFERENCES PAR (ID))");
    db.must("INSERT INTO PAR VALUES (1, 0), (2, 0)");
    let out = db.exec("INSERT INTO CH VALUES (1, 7)");
    let ok1 = db.exec("INSERT INTO CH VALUES (1, 1), (2, NULL)");
    let del = db.exec("DELETE FROM PAR WHERE ID = 1");
    rep.case("column-level references", true);
    let mut db2 = Db::new();
    db2.must("CREATE TABLE PAR (ID INT PRIMARY KEY, V INT)");
    db2.must("CREATE TABLE CH (ID INT PRIMARY KEY, PID INT REFERENCES PAR (ID) ON DELETE CASCADE)");
    db2.must("INSERT INTO PAR VALUES (1, 0)");
    db2.must("INSERT INTO CH VALUES (1, 1)");
    let casc = db2.exec("DELETE FROM PAR WHERE ID = 1");
    if out.is_ok() || !ok1.is_ok() || del.is_ok() || !casc.is_ok() || !db2.scan("CH").unwrap_or_default().is_empty() {
        rep.fail(FailKind::Oracle, None, "a column-level REFERENCES clause must declare a foreign key (orphan rejected, NO ACTION default, ON DELETE CASCADE honoured)",
            &format!("{}\norphan insert {}; valid insert {}; parent delete {}\n{}\ncascade delete {}", db.log.join(";\n"), out.brief(), ok1.brief(), del.brief(), db2.log.join(";\n"), casc.brief()));
    }
}

/// run in a subprocess: DELETE on a cyclic CASCADE reference
fn cycle_worker() -> ! {
    let h = std::thread::Builder::new().stack_size(8 << 20).spawn(|| {
        let mut db = self_ref_db();
        db.must("INSERT INTO T VALUES (1, NULL)");
        db.must("INSERT INTO T VALUES (2, 1)");
        db.must("UPDATE T SET PID = 2 WHERE ID = 1");
        let out = db.exec("DELETE FROM T WHERE ID = 1");
        println!("worker: {} rows {}", out.brief(), canon::rows_seq(&db.scan("T").unwrap_or_default()));
    }).unwrap();
    let _ = h.join();
    std::process::exit(0);
}

fn cycle_probe(rep: &mut Report) {
    use std::io::Read;
    let exe = std::env::current_exe().unwrap();
    let mut child = std::process::Command::new(exe).arg("--cycle-worker").stdout(std::process::Stdio::piped()).stderr(std::process::Stdio::null()).spawn().unwrap();
    let start = std::time::Instant::now();
    let status = loop {
        match child.try_wait().unwrap() {
            Some(s) => break Some(s),
            None if start.elapsed().as_secs() > 20 => {
                let _ = child.kill();
                break None;
            }
            None => std::thread::sleep(std::time::Duration::from_millis(50)),
        }
    };
    let mut outp = String::new();
    if let Some(mut o) = child.stdout.take() {
        let _ = o.read_to_string(&mut outp);
    }
    rep.case("cyclic cascade", true);
    let script = "CREATE TABLE T (ID INT PRIMARY KEY, PID INT);\nALTER TABLE T ADD CONSTRAINT FKS FOREIGN KEY (PID) REFERENCES T (ID) ON DELETE CASCADE;\nINSERT INTO T VALUES (1, NULL);\nINSERT INTO T VALUES (2, 1);\nUPDATE T SET PID = 2 WHERE ID = 1;\nDELETE FROM T WHERE ID = 1  -- in a subprocess, 8 MiB stack, 20 s";
    match status {
        Some(s) if s.success() && outp.contains("rows ()") => {}
        Some(s) if s.success() => rep.fail(FailKind::Oracle, None, "cyclic CASCADE delete returned but left rows", &format!("{}\n{}", script, outp)),
        other => rep.fail(FailKind::Oracle, None, "DELETE on a cyclic ON DELETE CASCADE reference does not terminate (stack overflow / timeout)", &format!("{}\nexit: {:?}\n{}", script, other, outp)),
    }
}

fn main() {
    if std::env::args().any(|a| a == "--cycle-worker") {
        cycle_worker();
    }
    // the engine frees a large top-of-heap buffer per query; keep glibc from returning it to the kernel
    // every time (brk thrash made the quick tier many times slower under load)
    unsafe {
        libc::mallopt(libc::M_TRIM_THRESHOLD, 1 << 30);
        libc::mallopt(libc::M_TOP_PAD, 64 << 20);
    }
    let args = Args::parse("C12");
    engine::silence_panics();
    let mut rep = Report::new(&args, "history with at least one accepted and one rejected statement on tables linked by foreign keys");
    let mut model = args.model();
    let mut rng = Rng::new(args.seed);
    probes(&mut model, &mut rep);
    cycle_probe(&mut rep);
    junction_probes(&mut model, &mut rep);
    savepoint_probes(&mut rep);
    for k in 0..args.n(5000, 100000) {
        let mut r = rng.fork();
        run_savepoint(&mut r, k, None, &mut rep);
    }
    for k in 0..args.n(20000, 400000) {
        let mut r = rng.fork();
        run_history(&mut r, k, &mut model, &mut rep);
    }
    for k in 0..args.n(8000, 160000) {
        let mut r = rng.fork();
        run_junction(&mut r, k, None, &mut model, &mut rep);
    }
    for k in 0..args.n(6000, 120000) {
        let mut r = rng.fork();
        run_selfref(&mut r, k, &mut model, &mut rep);
    }
    rep.assumptions.push("foreign keys reference the parent's PRIMARY KEY, single column, declared at table level".into());
    rep.extra.insert("model_requests".into(), serde_json::json!(model.requests));
    std::process::exit(rep.finish());
}
