import VibeProof.Props.C19
#print axioms VibeProof.C19.C19_quote_roundtrip
#print axioms VibeProof.C19.C19_quote_needs_boundary
#print axioms VibeProof.C19.C19_split_roundtrip
#print axioms VibeProof.C19.C19_literal_roundtrip_partial
#print axioms VibeProof.C19.C19_literal_nan_rejected
#print axioms VibeProof.C19.C19_literal_inf_rejected
#print axioms VibeProof.C19.C19_literal_numeric_nan_rejected
#print axioms VibeProof.C19.C19_literal_counterexample
