/-
Model of the disk-backed B+ tree of crates/vibesql-storage/src/btree (C17, used by C16).

What is mirrored (as coded, after the two `fix:` commits to bulk_load.rs):
  node/structure.rs, node/operations.rs, node/split_merge.rs,
  node/btree_index/{insert,delete,rebalance,query,bulk_load}.rs.

Representation.
* Keys are an abstract linear order; the model uses `Int` (the harness maps every real
  `Vec<SqlValue>` key to its rank in the order `Ord for SqlValue` gives the key pool).
* `BTree.h` is the number of internal levels (= Rust `height - 1`).  Exactly like the Rust
  code, which walks `height - 1` internal pages and then reads a leaf page, every function
  recurses on that number; meeting the wrong kind of page is the `io` error the page reader
  returns (`Expected internal node, got page type …`).
* An internal page is `[num_keys][keys][num_keys + 1 children]` on disk, so an internal node
  is modelled as its first child and a list of (separator, child) pairs.
* Page ids are not modelled: a child *is* its subtree, and the leaf chain (`next_leaf`) is the
  in-order sequence of leaves.  That the persisted `next_leaf` pointers realise exactly that
  sequence is checked on the real pages after every operation by the harness (hook
  `verif_dump`), not proved here.
* `Vec::binary_search` over a sorted slice is modelled by the linear scan that returns the
  same position (first element not smaller than the key); sortedness is part of `WF`.
* `find_child_index` + `children[idx]` + the later `insert`/`remove` at `idx` are modelled by a
  zipper around the chosen child (`left` holds the children before it, nearest first).
  `insert_child` re-searches the separator in the parent's keys; on a sorted node that is the
  position right of the child that was split, which is where the model puts it.
-/
namespace VibeProof.BTree

/-- keys: written `Key` in this file, but plain `Int` for the arithmetic tactics -/
local notation "Key" => Int
abbrev RowId := Nat
abbrev Entry := Int × List Nat

inductive Node where
  | leaf (es : List Entry)
  | internal (c0 : Node) (rest : List (Key × Node))
  deriving Inhabited

inductive Err where
  | panic   -- index out of bounds / unwrap on None in the Rust code
  | io      -- StorageError::IoError (wrong page type)
  deriving DecidableEq, Repr

structure BTree where
  h : Nat
  root : Node
  deriving Inhabited

def empty : BTree := ⟨0, .leaf []⟩

/-! ## The specification: an ordered multimap as a key-sorted association list -/

def amInsert : List Entry → Key → RowId → List Entry
  | [], k, r => [(k, [r])]
  | (k', rs) :: t, k, r =>
    if k' < k then (k', rs) :: amInsert t k r
    else if k' = k then (k', rs ++ [r]) :: t
    else (k, [r]) :: (k', rs) :: t

def amLookup : List Entry → Key → List RowId
  | [], _ => []
  | (k', rs) :: t, k => if k' = k then rs else amLookup t k

def amErase (m : List Entry) (k : Key) : List Entry := m.filter (fun e => e.1 ≠ k)

def amEraseOne (m : List Entry) (k : Key) (rid : RowId) : List Entry :=
  m.filterMap (fun e =>
    if e.1 = k then (if e.2.erase rid = [] then none else some (e.1, e.2.erase rid)) else some e)

def inRange (lo hi : Option Key) (incLo incHi : Bool) (k : Key) : Bool :=
  (match lo with | none => true | some a => if incLo then a ≤ k else a < k) &&
  (match hi with | none => true | some b => if incHi then k ≤ b else k < b)

def amRange (m : List Entry) (lo hi : Option Key) (incLo incHi : Bool) : List RowId :=
  (m.filter (fun e => inRange lo hi incLo incHi e.1)).flatMap (·.2)

def amMulti (m : List Entry) (ks : List Key) : List RowId := ks.flatMap (amLookup m)

/-- `bulk_load` groups adjacent equal keys -/
def group : List (Key × RowId) → List Entry
  | [] => []
  | (k, r) :: t =>
    match group t with
    | (k', rs) :: g => if k = k' then (k, r :: rs) :: g else (k, [r]) :: (k', rs) :: g
    | [] => [(k, [r])]

/-! ## Leaf operations (node/operations.rs) -/

/-- `LeafNode::insert` -/
def leafInsert (es : List Entry) (k : Key) (r : RowId) : List Entry := amInsert es k r

/-- `LeafNode::search` -/
def leafSearch : List Entry → Key → List RowId
  | [], _ => []
  | (k', rs) :: t, k => if k' < k then leafSearch t k else if k' = k then rs else []

/-- `LeafNode::delete_all`; `none` = key not found -/
def leafDeleteAll : List Entry → Key → Option (List Entry)
  | [], _ => none
  | (k', rs) :: t, k =>
    if k' < k then (leafDeleteAll t k).map ((k', rs) :: ·)
    else if k' = k then some t else none

/-- `LeafNode::delete (key, row_id)`; `none` = key or row id not found -/
def leafDeleteOne : List Entry → Key → RowId → Option (List Entry)
  | [], _, _ => none
  | (k', rs) :: t, k, rid =>
    if k' < k then (leafDeleteOne t k rid).map ((k', rs) :: ·)
    else if k' = k then
      (if rid ∈ rs then some (if rs.erase rid = [] then t else (k', rs.erase rid) :: t) else none)
    else none

/-! ## Descent: `find_child_index` as a zipper -/

structure Zip where
  left : List (Node × Key)     -- children before the focus with the separator after each, nearest first
  focus : Node
  right : List (Key × Node)    -- separator before each later child

/-- `find_child_index`: skip every separator `≤ k` (an equal key goes right) -/
def scan (k : Key) : List (Node × Key) → Node → List (Key × Node) → Zip
  | acc, c, [] => ⟨acc, c, []⟩
  | acc, c, (s, c') :: rest => if s ≤ k then scan k ((c, s) :: acc) c' rest else ⟨acc, c, (s, c') :: rest⟩

/-- rebuild first child + pairs from a zipper -/
def close : List (Node × Key) → Node → List (Key × Node) → Node × List (Key × Node)
  | [], c, r => (c, r)
  | (lc, lk) :: acc, c, r => close acc lc ((lk, c) :: r)

def closeNode (l : List (Node × Key)) (c : Node) (r : List (Key × Node)) : Node :=
  .internal (close l c r).1 (close l c r).2

/-- number of children of an internal node / entries of a leaf -/
def Node.size : Node → Nat
  | .leaf es => es.length
  | .internal _ r => r.length + 1

/-! ## Queries (query.rs) -/

/-- `find_leaf_path`, the leaf only -/
def findLeaf : Nat → Node → Key → Except Err (List Entry)
  | 0, .leaf es, _ => .ok es
  | 0, .internal _ _, _ => .error .io
  | _ + 1, .leaf _, _ => .error .io
  | h + 1, .internal c0 r, k => findLeaf h (scan k [] c0 r).focus k

def lookup (t : BTree) (k : Key) : Except Err (List RowId) :=
  (findLeaf t.h t.root k).map (leafSearch · k)

def multiLookup (t : BTree) : List Key → Except Err (List RowId)
  | [] => .ok []
  | k :: ks => do
    let a ← lookup t k
    let b ← multiLookup t ks
    pure (a ++ b)

/-- all entries in key order (the leaf chain from the leftmost leaf) -/
def flat : Nat → Node → List Entry
  | 0, .leaf es => es
  | 0, .internal _ _ => []
  | _ + 1, .leaf _ => []
  | h + 1, .internal c0 r => flat h c0 ++ r.flatMap (fun p => flat h p.2)

def BTree.toAssoc (t : BTree) : List Entry := flat t.h t.root

/-- the entries met by following `next_leaf` from the leaf `find_leaf_path start` returns
    (`find_leftmost_leaf` when there is no start key) -/
def chainFrom : Nat → Node → Option Key → Except Err (List Entry)
  | 0, .leaf es, _ => .ok es
  | 0, .internal _ _, _ => .error .io
  | _ + 1, .leaf _, _ => .error .io
  | h + 1, .internal c0 r, none =>
    (chainFrom h c0 none).map (· ++ r.flatMap (fun p => flat h p.2))
  | h + 1, .internal c0 r, some k =>
    let z := scan k [] c0 r
    (chainFrom h z.focus (some k)).map (· ++ z.right.flatMap (fun p => flat h p.2))

/-- `key.cmp(end)` is Greater, or Equal with an exclusive end: stop -/
def pastStop (stop : Option Key) (incE : Bool) (k : Key) : Bool :=
  match stop with
  | some e => e < k || (k = e && !incE)
  | none => false

/-- `key.cmp(start)` is Less, or Equal with an exclusive start: skip -/
def beforeStart (start : Option Key) (incS : Bool) (k : Key) : Bool :=
  match start with
  | some s => k < s || (k = s && !incS)
  | none => false

/-- the loop of `range_scan_entries` over the chained entries: the entries (key with its row ids)
    whose key is in the range -/
def scanLoopE (start stop : Option Key) (incS incE : Bool) : Bool → List Entry → List Entry
  | _, [] => []
  | started, (k, rs) :: t =>
    if pastStop stop incE k then []
    else if !started && beforeStart start incS k then scanLoopE start stop incS incE false t
    else (k, rs) :: scanLoopE start stop incS incE true t

/-- `BTreeIndex::range_scan_entries` -/
def rangeScanEntries (t : BTree) (start stop : Option Key) (incS incE : Bool) : Except Err (List Entry) :=
  (chainFrom t.h t.root start).map (scanLoopE start stop incS incE start.isNone)

/-- `BTreeIndex::range_scan`: the row ids of `range_scan_entries` -/
def rangeScan (t : BTree) (start stop : Option Key) (incS incE : Bool) : Except Err (List RowId) :=
  (rangeScanEntries t start stop incS incE).map (fun es => es.flatMap (·.2))

/-! ## Insert (insert.rs, split_merge.rs) -/

inductive InsRes where
  | done (n : Node)
  | split (l : Node) (sep : Key) (r : Node)

/-- `LeafNode::split`: right half from `len / 2`, separator = first key of the right half -/
def splitLeaf (es : List Entry) : Except Err InsRes :=
  match es.drop (es.length / 2) with
  | [] => .error .panic
  | e :: rt => .ok (.split (.leaf (es.take (es.length / 2))) e.1 (.leaf (e :: rt)))

/-- `InternalNode::split`: the middle key moves up -/
def splitInternal (c0 : Node) (r : List (Key × Node)) : Except Err InsRes :=
  match r.drop (r.length / 2) with
  | [] => .error .panic
  | (mk, mc) :: rt => .ok (.split (.internal c0 (r.take (r.length / 2))) mk (.internal mc rt))

def insertAux (d : Nat) : Nat → Node → Key → RowId → Except Err InsRes
  | 0, .leaf es, k, rid =>
    let es' := leafInsert es k rid
    if d ≤ es'.length then splitLeaf es' else .ok (.done (.leaf es'))
  | 0, .internal _ _, _, _ => .error .io
  | _ + 1, .leaf _, _, _ => .error .io
  | h + 1, .internal c0 r, k, rid =>
    let z := scan k [] c0 r
    match insertAux d h z.focus k rid with
    | .error e => .error e
    | .ok (.done c') => .ok (.done (closeNode z.left c' z.right))
    | .ok (.split l sep rt) =>
      let p := close z.left l ((sep, rt) :: z.right)
      if d ≤ p.2.length + 1 then splitInternal p.1 p.2 else .ok (.done (.internal p.1 p.2))

/-- `BTreeIndex::insert` (+ `propagate_split`, `create_new_root`) -/
def insert (d : Nat) (t : BTree) (k : Key) (rid : RowId) : Except Err BTree :=
  match insertAux d t.h t.root k rid with
  | .error e => .error e
  | .ok (.done n) => .ok ⟨t.h, n⟩
  | .ok (.split l sep r) => .ok ⟨t.h + 1, .internal l [(sep, r)]⟩

/-! ## Delete (delete.rs, rebalance.rs) -/

def underfull (d : Nat) (n : Node) : Bool := n.size < d / 2

/-- `try_borrow_leaf`, left sibling first: `none` = no left sibling, or it has no spare entry -/
def leafBorrowLeft (d : Nat) (left : List (Node × Key)) (es : List Entry) (right : List (Key × Node)) :
    Except Err (Option Node) :=
  match left with
  | (.leaf les, _) :: left' =>
    if d / 2 < les.length then
      match les.getLast? with
      | some b => .ok (some (closeNode ((.leaf les.dropLast, b.1) :: left') (.leaf (b :: es)) right))
      | none => .error .panic
    else .ok none
  | (.internal _ _, _) :: _ => .error .io
  | [] => .ok none

/-- `try_borrow_leaf`, right sibling -/
def leafBorrowRight (d : Nat) (left : List (Node × Key)) (es : List Entry) (right : List (Key × Node)) :
    Except Err (Option Node) :=
  match right with
  | (_, .leaf res) :: right' =>
    if d / 2 < res.length then
      match res with
      | b :: f :: rest =>
        .ok (some (closeNode left (.leaf (es ++ [b])) ((f.1, .leaf (f :: rest)) :: right')))
      | _ => .error .panic
    else .ok none
  | (_, .internal _ _) :: _ => .error .io
  | [] => .ok none

/-- `merge_leaf`: into the left sibling if there is one, else the right sibling into the leaf -/
def leafMerge (left : List (Node × Key)) (es : List Entry) (right : List (Key × Node)) : Except Err Node :=
  match left with
  | (.leaf les, _) :: left' => .ok (closeNode left' (.leaf (les ++ es)) right)
  | (.internal _ _, _) :: _ => .error .io
  | [] =>
    match right with
    | (_, .leaf res) :: right' => .ok (closeNode [] (.leaf (es ++ res)) right')
    | (_, .internal _ _) :: _ => .error .io
    | [] => .error .panic

/-- `rebalance_leaf`: borrow (left, then right), else merge; the flag says whether a merge
    happened (the parent lost a child) -/
def rebalanceLeaf (d : Nat) (left : List (Node × Key)) (es : List Entry) (right : List (Key × Node)) :
    Except Err (Node × Bool) :=
  match leafBorrowLeft d left es right with
  | .error e => .error e
  | .ok (some n) => .ok (n, false)
  | .ok none =>
    match leafBorrowRight d left es right with
    | .error e => .error e
    | .ok (some n) => .ok (n, false)
    | .ok none =>
      match leafMerge left es right with
      | .error e => .error e
      | .ok n => .ok (n, true)

/-- `try_borrow_internal`, left sibling, for the underfull internal child `(n0, nr)` -/
def intBorrowLeft (d : Nat) (left : List (Node × Key)) (n0 : Node) (nr : List (Key × Node))
    (right : List (Key × Node)) : Except Err (Option Node) :=
  match left with
  | (.internal l0 lr, lk) :: left' =>
    if d / 2 < lr.length + 1 then
      match lr.getLast? with
      | some (bk, bc) =>
        .ok (some (closeNode ((.internal l0 lr.dropLast, bk) :: left') (.internal bc ((lk, n0) :: nr)) right))
      | none => .error .panic
    else .ok none
  | (.leaf _, _) :: _ => .error .io
  | [] => .ok none

/-- `try_borrow_internal`, right sibling -/
def intBorrowRight (d : Nat) (left : List (Node × Key)) (n0 : Node) (nr : List (Key × Node))
    (right : List (Key × Node)) : Except Err (Option Node) :=
  match right with
  | (rk, .internal r0 rr) :: right' =>
    if d / 2 < rr.length + 1 then
      match rr with
      | (bk, r1) :: rr' =>
        .ok (some (closeNode left (.internal n0 (nr ++ [(rk, r0)])) ((bk, .internal r1 rr') :: right')))
      | [] => .error .panic
    else .ok none
  | (_, .leaf _) :: _ => .error .io
  | [] => .ok none

/-- `merge_internal`: the parent's separator comes down between the two halves -/
def intMerge (left : List (Node × Key)) (n0 : Node) (nr : List (Key × Node)) (right : List (Key × Node)) :
    Except Err Node :=
  match left with
  | (.internal l0 lr, lk) :: left' => .ok (closeNode left' (.internal l0 (lr ++ (lk, n0) :: nr)) right)
  | (.leaf _, _) :: _ => .error .io
  | [] =>
    match right with
    | (rk, .internal r0 rr) :: right' => .ok (closeNode [] (.internal n0 (nr ++ (rk, r0) :: rr)) right')
    | (_, .leaf _) :: _ => .error .io
    | [] => .error .panic

/-- `try_borrow_internal` then `merge_internal` -/
def rebalanceInternal (d : Nat) (left : List (Node × Key)) (n0 : Node) (nr : List (Key × Node))
    (right : List (Key × Node)) : Except Err Node :=
  match intBorrowLeft d left n0 nr right with
  | .error e => .error e
  | .ok (some n) => .ok n
  | .ok none =>
    match intBorrowRight d left n0 nr right with
    | .error e => .error e
    | .ok (some n) => .ok n
    | .ok none => intMerge left n0 nr right

inductive DelRes where
  | notFound
  | ok (n : Node) (check : Bool)   -- `check`: the upward loop is still looking at this node

/-- the recursive form of: find_leaf_path, leaf delete, `rebalance_leaf`,
    `propagate_rebalance_delete`.  `f` is the leaf-level deletion. -/
def delAux (d : Nat) (f : List Entry → Option (List Entry)) : Nat → Node → Key → Except Err DelRes
  | 0, .leaf es, _ =>
    match f es with
    | none => .ok .notFound
    | some es' => .ok (.ok (.leaf es') true)
  | 0, .internal _ _, _ => .error .io
  | _ + 1, .leaf _, _ => .error .io
  | h + 1, .internal c0 r, k =>
    let z := scan k [] c0 r
    match delAux d f h z.focus k with
    | .error e => .error e
    | .ok .notFound => .ok .notFound
    | .ok (.ok c' check) =>
      if check && underfull d c' then
        match c' with
        | .leaf es' =>
          match rebalanceLeaf d z.left es' z.right with
          | .error e => .error e
          | .ok (n, merged) => .ok (.ok n merged)
        | .internal n0 nr =>
          match rebalanceInternal d z.left n0 nr z.right with
          | .error e => .error e
          | .ok n => .ok (.ok n true)
      else .ok (.ok (closeNode z.left c' z.right) false)

/-- `maybe_collapse_root` -/
def collapse (t : BTree) : BTree :=
  match t.h, t.root with
  | h + 1, .internal c0 [] => ⟨h, c0⟩
  | _, _ => t

def deleteWith (d : Nat) (f : List Entry → Option (List Entry)) (t : BTree) (k : Key) :
    Except Err (BTree × Bool) :=
  match delAux d f t.h t.root k with
  | .error e => .error e
  | .ok .notFound => .ok (t, false)
  | .ok (.ok n _) => .ok (collapse ⟨t.h, n⟩, true)

/-- `BTreeIndex::delete` (all row ids of the key) -/
def delete (d : Nat) (t : BTree) (k : Key) : Except Err (BTree × Bool) :=
  deleteWith d (leafDeleteAll · k) t k

/-- `BTreeIndex::delete_specific` -/
def deleteSpecific (d : Nat) (t : BTree) (k : Key) (rid : RowId) : Except Err (BTree × Bool) :=
  deleteWith d (leafDeleteOne · k rid) t k

/-! ## Bulk load (bulk_load.rs, repaired) -/

/-- fill nodes left to right with `cap` items each -/
def chunk {α : Type} (cap : Nat) : Nat → List α → List (List α)
  | 0, _ => []
  | _, [] => []
  | fuel + 1, x :: xs => (x :: xs).take cap :: chunk cap fuel ((x :: xs).drop cap)

/-- number of children the next internal node takes: `cap`, but never leave exactly one
    child for the last node of the level (fix: no single-child internal nodes) -/
def takeCount (cap n : Nat) : Nat :=
  let t := min cap n
  if n - t = 1 then (if 2 < t then t - 1 else t + 1) else t

def chunkInternal {α : Type} (cap : Nat) : Nat → List α → List (List α)
  | 0, _ => []
  | _, [] => []
  | fuel + 1, x :: xs =>
    (x :: xs).take (takeCount cap (xs.length + 1)) ::
      chunkInternal cap fuel ((x :: xs).drop (takeCount cap (xs.length + 1)))

/-- `read_first_key_from_page` (repaired: always the first key of the leftmost leaf) -/
def minKey : Nat → Node → Except Err Key
  | 0, .leaf [] => .error .io
  | 0, .leaf (e :: _) => .ok e.1
  | 0, .internal _ _ => .error .io
  | _ + 1, .leaf _ => .error .io
  | h + 1, .internal c0 _ => minKey h c0

def withMin (h : Nat) : List Node → Except Err (List (Key × Node))
  | [] => .ok []
  | c :: cs => do
    let k ← minKey h c
    let r ← withMin h cs
    pure ((k, c) :: r)

/-- one internal node from a non-empty group of children at level `h` -/
def mkParent (h : Nat) : List Node → Except Err Node
  | [] => .error .panic
  | c0 :: cs => (withMin h cs).map (Node.internal c0 ·)

def mkParents (h : Nat) : List (List Node) → Except Err (List Node)
  | [] => .ok []
  | g :: gs => do
    let n ← mkParent h g
    let r ← mkParents h gs
    pure (n :: r)

/-- `while current_level.len() > 1` -/
def buildLevels (cap : Nat) : Nat → Nat → List Node → Except Err BTree
  | _, h, [n] => .ok ⟨h, n⟩
  | 0, _, _ => .error .panic
  | fuel + 1, h, ns =>
    match mkParents h (chunkInternal cap ns.length ns) with
    | .error e => .error e
    | .ok ps => buildLevels cap fuel (h + 1) ps

def leafCap (d : Nat) : Nat := max (d * 3 / 4) 1
def internalCap (d : Nat) : Nat := max (d * 3 / 4) 2

/-- `BTreeIndex::bulk_load` -/
def bulkLoad (d : Nat) (sorted : List (Key × RowId)) : Except Err BTree :=
  match group sorted with
  | [] => .ok empty
  | g =>
    let leaves := (chunk (leafCap d) g.length g).map Node.leaf
    buildLevels (internalCap d) leaves.length 0 leaves

/-! ## Operation sequences -/

inductive Op where
  | insert (k : Key) (r : RowId)
  | delete (k : Key)
  | deleteSpecific (k : Key) (r : RowId)
  | lookup (k : Key)
  | multiLookup (ks : List Key)
  | rangeScan (start stop : Option Key) (incS incE : Bool)

inductive Ans where
  | unit
  | bool (b : Bool)
  | rows (rs : List RowId)
  deriving DecidableEq, Repr

/-- one operation on the tree: new tree and the answer the API returns -/
def step (d : Nat) (t : BTree) : Op → Except Err (BTree × Ans)
  | .insert k r => (insert d t k r).map (fun t' => (t', .unit))
  | .delete k => (delete d t k).map (fun p => (p.1, .bool p.2))
  | .deleteSpecific k r => (deleteSpecific d t k r).map (fun p => (p.1, .bool p.2))
  | .lookup k => (lookup t k).map (fun rs => (t, .rows rs))
  | .multiLookup ks => (multiLookup t ks).map (fun rs => (t, .rows rs))
  | .rangeScan s e a b => (rangeScan t s e a b).map (fun rs => (t, .rows rs))

/-- the same operation on the specification -/
def specStep (m : List Entry) : Op → List Entry × Ans
  | .insert k r => (amInsert m k r, .unit)
  | .delete k => (amErase m k, .bool (amLookup m k != []))
  | .deleteSpecific k r => (amEraseOne m k r, .bool ((amLookup m k).contains r))
  | .lookup k => (m, .rows (amLookup m k))
  | .multiLookup ks => (m, .rows (amMulti m ks))
  | .rangeScan s e a b => (m, .rows (amRange m s e a b))

def run (d : Nat) : BTree → List Op → Except Err (BTree × List Ans)
  | t, [] => .ok (t, [])
  | t, op :: ops => do
    let (t', a) ← step d t op
    let (t'', as) ← run d t' ops
    pure (t'', a :: as)

def specRun : List Entry → List Op → List Entry × List Ans
  | m, [] => (m, [])
  | m, op :: ops =>
    let (m', a) := specStep m op
    let (m'', as) := specRun m' ops
    (m'', a :: as)

end VibeProof.BTree
