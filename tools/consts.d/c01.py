# C01 / C06: the three-valued truth tables of LogicalOps::and / LogicalOps::or
# (evaluator/operators/logical.rs), rebuilt from the match arms as written: the arms are read
# in source order (first match wins), each pattern alternative is expanded over {T, F, N}.
import re

VALS = ["T", "F", "N"]


def pat_matches(p, v):
    p = p.strip()
    if p == "_":
        return True
    if p == "Null":
        return v == "N"
    if p == "Boolean(true)":
        return v == "T"
    if p == "Boolean(false)":
        return v == "F"
    if re.fullmatch(r"Boolean\(\w+\)", p):
        return v in ("T", "F")
    return False


def arm_result(res, l, r):
    res = res.strip()
    if res == "Ok(Null)":
        return "N"
    m = re.fullmatch(r"Ok\(Boolean\((true|false)\)\)", res)
    if m:
        return "T" if m.group(1) == "true" else "F"
    m = re.fullmatch(r"Ok\(Boolean\(\*(\w+)\s*(&&|\|\|)\s*\*(\w+)\)\)", res)
    if m:
        a, b = l == "T", r == "T"
        return "T" if (a and b if m.group(2) == "&&" else a or b) else "F"
    return "E"  # error / not understood


def table(src, fn):
    m = re.search(r"pub fn %s\(left: &SqlValue, right: &SqlValue\).*?match \(left, right\) \{(.*?)\n        \}" % fn, src, re.S)
    if not m:
        return None
    body = re.sub(r"//[^\n]*", "", m.group(1))
    arms = []
    tup = r"\(\s*(Null|Boolean\(\w+\))\s*,\s*(Null|Boolean\(\w+\))\s*\)"
    for am in re.finditer(r"((?:%s)(?:\s*\|\s*%s)*|_)\s*=>\s*(Ok\([^\n]*\)|Err\()" % (tup, tup), body):
        res = am.group(am.lastindex).rstrip(",")
        if am.group(1).strip() == "_":
            alts = [("_", "_")]
        else:
            alts = re.findall(tup, am.group(1))
        arms.append((alts, res))
    rows = []
    for l in VALS:
        for r in VALS:
            out = "E"
            for alts, res in arms:
                if any(pat_matches(a, l) and pat_matches(b, r) for a, b in alts):
                    out = arm_result(res, l, r)
                    break
            rows.append((l, r, out))
    return rows


def extract(read):
    src = read("crates/vibesql-executor/src/evaluator/operators/logical.rs")
    out = []
    for fn, name in [("and", "c01AndTable"), ("or", "c01OrTable")]:
        t = table(src, fn)
        if t is None:
            out.append("-- %s: NOT FOUND in source (dependent theorem will not build)" % name)
            continue
        out.append("/-- logical.rs `LogicalOps::%s`: (left, right, result) over T / F / N (NULL), rebuilt from the match arms in source order; E = error -/" % fn)
        out.append("def %s : List (String × String × String) := [%s]" % (name, ", ".join('("%s", "%s", "%s")' % r for r in t)))
    return "\n".join(out) + "\n"
