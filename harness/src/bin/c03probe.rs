//! throw-away probe
use vharness::*;
fn main() {
    engine::silence_panics();
    let mut db = Db::new();
    db.must("CREATE TABLE t (c0 INTEGER, c1 INTEGER, c2 INTEGER, s VARCHAR(20), id INTEGER)");
    db.must("INSERT INTO t VALUES (10, 1, 1, 'a', 0), (10, 2, 1, 'b', 1), (20, 3, 2, 'a', 2), (NULL, 4, 2, NULL, 3), (5, 5, NULL, 'c', 4), (5, 6, NULL, 'c', 5), (5, 7, 3, 'c', 6)");
    db.must("CREATE TABLE keep (id INTEGER)");
    db.must("INSERT INTO keep VALUES (0),(1),(2),(3),(4),(5),(6)");
    db.must("CREATE TABLE nonek (id INTEGER)");
    db.must("CREATE TABLE one (x INTEGER)");
    db.must("INSERT INTO one VALUES (1)");
    let base = "SELECT COUNT(*), COUNT(DISTINCT c0), SUM(DISTINCT c0), AVG(DISTINCT c0), SUM(c0) FROM t";
    for w in [
        "",
        " WHERE id IN (SELECT id FROM keep)",
        " WHERE EXISTS (SELECT 1 FROM keep WHERE keep.id = t.id)",
        " WHERE NOT EXISTS (SELECT 1 FROM keep WHERE 1 = 0)",
        " WHERE id NOT IN (SELECT id FROM nonek)",
        " WHERE id <= (SELECT MAX(id) FROM keep)",
        " WHERE (SELECT COUNT(*) FROM nonek) = 0",
        " WHERE c1 >= 2 AND id IN (SELECT id FROM keep)",
        " WHERE c1 >= 2 AND EXISTS (SELECT 1 FROM one)",
        " HAVING EXISTS (SELECT 1 FROM one)",
        " HAVING 1 IN (SELECT x FROM one)",
        " HAVING COUNT(*) >= 0 AND (SELECT COUNT(*) FROM nonek) = 0",
        " HAVING COUNT(DISTINCT c0) = 3 AND 1 IN (SELECT x FROM one)",
    ] {
        let o = db.exec(&format!("{}{}", base, w));
        println!("{}\n      {}", w, &o.brief()[..o.brief().len().min(150)]);
    }
    let g = "SELECT c2, COUNT(*), COUNT(DISTINCT c0), SUM(DISTINCT c0) FROM t";
    for w in [
        " GROUP BY c2",
        " WHERE id IN (SELECT id FROM keep) GROUP BY c2",
        " WHERE EXISTS (SELECT 1 FROM keep WHERE keep.id = t.id) GROUP BY c2",
        " WHERE id NOT IN (SELECT id FROM nonek) GROUP BY c2",
        " GROUP BY c2 HAVING 1 IN (SELECT x FROM one)",
        " GROUP BY c2 HAVING EXISTS (SELECT 1 FROM one)",
        " GROUP BY c2 HAVING COUNT(*) >= 0 AND NOT EXISTS (SELECT 1 FROM nonek)",
    ] {
        let o = db.exec(&format!("{}{}", g, w));
        println!("{}\n      {}", w, &o.brief()[..o.brief().len().min(150)]);
    }
}
