import VibeProof.Model.TableSM
import VibeProof.Lemmas.Index
/-
C15 — index structures always mirror table contents.

`IndexInv s`: every constraint hash index of the table maps each key to the (last) position
holding it and nothing else, every user-defined index lists for each key exactly the positions
of the rows with that key (what a rebuild from scratch produces), and the same holds for the
hash indexes stored in the transaction snapshot.

(T1) each maintenance function preserves the mirror when called as the executors call it;
(T2) every step of the table state machine, hence every history, preserves `IndexInv`
     (the only hypothesis, `OpOk`, concerns UPDATE: the executor passes distinct positions,
     reports every assigned column, and validation has excluded keys held by another row);
(T3) uniqueness checks that consult the indexes see exactly the keys of the current rows.
-/
namespace VibeProof.C15
open VibeProof VibeProof.Idx VibeProof.TSM

def HInv (hs : List HIdx) (rows : List Row) : Prop :=
  ∀ h ∈ hs, HOk h.data (hKey h.cols h.skipNull) rows

def UInv (us : List UIdx) (rows : List Row) : Prop :=
  ∀ u ∈ us, UOk u.data (proj u.cols) rows

def IndexInv (s : TState) : Prop :=
  HInv s.hidx s.rows ∧ UInv s.uidx s.rows ∧ ∀ t, s.txn = some t → HInv t.snapH t.snapRows

/-! ### (T1) the maintenance functions -/

/-- INSERT: `update_for_insert` after the push keeps a hash index a mirror (no condition) -/
theorem C15_hash_insert (cols : List Nat) (sn : Bool) (d : HData) (rows : List Row) (r : Row)
    (h : HOk d (hKey cols sn) rows) :
    HOk (hIns cols sn d r rows.length) (hKey cols sn) (rows ++ [r]) := HOk_push cols sn d rows r h

/-- INSERT: `add_to_indexes_for_insert` keeps a user-defined index a mirror (no condition) -/
theorem C15_user_insert (cols : List Nat) (d : UData) (rows : List Row) (r : Row)
    (h : UOk d (proj cols) rows) :
    UOk (uAdd d (proj cols r) rows.length) (proj cols) (rows ++ [r]) := UOk_push d _ rows r h

/-- `IndexManager::rebuild` produces the mirror of any row list -/
theorem C15_hash_rebuild (cols : List Nat) (sn : Bool) (rows : List Row) :
    HOk (hBuild cols sn rows) (hKey cols sn) rows := HOk_build cols sn rows

/-- `create_index` / `rebuild_indexes` produce the mirror of any row list -/
theorem C15_user_rebuild (cols : List Nat) (rows : List Row) :
    UOk (uBuild cols rows) (proj cols) rows := UOk_build cols rows

/-- UPDATE, user-defined index: incremental patch = rebuild (the interesting lemma), with no
condition beyond "old is the row that was at position i" -/
theorem C15_user_update_patch_eq_rebuild (cols : List Nat) (d : UData) (rows : List Row) (i : Nat)
    (old new : Row) (h : UOk d (proj cols) rows) (hold : rows[i]? = some old) (k : Key) :
    (uGet (uPatch d (proj cols old) (proj cols new) i) k).Perm
      (uGet (uBuild cols (rows.set i new)) k) :=
  UOk_perm _ _ _ _ (UOk_patch d _ rows i old new h hold) (UOk_build cols _) k

/-- UPDATE, hash index: in-place maintenance = rebuild provided no OTHER row is entered under
the old or the new key -/
theorem C15_hash_update_eq_rebuild (cols : List Nat) (sn : Bool) (d : HData) (rows : List Row)
    (i : Nat) (old new : Row) (h : HOk d (hKey cols sn) rows) (hold : rows[i]? = some old)
    (hno : ∀ k, hKey cols sn old = some k → NoOther (hKey cols sn) rows i k)
    (hnn : ∀ k, hKey cols sn new = some k → NoOther (hKey cols sn) rows i k) (k : Key) :
    hGet (hUpd cols sn d old new i) k = hGet (hBuild cols sn (rows.set i new)) k :=
  HOk_ext _ _ _ _ (HOk_upd cols sn d rows i old new h hold hno hnn) (HOk_build cols sn _) k

/-- the hypothesis of `C15_hash_update_eq_rebuild` is needed: if another row holds the new key
(a key-permuting multi-row UPDATE applied row by row) the patched index differs from the
rebuild.  rows (1),(2); position 0 is given key 2 while position 1 still holds it. -/
theorem C15_hash_update_other_holder_counterexample :
    ¬ (∀ k, hGet (hUpd [0] false (hBuild [0] false [[.int 1], [.int 2]]) [.int 1] [.int 2] 0) k
          = hGet (hBuild [0] false ([[.int 1], [.int 2]].set 0 [.int 2])) k) := by
  intro h
  have := h [some (.int 2)]
  revert this
  decide

/-! ### (T2) steps and histories -/

theorem HInv_rebuild (hs : List HIdx) (rows : List Row) : HInv (hRebuildAll hs rows) rows := by
  intro h hm
  simp only [hRebuildAll, List.mem_map] at hm
  obtain ⟨h0, _, rfl⟩ := hm
  exact HOk_build _ _ _

theorem UInv_rebuild (us : List UIdx) (rows : List Row) : UInv (uRebuildAll us rows) rows := by
  intro u hm
  simp only [uRebuildAll, List.mem_map] at hm
  obtain ⟨u0, _, rfl⟩ := hm
  exact UOk_build _ _

theorem snap_logAdd (t : Option Txn) (cs : List Change) (t' : Txn) (h : logAdd t cs = some t') :
    ∃ t0, t = some t0 ∧ t'.snapRows = t0.snapRows ∧ t'.snapH = t0.snapH := by
  cases t with
  | none => simp [logAdd] at h
  | some t0 => simp [logAdd] at h; subst h; exact ⟨t0, rfl, rfl, rfl⟩

theorem snap_logIns (t : Option Txn) (r : Row) (t' : Txn) (h : logIns t r = some t') :
    ∃ t0, t = some t0 ∧ t'.snapRows = t0.snapRows ∧ t'.snapH = t0.snapH :=
  snap_logAdd t _ t' h

/-- recording changes leaves the snapshot part of the invariant alone -/
theorem snapInv_logAdd (t : Option Txn) (cs : List Change)
    (ht : ∀ t0, t = some t0 → HInv t0.snapH t0.snapRows) :
    ∀ t', logAdd t cs = some t' → HInv t'.snapH t'.snapRows := by
  intro t' h
  obtain ⟨t0, h0, h1, h2⟩ := snap_logAdd t cs t' h
  rw [h1, h2]; exact ht t0 h0

theorem inv_insert1 (s : TState) (r : Row) (h : IndexInv s) : IndexInv (insert1 s r) := by
  obtain ⟨hh, hu, ht⟩ := h
  refine ⟨?_, ?_, ?_⟩
  · intro h1 hm
    simp only [insert1, List.mem_map] at hm
    obtain ⟨h0, hm0, rfl⟩ := hm
    exact HOk_push _ _ _ _ _ (hh h0 hm0)
  · intro u1 hm
    simp only [insert1, List.mem_map] at hm
    obtain ⟨u0, hm0, rfl⟩ := hm
    exact UOk_push _ _ _ _ (hu u0 hm0)
  · intro t' htt
    obtain ⟨t0, h0, h1, h2⟩ := snap_logIns _ _ _ htt
    rw [h1, h2]; exact ht t0 h0

theorem inv_insertMany (rs : List Row) (s : TState) (h : IndexInv s) : IndexInv (insertMany s rs) := by
  induction rs generalizing s with
  | nil => exact h
  | cons r rs ih => exact ih _ (inv_insert1 s r h)

/-- what the UPDATE executor guarantees about the list it applies, row by row: the position is
valid, every column not reported as changed is unchanged, and for every constraint index no
other row is entered under the old or the new key (uniqueness held before and validation
excluded a clash) -/
def UpdOk : List Row → List (List Nat × Bool) → List (Nat × Row × List Nat) → Prop
  | _, _, [] => True
  | rows, sigs, (i, new, ch) :: rest =>
    (∃ old, rows[i]? = some old ∧ (∀ c, c ∉ ch → old[c]? = new[c]?) ∧
      ∀ sg ∈ sigs, (∀ k, hKey sg.1 sg.2 old = some k → NoOther (hKey sg.1 sg.2) rows i k) ∧
                   (∀ k, hKey sg.1 sg.2 new = some k → NoOther (hKey sg.1 sg.2) rows i k))
    ∧ UpdOk (rows.set i new) sigs rest

def sig (hs : List HIdx) : List (List Nat × Bool) := hs.map (fun h => (h.cols, h.skipNull))

theorem proj_eq_of_unaffected (h : HIdx) (ch : List Nat) (old new : Row)
    (ha : affected h ch = false) (hc : ∀ c, c ∉ ch → old[c]? = new[c]?) :
    proj h.cols old = proj h.cols new := by
  unfold proj
  apply List.map_congr_left
  intro c hcm
  apply hc
  intro hin
  simp only [affected, List.any_eq_false] at ha
  have := ha c hcm
  simp [hin] at this

theorem updRows_inv (ups : List (Nat × Row × List Nat)) :
    ∀ (rows : List Row) (hs : List HIdx), HInv hs rows → UpdOk rows (sig hs) ups →
      ∀ rows' hs', updRows rows hs ups = some (rows', hs') →
        HInv hs' rows' ∧ sig hs' = sig hs := by
  induction ups with
  | nil =>
    intro rows hs hh _ rows' hs' he
    simp only [updRows, Option.some.injEq, Prod.mk.injEq] at he
    obtain ⟨rfl, rfl⟩ := he
    exact ⟨hh, rfl⟩
  | cons e rest ih =>
    obtain ⟨i, new, ch⟩ := e
    intro rows hs hh hok rows' hs' he
    obtain ⟨⟨old, hold, hch, hkeys⟩, hrest⟩ := hok
    simp only [updRows, hold] at he
    have hsig : sig (hs.map (fun h => if affected h ch then
        { h with data := hUpd h.cols h.skipNull h.data old new i } else h)) = sig hs := by
      unfold sig
      rw [List.map_map]
      apply List.map_congr_left
      intro h _
      simp only [Function.comp]
      split <;> rfl
    have hinv : HInv (hs.map (fun h => if affected h ch then
        { h with data := hUpd h.cols h.skipNull h.data old new i } else h)) (rows.set i new) := by
      intro h1 hm
      simp only [List.mem_map] at hm
      obtain ⟨h0, hm0, rfl⟩ := hm
      have hsg : (h0.cols, h0.skipNull) ∈ sig hs := by
        unfold sig; exact List.mem_map.mpr ⟨h0, hm0, rfl⟩
      obtain ⟨hno, hnn⟩ := hkeys _ hsg
      by_cases ha : affected h0 ch = true
      · simp only [ha, ↓reduceIte]
        exact HOk_upd _ _ _ _ _ _ _ (hh h0 hm0) hold hno hnn
      · simp only [ha, Bool.false_eq_true, ↓reduceIte]
        have hp := proj_eq_of_unaffected h0 ch old new (by simpa using ha) hch
        exact HOk_set_same _ _ _ _ _ _ (hh h0 hm0) hold (by simp [hKey, hp])
    have := ih _ _ hinv (by rw [hsig]; exact hrest) rows' hs' he
    exact ⟨this.1, this.2.trans hsig⟩

theorem updUser_inv (ups : List (Nat × Row × List Nat)) :
    ∀ (us : List UIdx) (rows rows0 : List Row) (hs : List HIdx), UInv us rows →
      (ups.map (fun e => e.1)).Nodup → (∀ e ∈ ups, rows[e.1]? = rows0[e.1]?) →
      ∀ rows' hs', updRows rows hs ups = some (rows', hs') → UInv (updUser us rows0 ups) rows' := by
  induction ups with
  | nil =>
    intro us rows rows0 hs hu _ _ rows' hs' he
    simp only [updRows, Option.some.injEq, Prod.mk.injEq] at he
    obtain ⟨rfl, rfl⟩ := he
    exact hu
  | cons e rest ih =>
    obtain ⟨i, new, ch⟩ := e
    intro us rows rows0 hs hu hnd hsame rows' hs' he
    cases hold : rows[i]? with
    | none => simp [updRows, hold] at he
    | some old =>
      simp only [updRows, hold] at he
      have h0 : rows0[i]? = some old := by
        rw [← hsame (i, new, ch) (by simp)]; exact hold
      simp only [updUser, h0]
      simp only [List.map_cons, List.nodup_cons] at hnd
      apply ih _ (rows.set i new) rows0 _ _ hnd.2 _ rows' hs' he
      · intro u1 hm
        simp only [List.mem_map] at hm
        obtain ⟨u0, hm0, rfl⟩ := hm
        exact UOk_patch _ _ _ _ _ _ (hu u0 hm0) hold
      · intro e hm
        have hne : i ≠ e.1 := by
          intro heq; apply hnd.1; rw [heq]; exact List.mem_map.mpr ⟨e, hm, rfl⟩
        rw [List.getElem?_set_ne hne]
        exact hsame e (by simp [hm])

/-- the condition under which a step is known to preserve the mirror -/
def OpOk (s : TState) : Op → Prop
  | .update ups => (ups.map (fun e => e.1)).Nodup ∧ UpdOk s.rows (sig s.hidx) ups
  | .upsert i new => ∀ old, s.rows[i]? = some old → ∀ h ∈ s.hidx,
      (∀ k, hKey h.cols h.skipNull old = some k → NoOther (hKey h.cols h.skipNull) s.rows i k) ∧
      (∀ k, hKey h.cols h.skipNull new = some k → NoOther (hKey h.cols h.skipNull) s.rows i k)
  | _ => True

theorem HInv_putBack (hs : List HIdx) (rows : List Row) (r : Row) (h : HInv hs rows) :
    HInv (putBack hs rows r).2 (putBack hs rows r).1 := by
  intro h1 hm
  simp only [putBack, List.mem_map] at hm
  obtain ⟨h0, hm0, rfl⟩ := hm
  exact HOk_push _ _ _ _ _ (h h0 hm0)

theorem undoAll_inv (log : List Change) : ∀ (hs : List HIdx) (rows : List Row), HInv hs rows →
    HInv (undoAll hs rows log).2.1 (undoAll hs rows log).1 := by
  induction log with
  | nil => intro hs rows h; exact h
  | cons c rest ih =>
    intro hs rows h
    cases c with
    | ins r =>
      simp only [undoAll]
      split
      · exact ih _ _ (HInv_rebuild _ _)
      · exact h
    | del r =>
      simp only [undoAll]
      exact ih _ _ (HInv_putBack _ _ _ h)
    | upd old new =>
      simp only [undoAll]
      split
      · exact ih _ _ (HInv_putBack _ _ _ (HInv_rebuild _ _))
      · exact h

theorem undoAll_nil (hs : List HIdx) (rows : List Row) : undoAll hs rows [] = (rows, hs, true) := rfl

/-- (T2, one step) every step of the state machine preserves the mirror -/
theorem C15_step_preserves (s : TState) (op : Op) (h : IndexInv s) (hop : OpOk s op) :
    IndexInv (step s op).1 := by
  obtain ⟨hh, hu, ht⟩ := h
  cases op with
  | insert rs => exact inv_insertMany rs s ⟨hh, hu, ht⟩
  | update ups =>
    obtain ⟨hnd, hok⟩ := hop
    simp only [step]
    cases he : updRows s.rows s.hidx ups with
    | none => exact ⟨hh, hu, ht⟩
    | some p =>
      obtain ⟨rows', hs'⟩ := p
      simp only
      refine ⟨(updRows_inv ups _ _ hh hok _ _ he).1, ?_, snapInv_logAdd _ _ ht⟩
      exact updUser_inv ups _ _ _ _ hu hnd (fun _ _ => rfl) _ _ he
  | upsert i new =>
    simp only [step]
    cases hold : s.rows[i]? with
    | none => exact ⟨hh, hu, ht⟩
    | some old =>
      simp only
      refine ⟨?_, ?_, snapInv_logAdd _ _ ht⟩
      · intro h1 hm
        simp only [List.mem_map] at hm
        obtain ⟨h0, hm0, rfl⟩ := hm
        obtain ⟨hno, hnn⟩ := hop old hold h0 hm0
        exact HOk_upd _ _ _ _ _ _ _ (hh h0 hm0) hold hno hnn
      · intro u1 hm
        simp only [List.mem_map] at hm
        obtain ⟨u0, hm0, rfl⟩ := hm
        exact UOk_patch _ _ _ _ _ _ (hu u0 hm0) hold
  | delete ps => exact ⟨HInv_rebuild _ _, UInv_rebuild _ _, snapInv_logAdd _ _ ht⟩
  | truncate =>
    refine ⟨?_, UInv_rebuild _ _, snapInv_logAdd _ _ ht⟩
    intro h1 hm
    simp only [step, List.mem_map] at hm
    obtain ⟨h0, _, rfl⟩ := hm
    exact HOk_nil _
  | replace r =>
    simp only [step]
    apply inv_insert1
    refine ⟨HInv_rebuild _ _, ?_, snapInv_logAdd _ _ ht⟩
    simp only
    split
    · exact hu
    · exact UInv_rebuild _ _
  | createIndex name cols unique =>
    simp only [step]
    split
    · exact ⟨hh, hu, ht⟩
    · refine ⟨hh, ?_, ht⟩
      intro u hm
      simp only [List.mem_append, List.mem_singleton] at hm
      rcases hm with hm | rfl
      · exact hu u hm
      · exact UOk_build _ _
  | dropIndex name =>
    simp only [step]
    split
    · refine ⟨hh, ?_, ht⟩
      intro u hm
      exact hu u (List.mem_filter.mp hm).1
    · exact ⟨hh, hu, ht⟩
  | begin =>
    simp only [step]
    cases htx : s.txn with
    | some t => exact ⟨hh, hu, ht⟩
    | none =>
      refine ⟨hh, hu, ?_⟩
      intro t' h2
      simp only [Option.some.injEq] at h2
      subst h2
      exact hh
  | commit =>
    simp only [step]
    cases htx : s.txn with
    | none => exact ⟨hh, hu, ht⟩
    | some t => exact ⟨hh, hu, by intro t' h2; cases h2⟩
  | rollback =>
    simp only [step]
    cases htx : s.txn with
    | none => exact ⟨hh, hu, ht⟩
    | some t => exact ⟨ht t htx, UInv_rebuild _ _, by intro t' h2; cases h2⟩
  | savepoint n =>
    simp only [step]
    cases htx : s.txn with
    | none => exact ⟨hh, hu, ht⟩
    | some t =>
      refine ⟨hh, hu, ?_⟩
      intro t' h2
      simp only [Option.some.injEq] at h2
      subst h2
      exact ht t htx
  | rollbackTo n =>
    simp only [step]
    cases htx : s.txn with
    | none => exact ⟨hh, hu, ht⟩
    | some t =>
      simp only
      cases hf : findSave t.saves n with
      | none => exact ⟨hh, hu, ht⟩
      | some j =>
        simp only
        cases hsp : t.saves[j]? with
        | none => exact ⟨hh, hu, ht⟩
        | some sp =>
          simp only
          refine ⟨undoAll_inv _ _ _ hh, ?_, ?_⟩
          · simp only
            split
            · rename_i hempty
              have : (List.drop sp.2 t.log).reverse = [] := List.isEmpty_iff.mp hempty
              rw [this, undoAll_nil]; exact hu
            · exact UInv_rebuild _ _
          · intro t' h2
            simp only [Option.some.injEq] at h2
            subst h2
            exact ht t htx
  | release n =>
    simp only [step]
    cases htx : s.txn with
    | none => exact ⟨hh, hu, ht⟩
    | some t =>
      simp only
      cases hf : findSave t.saves n with
      | none => exact ⟨hh, hu, ht⟩
      | some j =>
        refine ⟨hh, hu, ?_⟩
        intro t' h2
        simp only [Option.some.injEq] at h2
        subst h2
        exact ht t htx

/-- the executors' guarantees along a history -/
def HistOk : TState → List Op → Prop
  | _, [] => True
  | s, op :: ops => OpOk s op ∧ HistOk (step s op).1 ops

theorem C15_init (hs : List (List Nat × Bool)) : IndexInv (init hs) := by
  refine ⟨?_, ?_, ?_⟩
  · intro h hm
    simp only [init, List.mem_map] at hm
    obtain ⟨h0, _, rfl⟩ := hm
    exact HOk_nil _
  · intro u hm; simp [init] at hm
  · intro t h; simp [init] at h

/-- (T2) after any history of DML, index DDL, transaction and savepoint operations on a table
every index structure mirrors the table contents -/
theorem C15_history_preserves (ops : List Op) : ∀ (s : TState), IndexInv s → HistOk s ops →
    IndexInv (run s ops) := by
  induction ops with
  | nil => intro s h _; exact h
  | cons op ops ih =>
    intro s h hok
    exact ih _ (C15_step_preserves s op h hok.1) hok.2

/-- histories without UPDATE / ON DUPLICATE KEY UPDATE need no hypothesis at all -/
def NoUpdate : List Op → Prop
  | [] => True
  | .update _ :: _ => False
  | .upsert _ _ :: _ => False
  | _ :: ops => NoUpdate ops

theorem C15_history_without_update (ops : List Op) : ∀ (s : TState), IndexInv s → NoUpdate ops →
    IndexInv (run s ops) := by
  induction ops with
  | nil => intro s h _; exact h
  | cons op ops ih =>
    intro s h hno
    cases op with
    | update _ => simp [NoUpdate] at hno
    | upsert _ _ => simp [NoUpdate] at hno
    | _ => simp only [NoUpdate] at hno; exact ih _ (C15_step_preserves s _ h trivial) hno

/-- the mirror, read as "equal to a rebuild from scratch": hash indexes answer every lookup as
the rebuilt index does, user-defined indexes hold per key the same positions (up to order) -/
theorem C15_mirror_is_rebuild (s : TState) (h : IndexInv s) :
    (∀ hi ∈ s.hidx, ∀ k, hGet hi.data k = hGet (hBuild hi.cols hi.skipNull s.rows) k) ∧
    (∀ u ∈ s.uidx, ∀ k, (uGet u.data k).Perm (uGet (uBuild u.cols s.rows) k)) := by
  constructor
  · intro hi hm k
    exact HOk_ext _ _ _ _ (h.1 hi hm) (HOk_build _ _ _) k
  · intro u hm k
    exact UOk_perm _ _ _ _ (h.2.1 u hm) (UOk_build _ _) k

/-- index-driven equality lookups return the rows a full scan would (as a multiset) -/
theorem C15_index_lookup_is_scan (s : TState) (h : IndexInv s) (u : UIdx) (hm : u ∈ s.uidx)
    (k : Key) (r : Row) :
    r ∈ uLookup u.data s.rows k ↔ r ∈ s.rows.filter (fun x => decide (proj u.cols x = k)) := by
  obtain ⟨_, hmem⟩ := h.2.1 u hm
  simp only [uLookup, List.mem_filterMap, List.mem_filter, decide_eq_true_eq]
  constructor
  · rintro ⟨p, hp, hr⟩
    obtain ⟨x, hx, hfx⟩ := (hmem k p).mp hp
    rw [hx] at hr; cases hr
    exact ⟨List.mem_of_getElem? hx, hfx⟩
  · rintro ⟨hr, hk⟩
    obtain ⟨p, hp⟩ := List.getElem?_of_mem hr
    exact ⟨p, (hmem k p).mpr ⟨r, hp, hk⟩, hp⟩

/-! ### (T3) uniqueness checks -/

/-- a uniqueness check asking a constraint hash index `contains_key` sees exactly the keys
under which some current row is entered -/
theorem C15_hash_uniqueness_check (s : TState) (h : IndexInv s) (hi : HIdx) (hm : hi ∈ s.hidx)
    (k : Key) :
    (hGet hi.data k).isSome = true ↔
      ∃ (p : Nat) (r : Row), s.rows[p]? = some r ∧ hKey hi.cols hi.skipNull r = some k := by
  rw [HOk_contains _ _ _ (h.1 hi hm) k]
  unfold HoldsAt
  rfl

/-- `check_unique_constraints_for_insert` on a user-defined unique index (`contains_key`) sees
exactly the keys of the current rows -/
theorem C15_user_uniqueness_check (s : TState) (h : IndexInv s) (u : UIdx) (hm : u ∈ s.uidx)
    (k : Key) : uGet u.data k ≠ [] ↔ ∃ (p : Nat) (r : Row), s.rows[p]? = some r ∧ proj u.cols r = k := by
  obtain ⟨_, hmem⟩ := h.2.1 u hm
  constructor
  · intro hne
    obtain ⟨p, hp⟩ := List.exists_mem_of_ne_nil _ hne
    exact ⟨p, (hmem k p).mp hp⟩
  · rintro ⟨p, hp⟩ hnil
    have := (hmem k p).mpr hp
    rw [hnil] at this; cases this

/-! ### non-vacuity -/

/-- a table with PRIMARY KEY(0), UNIQUE(1) and a user-defined index on column 1, taken through
inserts, an update of both keys, a delete that shifts positions and a rollback: the hypotheses
of the history theorem hold and the indexes are non-empty -/
example :
    let s := run (init [([0], false), ([1], true)])
      [.createIndex "I" [1] false,
       .insert [[.int 1, .int 10], [.int 2, .null], [.int 3, .int 30]],
       .update [(1, [.int 5, .int 20], [0, 1])],
       .begin, .delete [0], .rollback]
    s.rows = [[.int 1, .int 10], [.int 5, .int 20], [.int 3, .int 30]] ∧
    (s.hidx.map (fun h => h.data.length)) = [3, 3] ∧ (s.uidx.map (fun u => u.data.length)) = [3] := by
  decide

example : UpdOk [[.int 1, .int 10], [.int 2, .null]] [([0], false), ([1], true)]
    [(1, [.int 5, .int 20], [0, 1])] := by
  refine ⟨⟨[.int 2, .null], rfl, ?_, ?_⟩, trivial⟩
  · intro c hc
    match c with
    | 0 => simp at hc
    | 1 => simp at hc
    | (n + 2) => rfl
  · intro sg hsg
    simp only [List.mem_cons, List.not_mem_nil, or_false] at hsg
    rcases hsg with rfl | rfl
    · constructor
      · intro k hk q hq hh
        obtain ⟨x, hx, hfx⟩ := hh
        simp [hKey, proj] at hk; subst hk
        match q with
        | 0 => simp [hKey, proj] at hx hfx; subst hx; simp at hfx
        | 1 => exact hq rfl
        | (n + 2) => simp at hx
      · intro k hk q hq hh
        obtain ⟨x, hx, hfx⟩ := hh
        simp [hKey, proj] at hk; subst hk
        match q with
        | 0 => simp [hKey, proj] at hx hfx; subst hx; simp at hfx
        | 1 => exact hq rfl
        | (n + 2) => simp at hx
    · constructor
      · intro k hk; simp [hKey, proj, hasNull] at hk
      · intro k hk q hq hh
        obtain ⟨x, hx, hfx⟩ := hh
        simp [hKey, proj, hasNull] at hk; subst hk
        match q with
        | 0 => simp [hKey, proj, hasNull] at hx hfx; subst hx; simp at hfx
        | 1 => exact hq rfl
        | (n + 2) => simp at hx

end VibeProof.C15
