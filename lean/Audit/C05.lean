import VibeProof.Props.C05
#print axioms VibeProof.C05.flatMap_transpose
#print axioms VibeProof.C05.C05_hash_inner_eq_nested
#print axioms VibeProof.C05.C05_semi_eq_in
#print axioms VibeProof.C05.C05_semi_eq_exists
#print axioms VibeProof.C05.C05_anti_eq_not_exists
#print axioms VibeProof.C05.C05_anti_eq_not_in_partial
#print axioms VibeProof.C05.C05_anti_not_in_counterexample
#print axioms VibeProof.C05.C05_cross_swap
#print axioms VibeProof.C05.C05_inner_join_is_filtered_cross
#print axioms VibeProof.C05.C05_cross_assoc
#print axioms VibeProof.C05.C05_pushdown_left
#print axioms VibeProof.C05.C05_pushdown_right
#print axioms VibeProof.C05.C05_conjunct_split
#print axioms VibeProof.C05.C05_sql_equi_join_is_nested
#print axioms VibeProof.C05.C05_hash_join_is_sql_join
#print axioms VibeProof.C05.C05_derived_wrap_identity
