//! scratch: script runner for probing DML behaviour (removed when done)
//! lines: SQL | `@scan t` | `@trig name BEFORE|AFTER INSERT|UPDATE|DELETE|UPDATEOF:c1,c2 t ROW|STMT [WHEN <expr>] :: body`
use vharness::*;
use vibesql_ast::*;

fn when_expr(s: &str) -> Box<Expression> {
    match vibesql_parser::Parser::parse_sql(&format!("SELECT {}", s)).unwrap() {
        Statement::Select(sel) => match &sel.select_list[0] {
            SelectItem::Expression { expr, .. } => Box::new(expr.clone()),
            _ => panic!(),
        },
        _ => panic!(),
    }
}

fn main() {
    let path = std::env::args().nth(1).unwrap();
    let text = std::fs::read_to_string(path).unwrap();
    let mut db = Db::new();
    for line in text.lines() {
        let line = line.trim();
        if line.is_empty() || line.starts_with('#') {
            continue;
        }
        if line == "@new" {
            db = Db::new();
            println!("---- new db");
            continue;
        }
        if let Some(t) = line.strip_prefix("@scan ") {
            let rows = db.scan(t).map(|r| canon::rows_seq(&r));
            let tb = db.db.get_table(t);
            let pk = tb.and_then(|t| t.primary_key_index().map(|m| {
                let mut v: Vec<String> = m.iter().map(|(k, i)| format!("{}->{}", canon::row(k), i)).collect();
                v.sort();
                v.join(",")
            }));
            let uq = tb.map(|t| t.unique_indexes().iter().map(|m| {
                let mut v: Vec<String> = m.iter().map(|(k, i)| format!("{}->{}", canon::row(k), i)).collect();
                v.sort();
                v.join(",")
            }).collect::<Vec<_>>());
            let am = tb.map(|t| t.is_in_append_mode());
            println!("  scan {} = {:?} pk={:?} uq={:?} append={:?}", t, rows, pk, uq, am);
            continue;
        }
        if let Some(rest) = line.strip_prefix("@trig ") {
            let (head, body) = rest.split_once("::").unwrap();
            let (head, when) = match head.split_once(" WHEN ") {
                Some((h, w)) => (h, Some(when_expr(w.trim()))),
                None => (head, None),
            };
            let w: Vec<&str> = head.split_whitespace().collect();
            let event = match w[2] {
                "INSERT" => TriggerEvent::Insert,
                "UPDATE" => TriggerEvent::Update(None),
                "DELETE" => TriggerEvent::Delete,
                o => TriggerEvent::Update(Some(o.strip_prefix("UPDATEOF:").unwrap().split(',').map(|s| s.to_string()).collect())),
            };
            let stmt = CreateTriggerStmt {
                trigger_name: w[0].to_string(),
                timing: if w[1] == "BEFORE" { TriggerTiming::Before } else { TriggerTiming::After },
                event,
                table_name: w[3].to_string(),
                granularity: if w[4] == "ROW" { TriggerGranularity::Row } else { TriggerGranularity::Statement },
                when_condition: when,
                triggered_action: TriggerAction::RawSql(body.trim().to_string()),
            };
            let r = vibesql_executor::TriggerExecutor::create_trigger(&mut db.db, &stmt);
            println!("  trig {} => {:?}", w[0], r.map(|_| ()));
            continue;
        }
        let o = db.exec(line);
        println!("{} \n    => {}", line, o.brief().chars().take(300).collect::<String>());
    }
}
