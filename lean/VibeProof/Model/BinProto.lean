import VibeProof.Model.Proto
import VibeProof.Model.BinCodec
import VibeProof.Model.BinTypes
/-
Protocol glue for the C18 / C20 drivers: s-expressions <-> BinCodec values / outcomes, and the
field layout of a parsed file (for structure-aware mutation).  Not part of any theorem.
-/
namespace VibeProof.BinProto
open VibeProof VibeProof.Proto VibeProof.BinCodec

def hx (b : Bytes) : Sx := .atom (if b.isEmpty then "-" else bytesToHex b)

def unhx (s : String) : Option Bytes := if s = "-" then some [] else hexToBytes s

def kindName : TKind → String
  | .date => "date" | .time => "time" | .timestamp => "timestamp" | .interval => "interval"

def encVal : BVal → Sx
  | .null => .list [.atom "null"]
  | .smallint n => .list [.atom "smallint", sxInt n]
  | .integer n => .list [.atom "integer", sxInt n]
  | .bigint n => .list [.atom "bigint", sxInt n]
  | .unsigned n => .list [.atom "unsigned", sxNat n]
  | .numeric n => .list [.atom "numeric", sxNat n]
  | .float n => .list [.atom "float", sxNat n]
  | .real n => .list [.atom "real", sxNat n]
  | .double n => .list [.atom "double", sxNat n]
  | .character s => .list [.atom "character", hx s]
  | .varchar s => .list [.atom "varchar", hx s]
  | .boolean b => .list [.atom "boolean", sxBool b]
  | .temporal k s => .list [.atom (kindName k), hx s]

def decVal : Sx → Option BVal
  | .list [.atom "null"] => some .null
  | .list [.atom "smallint", n] => n.int?.map .smallint
  | .list [.atom "integer", n] => n.int?.map .integer
  | .list [.atom "bigint", n] => n.int?.map .bigint
  | .list [.atom "unsigned", n] => n.nat?.map .unsigned
  | .list [.atom "numeric", n] => n.nat?.map .numeric
  | .list [.atom "float", n] => n.nat?.map .float
  | .list [.atom "real", n] => n.nat?.map .real
  | .list [.atom "double", n] => n.nat?.map .double
  | .list [.atom "character", .atom s] => (unhx s).map .character
  | .list [.atom "varchar", .atom s] => (unhx s).map .varchar
  | .list [.atom "boolean", .atom b] => some (.boolean (b = "1"))
  | .list [.atom "date", .atom s] => (unhx s).map (.temporal .date)
  | .list [.atom "time", .atom s] => (unhx s).map (.temporal .time)
  | .list [.atom "timestamp", .atom s] => (unhx s).map (.temporal .timestamp)
  | .list [.atom "interval", .atom s] => (unhx s).map (.temporal .interval)
  | _ => none

def encErr : Err → Sx
  | .eof => .atom "eof"
  | .badTag b => .list [.atom "badtag", sxNat b]
  | .badUtf8 => .atom "badutf8"
  | .badMagic => .atom "badmagic"
  | .badVersion => .atom "badversion"
  | .badDirection b => .list [.atom "baddirection", sxNat b]
  | .badTiming => .atom "badtiming"
  | .badEvent => .atom "badevent"
  | .badGranularity => .atom "badgranularity"
  | .badAction => .atom "badaction"
  | .badType => .atom "badtype"
  | .tableNotFound => .atom "tablenotfound"
  | .duplicateName => .atom "duplicatename"
  | .unsupportedWhen => .atom "unsupportedwhen"
  | .badExprTag b => .list [.atom "badexprtag", sxNat b]
  | .badEnum b => .list [.atom "badenum", sxNat b]
  | .notImplemented => .atom "notimplemented"
  | .depthExceeded => .atom "depthexceeded"
  | .zeroColumnRows => .atom "zerocolumnrows"
  | .badTemporal => .atom "badtemporal"
  | .columnNotFound => .atom "columnnotfound"
  | .panic => .atom "PANIC"

/-- the model's `parse_data_type` verdict on a catalog type text: `none`, a canonical type name,
    or `?` when the text is not ASCII (Rust upper-cases with Unicode rules) -/
def typeCanon (t : Bytes) : String :=
  if t.any (fun b => b ≥ 0x80) then "?" else
  match BinTypes.parseDataType (t.map (fun b => Char.ofNat b.toNat)) with
  | none => "none"
  | some d => d.canon

def maxLedger (l : List Nat) : Nat := l.foldl max 0

def encCatalog (c : Catalog) : List Sx :=
  [ .list (.atom "schemas" :: c.schemas.map hx),
    .list (.atom "roles" :: c.roles.map hx),
    .list (.atom "tables" :: c.tables.map (fun t =>
      .list (hx t.name :: t.cols.map (fun c => .list [hx c.name, hx c.typeStr, sxBool c.nullable, .atom (typeCanon c.typeStr)])))),
    .list (.atom "indexes" :: c.indexes.map (fun i =>
      .list (hx i.name :: hx i.table :: sxBool i.unique ::
        i.cols.map (fun c => .list [hx c.name, sxBool c.desc,
          match c.pfx with | some n => sxNat n | none => .atom "none"])))),
    .list (.atom "triggers" :: c.triggers.map (fun t =>
      .list [hx t.name, hx t.table, sxNat t.timing, sxNat t.event, sxNat t.granularity, hx t.sql,
        match t.when with
        | some w => .list [sxNat w.nodes, sxNat w.depth]
        | none => .atom "none"])) ]

/-- string components of the keys of every rebuilt index (or the rebuild's error) -/
def encBuilt (f : FileContent) : Sx :=
  match rebuildIndexes f with
  | .error e => .list [.atom "built-err", encErr e]
  | .ok bs => .list (.atom "built" :: bs.map (fun b =>
      .list (hx b.name :: b.keys.map (fun k => .list (k.filterMap (fun v => match v with
        | .varchar s | .character s => some (hx s)
        | _ => none))))))

def encFile (f : FileContent) : List Sx :=
  encCatalog f.catalog ++ [encBuilt f] ++
  [ .list (.atom "data" :: f.data.map (fun t =>
      .list (hx t.name :: t.rows.map (fun r => .list (r.map encVal))))) ]

/-! field layout of a file (kind, bytes), in writing order; concatenation = `saveFile` -/

def fStr (s : Bytes) : List (String × Bytes) := [("len", leBytes 4 s.length), ("body", s)]

def fVal (v : BVal) : List (String × Bytes) :=
  ("tag", [v.tag.toByte]) ::
  (match v with
   | .character s | .varchar s | .temporal _ s => fStr s
   | .boolean b => [("flag", wbool b)]
   | v => [("body", writeBody v)])

def fCounted (f : α → List (String × Bytes)) (xs : List α) : List (String × Bytes) :=
  ("count", leBytes 4 xs.length) :: (xs.map f).flatten

def fTrig (t : TrigDef) : List (String × Bytes) :=
  fStr t.name ++ fStr t.table ++ [("flag", [UInt8.ofNat t.timing]), ("flag", [UInt8.ofNat t.event])]
    ++ (if t.event = 3 then fCounted fStr t.eventCols else [])
    ++ [("flag", [UInt8.ofNat t.granularity]), ("flag", [0]), ("flag", [0])] ++ fStr t.sql

def fFile (f : FileContent) : List (String × Bytes) :=
  [("magic", magicBytes), ("version", [UInt8.ofNat Generated.binVersion]), ("body", [0]),
   ("body", List.replicate Generated.binReservedLen 0)]
  ++ fCounted fStr f.catalog.schemas ++ fCounted fStr f.catalog.roles
  ++ fCounted (fun t => fStr t.name ++ fCounted (fun c => fStr c.name ++ [("typelen", leBytes 4 c.typeStr.length), ("type", c.typeStr)] ++ [("flag", wbool c.nullable)]) t.cols) f.catalog.tables
  ++ fCounted (fun i => fStr i.name ++ fStr i.table ++ [("flag", wbool i.unique)]
        ++ fCounted (fun c => fStr c.name ++ [("flag", [dirByte c])]
            ++ (match c.pfx with | some n => [("prefix", leBytes 8 n)] | none => [])) i.cols) f.catalog.indexes
  ++ fCounted fTrig f.catalog.triggers
  ++ (f.data.map (fun t => fStr t.name ++ [("count", leBytes 8 t.rows.length)]
        ++ (t.rows.map (fun r => (r.map fVal).flatten)).flatten)).flatten

/-- (kind offset length) of every field with a non-empty encoding -/
def layout (fs : List (String × Bytes)) : List Sx :=
  let rec go (off : Nat) : List (String × Bytes) → List Sx
    | [] => []
    | (k, b) :: r =>
      if b.isEmpty then go off r
      else .list [.atom k, sxNat off, sxNat b.length] :: go (off + b.length) r
  go 0 fs

/-- shared request handler of drv_c18 and drv_c20 -/
def handle : List Sx → Sx
  | [.atom "encval", v] =>
    match decVal v with
    | some v => .list [.atom "bytes", hx (writeValue v), sxBool (decide v.WF)]
    | none => .atom "bad-request"
  | [.atom "decval", .atom h] =>
    match unhx h with
    | some b =>
      let o := readValue b
      match o.res with
      | .ok (v, rest) => .list [.atom "ok", encVal v, sxNat rest.length, sxNat (maxLedger o.ledger)]
      | .error e => .list [.atom "err", encErr e, sxNat (maxLedger o.ledger)]
    | none => .atom "bad-request"
  | [.atom "load", .atom h] =>
    match unhx h with
    | some b =>
      let o := loadFile b
      match o.res with
      | .ok (f, rest) =>
        .list ([.atom "ok", sxNat rest.length, sxNat (maxLedger o.ledger)] ++ encFile f)
      | .error e => .list [.atom "err", encErr e, sxNat (maxLedger o.ledger)]
    | none => .atom "bad-request"
  | [.atom "layout", .atom h] =>
    match unhx h with
    | some b =>
      match (loadFile b).res with
      | .ok (f, rest) =>
        let fs := fFile f
        let bytes := (fs.map (·.2)).flatten
        if bytes ++ rest == b then .list (.atom "layout" :: layout fs)
        else .atom "layout-mismatch"
      | .error e => .list [.atom "err", encErr e]
    | none => .atom "bad-request"
  | [.atom "sections", .atom h] =>
    -- byte offsets at which each section of the catalog ends (header, schemas, roles, tables,
    -- indexes, triggers), as far as the file can be read
    match unhx h with
    | some b =>
      let step {α : Type} (rd : Reader α) (st : List Sx × Option Bytes) : List Sx × Option Bytes :=
        match st with
        | (acc, some inp) =>
          match (rd inp).res with
          | .ok (_, rest) => (acc ++ [sxNat (b.length - rest.length)], some rest)
          | .error _ => (acc, none)
        | st => st
      let st : List Sx × Option Bytes := ([], some b)
      let st := step readHeader st
      let st := step (readCounted readString) st
      let st := step (readCounted readString) st
      let st := step (readCounted readTableDef) st
      let st := step (readCounted readIdxDef) st
      let st := step (readCounted readTrig) st
      .list (.atom "sections" :: st.1)
    | none => .atom "bad-request"
  | [.atom "readexpr", .atom h] =>
    match unhx h with
    | some b =>
      let o := readExpression b
      match o.res with
      | .ok (e, rest) => .list [.atom "ok", sxNat e.nodes, sxNat e.depth, sxNat rest.length]
      | .error e => .list [.atom "err", encErr e]
    | none => .atom "bad-request"
  | [.atom "parsetype", .atom h] =>
    match unhx h with
    | some b => .list [.atom "type", .atom (typeCanon b)]
    | none => .atom "bad-request"
  | [.atom "oldstring", .atom h] =>
    match unhx h with
    | some b => .list [.atom "ledger", sxNat (maxLedger (readStringOld b).ledger),
                       sxNat (maxLedger (readString b).ledger)]
    | none => .atom "bad-request"
  | _ => .atom "bad-request"

end VibeProof.BinProto
