import VibeProof.Model.TextCodec
open VibeProof VibeProof.Proto VibeProof.Text VibeProof.TextCodec

/-- `(render S)` → hex of the quoted literal; `(lexstr T)` → `(ok content rest)`;
`(split T)` → `(stmts S…)`; `(scan T)` → `(pieces …)`; `(lit ty V)` → `(ok V)` / `(err kind)` -/
def handle : List Sx → Sx
  | [.atom "render", s] =>
    match decChars s with
    | some cs => sxChars (renderStr cs)
    | none => .atom "bad-request"
  | [.atom "lexstr", t] =>
    match decChars t with
    | some cs =>
      match lexString cs with
      | .ok (s, r) => .list [.atom "ok", sxChars s, sxChars r]
      | .error e => encLexErr e
    | none => .atom "bad-request"
  | [.atom "split", t] =>
    match decChars t with
    | some cs => .list (.atom "stmts" :: (parseSqlStatements cs).map sxChars)
    | none => .atom "bad-request"
  | [.atom "scan", t] =>
    match decChars t with
    | some cs => encScan (scan cs)
    | none => .atom "bad-request"
  | [.atom "lit", ty, v] =>
    match decTy ty, decVal v with
    | some ty, some v =>
      match Lit.load fitsI64 fitsI16 ty (Lit.render v) with
      | .ok v' => .list [.atom "ok", encVal v']
      | .error e => encLoadErr e
    | _, _ => .atom "bad-request"
  | _ => .atom "bad-request"

def main : IO Unit := runDriver handle
