//! C19 — SQL dump save/load round-trips table contents.
//!
//! Real code under test: `Database::save_sql_dump` (storage/persistence/save.rs),
//! `vibesql_storage::parse_sql_statements` (persistence/load.rs), `vibesql_executor::load_sql_dump`
//! (executor/persistence.rs → parser → insert/defaults.rs → insert/validation.rs), `Lexer`.
//!
//! Streams:
//!  quote    model `renderStr`/`lexString` vs the writer's literal (taken from a real dump) and the real lexer
//!  split    model `parseSqlStatements` vs `parse_sql_statements` on real dumps and on adversarial texts
//!  scan     model coarse scanner vs the real lexer (string / delimited-identifier boundaries)
//!  literal  model `Lit.load ∘ Lit.render` vs dump+load of a one-cell table, per (column type, value)
//!  db       direct oracle: random databases over the supported column types, dump, load, compare
use serde_json::json;
use vharness::sx::hex_str;
use vharness::*;
use vibesql_catalog::{ColumnSchema, TableSchema};
use vibesql_parser::{Lexer, Token};
use vibesql_storage::{Database, Row};
use vibesql_types::{DataType, Date, SqlValue, Time, Timestamp};

// ---------------------------------------------------------------- values <-> model encoding

fn canon_num(neg: bool, int: &str, frac: &str) -> String {
    let zero = int.chars().all(|c| c == '0') && frac.chars().all(|c| c == '0');
    // -0 and 0 are the same SQL value; the sign of a zero is not compared (stated assumption)
    let neg = neg && !zero;
    format!("(num {} {} {})", if neg { 1 } else { 0 }, hex_str(int), hex_str(frac))
}

fn dec_text(t: &str) -> String {
    let (neg, body) = match t.strip_prefix('-') {
        Some(b) => (true, b),
        None => (false, t),
    };
    let (i, f) = match body.split_once('.') {
        Some((i, f)) => (i, f),
        None => (body, ""),
    };
    canon_num(neg, i, f)
}

fn enc_int(i: i128) -> String {
    format!("(int {} {})", if i < 0 { 1 } else { 0 }, hex_str(&i.unsigned_abs().to_string()))
}

fn enc_val(v: &SqlValue) -> String {
    match v {
        SqlValue::Null => "null".into(),
        SqlValue::Integer(i) | SqlValue::Bigint(i) => enc_int(*i as i128),
        SqlValue::Smallint(i) => enc_int(*i as i128),
        SqlValue::Unsigned(u) => enc_int(*u as i128),
        SqlValue::Numeric(f) => {
            if f.is_nan() {
                "numnan".into()
            } else if f.is_infinite() {
                format!("(numinf {})", if *f < 0.0 { 1 } else { 0 })
            } else {
                dec_text(&f.to_string())
            }
        }
        SqlValue::Float(f) | SqlValue::Real(f) => {
            if f.is_nan() {
                "nan".into()
            } else if f.is_infinite() {
                format!("(inf {})", if *f < 0.0 { 1 } else { 0 })
            } else {
                dec_text(&f.to_string())
            }
        }
        SqlValue::Double(f) => {
            if f.is_nan() {
                "nan".into()
            } else if f.is_infinite() {
                format!("(inf {})", if *f < 0.0 { 1 } else { 0 })
            } else {
                dec_text(&f.to_string())
            }
        }
        SqlValue::Character(s) | SqlValue::Varchar(s) => format!("(str {})", hex_str(s)),
        SqlValue::Boolean(b) => format!("(bool {})", if *b { 1 } else { 0 }),
        SqlValue::Date(d) => format!("(date {})", hex_str(&d.to_string())),
        SqlValue::Time(t) => format!("(time {})", hex_str(&t.to_string())),
        SqlValue::Timestamp(t) => format!("(timestamp {})", hex_str(&t.to_string())),
        SqlValue::Interval(i) => format!("(interval {})", hex_str(&i.to_string())),
    }
}

/// canonical form of a model reply value `(int n ds)` / `(num n i f)` (sign of zero dropped)
fn canon_model_val(sx: &Sx) -> String {
    if let Some(l) = sx.as_list() {
        let a = |i: usize| l.get(i).and_then(|x| x.as_atom()).unwrap_or("");
        let un = |i: usize| sx::unhex_str(a(i)).unwrap_or_default();
        match a(0) {
            "num" => return canon_num(a(1) == "1", &un(2), &un(3)),
            "int" => {
                let ds = un(2);
                let zero = ds.chars().all(|c| c == '0');
                return format!("(int {} {})", if a(1) == "1" && !zero { 1 } else { 0 }, hex_str(&ds));
            }
            _ => {}
        }
    }
    sx.to_string()
}

fn canon_real_val(v: &SqlValue) -> String {
    canon_model_val(&Sx::parse(&enc_val(v)).unwrap())
}

fn ty_atom(dt: &DataType) -> Option<&'static str> {
    Some(match dt {
        DataType::Integer => "integer",
        DataType::Smallint => "smallint",
        DataType::Bigint => "bigint",
        DataType::Numeric { .. } => "numeric",
        DataType::Float { .. } => "float",
        DataType::Real => "real",
        DataType::DoublePrecision => "double",
        DataType::Varchar { .. } => "varchar",
        DataType::Character { .. } => "character",
        DataType::Boolean => "boolean",
        DataType::Date => "date",
        DataType::Time { .. } => "time",
        DataType::Timestamp { .. } => "timestamp",
        _ => return None,
    })
}

fn same_value(a: &SqlValue, b: &SqlValue) -> bool {
    use SqlValue as V;
    let feq = |x: f64, y: f64| x == y || (x.is_nan() && y.is_nan());
    match (a, b) {
        (V::Float(x), V::Float(y)) | (V::Real(x), V::Real(y)) => feq(*x as f64, *y as f64),
        (V::Double(x), V::Double(y)) | (V::Numeric(x), V::Numeric(y)) => feq(*x, *y),
        (V::Null, V::Null) => true,
        _ => std::mem::discriminant(a) == std::mem::discriminant(b) && format!("{:?}", a) == format!("{:?}", b),
    }
}

fn is_special(v: &SqlValue) -> bool {
    match v {
        SqlValue::Float(f) | SqlValue::Real(f) => !f.is_finite(),
        SqlValue::Double(f) | SqlValue::Numeric(f) => !f.is_finite(),
        _ => false,
    }
}

// ---------------------------------------------------------------- databases

#[derive(Clone, Debug)]
struct Tbl {
    name: String,
    cols: Vec<(String, DataType, bool)>,
    rows: Vec<Vec<SqlValue>>,
}

fn build(tables: &[Tbl]) -> Result<Database, String> {
    let mut db = Database::new();
    for t in tables {
        let cols = t.cols.iter().map(|(n, d, nl)| ColumnSchema::new(n.clone(), d.clone(), *nl)).collect();
        db.create_table(TableSchema::new(t.name.clone(), cols)).map_err(|e| format!("create_table: {:?}", e))?;
        for r in &t.rows {
            db.insert_row(&t.name, Row::new(r.clone())).map_err(|e| format!("insert_row: {:?}", e))?;
        }
    }
    Ok(db)
}

fn describe(tables: &[Tbl]) -> String {
    let mut s = String::new();
    for t in tables {
        s.push_str(&format!("table {} {:?}\n", t.name, t.cols));
        for r in &t.rows {
            s.push_str(&format!("  row {:?}\n", r));
        }
    }
    s
}

enum RoundTrip {
    Same,
    /// the dump text, what differs
    Differs(String, String),
}

/// the direct oracle: dump, load, compare columns and rows of every table
fn round_trip(tables: &[Tbl], path: &str) -> RoundTrip {
    let db = match build(tables) {
        Ok(d) => d,
        Err(e) => return RoundTrip::Differs(String::new(), format!("harness could not build the database: {}", e)),
    };
    if let Err(e) = db.save_sql_dump(path) {
        return RoundTrip::Differs(String::new(), format!("save_sql_dump failed: {:?}", e));
    }
    let text = std::fs::read_to_string(path).unwrap_or_default();
    let p = path.to_string();
    let loaded = std::panic::catch_unwind(move || vibesql_executor::load_sql_dump(&p));
    let db2 = match loaded {
        Ok(Ok(d)) => d,
        Ok(Err(e)) => return RoundTrip::Differs(text, format!("load_sql_dump failed: {}", e)),
        Err(p) => return RoundTrip::Differs(text, format!("load_sql_dump panicked: {}", engine::panic_text(p))),
    };
    for t in tables {
        let t2 = match db2.get_table(&t.name) {
            Some(t2) => t2,
            None => return RoundTrip::Differs(text, format!("table {} missing after load", t.name)),
        };
        let cols2: Vec<(String, DataType, bool)> = t2.schema.columns.iter().map(|c| (c.name.clone(), c.data_type.clone(), c.nullable)).collect();
        if cols2 != t.cols {
            return RoundTrip::Differs(text, format!("columns of {} differ: saved {:?} loaded {:?}", t.name, t.cols, cols2));
        }
        let rows2: Vec<Vec<SqlValue>> = t2.scan().iter().map(|r| r.values.clone()).collect();
        // multiset comparison (order is not part of the property)
        let mut unmatched: Vec<&Vec<SqlValue>> = rows2.iter().collect();
        for r in &t.rows {
            match unmatched.iter().position(|r2| r2.len() == r.len() && r.iter().zip(r2.iter()).all(|(a, b)| same_value(a, b))) {
                Some(i) => {
                    unmatched.swap_remove(i);
                }
                None => return RoundTrip::Differs(text, format!("row {:?} of {} not found after load; loaded rows {:?}", r, t.name, rows2)),
            }
        }
        if !unmatched.is_empty() {
            return RoundTrip::Differs(text, format!("extra rows in {} after load: {:?}", t.name, unmatched));
        }
    }
    if db2.catalog.list_tables().len() != tables.len() {
        return RoundTrip::Differs(text, format!("loaded database has tables {:?}", db2.catalog.list_tables()));
    }
    RoundTrip::Same
}

// ---------------------------------------------------------------- generators

const NASTY: &[&str] = &[
    "'", "''", "\\", "\\'", ";", "\n", "\r\n", "\n-- ", "--", "-- x", "\"", "`", " ", "\t", "?", ",", "(", ")", "é", "漢", "😀", "\u{a0}", "\u{2028}",
    "a", "B", "0", "NULL", "x'y", "); DROP TABLE T; --", "\n\n", "\\\\", "\\n", "%", "_",
];

fn nasty_string(r: &mut Rng, max_pieces: u64) -> String {
    let n = r.below(max_pieces + 1);
    let mut s = String::new();
    for _ in 0..n {
        s.push_str(*r.pick(NASTY));
    }
    s
}

fn has_special(s: &str) -> bool {
    s.chars().any(|c| matches!(c, '\'' | '\\' | ';' | '\n' | '\r' | '"')) || s.contains("--")
}

fn supported_types() -> Vec<DataType> {
    vec![
        DataType::Integer,
        DataType::Smallint,
        DataType::Bigint,
        DataType::Numeric { precision: 18, scale: 4 },
        DataType::Float { precision: 24 },
        DataType::Real,
        DataType::DoublePrecision,
        DataType::Varchar { max_length: Some(400) },
        DataType::Varchar { max_length: None },
        DataType::Character { length: 6 },
        DataType::Boolean,
        DataType::Date,
        DataType::Time { with_timezone: false },
        DataType::Timestamp { with_timezone: false },
        DataType::Timestamp { with_timezone: true },
    ]
}

fn gen_f64(r: &mut Rng, allow_special: bool) -> f64 {
    match r.below(if allow_special { 14 } else { 11 }) {
        0 => 0.0,
        1 => -0.0,
        2 => r.range(-1000, 1000) as f64,
        3 => r.range(-100000, 100000) as f64 / 64.0,
        4 => f64::from_bits(r.next()),
        5 => *r.pick(&[f64::MAX, f64::MIN, f64::MIN_POSITIVE, 5e-324, 1e300, -1e-300, 9007199254740993.0, 1e19, -9.223372036854775808e18, 0.1, -2.5]),
        6 => (r.range(-9, 9) as f64) * 10f64.powi(r.range(-30, 30) as i32),
        7 => ((r.next() as i64) >> 1) as f64,
        8 => r.range(-999999, 999999) as f64 / 1000.0,
        9 => 1.0 / (r.range(1, 1000) as f64),
        10 => -(r.range(1, 1 << 40) as f64) / 3.0,
        11 => f64::NAN,
        12 => f64::INFINITY,
        _ => f64::NEG_INFINITY,
    }
}

fn fix_nan(f: f64, allow_special: bool) -> f64 {
    if !allow_special && !f.is_finite() {
        1.5
    } else {
        f
    }
}

fn gen_value(r: &mut Rng, dt: &DataType, nullable: bool, allow_special: bool) -> SqlValue {
    if nullable && r.chance(1, 8) {
        return SqlValue::Null;
    }
    match dt {
        DataType::Integer | DataType::Bigint => {
            let i = match r.below(6) {
                0 => *r.pick(&[i64::MIN, i64::MAX, i64::MIN + 1, 0, -1, 1, i32::MIN as i64, i32::MAX as i64 + 1]),
                1 => r.range(-100, 100),
                2 => r.next() as i64,
                _ => r.range(-1_000_000_000_000, 1_000_000_000_000),
            };
            if *dt == DataType::Integer {
                SqlValue::Integer(i)
            } else {
                SqlValue::Bigint(i)
            }
        }
        DataType::Smallint => SqlValue::Smallint(match r.below(4) {
            0 => *r.pick(&[i16::MIN, i16::MAX, 0, -1]),
            _ => r.range(i16::MIN as i64, i16::MAX as i64) as i16,
        }),
        DataType::Numeric { .. } => SqlValue::Numeric(fix_nan(gen_f64(r, allow_special), allow_special)),
        DataType::Float { .. } => SqlValue::Float(fix_nan(gen_f64(r, allow_special), allow_special) as f32).clone(),
        DataType::Real => SqlValue::Real(fix_nan(gen_f64(r, allow_special), allow_special) as f32),
        DataType::DoublePrecision => SqlValue::Double(fix_nan(gen_f64(r, allow_special), allow_special)),
        DataType::Varchar { max_length } => {
            let mut s = nasty_string(r, 6);
            let cap = max_length.unwrap_or(255);
            if s.chars().count() > cap {
                s = s.chars().take(cap).collect();
            }
            SqlValue::Varchar(s)
        }
        DataType::Character { length } => {
            // a CHAR(n) value is exactly n characters (blank padded)
            let s: String = nasty_string(r, 3).chars().take(*length).collect();
            let pad = *length - s.chars().count();
            SqlValue::Character(format!("{}{}", s, " ".repeat(pad)))
        }
        DataType::Boolean => SqlValue::Boolean(r.chance(1, 2)),
        DataType::Date => SqlValue::Date(gen_date(r)),
        DataType::Time { .. } => SqlValue::Time(gen_time(r)),
        DataType::Timestamp { .. } => SqlValue::Timestamp(Timestamp::new(gen_date(r), gen_time(r))),
        _ => SqlValue::Null,
    }
}

fn gen_date(r: &mut Rng) -> Date {
    let y = *r.pick(&[1, 1970, 1999, 2000, 2024, 9999, 1582]);
    let m = r.range(1, 12) as u8;
    let d = r.range(1, 28) as u8;
    Date::new(y, m, d).unwrap_or_else(|_| Date::new(2000, 1, 1).unwrap())
}

fn gen_time(r: &mut Rng) -> Time {
    let ns = *r.pick(&[0u32, 0, 500_000_000, 123_456_789, 1, 999_999_999, 120_000]);
    Time::new(r.range(0, 23) as u8, r.range(0, 59) as u8, r.range(0, 59) as u8, ns).unwrap()
}

fn gen_db(r: &mut Rng, allow_special: bool) -> Vec<Tbl> {
    let types = supported_types();
    let nt = r.range(1, 3) as usize;
    let mut out = vec![];
    for ti in 0..nt {
        let nc = r.range(1, 5) as usize;
        let mut cols = vec![];
        for ci in 0..nc {
            cols.push((format!("C{}", ci), r.pick(&types).clone(), r.chance(3, 4)));
        }
        let nr = match r.below(8) {
            0 => 0,
            1 => 1,
            _ => r.range(2, 9) as usize,
        };
        let rows = (0..nr).map(|_| cols.iter().map(|(_, d, nl)| gen_value(r, d, *nl, allow_special)).collect()).collect();
        out.push(Tbl { name: format!("T{}", ti), cols, rows });
    }
    out
}

// ---------------------------------------------------------------- streams

fn tokens_of(s: &str) -> Result<Vec<Token>, String> {
    let owned = s.to_string();
    match std::panic::catch_unwind(move || Lexer::new(&owned).tokenize()) {
        Ok(Ok(t)) => Ok(t),
        Ok(Err(e)) => Err(e.message),
        Err(_) => Err("panic".into()),
    }
}

/// quote stream: the writer's literal for `s` (from a real dump), the splitter on that dump, the lexer
fn quote_case(s: &str, rest: &str, path: &str, model: &mut model::Model, rep: &mut Report) {
    let id = format!("quote {} {}", hex_str(s), hex_str(rest));
    rep.case(&id, has_special(s));
    rep.count(if has_special(s) { "quote_special" } else { "quote_plain" });
    let t = Tbl { name: "T".into(), cols: vec![("A".into(), DataType::Varchar { max_length: Some(400) }, true)], rows: vec![vec![SqlValue::Varchar(s.to_string())], vec![SqlValue::Integer(0); 0]] };
    let t = Tbl { rows: vec![t.rows[0].clone()], ..t };
    let db = build(&[t.clone()]).unwrap();
    db.save_sql_dump(path).unwrap();
    let text = std::fs::read_to_string(path).unwrap();
    // --- splitter: model vs code on the real dump
    let real = vibesql_storage::parse_sql_statements(&text).unwrap_or_default();
    let reply = model.ask(&format!("split {}", hex_str(&text)));
    let want = format!("(stmts{})", real.iter().map(|x| format!(" {}", hex_str(x))).collect::<String>());
    rep.traces_validated += 1;
    if reply != want {
        rep.fail(FailKind::ModelDiff, None, "splitter: model and parse_sql_statements disagree on a real dump", &format!("dump text (hex): {}\ncode: {}\nmodel: {}", hex_str(&text), want, reply));
    }
    // --- oracle on the splitter: the INSERT statement must come back as the writer wrote it
    let lit_model = sx::unhex_str(&model.ask(&format!("render {}", hex_str(s)))).unwrap_or_default();
    let want_stmt = format!("INSERT INTO T VALUES ({})", lit_model);
    let got: Vec<&str> = real.iter().map(|x| x.trim()).filter(|x| x.starts_with("INSERT")).collect();
    if got != vec![want_stmt.as_str()] {
        // either the writer quotes differently from the model or the splitter damaged the statement
        let in_text = text.contains(&format!("{};\n", want_stmt));
        if in_text {
            rep.fail(FailKind::Oracle, None, "splitter does not return the INSERT statement the writer wrote", &format!("value: {:?}\ndump:\n{}\nstatements: {:?}", s, text, real));
        } else {
            rep.fail(FailKind::ModelDiff, None, "writer's string literal differs from the model's renderStr", &format!("value: {:?}\nmodel literal: {}\ndump:\n{}", s, lit_model, text));
        }
        return;
    }
    // --- lexer: model lexString vs real lexer on literal ++ rest
    let input = format!("{}{}", lit_model, rest);
    let reply = model.ask(&format!("lexstr {}", hex_str(&input)));
    let real_toks = tokens_of(&input);
    rep.traces_validated += 1;
    match Sx::parse(&reply) {
        Some(Sx::List(l)) if l.first().and_then(|x| x.as_atom()) == Some("ok") => {
            let content = sx::unhex_str(l[1].as_atom().unwrap()).unwrap();
            let mrest = sx::unhex_str(l[2].as_atom().unwrap()).unwrap();
            let expect = tokens_of(&mrest).map(|t| {
                let mut v = vec![Token::String(content.clone())];
                v.extend(t);
                v
            });
            let agree = match (&real_toks, &expect) {
                (Ok(a), Ok(b)) => a == b,
                (Err(_), Err(_)) => true,
                _ => false,
            };
            if !agree {
                rep.fail(FailKind::ModelDiff, None, "lexer string rule: model and Lexer disagree", &format!("input: {:?}\ncode: {:?}\nmodel: content {:?} rest {:?}", input, real_toks, content, mrest));
            }
            // direct oracle (T1): when rest does not start with a quote the token is the value itself
            if !rest.starts_with('\'') {
                let ok = matches!(&real_toks, Ok(t) if t.first() == Some(&Token::String(s.to_string()))) || (real_toks.is_err() && tokens_of(rest).is_err());
                if !ok {
                    rep.fail(FailKind::Oracle, None, "the lexer does not read back the string the writer quoted", &format!("value: {:?}\ninput: {:?}\ntokens: {:?}", s, input, real_toks));
                }
            }
        }
        _ => {
            if real_toks.is_ok() {
                rep.fail(FailKind::ModelDiff, None, "lexer string rule: model fails where Lexer succeeds", &format!("input: {:?}\ncode: {:?}\nmodel: {}", input, real_toks, reply));
            }
        }
    }
}

fn split_fuzz_case(text: &str, model: &mut model::Model, rep: &mut Report) {
    let real = vibesql_storage::parse_sql_statements(text).unwrap_or_default();
    let reply = model.ask(&format!("split {}", hex_str(text)));
    let want = format!("(stmts{})", real.iter().map(|x| format!(" {}", hex_str(x))).collect::<String>());
    rep.case(&format!("split {}", hex_str(text)), real.len() >= 1 && text.contains('\''));
    rep.count(&format!("split_fuzz_statements_{}", real.len().min(4)));
    rep.traces_validated += 1;
    if reply != want {
        rep.fail(FailKind::ModelDiff, None, "splitter: model and parse_sql_statements disagree", &format!("text: {:?}\ntext (hex): {}\ncode: {:?}\nmodel: {}", text, hex_str(text), real, reply));
    }
}

fn token_text(t: &Token) -> String {
    match t {
        Token::Keyword(k) => format!("{}", k),
        Token::Identifier(s) => s.clone(),
        Token::Number(n) => n.clone(),
        Token::Symbol(c) => c.to_string(),
        Token::Operator(o) => o.clone(),
        Token::SessionVariable(v) => format!("@@{}", v),
        Token::UserVariable(v) => format!("@{}", v),
        Token::Semicolon => ";".into(),
        Token::Comma => ",".into(),
        Token::LParen => "(".into(),
        Token::RParen => ")".into(),
        _ => String::new(),
    }
}

/// real tokens at the scanner's granularity: (s hex) (i hex) and merged others (o TEXT-uppercased)
fn coarse_real(toks: &[Token]) -> Vec<String> {
    let mut out: Vec<String> = vec![];
    let mut other = String::new();
    for t in toks {
        match t {
            Token::String(s) => {
                if !other.is_empty() {
                    out.push(format!("(o {})", hex_str(&std::mem::take(&mut other))));
                }
                out.push(format!("(s {})", hex_str(s)));
            }
            Token::DelimitedIdentifier(s) => {
                if !other.is_empty() {
                    out.push(format!("(o {})", hex_str(&std::mem::take(&mut other))));
                }
                out.push(format!("(i {})", hex_str(s)));
            }
            Token::Eof => {}
            t => other.push_str(&token_text(t).to_uppercase()),
        }
    }
    if !other.is_empty() {
        out.push(format!("(o {})", hex_str(&other)));
    }
    out
}

fn scan_case(text: &str, model: &mut model::Model, rep: &mut Report) {
    let real = tokens_of(text);
    let reply = model.ask(&format!("scan {}", hex_str(text)));
    let quoted = text.contains('\'') || text.contains('"') || text.contains("--");
    rep.case(&format!("scan {}", hex_str(text)), quoted);
    match (&real, Sx::parse(&reply)) {
        (Ok(toks), Some(Sx::List(l))) if l.first().and_then(|x| x.as_atom()) == Some("pieces") => {
            rep.count("scan_ok");
            rep.traces_validated += 1;
            let want = coarse_real(toks);
            let got: Vec<String> = l[1..]
                .iter()
                .map(|p| match p.as_list() {
                    Some([Sx::Atom(k), Sx::Atom(h)]) if k == "o" => format!("(o {})", hex_str(&sx::unhex_str(h).unwrap_or_default().to_uppercase())),
                    _ => p.to_string(),
                })
                .collect();
            if want != got {
                rep.fail(FailKind::ModelDiff, None, "scanner: model pieces and Lexer tokens disagree", &format!("text: {:?}\ncode: {:?}\n  coarse: {:?}\nmodel: {}", text, toks, want, reply));
            }
        }
        (Err(m), Some(Sx::List(l))) if l.first().and_then(|x| x.as_atom()) == Some("err") => {
            rep.count("scan_both_error");
            let kind = l[1].as_atom().unwrap_or("");
            let agree = (kind == "unterminated" && m.contains("Unterminated")) || (kind == "emptyident" && m.contains("Empty delimited"));
            if !agree {
                // an earlier non-quoting error of the real lexer (number / operator / stray char) hides ours
                rep.count("scan_error_kinds_not_comparable");
            }
        }
        (Err(m), _) => {
            // the coarse model has no number / operator / stray-character errors
            if m.contains("Unterminated") || m.contains("Empty delimited") {
                rep.fail(FailKind::ModelDiff, None, "scanner: Lexer reports a quoting error the model does not", &format!("text: {:?}\ncode: {}\nmodel: {}", text, m, reply));
            } else {
                rep.count("scan_real_error_outside_model");
            }
        }
        (Ok(toks), _) => {
            rep.fail(FailKind::ModelDiff, None, "scanner: model reports an error where Lexer succeeds", &format!("text: {:?}\ncode: {:?}\nmodel: {}", text, toks, reply));
        }
    }
}

/// literal stream: one cell of a given column type
fn literal_case(dt: &DataType, v: &SqlValue, path: &str, model: &mut model::Model, rep: &mut Report) -> bool {
    let ty = ty_atom(dt).unwrap();
    let id = format!("lit {} {}", ty, enc_val(v));
    let interesting = match v {
        SqlValue::Null => false,
        SqlValue::Integer(i) | SqlValue::Bigint(i) => *i < 0 || *i > i32::MAX as i64,
        SqlValue::Smallint(_) => true,
        SqlValue::Varchar(s) | SqlValue::Character(s) => has_special(s),
        SqlValue::Numeric(f) | SqlValue::Double(f) => *f < 0.0 || f.fract() == 0.0 || !f.is_finite(),
        SqlValue::Float(f) | SqlValue::Real(f) => *f < 0.0 || f.fract() == 0.0 || !f.is_finite(),
        _ => true,
    };
    rep.case(&id, interesting);
    rep.count(&format!("lit_type_{}", ty));
    let t = Tbl { name: "T".into(), cols: vec![("A".into(), dt.clone(), true)], rows: vec![vec![v.clone()]] };
    let reply = model.ask(&format!("lit {} {}", ty, enc_val(v)));
    let msx = Sx::parse(&reply);
    let model_ok: Option<String> = match &msx {
        Some(Sx::List(l)) if l.first().and_then(|x| x.as_atom()) == Some("ok") => Some(canon_model_val(&l[1])),
        _ => None,
    };
    let rt = round_trip(&[t.clone()], path);
    rep.traces_validated += 1;
    let real_same = matches!(rt, RoundTrip::Same);
    // model vs code: the model accepts the literal with the same value  <=>  the real reload gives the same value
    let model_same = model_ok.as_deref() == Some(canon_real_val(v).as_str());
    if model_same != real_same {
        let detail = match &rt {
            RoundTrip::Same => "reload gives the same value".to_string(),
            RoundTrip::Differs(text, why) => format!("{}\ndump:\n{}", why, text),
        };
        rep.fail(FailKind::ModelDiff, None, "literal: model and dump/load disagree", &format!("column type {:?} value {:?}\nmodel: {}\ncode: {}", dt, v, reply, detail));
    }
    // direct oracle
    if let RoundTrip::Differs(text, why) = &rt {
        let sig = if is_special(v) { Some("C19/special-float") } else { None };
        if sig.is_some() {
            rep.count("lit_special_float_failures");
        }
        rep.fail(FailKind::Oracle, sig, "a one-cell table does not reload from its SQL dump", &format!("column type {:?} value {:?}\n{}\ndump:\n{}", dt, v, why, text));
    }
    real_same
}

fn db_case(tables: &[Tbl], path: &str, rep: &mut Report) {
    let nrows: usize = tables.iter().map(|t| t.rows.len()).sum();
    let special_strings = tables.iter().flat_map(|t| t.rows.iter()).flatten().any(|v| matches!(v, SqlValue::Varchar(s) | SqlValue::Character(s) if has_special(s)));
    let negatives = tables.iter().flat_map(|t| t.rows.iter()).flatten().any(|v| enc_val(v).starts_with("(int 1") || enc_val(v).starts_with("(num 1"));
    rep.case(&format!("db {:?}", tables), nrows > 0 && (special_strings || negatives));
    rep.count(&format!("db_tables_{}", tables.len()));
    rep.add("db_rows", nrows as u64);
    if special_strings {
        rep.count("db_with_special_strings");
    }
    if negatives {
        rep.count("db_with_negative_numbers");
    }
    for t in tables {
        for (_, d, _) in &t.cols {
            rep.count(&format!("db_col_{}", ty_atom(d).unwrap_or("other")));
        }
    }
    if let RoundTrip::Differs(text, why) = round_trip(tables, path) {
        // shrink: is the failure due to special floats alone?
        let has_sp = tables.iter().flat_map(|t| t.rows.iter()).flatten().any(is_special);
        let mut sig = None;
        if has_sp {
            let without: Vec<Tbl> = tables
                .iter()
                .map(|t| Tbl { rows: t.rows.iter().filter(|r| !r.iter().any(is_special)).cloned().collect(), ..t.clone() })
                .collect();
            if matches!(round_trip(&without, path), RoundTrip::Same) {
                sig = Some("C19/special-float");
            }
        }
        rep.fail(FailKind::Oracle, sig, "database does not reload from its SQL dump", &format!("{}\n{}\ndump:\n{}", describe(tables), why, text));
    }
}

fn main() {
    // engine panics are outcomes (caught); a panic of the harness itself must be visible
    std::panic::set_hook(Box::new(|info| {
        if std::env::var("VERIF_SHOW_PANICS").is_ok() || info.location().map(|l| !l.file().starts_with('/') || l.file().contains("/verif/")).unwrap_or(false) {
            eprintln!("harness panic: {}", info);
        }
    }));
    let args = Args::parse("C19");
    let mut rep = Report::new(
        &args,
        "cases: quote = (string value, following text); split = dump-like text; scan = SQL-like text; lit = (column type, value); \
         db = whole database. Non-trivial: the string contains a quote, backslash, semicolon, line break, double quote or `--`; \
         the number is negative, whole, beyond 32 bits or special; the database has rows with such content. Distinct by hash of the case.",
    );
    rep.assumptions.push("Rust prints a float with the shortest digits that parse back to the same float (documented guarantee); the model represents a finite float by that decimal text".into());
    rep.assumptions.push("the sign of a floating-point zero is not compared (-0.0 and 0.0 are equal SQL values; the dump writes -0 and the loader reads 0)".into());
    rep.assumptions.push("supported column types = those whose CREATE TABLE text in the dump parses back to the same type: INTEGER, SMALLINT, BIGINT, NUMERIC(p,s), FLOAT(p), REAL, DOUBLE PRECISION, VARCHAR[(n)], CHAR(n), BOOLEAN, DATE, TIME, TIMESTAMP [WITH TIME ZONE]; CHAR(n) values are n characters long".into());
    let mut model = args.model();
    let mut rng = Rng::new(args.seed);
    let path = args.scratch.join("dump.sql").display().to_string();

    // ---- which column types the dump format can express (recorded, not judged)
    {
        use vibesql_types::IntervalField;
        let others = vec![
            DataType::Unsigned,
            DataType::Decimal { precision: 10, scale: 2 },
            DataType::CharacterLargeObject,
            DataType::Name,
            DataType::BinaryLargeObject,
            DataType::Bit { length: Some(4) },
            DataType::Time { with_timezone: true },
            DataType::Interval { start_field: IntervalField::Year, end_field: None },
        ];
        let mut unsupported = vec![];
        for dt in others.iter().chain(supported_types().iter()) {
            let t = Tbl { name: "T".into(), cols: vec![("A".into(), dt.clone(), true)], rows: vec![] };
            let ok = matches!(round_trip(&[t], &path), RoundTrip::Same);
            if !ok {
                unsupported.push(format!("{:?}", dt));
            }
            if !ok && supported_types().contains(dt) {
                rep.fail(FailKind::Oracle, None, "an empty table of a supported column type does not reload with the same column type", &format!("{:?}", dt));
            }
        }
        rep.extra.insert("column_types_the_dump_cannot_express".into(), json!(unsupported));
    }

    // ---- deterministic probes
    let fixed_strings = [
        "", "plain", "O'Brien", "'", "''", "'''", "a;b", "a\\", "a\\'", "\\'; --", "x\ny", "x\n-- y", "x\n--", "x\r\ny", "\n", "\n\n", "a\n\nb", " \n ", "a\"b;c", "\"", "-- c", "é漢😀",
        "\u{2028}", " lead", "trail ", "a\\\\", "\\n", "'; DROP TABLE T; --", "?", "NULL", "a\n;\nb", ";", "--", "\r", "x\r", "'\n'",
    ];
    let rests = ["", ")", ", 2);", "'", "'x'", " 'y'", "--c\n", ";"];
    for s in fixed_strings.iter() {
        for r in rests.iter().take(4) {
            quote_case(s, r, &path, &mut model, &mut rep);
        }
    }
    // two rows per table so that a statement left unterminated damages the next one
    for s in fixed_strings.iter() {
        let t = Tbl {
            name: "T".into(),
            cols: vec![("A".into(), DataType::Varchar { max_length: Some(400) }, true), ("B".into(), DataType::Integer, true)],
            rows: vec![vec![SqlValue::Varchar(s.to_string()), SqlValue::Integer(1)], vec![SqlValue::Varchar(format!("{}{}", s, s)), SqlValue::Integer(-2)]],
        };
        db_case(&[t], &path, &mut rep);
    }
    // boundary values of every supported type
    let mut special_seen = 0;
    for dt in supported_types() {
        let vals: Vec<SqlValue> = match &dt {
            DataType::Integer => [0, 1, -1, -5, i64::MIN, i64::MAX, i64::MIN + 1, 1 << 31, -(1 << 31)].iter().map(|i| SqlValue::Integer(*i)).collect(),
            DataType::Bigint => [0, -2, i64::MIN, i64::MAX, -9223372036854775807].iter().map(|i| SqlValue::Bigint(*i)).collect(),
            DataType::Smallint => [0, 7, -7, i16::MIN, i16::MAX].iter().map(|i| SqlValue::Smallint(*i)).collect(),
            DataType::Numeric { .. } => [0.0, 3.0, -3.0, 1.5, -1.5, 1e19, -1e19, 0.001, 123456789.125, f64::NAN, f64::INFINITY, f64::NEG_INFINITY].iter().map(|f| SqlValue::Numeric(*f)).collect(),
            DataType::Float { .. } => [0.0f32, 1.5, -1.5, 0.1, 3.0, f32::MAX, f32::MIN_POSITIVE, f32::NAN, f32::INFINITY].iter().map(|f| SqlValue::Float(*f)).collect(),
            DataType::Real => [0.0f32, -0.0, 0.1, -0.1, 3.0, f32::MAX, f32::MIN, 1e-45, f32::NAN, f32::NEG_INFINITY].iter().map(|f| SqlValue::Real(*f)).collect(),
            DataType::DoublePrecision => [0.0, -0.0, 0.1, -2.5, 3.0, 1e300, f64::MAX, f64::MIN, 5e-324, 1e-7, 9007199254740992.0, 1e19, -9.223372036854775808e18, f64::NAN, f64::INFINITY, f64::NEG_INFINITY]
                .iter()
                .map(|f| SqlValue::Double(*f))
                .collect(),
            DataType::Varchar { .. } => fixed_strings.iter().map(|s| SqlValue::Varchar(s.to_string())).collect(),
            DataType::Character { length } => ["", "ab", "a'b", "é", "漢字", "x\ny", "\\"].iter().map(|s| SqlValue::Character(format!("{}{}", s, " ".repeat(length - s.chars().count())))).collect(),
            DataType::Boolean => vec![SqlValue::Boolean(true), SqlValue::Boolean(false)],
            DataType::Date => vec![SqlValue::Date(Date::new(2024, 2, 29).unwrap()), SqlValue::Date(Date::new(1, 1, 1).unwrap()), SqlValue::Date(Date::new(9999, 12, 31).unwrap())],
            DataType::Time { .. } => vec![SqlValue::Time(Time::new(0, 0, 0, 0).unwrap()), SqlValue::Time(Time::new(23, 59, 59, 999_999_999).unwrap()), SqlValue::Time(Time::new(1, 2, 3, 120_000).unwrap())],
            DataType::Timestamp { .. } => vec![
                SqlValue::Timestamp(Timestamp::new(Date::new(2024, 2, 29).unwrap(), Time::new(1, 2, 3, 5000).unwrap())),
                SqlValue::Timestamp(Timestamp::new(Date::new(1, 1, 1).unwrap(), Time::new(0, 0, 0, 0).unwrap())),
            ],
            _ => vec![],
        };
        literal_case(&dt, &SqlValue::Null, &path, &mut model, &mut rep);
        for v in vals {
            let ok = literal_case(&dt, &v, &path, &mut model, &mut rep);
            if is_special(&v) && !ok {
                special_seen += 1;
            }
        }
    }
    rep.extra.insert("special_float_probe_failures".into(), json!(special_seen));

    // ---- generated cases
    let n = args.n(2000, 40000);
    for i in 0..n {
        let mut r = rng.fork();
        let s = nasty_string(&mut r, 8);
        let rest = if r.chance(1, 3) { nasty_string(&mut r, 2) } else { r.pick(&rests).to_string() };
        if i < 2 {
            rep.sample(json!({"stream": "quote", "value": s, "rest": rest}));
        }
        quote_case(&s, &rest, &path, &mut model, &mut rep);
    }
    let alphabet: Vec<&str> = vec!["'", "\"", ";", "\n", "\r\n", "--", "-- c", "\\", " ", "\t", "a", "INSERT INTO T VALUES (", ")", ",", "1", "''", "'x'", "\u{a0}", "\u{3000}", ";;", " ;", "\n\n", "é"];
    for i in 0..args.n(6000, 150000) {
        let mut r = rng.fork();
        let k = r.range(0, 14);
        let text: String = (0..k).map(|_| *r.pick(&alphabet)).collect();
        if i < 2 {
            rep.sample(json!({"stream": "split", "text": text}));
        }
        split_fuzz_case(&text, &mut model, &mut rep);
    }
    let sql_alphabet: Vec<&str> = vec![
        "'", "''", "\"", "\"\"", "`", "--", "-", " ", " ", "\n", "a", "b1", "a", "x", "(", "'a'", "'a;b'", "\"q\"", "'--'", "_x", "SELECT", "1", "2.5", "1e3", ",", "(", ")", ";", "=", "<=", "<>", "||", "*", "/", "+", ".", "@v", "'it''s'", "\"Id\"", "-- c\n", "é", "x'y", "\t",
    ];
    for i in 0..args.n(6000, 150000) {
        let mut r = rng.fork();
        let k = r.range(0, 12);
        let text: String = (0..k).map(|_| *r.pick(&sql_alphabet)).collect();
        if i < 2 {
            rep.sample(json!({"stream": "scan", "text": text}));
        }
        scan_case(&text, &mut model, &mut rep);
    }
    let types = supported_types();
    for _ in 0..args.n(3000, 60000) {
        let mut r = rng.fork();
        let dt = r.pick(&types).clone();
        let v = gen_value(&mut r, &dt, true, true);
        literal_case(&dt, &v, &path, &mut model, &mut rep);
    }
    for i in 0..args.n(2500, 50000) {
        let mut r = rng.fork();
        let allow_special = r.chance(1, 10);
        let tables = gen_db(&mut r, allow_special);
        if i < 2 {
            rep.sample(json!({"stream": "db", "database": describe(&tables)}));
        }
        db_case(&tables, &path, &mut rep);
    }
    rep.extra.insert("model_requests".into(), json!(model.requests));
    std::process::exit(rep.finish());
}
