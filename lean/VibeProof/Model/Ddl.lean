import VibeProof.Model.Value
/-
C33 — the registries a schema change touches, as the DDL executors update them.

  catalog   table name → declared columns          (`Catalog::create_table / drop_table`)
  stored    table name → (the stored table's OWN schema copy, rows)   (`Database::tables`)
  reg       the catalog's index list: name AS WRITTEN, table, key columns
  sreg      the storage registry `Operations::index_manager`: keyed by the NORMALISED index name
            (`CreateIndexExecutor` / `DropIndexExecutor` / `DropTableExecutor` /
            `propagate_column_change` update both)

Names are the normalised ones (the parser upper-cases unquoted identifiers; a quoted name is a
different name).  ALTER TABLE ADD / DROP COLUMN (`alter/columns.rs` + `propagate_column_change` in
`alter/mod.rs`, fix ecda3d9a): the stored table's schema copy and rows are rewritten, the
catalog entry is replaced by the stored schema, and indexes naming a dropped column are dropped
(before the fix only the stored table changed).  INSERT validates the column count against the
catalog and then `Table::insert` validates it against the stored schema.
-/
namespace VibeProof.Ddl
open VibeProof

structure STable where
  cols : List String
  rows : List Row
  deriving Repr, DecidableEq

structure DIndex where
  name : String
  table : String
  cols : List String
  deriving Repr, DecidableEq

structure DState where
  catalog : List (String × List String)
  stored : List (String × STable)
  /-- the catalog's index list: entries addressed by (table, name AS WRITTEN) -/
  reg : List DIndex
  /-- the storage registry (`Operations::index_manager`): key = NORMALISED index name (upper-cased
  in the code), value = metadata holding the name as written -/
  sreg : List (String × DIndex)
  deriving Repr, DecidableEq

inductive DErr where
  | tableExists | tableMissing | indexExists | indexMissing | columnMissing | columnExists
  | columnCount | lastColumn
  deriving Repr, DecidableEq

inductive DOp where
  | createTable (n : String) (cols : List String)
  | dropTable (n : String)
  | createIndex (i n : String) (cols : List String)
  | dropIndex (i : String)
  | insert (n : String) (r : Row)
  | clear (n : String)
  | addColumn (n c : String)
  | dropColumn (n c : String)
  /-- CHANGE COLUMN old new (rename) -/
  | changeColumn (n old new : String)
  /-- MODIFY COLUMN (type only: no registry changes) -/
  | modifyColumn (n c : String)
  deriving Repr, DecidableEq

def init : DState := { catalog := [], stored := [], reg := [], sreg := [] }

def catCols (s : DState) (n : String) : Option (List String) :=
  (s.catalog.find? (fun e => e.1 == n)).map (fun e => e.2)

def stTable (s : DState) (n : String) : Option STable :=
  (s.stored.find? (fun e => e.1 == n)).map (fun e => e.2)

/-- apply `f` to the stored table called `n` -/
def updStored (s : DState) (n : String) (f : STable → STable) : DState :=
  { s with stored := s.stored.map (fun e => if e.1 = n then (e.1, f e.2) else e) }

def pushRow (r : Row) (t : STable) : STable :=
  if r.length = t.cols.length then { t with rows := t.rows ++ [r] } else t

def colsAdd (c : String) (cols : List String) : List String := cols ++ [c]

def colsDrop (c : String) (cols : List String) : List String :=
  match cols.idxOf? c with
  | some k => cols.eraseIdx k
  | none => cols

def addCol (c : String) (t : STable) : STable :=
  { cols := colsAdd c t.cols, rows := t.rows.map (fun r => r ++ [Value.null]) }

def dropCol (c : String) (t : STable) : STable :=
  { cols := colsDrop c t.cols
    rows := match t.cols.idxOf? c with
      | some k => t.rows.map (fun r => r.eraseIdx k)
      | none => t.rows }

/-- `Catalog::update_table_schema`: the catalog entry of `n` follows the stored schema -/
def updCatalog (s : DState) (n : String) (g : List String → List String) : DState :=
  { s with catalog := s.catalog.map (fun e => if e.1 = n then (e.1, g e.2) else e) }

def colsRename (old new : String) (cols : List String) : List String :=
  cols.map (fun c => if c = old then new else c)

def renameCol (old new : String) (t : STable) : STable :=
  { t with cols := colsRename old new t.cols }

/-- an index whose metadata names column `c` of table `n` -/
def namesCol (n c : String) (ix : DIndex) : Bool := ix.table == n && ix.cols.contains c

/-- is catalog entry `d` addressed by the metadata of one of the storage entries `vs`?
(`catalog.drop_index(&metadata.table_name, &metadata.index_name)`) -/
def addressed (vs : List (String × DIndex)) (d : DIndex) : Bool :=
  vs.any (fun v => v.2.table == d.table && v.2.name == d.name)

/-- `norm` is the registry's key normalisation (`to_uppercase` in the code) -/
def step (norm : String → String) (s : DState) : DOp → DState × Option DErr
  | .createTable n cols =>
    if (catCols s n).isSome then (s, some .tableExists)
    else ({ s with catalog := s.catalog ++ [(n, cols)], stored := s.stored ++ [(n, { cols := cols, rows := [] })] }, none)
  | .dropTable n =>
    if (catCols s n).isSome then
      ({ catalog := s.catalog.filter (fun e => decide (e.1 ≠ n))
         stored := s.stored.filter (fun e => decide (e.1 ≠ n))
         reg := s.reg.filter (fun ix => decide (ix.table ≠ n))
         -- DropTableExecutor: `database.drop_index(&index.name)` for every catalog entry of the table
         sreg := s.sreg.filter (fun e =>
           !((s.reg.filter (fun ix => decide (ix.table = n))).any (fun d => norm d.name == e.1))) }, none)
    else (s, some .tableMissing)
  | .createIndex i n cols =>
    match catCols s n with
    | none => (s, some .tableMissing)
    | some tc =>
      if cols.all (fun c => tc.contains c) then
        if s.sreg.any (fun e => e.1 == norm i) then (s, some .indexExists)
        else ({ s with reg := s.reg ++ [{ name := i, table := n, cols := cols }]
                       sreg := s.sreg ++ [(norm i, { name := i, table := n, cols := cols })] }, none)
      else (s, some .columnMissing)
  | .dropIndex i =>
    -- catalog entry of that exact name first, else the registry entry of the normalised name
    -- (whose catalog entry is addressed by the name it was created with: fix of DROP INDEX)
    match s.reg.find? (fun ix => ix.name == i) with
    | some m =>
      ({ s with reg := s.reg.filter (fun d => !(d.table == m.table && d.name == i))
                sreg := s.sreg.filter (fun e => !(e.1 == norm i)) }, none)
    | none =>
      match s.sreg.find? (fun e => e.1 == norm i) with
      | some v =>
        ({ s with reg := s.reg.filter (fun d => !(d.table == v.2.table && d.name == v.2.name))
                  sreg := s.sreg.filter (fun e => !(e.1 == norm i)) }, none)
      | none => (s, some .indexMissing)
  | .insert n r =>
    match catCols s n, stTable s n with
    | some tc, some t =>
      if r.length ≠ tc.length then (s, some .columnCount)
      else if r.length ≠ t.cols.length then (s, some .columnCount)
      else (updStored s n (pushRow r), none)
    | _, _ => (s, some .tableMissing)
  | .clear n =>
    match stTable s n with
    | some _ => (updStored s n (fun t => { t with rows := [] }), none)
    | none => (s, some .tableMissing)
  | .addColumn n c =>
    match stTable s n with
    | none => (s, some .tableMissing)
    | some t =>
      if t.cols.contains c then (s, some .columnExists)
      else (updCatalog (updStored s n (addCol c)) n (colsAdd c), none)
  | .dropColumn n c =>
    match stTable s n with
    | none => (s, some .tableMissing)
    | some t =>
      if t.cols.length ≤ 1 then (s, some .lastColumn)
      else if t.cols.contains c then
        let s1 := updCatalog (updStored s n (dropCol c)) n (colsDrop c)
        -- `propagate_column_change`: the storage entries naming the column are the victims; each is
        -- removed from storage by its key and from the catalog by (metadata.table, metadata.name)
        let victims := s1.sreg.filter (fun e => namesCol n c e.2)
        ({ s1 with reg := s1.reg.filter (fun d => !(addressed victims d))
                   sreg := s1.sreg.filter (fun e => !(namesCol n c e.2)) }, none)
      else (s, some .columnMissing)
  | .changeColumn n old new =>
    match stTable s n with
    | none => (s, some .tableMissing)
    | some t =>
      if t.cols.contains old then
        if old ≠ new ∧ t.cols.contains new then (s, some .columnExists)
        else
          let s1 := updCatalog (updStored s n (renameCol old new)) n (colsRename old new)
          -- indexes naming the column are dropped and come back under the new column name
          let victims := s1.sreg.filter (fun e => namesCol n old e.2)
          ({ s1 with
             reg := s1.reg.map (fun d => if addressed victims d then { d with cols := colsRename old new d.cols } else d)
             sreg := s1.sreg.map (fun e => if namesCol n old e.2 then (e.1, { e.2 with cols := colsRename old new e.2.cols }) else e) },
           none)
      else (s, some .columnMissing)
  | .modifyColumn n c =>
    match stTable s n with
    | none => (s, some .tableMissing)
    | some t => if t.cols.contains c then (s, none) else (s, some .columnMissing)

/-- the stored table a name resolves to (`Database::get_table`: as written first, then normalised) -/
def resolve (norm : String → String) (s : DState) (x : String) : Option String :=
  if x ∈ s.stored.map (fun e => e.1) then some x
  else if norm x ∈ s.stored.map (fun e => e.1) then some (norm x)
  else none

/-- `Database::list_indexes_for_table` (fix 2e2a3d24): the registry compares the names after
normalising both with `norm` (`to_uppercase`); an index whose table name is spelled differently
is kept only when both spellings resolve to the same stored table -/
def indexesFor (norm : String → String) (s : DState) (n : String) : List DIndex :=
  s.reg.filter (fun ix => norm ix.table == norm n &&
    (ix.table == n ||
      match resolve norm s n, resolve norm s ix.table with
      | some a, some b => a == b
      | _, _ => true))

def run (norm : String → String) (s : DState) : List DOp → DState
  | [] => s
  | op :: ops => run norm (step norm s op).1 ops

end VibeProof.Ddl
