import VibeProof.Props.C15
/-
C14 — ROLLBACK TO SAVEPOINT restores the state at the savepoint.

Model: `Model/TableSM.lean` — change log + savepoint stack as coded.  Since fix d69656ff every
DML path records its changes (INSERT: Insert; UPDATE / upsert: Update(old, new); DELETE,
TRUNCATE, REPLACE's delete: Delete) and the undo of an Update removes the NEW row and puts the
old one back; undo of an Insert removes the FIRST equal row (`Table::remove_row`), undo of a
Delete inserts the row again (at the end).

Stack discipline — proved in full:
  `C14_savepoint_pushes`, `C14_rollback_to_keeps_it_and_drops_later`, `C14_release_changes_no_data`,
  `C14_unknown_savepoint_is_error`, `C14_no_transaction_is_error`.
Data — proved in full: `C14_rollback_to_restores` — whatever INSERT, UPDATE, upsert, DELETE,
  TRUNCATE, REPLACE statements and further SAVEPOINTs ran after `SAVEPOINT n`,
  `ROLLBACK TO SAVEPOINT n` succeeds and the table holds (as a multiset) exactly the rows it
  held at the savepoint.  (Before the fix this held for INSERT-only regions and was refuted for
  DELETE and UPDATE.)
-/
namespace VibeProof.C14
open VibeProof VibeProof.Idx VibeProof.TSM

/-! ### the savepoint stack -/

theorem findSave_some (saves : List (String × Nat)) (n : String) : ∀ j, findSave saves n = some j →
    ∃ sp, saves[j]? = some sp ∧ sp.1 = n := by
  induction saves with
  | nil => intro j h; simp [findSave] at h
  | cons sp rest ih =>
    intro j h
    simp only [findSave] at h
    cases hr : findSave rest n with
    | some j' =>
      simp only [hr, Option.some.injEq] at h
      subst h
      obtain ⟨sp', h1, h2⟩ := ih j' hr
      exact ⟨sp', by simpa using h1, h2⟩
    | none =>
      simp only [hr] at h
      by_cases hn : sp.1 = n
      · simp only [hn, ↓reduceIte, Option.some.injEq] at h
        subst h
        exact ⟨sp, rfl, hn⟩
      · simp [hn] at h

theorem findSave_none (saves : List (String × Nat)) (n : String) :
    findSave saves n = none ↔ ∀ sp ∈ saves, sp.1 ≠ n := by
  induction saves with
  | nil => simp [findSave]
  | cons sp rest ih =>
    simp only [findSave]
    cases hr : findSave rest n with
    | some j' =>
      simp only [reduceCtorEq, List.mem_cons, forall_eq_or_imp, false_iff, not_and]
      intro _ hall
      exact absurd ((ih.mpr hall).symm.trans hr) (by simp)
    | none =>
      have := ih.mp hr
      by_cases hn : sp.1 = n
      · simp [hn]
      · simp only [hn, ↓reduceIte, List.mem_cons, forall_eq_or_imp, ne_eq, not_false_eq_true,
          true_and, true_iff]
        exact this

/-- SAVEPOINT n pushes n on the stack and changes no data -/
theorem C14_savepoint_pushes (s : TState) (t : Txn) (n : String) (ht : s.txn = some t) :
    (step s (.savepoint n)).2 = none ∧
    (step s (.savepoint n)).1.rows = s.rows ∧ (step s (.savepoint n)).1.hidx = s.hidx ∧
    (step s (.savepoint n)).1.uidx = s.uidx ∧
    ∃ t', (step s (.savepoint n)).1.txn = some t' ∧ t'.saves = t.saves ++ [(n, t.log.length)] ∧
      t'.log = t.log := by
  simp [step, ht]

/-- ROLLBACK TO n keeps n (the most recent savepoint of that name) and everything below it and
destroys every later savepoint -/
theorem C14_rollback_to_keeps_it_and_drops_later (s : TState) (t : Txn) (n : String) (j : Nat)
    (ht : s.txn = some t) (hj : findSave t.saves n = some j) :
    ∃ t', (step s (.rollbackTo n)).1.txn = some t' ∧ t'.saves = t.saves.take (j + 1) ∧
      t'.saves[j]? = t.saves[j]? ∧ t'.saves.length = j + 1 ∧
      t'.snapRows = t.snapRows ∧ t'.snapH = t.snapH := by
  obtain ⟨sp, hsp, _⟩ := findSave_some _ _ _ hj
  have hlen : j < t.saves.length := by
    rcases Nat.lt_or_ge j t.saves.length with h | h
    · exact h
    · rw [List.getElem?_eq_none h] at hsp; cases hsp
  simp only [step, ht, hj, hsp]
  refine ⟨_, rfl, rfl, ?_, ?_, rfl, rfl⟩
  · simp only [List.getElem?_take]; simp [hsp]
  · simp only [List.length_take]; omega

/-- RELEASE n removes exactly that savepoint and changes no data -/
theorem C14_release_changes_no_data (s : TState) (t : Txn) (n : String) (j : Nat)
    (ht : s.txn = some t) (hj : findSave t.saves n = some j) :
    (step s (.release n)).2 = none ∧
    (step s (.release n)).1.rows = s.rows ∧ (step s (.release n)).1.hidx = s.hidx ∧
    (step s (.release n)).1.uidx = s.uidx ∧
    ∃ t', (step s (.release n)).1.txn = some t' ∧ t'.saves = t.saves.eraseIdx j ∧ t'.log = t.log := by
  simp [step, ht, hj]

/-- an unknown name is an error and nothing changes -/
theorem C14_unknown_savepoint_is_error (s : TState) (t : Txn) (n : String) (ht : s.txn = some t)
    (hn : ∀ sp ∈ t.saves, sp.1 ≠ n) :
    step s (.rollbackTo n) = (s, some .noSavepoint) ∧ step s (.release n) = (s, some .noSavepoint) := by
  have := (findSave_none t.saves n).mpr hn
  simp [step, ht, this]

/-- outside a transaction every savepoint statement is an error and nothing changes -/
theorem C14_no_transaction_is_error (s : TState) (n : String) (ht : s.txn = none) :
    step s (.savepoint n) = (s, some .noTxn) ∧ step s (.rollbackTo n) = (s, some .noTxn) ∧
    step s (.release n) = (s, some .noTxn) := by
  simp [step, ht]

/-! ### data -/

/-- what a recorded change does to the contents (as a multiset) -/
def apply1 (rows : List Row) : Change → Option (List Row)
  | .ins r => some (r :: rows)
  | .del r => if r ∈ rows then some (rows.erase r) else none
  | .upd old new => if old ∈ rows then some (new :: rows.erase old) else none

def applyAll (rows : List Row) : List Change → Option (List Row)
  | [] => some rows
  | c :: cs => (apply1 rows c).bind (fun r => applyAll r cs)

theorem applyAll_append (a b : List Change) : ∀ rows,
    applyAll rows (a ++ b) = (applyAll rows a).bind (fun r => applyAll r b) := by
  induction a with
  | nil => intro rows; simp [applyAll]
  | cons c cs ih =>
    intro rows
    simp only [List.cons_append, applyAll]
    cases apply1 rows c with
    | none => simp
    | some r => simp [ih]

theorem apply1_perm (c : Change) (rows rows' R : List Row) (hp : rows.Perm rows')
    (h : apply1 rows c = some R) : ∃ R', apply1 rows' c = some R' ∧ R.Perm R' := by
  cases c with
  | ins r =>
    simp only [apply1, Option.some.injEq] at h ⊢
    subst h; exact ⟨_, rfl, hp.cons r⟩
  | del r =>
    simp only [apply1] at h ⊢
    by_cases hm : r ∈ rows
    · simp only [hm, ↓reduceIte, Option.some.injEq] at h
      subst h
      simp only [hp.mem_iff.mp hm, ↓reduceIte]
      exact ⟨_, rfl, hp.erase r⟩
    · simp [hm] at h
  | upd old new =>
    simp only [apply1] at h ⊢
    by_cases hm : old ∈ rows
    · simp only [hm, ↓reduceIte, Option.some.injEq] at h
      subst h
      simp only [hp.mem_iff.mp hm, ↓reduceIte]
      exact ⟨_, rfl, (hp.erase old).cons new⟩
    · simp [hm] at h

theorem applyAll_perm (cs : List Change) : ∀ (rows rows' R : List Row), rows.Perm rows' →
    applyAll rows cs = some R → ∃ R', applyAll rows' cs = some R' ∧ R.Perm R' := by
  induction cs with
  | nil =>
    intro rows rows' R hp h
    simp only [applyAll, Option.some.injEq] at h ⊢
    subst h; exact ⟨_, rfl, hp⟩
  | cons c cs ih =>
    intro rows rows' R hp h
    simp only [applyAll] at h ⊢
    cases h1 : apply1 rows c with
    | none => simp [h1] at h
    | some R1 =>
      simp only [h1, Option.bind_some] at h
      obtain ⟨R1', h2, hp1⟩ := apply1_perm c rows rows' R1 hp h1
      obtain ⟨R', h3, hp2⟩ := ih R1 R1' R hp1 h
      exact ⟨R', by simp [h2, h3], hp2⟩

/-- `rows` is (up to order) what the changes `L` make of `rows0` -/
def Tracks (rows0 : List Row) (L : List Change) (rows : List Row) : Prop :=
  ∃ R, applyAll rows0 L = some R ∧ rows.Perm R

theorem Tracks_extend (rows0 : List Row) (L cs : List Change) (rows rows2 R2 : List Row)
    (h : Tracks rows0 L rows) (hcs : applyAll rows cs = some R2) (hp : rows2.Perm R2) :
    Tracks rows0 (L ++ cs) rows2 := by
  obtain ⟨R, hR, hperm⟩ := h
  obtain ⟨R2', h2, hp2⟩ := applyAll_perm cs rows R R2 hperm hcs
  exact ⟨R2', by rw [applyAll_append, hR]; simpa using h2, hp.trans hp2⟩

/-- undoing the changes newest first restores (up to order) the contents they started from -/
theorem undoAll_restores (L : List Change) : ∀ (hs : List HIdx) (rows base R : List Row),
    applyAll base L = some R → rows.Perm R →
    (undoAll hs rows L.reverse).1.Perm base ∧ (undoAll hs rows L.reverse).2.2 = true := by
  induction L using snoc_induction with
  | nil =>
    intro hs rows base R h hp
    simp only [applyAll, Option.some.injEq] at h
    subst h
    simp only [List.reverse_nil, undoAll]
    exact ⟨hp, trivial⟩
  | snoc L c ih =>
    intro hs rows base R h hp
    rw [applyAll_append] at h
    cases hR' : applyAll base L with
    | none => simp [hR'] at h
    | some R' =>
      simp only [hR', Option.bind_some, applyAll] at h
      simp only [List.reverse_append, List.reverse_cons, List.reverse_nil, List.nil_append,
        List.singleton_append]
      cases c with
      | ins r =>
        simp only [apply1, Option.bind_some, Option.some.injEq] at h
        subst h
        have hmem : r ∈ rows := hp.mem_iff.mpr (by simp)
        have hp2 : (rows.erase r).Perm R' := by simpa using hp.erase r
        simp only [undoAll, hmem, ↓reduceIte]
        exact ih _ _ _ _ hR' hp2
      | del r =>
        simp only [apply1] at h
        by_cases hm : r ∈ R'
        · simp only [hm, ↓reduceIte, Option.bind_some, Option.some.injEq] at h
          subst h
          have hp2 : (rows ++ [r]).Perm R' :=
            ((List.perm_append_singleton r rows).trans (hp.cons r)).trans (List.perm_cons_erase hm).symm
          simp only [undoAll, putBack]
          exact ih _ _ _ _ hR' hp2
        · simp [hm] at h
      | upd old new =>
        simp only [apply1] at h
        by_cases hm : old ∈ R'
        · simp only [hm, ↓reduceIte, Option.bind_some, Option.some.injEq] at h
          subst h
          have hmem : new ∈ rows := hp.mem_iff.mpr (by simp)
          have hp1 : (rows.erase new).Perm (R'.erase old) := by simpa using hp.erase new
          have hp2 : (rows.erase new ++ [old]).Perm R' :=
            ((List.perm_append_singleton old _).trans (hp1.cons old)).trans (List.perm_cons_erase hm).symm
          simp only [undoAll, hmem, ↓reduceIte, putBack]
          exact ih _ _ _ _ hR' hp2
        · simp [hm] at h

/-! what each statement records is what it does -/

theorem applyAll_ins (rs : List Row) : ∀ rows,
    applyAll rows (rs.map .ins) = some (rs.reverse ++ rows) := by
  induction rs with
  | nil => intro rows; simp [applyAll]
  | cons r rs ih => intro rows; simp [applyAll, apply1, ih]

theorem applyAll_dels (D : List Row) : ∀ (rows K : List Row), rows.Perm (D ++ K) →
    ∃ R, applyAll rows (D.map .del) = some R ∧ R.Perm K := by
  induction D with
  | nil => intro rows K h; exact ⟨rows, by simp [applyAll], by simpa using h⟩
  | cons d D ih =>
    intro rows K h
    have hm : d ∈ rows := h.mem_iff.mpr (by simp)
    have hp : (rows.erase d).Perm (D ++ K) := by simpa using h.erase d
    obtain ⟨R, hR, hRK⟩ := ih _ K hp
    exact ⟨R, by simp [applyAll, apply1, hm, hR], hRK⟩

theorem map_fst_zipIdx (l : List Row) : ∀ n, (l.zipIdx n).map (fun e => e.1) = l := by
  induction l with
  | nil => intro n; simp
  | cons a l ih => intro n; simp [List.zipIdx_cons, ih]

theorem removed_kept_perm (rows : List Row) (ps : List Nat) :
    rows.Perm (removedAt rows ps ++ removeAt rows ps) := by
  unfold removedAt removeAt
  rw [← List.map_append]
  have h := (List.filter_append_perm (fun e : Row × Nat => ps.contains e.2) rows.zipIdx).map (fun e => e.1)
  rw [map_fst_zipIdx] at h
  exact h.symm

theorem set_perm (l : List Row) : ∀ (i : Nat) (old new : Row), l[i]? = some old →
    (l.set i new).Perm (new :: l.erase old) := by
  induction l with
  | nil => intro i old new h; simp at h
  | cons a l ih =>
    intro i old new h
    cases i with
    | zero =>
      simp only [List.getElem?_cons_zero, Option.some.injEq] at h
      subst h
      simp
    | succ j =>
      simp only [List.getElem?_cons_succ] at h
      have hmem : old ∈ l := List.mem_of_getElem? h
      have h1 := ih j old new h
      simp only [List.set_cons_succ]
      by_cases ha : a = old
      · subst ha
        simp only [List.erase_cons_head]
        exact (h1.cons a).trans ((List.Perm.swap new a _).trans ((List.perm_cons_erase hmem).symm.cons new))
      · have : (a :: l).erase old = a :: l.erase old := by
          simp [List.erase_cons, ha]
        rw [this]
        exact (h1.cons a).trans (List.Perm.swap new a _)

theorem applyAll_upds (ups : List (Nat × Row × List Nat)) : ∀ (cur rows0 : List Row) (hs : List HIdx),
    (ups.map (fun e => e.1)).Nodup → (∀ e ∈ ups, cur[e.1]? = rows0[e.1]?) →
    ∀ rows' hs', updRows cur hs ups = some (rows', hs') →
      ∃ R, applyAll cur (updChanges rows0 ups) = some R ∧ rows'.Perm R := by
  induction ups with
  | nil =>
    intro cur rows0 hs _ _ rows' hs' he
    simp only [updRows, Option.some.injEq, Prod.mk.injEq] at he
    obtain ⟨rfl, rfl⟩ := he
    exact ⟨cur, by simp [updChanges, applyAll], List.Perm.refl _⟩
  | cons e rest ih =>
    obtain ⟨i, new, ch⟩ := e
    intro cur rows0 hs hnd hsame rows' hs' he
    cases hold : cur[i]? with
    | none => simp [updRows, hold] at he
    | some old =>
      simp only [updRows, hold] at he
      have h0 : rows0[i]? = some old := by
        rw [← hsame (i, new, ch) (by simp)]; exact hold
      simp only [List.map_cons, List.nodup_cons] at hnd
      have hsame' : ∀ e ∈ rest, (cur.set i new)[e.1]? = rows0[e.1]? := by
        intro e hm
        have hne : i ≠ e.1 := by
          intro heq; apply hnd.1; rw [heq]; exact List.mem_map.mpr ⟨e, hm, rfl⟩
        rw [List.getElem?_set_ne hne]
        exact hsame e (by simp [hm])
      obtain ⟨R, hR, hp⟩ := ih (cur.set i new) rows0 _ hnd.2 hsame' rows' hs' he
      have hmem : old ∈ cur := List.mem_of_getElem? hold
      obtain ⟨R', hR', hp'⟩ := applyAll_perm _ _ _ R (set_perm cur i old new hold) hR
      exact ⟨R', by simp [updChanges, h0, applyAll, apply1, hmem, hR'], hp.trans hp'⟩

/-- DML and further savepoints between `SAVEPOINT n` and `ROLLBACK TO SAVEPOINT n`
(UPDATE with the distinct row positions the executor passes) -/
def RegionOp (n : String) : Op → Prop
  | .insert _ => True
  | .update ups => (ups.map (fun e => e.1)).Nodup
  | .upsert _ _ => True
  | .delete _ => True
  | .truncate => True
  | .replace _ => True
  | .savepoint m => m ≠ n
  | _ => False

def afterRollbackTo (s : TState) (n : String) (region : List Op) : TState × Option TErr :=
  step (run (step s (.savepoint n)).1 region) (.rollbackTo n)

theorem insertMany_rows_log (rs : List Row) : ∀ (s : TState) (t : Txn), s.txn = some t →
    (insertMany s rs).rows = s.rows ++ rs ∧
    ∃ t', (insertMany s rs).txn = some t' ∧ t'.log = t.log ++ rs.map .ins ∧ t'.saves = t.saves := by
  induction rs with
  | nil => intro s t ht; exact ⟨by simp [insertMany], t, ht, by simp, rfl⟩
  | cons r rs ih =>
    intro s t ht
    have h1 : (insert1 s r).txn = some { t with log := t.log ++ [.ins r] } := by
      simp [insert1, logIns, logAdd, ht]
    obtain ⟨h2, t', h3, h4, h5⟩ := ih _ _ h1
    refine ⟨?_, t', h3, ?_, h5⟩
    · rw [insertMany, h2]; simp [insert1]
    · rw [h4]; simp

theorem findSave_append_hit (pre extra : List (String × Nat)) (n : String) (x : Nat)
    (hx : ∀ sp ∈ extra, sp.1 ≠ n) : findSave (pre ++ (n, x) :: extra) n = some pre.length := by
  induction pre with
  | nil =>
    have := (findSave_none extra n).mpr hx
    simp [findSave, this]
  | cons sp pre ih => simp [findSave, ih]

/-- invariant of the region after `SAVEPOINT n` taken in state (rows0, t0) -/
def RegionInv (rows0 : List Row) (t0 : Txn) (n : String) (σ : TState) : Prop :=
  ∃ (t : Txn) (L : List Change) (extra : List (String × Nat)), σ.txn = some t ∧
    Tracks rows0 L σ.rows ∧ t.log = t0.log ++ L ∧
    t.saves = t0.saves ++ (n, t0.log.length) :: extra ∧ ∀ sp ∈ extra, sp.1 ≠ n

/-- a statement that records `cs` and whose effect on the rows is what `cs` says -/
theorem region_dml (rows0 : List Row) (t0 : Txn) (n : String) (σ σ' : TState) (t : Txn)
    (L : List Change) (extra : List (String × Nat)) (cs : List Change) (R2 : List Row)
    (ht : σ.txn = some t) (htr : Tracks rows0 L σ.rows) (hlog : t.log = t0.log ++ L)
    (hsaves : t.saves = t0.saves ++ (n, t0.log.length) :: extra) (hex : ∀ sp ∈ extra, sp.1 ≠ n)
    (htxn : σ'.txn = some { t with log := t.log ++ cs })
    (hcs : applyAll σ.rows cs = some R2) (hp : σ'.rows.Perm R2) : RegionInv rows0 t0 n σ' :=
  ⟨{ t with log := t.log ++ cs }, L ++ cs, extra, htxn, Tracks_extend rows0 L cs σ.rows σ'.rows R2 htr hcs hp,
    by simp [hlog], hsaves, hex⟩

theorem region_step (rows0 : List Row) (t0 : Txn) (n : String) (σ : TState) (op : Op)
    (hop : RegionOp n op) (h : RegionInv rows0 t0 n σ) :
    RegionInv rows0 t0 n (step σ op).1 := by
  obtain ⟨t, L, extra, ht, htr, hlog, hsaves, hex⟩ := h
  cases op with
  | insert rs =>
    obtain ⟨h1, t', h2, h3, h4⟩ := insertMany_rows_log rs σ t ht
    refine ⟨t', L ++ rs.map .ins, extra, h2, ?_, ?_, ?_, hex⟩
    · refine Tracks_extend rows0 L _ σ.rows _ _ htr (applyAll_ins rs σ.rows) ?_
      simp only [step]; rw [h1]
      exact List.perm_append_comm.trans ((List.reverse_perm rs).symm.append_right σ.rows)
    · rw [h3, hlog]; simp
    · rw [h4, hsaves]
  | update ups =>
    simp only [step]
    cases he : updRows σ.rows σ.hidx ups with
    | none => exact ⟨t, L, extra, ht, htr, hlog, hsaves, hex⟩
    | some p =>
      obtain ⟨rows', hs'⟩ := p
      obtain ⟨R, hR, hp⟩ := applyAll_upds ups σ.rows σ.rows σ.hidx hop (fun _ _ => rfl) rows' hs' he
      exact region_dml rows0 t0 n σ _ t L extra _ R ht htr hlog hsaves hex (by simp [logAdd, ht]) hR hp
  | upsert i new =>
    simp only [step]
    cases hold : σ.rows[i]? with
    | none => exact ⟨t, L, extra, ht, htr, hlog, hsaves, hex⟩
    | some old =>
      have hmem : old ∈ σ.rows := List.mem_of_getElem? hold
      exact region_dml rows0 t0 n σ _ t L extra [.upd old new] _ ht htr hlog hsaves hex
        (by simp [logAdd, ht]) (by simp [applyAll, apply1, hmem]) (set_perm σ.rows i old new hold)
  | delete ps =>
    obtain ⟨R, hR, hRK⟩ := applyAll_dels (removedAt σ.rows ps) σ.rows (removeAt σ.rows ps)
      (removed_kept_perm σ.rows ps)
    exact region_dml rows0 t0 n σ _ t L extra _ R ht htr hlog hsaves hex (by simp [step, logAdd, ht]) hR
      (by simp only [step]; exact hRK.symm)
  | truncate =>
    obtain ⟨R, hR, hRK⟩ := applyAll_dels σ.rows σ.rows [] (by simp)
    exact region_dml rows0 t0 n σ _ t L extra _ R ht htr hlog hsaves hex (by simp [step, logAdd, ht]) hR
      (by simp only [step]; exact hRK.symm)
  | replace r =>
    -- delete of the conflicting rows, then insert
    have hdel : ∃ R, applyAll σ.rows ((removedAt σ.rows (conflictPos σ.hidx σ.rows r)).map .del) = some R ∧
        R.Perm (if (conflictPos σ.hidx σ.rows r).isEmpty then σ.rows else removeAt σ.rows (conflictPos σ.hidx σ.rows r)) := by
      by_cases hps : (conflictPos σ.hidx σ.rows r).isEmpty = true
      · have : conflictPos σ.hidx σ.rows r = [] := List.isEmpty_iff.mp hps
        rw [this]
        refine ⟨σ.rows, ?_, List.Perm.refl _⟩
        have hnil : removedAt σ.rows [] = [] := by
          simp [removedAt]
        simp [hnil, applyAll]
      · simp only [hps, Bool.false_eq_true, ↓reduceIte]
        exact applyAll_dels _ σ.rows _ (removed_kept_perm σ.rows _)
    obtain ⟨R, hR, hRK⟩ := hdel
    refine region_dml rows0 t0 n σ _ t L extra
      ((removedAt σ.rows (conflictPos σ.hidx σ.rows r)).map .del ++ [.ins r]) (r :: R) ht htr hlog hsaves hex
      ?_ ?_ ?_
    · simp [step, insert1, logIns, logAdd, ht]
    · rw [applyAll_append, hR]; simp [applyAll, apply1]
    · simp only [step, insert1]
      exact (List.perm_append_singleton r _).trans (hRK.symm.cons r)
  | savepoint m =>
    have hm : m ≠ n := hop
    refine ⟨{ t with saves := t.saves ++ [(m, t.log.length)] }, L, extra ++ [(m, t.log.length)], ?_, ?_,
      hlog, ?_, ?_⟩
    · simp [step, ht]
    · simpa [step, ht] using htr
    · simp [hsaves]
    · intro sp hsp
      simp only [List.mem_append, List.mem_singleton] at hsp
      rcases hsp with hsp | rfl
      · exact hex sp hsp
      · exact hm
  | createIndex _ _ _ => exact absurd hop (by simp [RegionOp])
  | dropIndex _ => exact absurd hop (by simp [RegionOp])
  | begin => exact absurd hop (by simp [RegionOp])
  | commit => exact absurd hop (by simp [RegionOp])
  | rollback => exact absurd hop (by simp [RegionOp])
  | rollbackTo _ => exact absurd hop (by simp [RegionOp])
  | release _ => exact absurd hop (by simp [RegionOp])

theorem region_run (rows0 : List Row) (t0 : Txn) (n : String) (ops : List Op) :
    ∀ σ, (∀ op ∈ ops, RegionOp n op) → RegionInv rows0 t0 n σ →
      RegionInv rows0 t0 n (run σ ops) := by
  induction ops with
  | nil => intro σ _ h; exact h
  | cons op ops ih =>
    intro σ hops h
    exact ih _ (fun o ho => hops o (by simp [ho])) (region_step rows0 t0 n σ op (hops op (by simp)) h)

/-- for every transaction state and every region of INSERT, UPDATE, upsert, DELETE, TRUNCATE,
REPLACE statements and further SAVEPOINTs after `SAVEPOINT n`: `ROLLBACK TO SAVEPOINT n`
succeeds and the table holds, as a multiset, exactly the rows it held when `SAVEPOINT n` was
executed; n stays on the stack and the log is cut back -/
theorem C14_rollback_to_restores (s : TState) (t : Txn) (n : String) (region : List Op)
    (ht : s.txn = some t) (hreg : ∀ op ∈ region, RegionOp n op) :
    (afterRollbackTo s n region).2 = none ∧ (afterRollbackTo s n region).1.rows.Perm s.rows ∧
    ∃ t', (afterRollbackTo s n region).1.txn = some t' ∧
      t'.saves = t.saves ++ [(n, t.log.length)] ∧ t'.log = t.log := by
  have h0 : RegionInv s.rows t n (step s (.savepoint n)).1 := by
    refine ⟨{ t with saves := t.saves ++ [(n, t.log.length)] }, [], [], ?_, ?_, ?_, ?_, ?_⟩
    · simp [step, ht]
    · exact ⟨s.rows, by simp [applyAll], by simp [step, ht]⟩
    · simp
    · simp
    · intro sp hsp; cases hsp
  obtain ⟨t2, L, extra, ht2, htr, hlog, hsaves, hex⟩ := region_run s.rows t n region _ hreg h0
  obtain ⟨R, hR, hpR⟩ := htr
  have hfind : findSave t2.saves n = some t.saves.length := by
    rw [hsaves]; exact findSave_append_hit _ _ _ _ hex
  have hget : t2.saves[t.saves.length]? = some (n, t.log.length) := by
    rw [hsaves]; simp
  have hdrop : (List.drop t.log.length t2.log).reverse = L.reverse := by
    rw [hlog]; simp
  have hperm := undoAll_restores L (run (step s (.savepoint n)).1 region).hidx
    (run (step s (.savepoint n)).1 region).rows s.rows R hR hpR
  unfold afterRollbackTo
  generalize run (step s (.savepoint n)).1 region = s2 at ht2 hperm
  simp only [step, ht2, hfind, hget, hdrop]
  refine ⟨?_, hperm.1, _, rfl, ?_, ?_⟩
  · simp [hperm.2]
  · rw [hsaves]
    rw [show t.saves ++ (n, t.log.length) :: extra = (t.saves ++ [(n, t.log.length)]) ++ extra by simp]
    exact List.take_left' (by simp)
  · rw [hlog]; simp

/-- the former counterexamples (DELETE / UPDATE after the savepoint, UPDATE of a row inserted
after it) are restored now -/
theorem C14_former_counterexamples_restored :
    let s := run (init []) [.insert [[.int 1]], .begin]
    (afterRollbackTo s "A" [.delete [0]]).1.rows = [[.int 1]] ∧
    (afterRollbackTo s "A" [.insert [[.int 2]], .update [(1, [.int 3], [0])]]).2 = none ∧
    (afterRollbackTo s "A" [.insert [[.int 2]], .update [(1, [.int 3], [0])], .truncate]).1.rows = [[.int 1]] := by
  decide

/-- non-vacuity: a region with every kind of statement; the hypotheses hold, the region really
changes the table, the rollback restores it -/
example :
    let s := run (init [([0], false)]) [.insert [[.int 1], [.int 2]], .begin]
    let region : List Op := [.insert [[.int 3]], .savepoint "B", .update [(0, [.int 9], [0])], .delete [1],
      .replace [.int 3], .upsert 0 [.int 8], .truncate, .insert [[.int 5], [.int 6]]]
    (∀ op ∈ region, RegionOp "A" op) ∧
    (run (step s (.savepoint "A")).1 region).rows = [[.int 5], [.int 6]] ∧
    ((afterRollbackTo s "A" region).1.rows).Perm [[.int 1], [.int 2]] := by
  refine ⟨by simp [RegionOp], by decide, by decide⟩

end VibeProof.C14
