#!/bin/bash
# usage: tools/seeded_run.sh <name> <Cnn> [<Cnn>...] : fresh worktree of /repo HEAD + seeded/<name>/patch.diff,
# shadow-check the given properties, record the outcome in seeded/<name>/meta.json, clean up.
N=$1; shift
WT=/tmp/mut/run-$N
git -C /repo worktree remove --force $WT 2>/dev/null; rm -rf $WT
git -C /repo worktree add --detach $WT HEAD >/dev/null 2>&1 || exit 2
if ! git -C $WT apply /verif/seeded/$N/patch.diff; then echo "$N: patch does not apply to HEAD"; git -C /repo worktree remove --force $WT; exit 3; fi
/verif/tools/shadow_check.sh $WT "$@"
for c in "$@"; do
  mkdir -p /tmp/vv/$N; cp /tmp/vv/run-$N/$c.log /tmp/vv/$N/$c.log 2>/dev/null
  mkdir -p /tmp/vv/$N/verif/replays; cp -r /tmp/vv/run-$N/verif/replays/. /tmp/vv/$N/verif/replays/ 2>/dev/null
  sed -i "s#/tmp/vv/run-$N/#/tmp/vv/$N/#g" /tmp/vv/$N/$c.log
  /verif/tools/seeded_finish.sh $N $c keep
done
git -C /repo worktree remove --force $WT 2>/dev/null; rm -rf $WT /tmp/vv/run-$N /tmp/vv/$N
