import VibeProof.Model.Text
import VibeProof.Lemmas.Text
import VibeProof.Lemmas.Csv
/-
C31 — CLI import/export transfers data faithfully and safely.

 T1  the CSV writer is right: a reference RFC 4180 reader gets back every table of cells;
 T2  the reader (`parse_csv_records` + `import_csv`, as repaired) turns every written file into
     exactly the INSERTs of its rows, for all cell contents;
 T3  values never escape their literal in the generated INSERT text (uses C19-T1); column names
     are copied verbatim, so they are safe only if validated — which `validate_json_columns` now
     does for every object;
 T4  export followed by import does not reproduce a table (header `Column`, cells in Debug form).
-/
namespace VibeProof.C31
open VibeProof.Text VibeProof.Text.Csv

/-! ## T1 -/

/-- **T1.** Whatever the cells contain (commas, quotes, line breaks, anything), the reference
reader reads back exactly the rows the writer wrote (each row has at least one cell). -/
theorem C31_writer_rfc4180 (rows : List (List Str)) (hne : ∀ r ∈ rows, r ≠ []) :
    parseCsv (writeCsv rows) = .ok rows := by
  have h := rRun_rows rows hne []
  simp only [parseCsv, rInit, h, rFinish]
  simp

example : parseCsv (writeCsv [["a,b".toList, "q\"r".toList], ["x\ny".toList, []]])
    = .ok [["a,b".toList, "q\"r".toList], ["x\ny".toList, []]] :=
  C31_writer_rfc4180 _ (by intro r h; simp at h; rcases h with h | h <;> subst h <;> simp)

/-! ## T2 -/

theorem importRows_ok (table : Str) (header : List Str) (rows : List (List Str))
    (hlen : ∀ r ∈ rows, r.length = header.length) : ∀ n,
    importRows table header n rows = .ok (insertsOf table header rows) := by
  induction rows with
  | nil => intro n; rfl
  | cons r rs ih =>
    intro n
    have hr := hlen r (by simp)
    simp only [importRows, hr, ne_eq, not_true_eq_false, if_false]
    rw [ih (fun r' h => hlen r' (by simp [h])) (n + 1)]
    have hq : List.map quoteCell r = List.map renderStr r := List.map_congr_left (fun _ _ => rfl)
    simp [insertsOf, hq]

/-- **T2 (full).** Importing what the writer wrote yields exactly the INSERTs of the rows,
whatever the cells contain (commas, quotes, line breaks, carriage returns, outer blanks). -/
theorem C31_import_roundtrip (table : Str) (header : List Str) (rows : List (List Str))
    (hh : header ≠ []) (hlen : ∀ r ∈ rows, r.length = header.length) :
    importCsv table (writeCsv (header :: rows)) = .ok (insertsOf table header rows) := by
  have hne : ∀ r ∈ header :: rows, r ≠ [] := by
    intro r hr
    simp only [List.mem_cons] at hr
    rcases hr with h | h
    · subst h; exact hh
    · intro hnil
      have := hlen r h
      rw [hnil] at this
      cases header with
      | nil => exact hh rfl
      | cons _ _ => simp at this
  simp only [importCsv, C31_writer_rfc4180 (header :: rows) hne]
  exact importRows_ok table header rows hlen 2

/-- non-vacuity, with the cells the naive reader used to get wrong: comma, quote, line break,
carriage return before the record end, outer blanks -/
example : importCsv ['t'] (writeCsv ([['a'], ['b']] :: [["x,y".toList, "q\"r".toList],
      ["l\nm".toList, " p\r".toList]]))
    = .ok (insertsOf ['t'] [['a'], ['b']] [["x,y".toList, "q\"r".toList], ["l\nm".toList, " p\r".toList]]) :=
  C31_import_roundtrip _ _ _ (by simp) (by decide +kernel)

/-- a file with CRLF record ends reads like one with LF record ends -/
theorem C31_crlf_records :
    parseCsv "a,b\r\n1,\"x\"\r\n".toList = .ok [[['a'], ['b']], [['1'], ['x']]] := by decide +kernel

/-! ## T3 -/

/-- **T3.** In a generated INSERT every CSV cell is one string literal whose content is the cell,
whatever the cell contains: the lexer's string rule consumes exactly the quoted cell and resumes
at the text the generator put after it (`, ` or `);`). -/
theorem C31_value_confined (v r : Str) (hr : ∀ c r', r = c :: r' → c ≠ '\'') :
    lexString (quoteCell v ++ r) = .ok (v, r) :=
  lexString_renderStr v r hr

/-- the same for every JSON value that is not null -/
theorem C31_json_value_confined (v r : Str) (hr : ∀ c r', r = c :: r' → c ≠ '\'') :
    lexString (jsonCell (some v) ++ r) = .ok (v, r) :=
  lexString_renderStr v r hr

example : lexString (quoteCell "'); DROP TABLE t; --".toList ++ ");".toList)
    = .ok ("'); DROP TABLE t; --".toList, ");".toList) :=
  C31_value_confined _ _ (by intro c r' h; injection h with h1 _; subst h1; decide)

/-- the JSON string "NULL" is imported as the four letters; only JSON null is SQL NULL -/
theorem C31_json_null_text :
    importJsonObj ['t'] [(['a'], some "NULL".toList), (['b'], none)] =
      "INSERT INTO t (a, b) VALUES ('NULL', NULL);".toList := by
  decide +kernel

/-- column names are copied into the statement verbatim: a key that passes no validation puts
its own VALUES list first and comments out the real one (the reason every object's keys are
validated against the table's columns) -/
theorem C31_unvalidated_key_injects :
    scan (importJsonObj ['s'] [("a) VALUES ('INJECTED'); --".toList, some ['2'])]) =
      scan "INSERT INTO s (a) VALUES ('INJECTED');".toList := by decide +kernel

/-- a validated name (one of the table's columns, hence free of quotes, parentheses and
semicolons) contains none of the characters that delimit the column list -/
theorem C31_validated_name_inert (name : Str) (h : nameCharsOk name = true) :
    ∀ c ∈ name, c ≠ ';' ∧ c ≠ '\'' ∧ c ≠ '"' ∧ c ≠ '(' ∧ c ≠ ')' := by
  intro c hc
  simp only [nameCharsOk, List.all_eq_true, Bool.and_eq_true, decide_eq_true_eq] at h
  obtain ⟨⟨⟨⟨a, b⟩, c'⟩, d⟩, e⟩ := h c hc
  exact ⟨a, b, c', d, e⟩

/-! ## T4 -/

/-- the full statement: what export writes for a table imports back as the INSERTs of its rows
(`header` = the table's column names, `txt` = the plain text of a value) -/
def C31_full : Prop :=
  ∀ (α : Type) (dbg txt : α → Str) (table : Str) (header : List Str) (rows : List (List α)),
    rows ≠ [] → (∀ r ∈ rows, r.length = header.length) →
    importCsv table (writeCsv (exportTable dbg rows)) =
      .ok (insertsOf table header (rows.map (fun r => r.map txt)))

/-- **T4.** Export then import does not reproduce even a one-cell table: the exported header is
`Column` and the cell is the Debug form of the value. -/
theorem C31_export_import_counterexample : ¬ C31_full := by
  intro h
  have := h Unit (fun _ => "Integer(1)".toList) (fun _ => ['1']) ['t'] [['a']] [[()]] (by simp)
    (by intro r hr; simp at hr; subst hr; rfl)
  revert this
  decide +kernel

end VibeProof.C31
