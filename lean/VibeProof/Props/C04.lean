import VibeProof.Model.Par
import VibeProof.Generated.Consts
import VibeProof.Lemmas.Join
/-
C04 — results do not depend on the parallelism configuration.

For EVERY chunking of the input (every way rayon may split the work) each parallel operator
returns what its sequential counterpart returns: filter, projection, hash-table build (same
answer to every lookup), sort (the stable merge of stably sorted chunks IS the stable sort of the
whole input, for any transitive total comparison — ties included), aggregates (combine of partial
accumulators).  Determinism of repeated execution is immediate: these are functions.
-/
open List

namespace VibeProof.C04
open VibeProof VibeProof.Par VibeProof.Join
variable {α : Type}

variable {α : Type}

theorem zipIdx_index_inj (l : List α) (k : Nat) (x y : α × Nat)
    (hx : x ∈ l.zipIdx k) (hy : y ∈ l.zipIdx k) (h : x.2 = y.2) : x = y := by
  have := List.mem_zipIdx hx
  have := List.mem_zipIdx hy
  obtain ⟨x1, x2⟩ := x
  obtain ⟨y1, y2⟩ := y
  simp_all

/-- offset version of core's `mergeSort_zipIdx` -/
theorem mergeSort_zipIdx_offset (le : α → α → Bool) (i : Nat) (l : List α) :
    (mergeSort (l.zipIdx i) (zipIdxLE le)).map (·.1) = mergeSort l le := by
  rw [List.zipIdx_eq_map_add (l := l) (i := i)]
  rw [← List.map_mergeSort (r := zipIdxLE le) (s := zipIdxLE le)
        (f := fun (p : α × Nat) => (p.1, i + p.2)) (l := l.zipIdx)]
  · rw [List.map_map]
    have : ((fun x : α × Nat => x.1) ∘ fun p : α × Nat => (p.1, i + p.2)) = (fun x => x.1) := by
      funext p; rfl
    rw [this]
    exact List.mergeSort_zipIdx
  · intro a _ b _
    simp only [zipIdxLE]
    by_cases h1 : le a.1 b.1 = true <;> by_cases h2 : le b.1 a.1 = true <;> simp [h1, h2]

/-- the stable merge of the stable sorts of two adjacent runs is the stable sort of their
concatenation (for any transitive, total comparison) -/
theorem merge_mergeSort (le : α → α → Bool)
    (trans : ∀ a b c, le a b → le b c → le a c) (total : ∀ a b, le a b || le b a)
    (a b : List α) :
    merge (a.mergeSort le) (b.mergeSort le) le = (a ++ b).mergeSort le := by
  let LE := zipIdxLE le
  let A := a.zipIdx 0
  let B := b.zipIdx a.length
  have hAB : (a ++ b).zipIdx 0 = A ++ B := by simp [A, B, List.zipIdx_append]
  have h1 : (mergeSort A LE).map (·.1) = mergeSort a le := mergeSort_zipIdx_offset le 0 a
  have h2 : (mergeSort B LE).map (·.1) = mergeSort b le := mergeSort_zipIdx_offset le a.length b
  have h3 : (mergeSort (A ++ B) LE).map (·.1) = mergeSort (a ++ b) le := by
    rw [← hAB]; exact mergeSort_zipIdx_offset le 0 (a ++ b)
  have tr := zipIdxLE_trans (le := le) trans
  have tot := zipIdxLE_total (le := le) total
  have hX : merge (mergeSort A LE) (mergeSort B LE) LE = mergeSort (A ++ B) LE := by
    apply Perm.eq_of_pairwise (le := fun x y => LE x y = true)
    · intro x y hx hy hxy hyx
      have hx' : x ∈ A ++ B := by
        rcases mem_merge.mp hx with h | h
        · exact mem_append_left _ ((mergeSort_perm A LE).subset h)
        · exact mem_append_right _ ((mergeSort_perm B LE).subset h)
      have hy' : y ∈ A ++ B := (mergeSort_perm (A ++ B) LE).subset hy
      rw [← hAB] at hx' hy'
      apply zipIdx_index_inj (a ++ b) 0 x y hx' hy'
      simp only [LE, zipIdxLE] at hxy hyx
      split at hxy <;> split at hyx <;> simp_all
      omega
    · exact pairwise_merge tr tot _ _ (pairwise_mergeSort tr tot A) (pairwise_mergeSort tr tot B)
    · exact pairwise_mergeSort tr tot (A ++ B)
    · exact (merge_perm_append LE).trans ((Perm.append (mergeSort_perm A LE) (mergeSort_perm B LE)).trans (mergeSort_perm (A ++ B) LE).symm)
  rw [← h1, ← h2, ← h3, ← hX]
  symm
  apply merge_stable
  intro x y hx hy
  have hx' := List.mem_zipIdx ((mergeSort_perm A LE).subset hx)
  have hy' := List.mem_zipIdx ((mergeSort_perm B LE).subset hy)
  omega


/-- parallel sort = sequential stable sort, for every chunking and every transitive total `le` -/
theorem C04_parSort_eq_sort (le : α → α → Bool)
    (trans : ∀ a b c, le a b → le b c → le a c) (total : ∀ a b, le a b || le b a)
    (chunks : List (List α)) :
    parSort le chunks = chunks.flatten.mergeSort le := by
  unfold parSort
  have gen : ∀ (pre : List α) (cs : List (List α)),
      (cs.map (fun c => c.mergeSort le)).foldl (fun acc run => merge acc run le) (pre.mergeSort le)
        = (pre ++ cs.flatten).mergeSort le := by
    intro pre cs
    induction cs generalizing pre with
    | nil => simp
    | cons c cs ih =>
      simp only [List.map_cons, List.foldl_cons, List.flatten_cons]
      rw [merge_mergeSort le trans total pre c, ih (pre ++ c), List.append_assoc]
  simpa using gen [] chunks

/-- consequently the parallel sort is a sorted permutation of the input -/
theorem C04_parSort_sorted_perm (le : α → α → Bool)
    (trans : ∀ a b c, le a b → le b c → le a c) (total : ∀ a b, le a b || le b a)
    (chunks : List (List α)) :
    (parSort le chunks).Perm chunks.flatten ∧ (parSort le chunks).Pairwise (fun a b => le a b = true) := by
  rw [C04_parSort_eq_sort le trans total]
  exact ⟨mergeSort_perm _ _, pairwise_mergeSort trans total _⟩

/-- parallel filter = sequential filter, order included -/
theorem C04_parFilter (p : α → Bool) (chunks : List (List α)) :
    parFilter p chunks = chunks.flatten.filter p := by
  simp [parFilter, List.filter_flatten]

/-- parallel projection / materialisation = sequential map -/
theorem C04_parMap {β : Type} (f : α → β) (chunks : List (List α)) :
    parMap f chunks = chunks.flatten.map f := by
  simp [parMap, List.map_flatten]

/-! ### hash-table build -/

theorem lookup_foldl_addRow (t : Table) (w v : Value) (rs : List Row) :
    Join.lookup (rs.foldl (fun t r => addRow t w r) t) v = if w = v then Join.lookup t v ++ rs else Join.lookup t v := by
  induction rs generalizing t with
  | nil => by_cases h : w = v <;> simp [h]
  | cons r rs ih =>
    simp only [List.foldl_cons, ih, lookup_addRow]
    by_cases h : w = v <;> simp [h]

/-- merging a partial table whose keys are pairwise distinct appends, for every key, the
partial table's rows after the accumulated ones -/
theorem lookup_mergeTables (acc part : Table) (v : Value) (hnd : (part.map (·.1)).Nodup) :
    Join.lookup (mergeTables acc part) v = Join.lookup acc v ++ Join.lookup part v := by
  unfold mergeTables
  induction part generalizing acc with
  | nil => simp [Join.lookup]
  | cons kv rest ih =>
    obtain ⟨w, rs⟩ := kv
    simp only [List.map_cons, List.nodup_cons] at hnd
    simp only [List.foldl_cons]
    rw [ih _ hnd.2, lookup_foldl_addRow]
    by_cases h : w = v
    · subst h
      have hrest : Join.lookup rest w = [] := by
        unfold Join.lookup
        have : rest.find? (fun p => p.1 = w) = none := by
          apply List.find?_eq_none.mpr
          intro p hp hpw
          exact hnd.1 (List.mem_map.mpr ⟨p, hp, by simpa using hpw⟩)
        simp [this]
      have hhead : Join.lookup ((w, rs) :: rest) w = rs := by
        simp [Join.lookup, List.find?]
      rw [hrest, hhead]; simp
    · simp [Join.lookup, List.find?, h]

theorem addRow_keys (t : Table) (w : Value) (r : Row) :
    (addRow t w r).map (·.1) = if w ∈ t.map (·.1) then t.map (·.1) else t.map (·.1) ++ [w] := by
  induction t with
  | nil => simp [addRow]
  | cons p rest ih =>
    obtain ⟨x, rs⟩ := p
    by_cases hx : x = w
    · subst hx; simp [addRow]
    · have hx' : ¬ w = x := fun h => hx h.symm
      simp only [addRow, hx, if_false, List.map_cons, ih, List.mem_cons, hx', false_or]
      by_cases hm : w ∈ rest.map (·.1) <;> simp [hm]

theorem addRow_nodup (t : Table) (w : Value) (r : Row) (h : (t.map (·.1)).Nodup) :
    ((addRow t w r).map (·.1)).Nodup := by
  rw [addRow_keys]
  by_cases hm : w ∈ t.map (·.1)
  · simp [hm, h]
  · simp only [hm, if_false]
    exact List.nodup_append.mpr ⟨h, by simp, by
      intro a ha b hb
      simp at hb; subst hb
      intro hab; exact hm (hab ▸ ha)⟩

theorem build_nodup (k : Row → Value) (rs : List Row) (t : Table) (h : (t.map (·.1)).Nodup) :
    ((build k rs t).map (·.1)).Nodup := by
  induction rs generalizing t with
  | nil => simpa [build]
  | cons r rs ih =>
    simp only [build]
    by_cases hn : k r = .null
    · simp [hn, ih t h]
    · simp only [hn, if_false]
      exact ih _ (addRow_nodup t (k r) r h)

/-- the table built chunk-wise answers every probe exactly like the table built sequentially:
same rows, in the same (input) order -/
theorem C04_buildHashPar (k : Row → Value) (chunks : List (List Row)) (v : Value) :
    Join.lookup (buildHashPar k chunks) v = Join.lookup (build k chunks.flatten []) v := by
  unfold buildHashPar
  have gen : ∀ (acc : Table) (cs : List (List Row)),
      Join.lookup ((cs.map (fun c => build k c [])).foldl mergeTables acc) v
        = Join.lookup acc v ++ cs.flatten.filter (fun r => k r ≠ .null && k r = v) := by
    intro acc cs
    induction cs generalizing acc with
    | nil => simp
    | cons c cs ih =>
      simp only [List.map_cons, List.foldl_cons, List.flatten_cons, List.filter_append]
      rw [ih, lookup_mergeTables _ _ _ (build_nodup k c [] (by simp)), lookup_build]
      simp [Join.lookup, List.find?]
  rw [gen [] chunks, lookup_build]

/-! ### aggregates -/

theorem optCombine_assoc (f : Int → Int → Int) (hf : ∀ a b c, f (f a b) c = f a (f b c))
    (a b c : Option Int) : optCombine f (optCombine f a b) c = optCombine f a (optCombine f b c) := by
  cases a <;> cases b <;> cases c <;> simp [optCombine, hf]

theorem Acc.combine_assoc (a b c : Acc) : (a.combine b).combine c = a.combine (b.combine c) := by
  simp only [Acc.combine, Acc.mk.injEq]
  refine ⟨by omega, optCombine_assoc _ (by intros; omega) _ _ _,
    optCombine_assoc _ (by intros; omega) _ _ _, optCombine_assoc _ (by intros; omega) _ _ _⟩

theorem Acc.combine_empty_left (a : Acc) : Acc.empty.combine a = a := by
  cases a; simp [Acc.combine, Acc.empty, optCombine]

theorem Acc.combine_empty_right (a : Acc) : a.combine Acc.empty = a := by
  obtain ⟨c, s, mn, mx⟩ := a
  cases s <;> cases mn <;> cases mx <;> simp [Acc.combine, Acc.empty, optCombine]

theorem Acc.add_eq_combine (a : Acc) (v : Option Int) : a.add v = a.combine (Acc.empty.add v) := by
  obtain ⟨c, s, mn, mx⟩ := a
  cases v <;> cases s <;> cases mn <;> cases mx <;> simp [Acc.add, Acc.combine, Acc.empty, optCombine]

theorem Acc.foldl_add (a : Acc) (vs : List (Option Int)) :
    vs.foldl Acc.add a = a.combine (Acc.ofList vs) := by
  induction vs generalizing a with
  | nil => simp [Acc.ofList, Acc.combine_empty_right]
  | cons v vs ih =>
    simp only [List.foldl_cons, Acc.ofList]
    rw [ih (a.add v), ih (Acc.empty.add v), Acc.add_eq_combine a v, Acc.combine_assoc]

/-- `combine (acc xs) (acc ys) = acc (xs ++ ys)` for COUNT / SUM / MIN / MAX -/
theorem C04_combine (xs ys : List (Option Int)) :
    (Acc.ofList xs).combine (Acc.ofList ys) = Acc.ofList (xs ++ ys) := by
  simp only [Acc.ofList, List.foldl_append]
  rw [Acc.foldl_add (List.foldl Acc.add Acc.empty xs) ys]
  rfl

/-- parallel aggregation = sequential aggregation, for every chunking -/
theorem C04_parAggregate (chunks : List (List (Option Int))) :
    parAggregate chunks = Acc.ofList chunks.flatten := by
  unfold parAggregate
  have gen : ∀ (pre : List (Option Int)) (cs : List (List (Option Int))),
      (cs.map Acc.ofList).foldl Acc.combine (Acc.ofList pre) = Acc.ofList (pre ++ cs.flatten) := by
    intro pre cs
    induction cs generalizing pre with
    | nil => simp
    | cons c cs ih =>
      simp only [List.map_cons, List.foldl_cons, List.flatten_cons]
      rw [C04_combine, ih, List.append_assoc]
  simpa [Acc.ofList] using gen [] chunks

/-- non-vacuity: a comparison with ties (first components only) is transitive and total but not
antisymmetric — exactly the case where "sorted permutation" alone would not determine the result -/
example :
    let le := fun (a b : Nat × Nat) => decide (a.1 ≤ b.1)
    (∀ a b c, le a b → le b c → le a c) ∧ (∀ a b, le a b || le b a) ∧
      ∃ a b, a ≠ b ∧ le a b = true ∧ le b a = true := by
  refine ⟨?_, ?_, ⟨(1, 0), (1, 1), by decide, by decide, by decide⟩⟩
  · intro a b c h1 h2; simp only [decide_eq_true_eq] at *; omega
  · intro a b; simp only [Bool.or_eq_true, decide_eq_true_eq]; omega

theorem flatten_map_flatMap {α β : Type} (f : α → List β) (chunks : List (List α)) :
    (chunks.map (fun c => c.flatMap f)).flatten = chunks.flatten.flatMap f := by
  induction chunks with
  | nil => rfl
  | cons c cs ih => simp only [List.map_cons, List.flatten_cons, List.flatMap_append, ih]

/-- parallel hash join (parallel build, chunked probe) = sequential hash join, for every
chunking of both inputs -/
theorem C04_parHashJoin (kl kr : Row → Value) (lchunks rchunks : List (List Row)) :
    parHashJoin kl kr lchunks rchunks = hashJoinInner kl kr lchunks.flatten rchunks.flatten := by
  unfold parHashJoin hashJoinInner
  split
  · simp only [flatten_map_flatMap, C04_buildHashPar]
  · simp only [flatten_map_flatMap, C04_buildHashPar]

/-- semi and anti joins with the parallel build = their sequential versions -/
theorem C04_hashSemiPar (kl kr : Row → Value) (left : List Row) (rchunks : List (List Row)) :
    hashSemiPar kl kr left rchunks = hashSemi kl kr left rchunks.flatten := by
  simp only [hashSemiPar, hashSemi, C04_buildHashPar]

theorem C04_hashAntiPar (kl kr : Row → Value) (left : List Row) (rchunks : List (List Row)) :
    hashAntiPar kl kr left rchunks = hashAnti kl kr left rchunks.flatten := by
  simp only [hashAntiPar, hashAnti, C04_buildHashPar]

/-! ### every filter implementation uses the same "is this WHERE value true?" rule -/

def truthyTableOk (t : List (String × String × String)) : Bool :=
  t.all (fun a => a.2.1 == "!=" && (a.2.2 == "0" || a.2.2 == "0.0")) &&
  ["Integer", "Smallint", "Bigint"].all (fun ty => t.any (fun a => a.1 == ty))

/-- the sequential, rayon and vectorized filters (select/filter.rs, select/vectorized/predicate.rs), as
they are in the tree now, all use "non-zero is TRUE" for every numeric type and cover the same integer
types — so a numeric WHERE value cannot be kept by one of them and dropped by another (`Value.truthy`
in the model is that rule). An edited arm (seeded C04-2: `> 0` in the rayon copy) breaks this `decide`. -/
theorem C04_truthiness_tables_agree :
    Generated.c04TruthyTables.all (fun ft => truthyTableOk ft.2) = true ∧
    Generated.c04TruthyTables.length ≥ 3 ∧
    (∀ i : Int, Value.truthy (.int i) = .ok (TV.ofBool (i != 0))) := by
  refine ⟨by decide, by decide, fun i => rfl⟩

end VibeProof.C04
