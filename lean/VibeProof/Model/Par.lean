import VibeProof.Model.Join
/-
Parallel operators (C04).  A *chunking* of a list is any list of lists whose concatenation is
the input: it abstracts every split rayon can choose (`par_chunks`, `par_iter` work splitting).
Each parallel operator processes the chunks independently and combines the partial results in
chunk order, exactly as `select/parallel.rs`, `scan/predicates.rs`, `join/hash_join/build.rs`
(`build_hash_table_parallel`), `order.rs` (sort chunks, merge) and the aggregate `combine` do.
-/
namespace VibeProof.Par
open VibeProof VibeProof.Join

/-- parallel filter: filter every chunk, concatenate in chunk order -/
def parFilter {α : Type} (p : α → Bool) (chunks : List (List α)) : List α :=
  (chunks.map (fun c => c.filter p)).flatten

/-- parallel map (row materialisation / projection) -/
def parMap {α β : Type} (f : α → β) (chunks : List (List α)) : List β :=
  (chunks.map (fun c => c.map f)).flatten

/-- `build_hash_table_parallel`: one local table per chunk, merged in chunk order by appending
each key's row list -/
def mergeTables (acc : Table) (part : Table) : Table :=
  part.foldl (fun t kv => kv.2.foldl (fun t r => addRow t kv.1 r) t) acc

def buildHashPar (k : Row → Value) (chunks : List (List Row)) : Table :=
  (chunks.map (fun c => build k c [])).foldl mergeTables []

/-- parallel hash join: parallel build over the build side's chunks, the probe side probed
chunk by chunk, results concatenated in chunk order; side choice as in `hashJoinInner`.
The engine parallelises the build only (`hash_join/build.rs`): its probe is the one-chunk
instance of this definition. -/
def parHashJoin (kl kr : Row → Value) (lchunks rchunks : List (List Row)) : List Row :=
  if lchunks.flatten.length ≤ rchunks.flatten.length then
    let t := buildHashPar kl lchunks
    (rchunks.map (fun c => c.flatMap (fun p => if kr p = .null then [] else (lookup t (kr p)).map (fun b => b ++ p)))).flatten
  else
    let t := buildHashPar kr rchunks
    (lchunks.map (fun c => c.flatMap (fun p => if kl p = .null then [] else (lookup t (kl p)).map (fun b => p ++ b)))).flatten

/-- `hash_semi_join.rs` / `hash_anti_join.rs` with the parallel build (`par_chunks`) -/
def hashSemiPar (kl kr : Row → Value) (left : List Row) (rchunks : List (List Row)) : List Row :=
  let t := buildHashPar kr rchunks
  left.filter (fun l => kl l ≠ .null && !(lookup t (kl l)).isEmpty)

def hashAntiPar (kl kr : Row → Value) (left : List Row) (rchunks : List (List Row)) : List Row :=
  let t := buildHashPar kr rchunks
  left.filter (fun l => kl l = .null || (lookup t (kl l)).isEmpty)

/-- parallel sort: sort every chunk with the stable merge sort, then merge the sorted runs
left to right with the stable two-way merge -/
def parSort {α : Type} (le : α → α → Bool) (chunks : List (List α)) : List α :=
  (chunks.map (fun c => c.mergeSort le)).foldl (fun acc run => List.merge acc run le) []

/-! aggregate accumulators: partial states per chunk, combined associatively -/

structure Acc where
  count : Nat
  sum : Option Int
  min : Option Int
  max : Option Int
  deriving DecidableEq, Repr

def Acc.empty : Acc := ⟨0, none, none, none⟩

def optCombine (f : Int → Int → Int) : Option Int → Option Int → Option Int
  | none, b => b
  | a, none => a
  | some a, some b => some (f a b)

/-- accumulate one value (NULL = `none` is counted by COUNT(*) only) -/
def Acc.add (a : Acc) (v : Option Int) : Acc :=
  match v with
  | none => { a with count := a.count + 1 }
  | some x => ⟨a.count + 1, optCombine (· + ·) a.sum (some x), optCombine Min.min a.min (some x), optCombine Max.max a.max (some x)⟩

def Acc.ofList (vs : List (Option Int)) : Acc := vs.foldl Acc.add Acc.empty

def Acc.combine (a b : Acc) : Acc :=
  ⟨a.count + b.count, optCombine (· + ·) a.sum b.sum, optCombine Min.min a.min b.min, optCombine Max.max a.max b.max⟩

def parAggregate (chunks : List (List (Option Int))) : Acc :=
  (chunks.map Acc.ofList).foldl Acc.combine Acc.empty

end VibeProof.Par
