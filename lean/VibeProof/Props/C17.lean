import VibeProof.Model.BTree
import VibeProof.Lemmas.BTree
import VibeProof.Lemmas.BTreeDelete
import VibeProof.Lemmas.BTreeBulk
/-
C17 — the disk-backed B+ tree behaves as an ordered multimap and stays well-formed.

`WF d t` (Lemmas/BTree.lean): uniform leaf depth, strictly sorted keys in every node, every key
between the separators around its child, node sizes as the code maintains them.
`toAssoc t`: the entries of the leaves in order (= what the leaf chain visits).
All theorems are for every degree `d ≥ 5` (`calculate_degree` never returns less), every
well-formed tree of any size and height, every key and row id.
-/
namespace VibeProof.C17
open VibeProof.BTree
local notation "Key" => Int

/-! ## insert -/

theorem amInsert_nonempty (L : List Entry) (k : Key) (r : RowId) (h : ∀ e ∈ L, e.2 ≠ []) :
    ∀ e ∈ amInsert L k r, e.2 ≠ [] := by
  induction L with
  | nil => intro e he; simp [amInsert] at he; rw [he]; simp
  | cons a L ih =>
    obtain ⟨k', rs⟩ := a
    intro e he
    simp only [amInsert] at he
    split at he
    · simp at he
      rcases he with rfl | he
      · exact h _ (by simp)
      · exact ih (fun e he => h e (by simp [he])) e he
    · split at he
      · simp at he
        rcases he with rfl | he
        · simp
        · exact h e (by simp [he])
      · simp at he
        rcases he with rfl | rfl | he
        · simp
        · exact h _ (by simp)
        · exact h e (by simp [he])

theorem amInsert_keys (L : List Entry) (k : Key) (r : RowId) :
    ∀ e ∈ amInsert L k r, e.1 = k ∨ ∃ e' ∈ L, e'.1 = e.1 := by
  intro e he
  rcases amInsert_mem L k r e he with h | h | ⟨rs, h, _⟩
  · exact Or.inl h
  · exact Or.inr ⟨e, h, rfl⟩
  · exact Or.inr ⟨_, h, rfl⟩

/-- what `insertAux` must deliver for its caller -/
def InsOK (d h : Nat) (lo hi : Option Key) (old : List Entry) (k : Key) (rid : RowId) : InsRes → Prop
  | .done n' => WF d h lo hi n' ∧ flat h n' = amInsert old k rid
  | .split l s r => WF d h lo (some s) l ∧ WF d h (some s) hi r ∧ flat h l ++ flat h r = amInsert old k rid

theorem pairwise_take_drop {α : Type} (R : α → α → Prop) (l : List α) (n : Nat) (h : l.Pairwise R) :
    (l.take n).Pairwise R ∧ (l.drop n).Pairwise R ∧ ∀ a ∈ l.take n, ∀ b ∈ l.drop n, R a b := by
  have := List.take_append_drop n l
  rw [← this, List.pairwise_append] at h
  exact h

theorem insert_leaf (d : Nat) (hd : 5 ≤ d) (lo hi : Option Key) (es : List Entry) (k : Key) (rid : RowId)
    (hw : WF d 0 lo hi (.leaf es)) (h1 : leB lo k) (h2 : ltB k hi) :
    ∃ res, insertAux d 0 (.leaf es) k rid = .ok res ∧ InsOK d 0 lo hi es k rid res := by
  obtain ⟨hs, hb, hl, hbd⟩ := hw
  have hs' := amInsert_sorted es k rid hs
  have hne' := amInsert_nonempty es k rid (fun e he => (hb e he).2.2)
  have hb' : ∀ e ∈ amInsert es k rid, leB lo e.1 ∧ ltB e.1 hi := by
    intro e he
    rcases amInsert_keys es k rid e he with h | ⟨e', he', h⟩
    · rw [h]; exact ⟨h1, h2⟩
    · rw [← h]; exact ⟨(hb e' he').1, (hb e' he').2.1⟩
  have hlen := amInsert_length es k rid
  simp only [insertAux]
  show ∃ res, (if d ≤ (amInsert es k rid).length then splitLeaf (amInsert es k rid)
      else .ok (.done (.leaf (amInsert es k rid)))) = .ok res ∧ _
  by_cases hfull : d ≤ (amInsert es k rid).length
  · rw [if_pos hfull]
    have hlen' : (amInsert es k rid).length = d := by omega
    simp only [splitLeaf]
    have hdrop : ((amInsert es k rid).drop ((amInsert es k rid).length / 2)).length = d - d / 2 := by
      simp [hlen']
    generalize hE : amInsert es k rid = E at *
    match hD : E.drop (E.length / 2) with
    | [] => rw [hD] at hdrop; simp at hdrop; omega
    | e :: rt =>
      refine ⟨_, rfl, ?_⟩
      obtain ⟨pt, pd, ptd⟩ := pairwise_take_drop _ E (E.length / 2) hs'
      rw [hD] at pd ptd hdrop
      have hmemT : ∀ x ∈ E.take (E.length / 2), x ∈ E := fun x hx => List.mem_of_mem_take hx
      have hmemD : ∀ x ∈ e :: rt, x ∈ E := fun x hx => List.mem_of_mem_drop (by rw [hD]; exact hx)
      have hTlen : (E.take (E.length / 2)).length = d / 2 := by simp [hlen']; omega
      refine ⟨⟨pt, ?_, by omega, ?_⟩, ⟨pd, ?_, by simp at hdrop ⊢; omega, ?_⟩, ?_⟩
      · intro x hx
        refine ⟨(hb' x (hmemT x hx)).1, ?_, hne' x (hmemT x hx)⟩
        simpa using ptd x hx e (by simp)
      · -- lo < e.1 : the left half is not empty
        match hT : E.take (E.length / 2) with
        | [] => rw [hT] at hTlen; simp at hTlen; omega
        | x :: _ =>
          have hx : x ∈ E.take (E.length / 2) := by rw [hT]; simp
          have a := (hb' x (hmemT x hx)).1
          have b := ptd x hx e (by simp)
          cases lo <;> simp_all <;> omega
      · intro x hx
        refine ⟨?_, (hb' x (hmemD x hx)).2, hne' x (hmemD x hx)⟩
        simp at hx
        rcases hx with rfl | hx
        · simp
        · have := (List.pairwise_cons.mp pd).1 x hx
          simp; omega
      · have := (hb' e (hmemD e (by simp))).2
        cases hi <;> simp_all
      · show E.take (E.length / 2) ++ (e :: rt) = _
        rw [← hD, List.take_append_drop, hE]
  · rw [if_neg hfull]
    exact ⟨_, rfl, ⟨hs', fun e he => ⟨(hb' e he).1, (hb' e he).2, hne' e he⟩, by omega, hbd⟩, rfl⟩

theorem scan_len (k : Key) (c0 : Node) (r : List (Key × Node)) :
    (scan k [] c0 r).left.length + (scan k [] c0 r).right.length = r.length := by
  have := close_length (scan k [] c0 r).left (scan k [] c0 r).focus (scan k [] c0 r).right
  rw [scan_close] at this
  simp [close] at this
  omega

theorem insertAux_correct (d : Nat) (hd : 5 ≤ d) : ∀ (h : Nat) (lo hi : Option Key) (n : Node) (k : Key)
    (rid : RowId), WF d h lo hi n → leB lo k → ltB k hi →
    ∃ res, insertAux d h n k rid = .ok res ∧ InsOK d h lo hi (flat h n) k rid res := by
  intro h
  induction h with
  | zero =>
    intro lo hi n k rid hw h1 h2
    cases n with
    | leaf es => exact insert_leaf d hd lo hi es k rid hw h1 h2
    | internal c0 r => exact hw.elim
  | succ h ih =>
    intro lo hi n k rid hw h1 h2
    cases n with
    | leaf es => exact hw.elim
    | internal c0 r =>
      obtain ⟨hr1, hr2, hk⟩ := hw
      obtain ⟨flo, hL, hF, hR, hlo, hhi⟩ := scan_spec (WF d h) k lo hi [] c0 r lo rfl hk h1 h2
      have hlen := scan_len k c0 r
      have hflat := flat_scan h k c0 r
      have hA := WFLeft_flat d h lo _ flo hL
      have hC := WFRight_flat d h hi _ hR
      obtain ⟨res, hres, hok⟩ := ih flo _ _ k rid hF hlo hhi
      simp only [insertAux]
      generalize scan k [] c0 r = z at *
      rw [hres]
      have hspec : amInsert (flat (h + 1) (.internal c0 r)) k rid =
          flatLeft h z.left ++ (amInsert (flat h z.focus) k rid ++ flatRight h z.right) := by
        rw [hflat, amInsert_left _ _ _ _ (fun e he => (hA e he).1 k hlo),
          amInsert_right _ _ _ _ (fun e he => (hC e he).1 k hhi)]
      cases res with
      | done c' =>
        refine ⟨_, rfl, ⟨?_, ?_, ?_⟩, ?_⟩
        · rw [close_length]; omega
        · rw [close_length]; omega
        · exact (WFKids_close _ _ _ _ _ _).mpr ⟨flo, hL, (WFKids_focus _ _ _ _ _).mpr ⟨hok.1, hR⟩⟩
        · rw [flat_closeNode, hok.2, hspec]
      | split l s rt =>
        obtain ⟨hl, hrt, hfl⟩ := hok
        have hkids : WFKids (WF d h) lo hi (close z.left l ((s, rt) :: z.right)).1
            (close z.left l ((s, rt) :: z.right)).2 :=
          (WFKids_close _ _ _ _ _ _).mpr ⟨flo, hL, hl, (WFKids_focus _ _ _ _ _).mpr ⟨hrt, hR⟩⟩
        have hplen := close_length z.left l ((s, rt) :: z.right)
        have hpflat := flat_close h z.left l ((s, rt) :: z.right)
        simp only [List.length_cons] at hplen
        simp only [flatRight_cons] at hpflat
        dsimp only
        generalize close z.left l ((s, rt) :: z.right) = p at *
        show ∃ res, (if d ≤ p.2.length + 1 then splitInternal p.1 p.2 else .ok (.done (.internal p.1 p.2))) = .ok res ∧ _
        by_cases hfull : d ≤ p.2.length + 1
        · rw [if_pos hfull]
          have hp : p.2.length = d - 1 := by omega
          simp only [splitInternal]
          have hdl : (p.2.drop (p.2.length / 2)).length = d - 1 - (d - 1) / 2 := by simp [hp]
          match hD : p.2.drop (p.2.length / 2) with
          | [] => rw [hD] at hdl; simp at hdl; omega
          | (mk, mc) :: rt' =>
            rw [hD] at hdl
            have hsplit : p.2 = p.2.take (p.2.length / 2) ++ (mk, mc) :: rt' := by
              rw [← hD, List.take_append_drop]
            have hTlen : (p.2.take (p.2.length / 2)).length = (d - 1) / 2 := by simp [hp]; omega
            rw [hsplit] at hkids
            obtain ⟨k1, k2⟩ := (WFKids_split _ _ _ _ _ _ _ _).mp hkids
            refine ⟨_, rfl, ⟨by omega, by omega, k1⟩, ⟨by simp at hdl; omega, by simp at hdl; omega, k2⟩, ?_⟩
            rw [flat_internal, flat_internal, hspec, ← hfl]
            have : flatRight h p.2 = flatRight h (p.2.take (p.2.length / 2)) ++ (flat h mc ++ flatRight h rt') := by
              conv => lhs; rw [hsplit]
              simp
            simp only [List.append_assoc] at hpflat ⊢
            rw [← hpflat, this]
        · rw [if_neg hfull]
          refine ⟨_, rfl, ⟨by omega, by omega, hkids⟩, ?_⟩
          rw [flat_internal, hpflat, hspec, ← hfl]
          simp

/-- **insert refines the ordered multimap and keeps the tree well-formed** (no error, no panic) -/
theorem C17_insert (d : Nat) (hd : 5 ≤ d) (t : BTree) (k : Key) (rid : RowId) (hw : t.WF d) :
    ∃ t', BTree.insert d t k rid = .ok t' ∧ t'.WF d ∧ t'.toAssoc = amInsert t.toAssoc k rid := by
  obtain ⟨res, hres, hok⟩ := insertAux_correct d hd t.h none none t.root k rid hw trivial trivial
  simp only [BTree.insert, hres]
  cases res with
  | done n => exact ⟨_, rfl, hok.1, hok.2⟩
  | split l s r =>
    refine ⟨_, rfl, ⟨by simp, by simp; omega, hok.1, hok.2.1⟩, ?_⟩
    simp [BTree.toAssoc, flat_internal, ← hok.2.2]

/-! ## lookup -/

theorem findLeaf_correct (d : Nat) : ∀ (h : Nat) (lo hi : Option Key) (n : Node) (k : Key),
    WF d h lo hi n → leB lo k → ltB k hi →
    ∃ es, findLeaf h n k = .ok es ∧ leafSearch es k = amLookup (flat h n) k := by
  intro h
  induction h with
  | zero =>
    intro lo hi n k hw h1 h2
    cases n with
    | leaf es => exact ⟨es, rfl, leafSearch_eq es k hw.1⟩
    | internal c0 r => exact hw.elim
  | succ h ih =>
    intro lo hi n k hw h1 h2
    cases n with
    | leaf es => exact hw.elim
    | internal c0 r =>
      obtain ⟨hr1, hr2, hk⟩ := hw
      obtain ⟨flo, hL, hF, hR, hlo, hhi⟩ := scan_spec (WF d h) k lo hi [] c0 r lo rfl hk h1 h2
      have hflat := flat_scan h k c0 r
      have hA := WFLeft_flat d h lo _ flo hL
      have hC := WFRight_flat d h hi _ hR
      obtain ⟨es, hes, hok⟩ := ih flo _ _ k hF hlo hhi
      refine ⟨es, by simpa [findLeaf] using hes, ?_⟩
      have hAk : ∀ e ∈ flatLeft h (scan k [] c0 r).left, e.1 ≠ k := by
        intro e he
        have := (hA e he).1 k hlo
        omega
      rw [hok, hflat, amLookup_left _ _ _ hAk]
      by_cases hmem : amLookup (flat h (scan k [] c0 r).focus) k = []
      · rw [hmem]
        symm
        apply amLookup_nil_of
        intro e he
        simp only [List.mem_append] at he
        rcases he with he | he
        · intro heq
          -- a key of the focus equal to k would have been found
          have : ∀ (L : List Entry), amLookup L k = [] → (∀ e ∈ L, e.2 ≠ []) → ∀ e ∈ L, e.1 ≠ k := by
            intro L
            induction L with
            | nil => intro _ _ e he; simp at he
            | cons a L ihL =>
              obtain ⟨k', rs⟩ := a
              intro hnil hne e he
              simp only [amLookup] at hnil
              split at hnil
              · exact absurd hnil (hne (k', rs) (by simp))
              · simp at he
                rcases he with rfl | he
                · assumption
                · exact ihL hnil (fun e he => hne e (by simp [he])) e he
          exact this _ hmem (fun e he => flat_nonempty d h _ _ _ hF e he) e he heq
        · have := (hC e he).1 k hhi; omega
      · have : ∀ (B C : List Entry), amLookup B k ≠ [] → amLookup (B ++ C) k = amLookup B k := by
          intro B C
          induction B with
          | nil => intro h; simp [amLookup] at h
          | cons b B ihB =>
            obtain ⟨k', rs⟩ := b
            intro h
            simp only [List.cons_append, amLookup] at h ⊢
            split
            · rfl
            · rename_i hne; simp [hne] at h; exact ihB h
        exact (this _ _ hmem).symm

/-- **lookup answers as the ordered multimap** -/
theorem C17_lookup (d : Nat) (t : BTree) (k : Key) (hw : t.WF d) :
    lookup t k = .ok (amLookup t.toAssoc k) := by
  obtain ⟨es, hes, hok⟩ := findLeaf_correct d t.h none none t.root k hw trivial trivial
  simp [lookup, hes, hok, BTree.toAssoc, Except.map]

/-- **multi-key lookup answers as the ordered multimap** -/
theorem C17_multi_lookup (d : Nat) (t : BTree) (ks : List Key) (hw : t.WF d) :
    multiLookup t ks = .ok (amMulti t.toAssoc ks) := by
  induction ks with
  | nil => rfl
  | cons k ks ih =>
    simp only [multiLookup, C17_lookup d t k hw, ih, amMulti, List.flatMap_cons]
    rfl

/-! ## range scan -/

theorem chainFrom_correct (d : Nat) : ∀ (h : Nat) (lo hi : Option Key) (n : Node) (start : Option Key),
    WF d h lo hi n → (∀ s, start = some s → leB lo s ∧ ltB s hi) →
    ∃ L A, chainFrom h n start = .ok L ∧ flat h n = A ++ L ∧ (∀ e ∈ A, ∀ s, start = some s → e.1 < s) := by
  intro h
  induction h with
  | zero =>
    intro lo hi n start hw hs
    cases n with
    | leaf es => exact ⟨es, [], rfl, rfl, by simp⟩
    | internal c0 r => exact hw.elim
  | succ h ih =>
    intro lo hi n start hw hs
    cases n with
    | leaf es => exact hw.elim
    | internal c0 r =>
      obtain ⟨hr1, hr2, hk⟩ := hw
      cases start with
      | none =>
        obtain ⟨hc0, _⟩ := (WFKids_focus _ _ _ _ _).mp hk
        obtain ⟨L, A, h1, h2, h3⟩ := ih _ _ c0 none hc0 (by simp)
        refine ⟨L ++ flatRight h r, A, by simp [chainFrom, h1, Except.map, flatRight], ?_, by simp⟩
        rw [flat_internal, h2]; simp
      | some k =>
        obtain ⟨hlo, hhi⟩ := hs k rfl
        obtain ⟨flo, hL, hF, hR, hlo', hhi'⟩ := scan_spec (WF d h) k lo hi [] c0 r lo rfl hk hlo hhi
        have hflat := flat_scan h k c0 r
        have hA := WFLeft_flat d h lo _ flo hL
        obtain ⟨L, A, h1, h2, h3⟩ := ih flo _ _ (some k) hF (by intro s hs; cases hs; exact ⟨hlo', hhi'⟩)
        refine ⟨L ++ flatRight h (scan k [] c0 r).right, flatLeft h (scan k [] c0 r).left ++ A,
          by simp [chainFrom, h1, Except.map, flatRight], ?_, ?_⟩
        · rw [hflat, h2]; simp
        · intro e he s hs
          cases hs
          simp only [List.mem_append] at he
          rcases he with he | he
          · exact (hA e he).1 k hlo'
          · exact h3 e he k rfl

def startOK (start : Option Key) (incS : Bool) (k : Key) : Bool :=
  match start with | none => true | some a => if incS then a ≤ k else a < k

def stopOK (stop : Option Key) (incE : Bool) (k : Key) : Bool :=
  match stop with | none => true | some b => if incE then k ≤ b else k < b

theorem inRange_eq (start stop : Option Key) (incS incE : Bool) (k : Key) :
    inRange start stop incS incE k = (startOK start incS k && stopOK stop incE k) := rfl

theorem stop_test (stop : Option Key) (incE : Bool) (k : Key) :
    pastStop stop incE k = !stopOK stop incE k := by
  cases stop <;> cases incE <;> simp [stopOK, pastStop] <;> rw [Bool.eq_iff_iff] <;> simp <;> omega

theorem start_test (start : Option Key) (incS : Bool) (k : Key) :
    beforeStart start incS k = !startOK start incS k := by
  cases start <;> cases incS <;> simp [startOK, beforeStart] <;> rw [Bool.eq_iff_iff] <;> simp <;> omega

theorem startOK_mono (start : Option Key) (incS : Bool) (k k' : Key) (h : k < k') (hk : startOK start incS k = true) :
    startOK start incS k' = true := by
  cases start <;> cases incS <;> simp [startOK] at * <;> omega

theorem stopOK_anti (stop : Option Key) (incE : Bool) (k k' : Key) (h : k < k') (hk : stopOK stop incE k = false) :
    stopOK stop incE k' = false := by
  cases stop <;> cases incE <;> simp [stopOK] at * <;> omega

theorem scanLoop_filter (start stop : Option Key) (incS incE : Bool) : ∀ (L : List Entry) (started : Bool),
    L.Pairwise (fun a b => a.1 < b.1) → (started = true → ∀ e ∈ L, startOK start incS e.1 = true) →
    scanLoopE start stop incS incE started L = L.filter (fun e => inRange start stop incS incE e.1) := by
  intro L
  induction L with
  | nil => intro _ _ _; rfl
  | cons a t ih =>
    obtain ⟨k, rs⟩ := a
    intro started hs hst
    rw [List.pairwise_cons] at hs
    simp only [scanLoopE, stop_test, start_test, List.filter_cons, inRange_eq]
    cases hstop : stopOK stop incE k with
    | false =>
      simp only [Bool.not_false, if_true, Bool.and_false]
      have : t.filter (fun e => startOK start incS e.1 && stopOK stop incE e.1) = [] := by
        rw [List.filter_eq_nil_iff]
        intro e he
        have := stopOK_anti stop incE k e.1 (hs.1 e he) hstop
        simp [this]
      simp [this]
    | true =>
      simp only [Bool.not_true, Bool.and_true]
      cases hstart : startOK start incS k with
      | false =>
        cases started with
        | true => have := hst rfl (k, rs) (by simp); simp [hstart] at this
        | false =>
          simp only [Bool.not_false, Bool.and_self, if_true]
          simp only [Bool.false_eq_true, if_false]
          exact ih false hs.2 (by simp)
      | true =>
        have hrec := ih true hs.2 (fun _ e he => startOK_mono start incS k e.1 (hs.1 e he) hstart)
        simp only [Bool.not_true, Bool.and_false, Bool.false_eq_true, if_false, if_true]
        rw [hrec]
        simp [inRange_eq]

/-- `range_scan_entries` returns exactly the entries whose key is in the range, in key order -/
theorem C17_range_scan_entries (d : Nat) (t : BTree) (start stop : Option Key) (incS incE : Bool) (hw : t.WF d) :
    rangeScanEntries t start stop incS incE =
      .ok (t.toAssoc.filter (fun e => inRange start stop incS incE e.1)) := by
  obtain ⟨L, A, h1, h2, h3⟩ := chainFrom_correct d t.h none none t.root start hw (by simp)
  have hsorted := flat_sorted d t.h none none t.root hw
  rw [h2, List.pairwise_append] at hsorted
  simp only [rangeScanEntries, h1, Except.map, BTree.toAssoc, h2, List.filter_append]
  have hA : A.filter (fun e => inRange start stop incS incE e.1) = [] := by
    rw [List.filter_eq_nil_iff]
    intro e he
    cases start with
    | none => cases A with
      | nil => simp at he
      | cons a A' =>
        -- with no start key the chain starts at the leftmost leaf: nothing is skipped
        exfalso
        have : ∀ (h : Nat) (lo hi : Option Key) (n : Node) (L A : List Entry), WF d h lo hi n →
            chainFrom h n none = .ok L → flat h n = A ++ L → A = [] := by
          intro h
          induction h with
          | zero =>
            intro lo hi n L A hw hc hf
            cases n with
            | leaf es => simp [chainFrom] at hc; simp [flat, ← hc] at hf; exact hf
            | internal c0 r => exact hw.elim
          | succ h ih =>
            intro lo hi n L A hw hc hf
            cases n with
            | leaf es => exact hw.elim
            | internal c0 r =>
              obtain ⟨hc0, _⟩ := (WFKids_focus _ _ _ _ _).mp hw.2.2
              obtain ⟨L0, A0, g1, g2, _⟩ := chainFrom_correct d h _ _ c0 none hc0 (by simp)
              have hA0 := ih _ _ c0 L0 A0 hc0 g1 g2
              subst hA0
              simp [chainFrom, g1, Except.map] at hc
              rw [flat_internal, g2, ← hc] at hf
              simp only [flatRight] at hf
              have := congrArg List.length hf
              simp only [List.length_append, List.nil_append] at this
              exact List.length_eq_zero_iff.mp (by omega)
        have := this t.h none none t.root L (a :: A') hw h1 h2
        simp at this
    | some s =>
      have := h3 e he s rfl
      cases incS <;> simp [inRange] <;> omega
  rw [hA, List.nil_append]
  congr 1
  apply scanLoop_filter _ _ _ _ L _ hsorted.2.1
  intro hst e he
  cases start with
  | none => rfl
  | some s => simp at hst

/-- **range scan answers as the ordered multimap** (every start/end, inclusive or exclusive) -/
theorem C17_range_scan (d : Nat) (t : BTree) (start stop : Option Key) (incS incE : Bool) (hw : t.WF d) :
    rangeScan t start stop incS incE = .ok (amRange t.toAssoc start stop incS incE) := by
  simp only [rangeScan, C17_range_scan_entries d t start stop incS incE hw, Except.map, amRange]

/-! ## delete / delete_specific -/

/-- what the two leaf-level deletions have in common: `f` is the code's leaf operation
    (`none` = not found), `g` the ordered multimap's -/
structure LeafDelSpec (f : List Entry → Option (List Entry)) (g : List Entry → List Entry) (k : Key) : Prop where
  none_id : ∀ es, es.Pairwise (fun a b => a.1 < b.1) → (∀ e ∈ es, e.2 ≠ []) → f es = none → g es = es
  some_eq : ∀ es es', es.Pairwise (fun a b => a.1 < b.1) → (∀ e ∈ es, e.2 ≠ []) → f es = some es' → es' = g es
  sub : ∀ es, es.Pairwise (fun a b => a.1 < b.1) → (∀ e ∈ es, e.2 ≠ []) →
    (g es).Pairwise (fun a b => a.1 < b.1) ∧ (∀ e ∈ g es, e.2 ≠ [] ∧ ∃ e' ∈ es, e'.1 = e.1) ∧
      (g es).length ≤ es.length
  parts : ∀ A B C, (∀ e ∈ A, e.1 ≠ k) → (∀ e ∈ C, e.1 ≠ k) → g (A ++ (B ++ C)) = A ++ (g B ++ C)

theorem leafDeleteAll_spec (k : Key) : LeafDelSpec (leafDeleteAll · k) (amErase · k) k where
  none_id := by
    intro es hs hne0 h
    clear hne0
    induction es with
    | nil => rfl
    | cons a es ih =>
      obtain ⟨k', rs⟩ := a
      rw [List.pairwise_cons] at hs
      simp only [leafDeleteAll] at h
      split at h
      · rename_i hlt
        have : leafDeleteAll es k = none := by simpa using h
        have hne : k' ≠ k := by omega
        have := ih hs.2 this
        simp only [amErase] at this ⊢
        rw [List.filter_cons]
        simp only [hne, ne_eq, not_false_eq_true, decide_true, if_true]
        rw [this]
      · split at h
        · simp at h
        · rename_i h1 h2
          have hne : k' ≠ k := h2
          simp only [amErase, List.filter_cons, hne, ne_eq, not_false_eq_true, decide_true, if_true]
          congr 1
          apply List.filter_eq_self.mpr
          intro e he
          have := hs.1 e he
          simp at this ⊢
          omega
  some_eq := by
    intro es es' hs hne0 h
    clear hne0
    induction es generalizing es' with
    | nil => simp [leafDeleteAll] at h
    | cons a es ih =>
      obtain ⟨k', rs⟩ := a
      rw [List.pairwise_cons] at hs
      simp only [leafDeleteAll] at h
      split at h
      · rename_i hlt
        have hne : k' ≠ k := by omega
        cases hrec : leafDeleteAll es k with
        | none => simp [hrec] at h
        | some es2 =>
          simp [hrec] at h
          rw [← h, ih es2 hs.2 hrec]
          simp [amErase, List.filter_cons, hne]
      · split at h
        · rename_i heq
          simp at h
          subst heq h
          simp only [amErase, List.filter_cons, ne_eq, not_true_eq_false, decide_false]
          symm
          simp only [Bool.false_eq_true, if_false]
          apply List.filter_eq_self.mpr
          intro e he
          have := hs.1 e he
          simp at this ⊢
          omega
        · simp at h
  sub := by
    intro es hs hne
    refine ⟨List.Pairwise.sublist List.filter_sublist hs, ?_, List.length_filter_le _ _⟩
    intro e he
    have := List.mem_filter.mp he
    exact ⟨hne e this.1, e, this.1, rfl⟩
  parts := fun A B C hA hC => amErase_parts A B C k hA hC

theorem amEraseOne_cons (k' : Key) (rs : List Nat) (es : List Entry) (k : Key) (rid : RowId) :
    amEraseOne ((k', rs) :: es) k rid =
      (if k' = k then (if rs.erase rid = [] then amEraseOne es k rid else (k', rs.erase rid) :: amEraseOne es k rid)
       else (k', rs) :: amEraseOne es k rid) := by
  unfold amEraseOne
  rw [List.filterMap_cons]
  by_cases h1 : k' = k
  · by_cases h2 : rs.erase rid = []
    · simp only [h1, h2, if_true]
    · simp only [h1, h2, if_true, if_false]
  · simp only [h1, if_false]

theorem amEraseOne_later (k' : Key) (es : List Entry) (k : Key) (rid : RowId)
    (hs : ∀ e ∈ es, k' < e.1) (hge : ¬ k' < k) : amEraseOne es k rid = es := by
  apply filterMap_eq_self
  intro e he
  have := hs e he
  have : ¬ e.1 = k := by omega
  simp [this]

theorem leafDeleteOne_spec (k : Key) (rid : RowId) :
    LeafDelSpec (leafDeleteOne · k rid) (amEraseOne · k rid) k where
  none_id := by
    intro es hs hne h
    induction es with
    | nil => rfl
    | cons a es ih =>
      obtain ⟨k', rs⟩ := a
      rw [List.pairwise_cons] at hs
      show amEraseOne ((k', rs) :: es) k rid = (k', rs) :: es
      rw [amEraseOne_cons]
      simp only [leafDeleteOne] at h
      split at h
      · rename_i hlt
        have h' : leafDeleteOne es k rid = none := by simpa using h
        have hne2 : ¬ k' = k := by omega
        rw [if_neg hne2]
        have := ih hs.2 (fun e he => hne e (by simp [he])) h'
        rw [this]
      · rename_i hge
        have hl := amEraseOne_later k' es k rid hs.1 hge
        split at h
        · rename_i heq
          split at h
          · simp at h
          · rename_i hnm
            have herase : rs.erase rid = rs := List.erase_of_not_mem hnm
            have hrs : rs ≠ [] := hne (k', rs) (by simp)
            rw [if_pos heq, herase, if_neg hrs, hl]
        · rename_i hne2
          rw [if_neg hne2, hl]
  some_eq := by
    intro es es' hs hne h
    induction es generalizing es' with
    | nil => simp [leafDeleteOne] at h
    | cons a es ih =>
      obtain ⟨k', rs⟩ := a
      rw [List.pairwise_cons] at hs
      show es' = amEraseOne ((k', rs) :: es) k rid
      rw [amEraseOne_cons]
      simp only [leafDeleteOne] at h
      split at h
      · rename_i hlt
        have hne2 : ¬ k' = k := by omega
        rw [if_neg hne2]
        cases hrec : leafDeleteOne es k rid with
        | none => simp [hrec] at h
        | some es2 =>
          simp [hrec] at h
          have := ih es2 hs.2 (fun e he => hne e (by simp [he])) hrec
          rw [← h, this]
      · rename_i hge
        have hl := amEraseOne_later k' es k rid hs.1 hge
        split at h
        · rename_i heq
          rw [if_pos heq, hl]
          split at h
          · by_cases hemp : rs.erase rid = []
            · rw [if_pos hemp] at h ⊢; exact (Option.some.inj h).symm
            · rw [if_neg hemp] at h ⊢; exact (Option.some.inj h).symm
          · simp at h
        · simp at h
  sub := by
    intro es hs hne
    have hmem : ∀ e ∈ amEraseOne es k rid, e.2 ≠ [] ∧ ∃ e' ∈ es, e'.1 = e.1 := by
      intro e he
      simp only [amEraseOne, List.mem_filterMap] at he
      obtain ⟨e', he', hf⟩ := he
      split at hf
      · split at hf
        · simp at hf
        · rename_i hemp
          simp at hf
          subst hf
          exact ⟨hemp, e', he', rfl⟩
      · simp at hf
        subst hf
        exact ⟨hne e' he', e', he', rfl⟩
    refine ⟨?_, hmem, List.length_filterMap_le _ _⟩
    clear hmem hne
    induction es with
    | nil => simp [amEraseOne]
    | cons a es ih =>
      rw [List.pairwise_cons] at hs
      have hsub : ∀ e ∈ amEraseOne es k rid, ∃ e' ∈ es, e'.1 = e.1 := by
        intro e he
        simp only [amEraseOne, List.mem_filterMap] at he
        obtain ⟨e', he', hf⟩ := he
        split at hf
        · split at hf
          · simp at hf
          · simp at hf; subst hf; exact ⟨e', he', rfl⟩
        · simp at hf; subst hf; exact ⟨e', he', rfl⟩
      have ih' := ih hs.2
      simp only [amEraseOne, List.filterMap_cons] at ih' ⊢
      split
      · exact ih'
      · rename_i b hb
        rw [List.pairwise_cons]
        refine ⟨?_, ih'⟩
        intro e he
        obtain ⟨e', he', hk⟩ := hsub e he
        have := hs.1 e' he'
        have hb1 : b.1 = a.1 := by
          split at hb
          · split at hb
            · simp at hb
            · simp at hb; rw [← hb]
          · simp at hb; rw [hb]
        omega
  parts := fun A B C hA hC => amEraseOne_parts A B C k rid hA hC

/-- the descent of `delAux` when no rebalancing is needed: the leaf keeps at least `d / 2`
    entries (or is the root) -/
theorem delAux_noUnderflow (d : Nat) (f : List Entry → Option (List Entry)) (g : List Entry → List Entry)
    (k : Key) (sp : LeafDelSpec f g k) : ∀ (h : Nat) (lo hi : Option Key) (n : Node),
    WF d h lo hi n → leB lo k → ltB k hi →
    ∃ es, findLeaf h n k = .ok es ∧
      (f es = none → delAux d f h n k = .ok .notFound ∧ g (flat h n) = flat h n) ∧
      (∀ es', f es = some es' → (h = 0 ∨ d / 2 ≤ es'.length) →
        ∃ n', delAux d f h n k = .ok (.ok n' (h == 0)) ∧ WF d h lo hi n' ∧ flat h n' = g (flat h n)) := by
  intro h
  induction h with
  | zero =>
    intro lo hi n hw h1 h2
    cases n with
    | internal c0 r => exact hw.elim
    | leaf es =>
      obtain ⟨hs, hb, hl, hbd⟩ := hw
      have hne : ∀ e ∈ es, e.2 ≠ [] := fun e he => (hb e he).2.2
      refine ⟨es, rfl, ?_, ?_⟩
      · intro hf
        exact ⟨by simp [delAux, hf], sp.none_id es hs hne hf⟩
      · intro es' hf _
        have heq := sp.some_eq es es' hs hne hf
        obtain ⟨s1, s2, s3⟩ := sp.sub es hs hne
        refine ⟨.leaf es', by simp [delAux, hf], ⟨by rw [heq]; exact s1, ?_, by rw [heq]; omega, hbd⟩, heq⟩
        intro e he
        rw [heq] at he
        obtain ⟨e', he', hk⟩ := (s2 e he).2
        rw [← hk]
        exact ⟨(hb e' he').1, (hb e' he').2.1, (s2 e he).1⟩
  | succ h ih =>
    intro lo hi n hw h1 h2
    cases n with
    | leaf es => exact hw.elim
    | internal c0 r =>
      obtain ⟨hr1, hr2, hk⟩ := hw
      obtain ⟨flo, hL, hF, hR, hlo, hhi⟩ := scan_spec (WF d h) k lo hi [] c0 r lo rfl hk h1 h2
      have hlen := scan_len k c0 r
      have hflat := flat_scan h k c0 r
      have hA := WFLeft_flat d h lo _ flo hL
      have hC := WFRight_flat d h hi _ hR
      obtain ⟨es, hes, hnone, hsome⟩ := ih flo _ _ hF hlo hhi
      have hAk : ∀ e ∈ flatLeft h (scan k [] c0 r).left, e.1 ≠ k := by
        intro e he; have := (hA e he).1 k hlo; omega
      have hCk : ∀ e ∈ flatRight h (scan k [] c0 r).right, e.1 ≠ k := by
        intro e he; have := (hC e he).1 k hhi; omega
      refine ⟨es, by simpa [findLeaf] using hes, ?_, ?_⟩
      · intro hf
        obtain ⟨g1, g2⟩ := hnone hf
        refine ⟨by simp [delAux, g1], ?_⟩
        rw [hflat, sp.parts _ _ _ hAk hCk, g2]
      · intro es' hf hsz
        have hsz' : d / 2 ≤ es'.length := by
          rcases hsz with hz | hz
          · omega
          · exact hz
        obtain ⟨c', g1, g2, g3⟩ := hsome es' hf (Or.inr hsz')
        have hnoreb : ((h == 0) && underfull d c') = false := by
          cases h with
          | zero =>
            -- the child is the leaf itself
            cases hn : (scan k [] c0 r).focus with
            | internal a b => rw [hn] at hF; exact hF.elim
            | leaf les =>
              rw [hn] at hes g1
              simp [findLeaf] at hes
              subst hes
              simp [delAux, hf] at g1
              subst g1
              simp only [underfull, Node.size, Bool.true_and, beq_self_eq_true]
              exact decide_eq_false (by omega)
          | succ h' => rfl
        refine ⟨closeNode (scan k [] c0 r).left c' (scan k [] c0 r).right, ?_, ⟨?_, ?_, ?_⟩, ?_⟩
        · simp only [delAux, g1, hnoreb]
          rfl
        · rw [close_length]; omega
        · rw [close_length]; omega
        · exact (WFKids_close _ _ _ _ _ _).mpr ⟨flo, hL, (WFKids_focus _ _ _ _ _).mpr ⟨g2, hR⟩⟩
        · rw [flat_closeNode, g3, hflat, sp.parts _ _ _ hAk hCk]

/-- the operations whose deletion does not underflow a non-root leaf -/
def NoUnderflow (d : Nat) (f : List Entry → Option (List Entry)) (t : BTree) (k : Key) : Prop :=
  t.h = 0 ∨ ∀ es es', findLeaf t.h t.root k = .ok es → f es = some es' → d / 2 ≤ es'.length

theorem deleteWith_partial (d : Nat) (f : List Entry → Option (List Entry)) (g : List Entry → List Entry)
    (k : Key) (sp : LeafDelSpec f g k) (t : BTree) (hw : t.WF d) (hn : NoUnderflow d f t k) :
    ∃ t' b, deleteWith d f t k = .ok (t', b) ∧ t'.WF d ∧ t'.toAssoc = g t.toAssoc ∧
      ∃ es, findLeaf t.h t.root k = .ok es ∧ b = (f es).isSome := by
  obtain ⟨es, hes, hnone, hsome⟩ := delAux_noUnderflow d f g k sp t.h none none t.root hw trivial trivial
  cases hf : f es with
  | none =>
    obtain ⟨g1, g2⟩ := hnone hf
    exact ⟨t, false, by simp [deleteWith, g1], hw, g2.symm, es, hes, by simp [hf]⟩
  | some es' =>
    have hsz : t.h = 0 ∨ d / 2 ≤ es'.length := by
      rcases hn with h0 | hall
      · exact Or.inl h0
      · exact Or.inr (hall es es' hes hf)
    obtain ⟨n', g1, g2, g3⟩ := hsome es' hf hsz
    refine ⟨collapse ⟨t.h, n'⟩, true, by simp [deleteWith, g1], ?_, ?_, es, hes, by simp [hf]⟩
    · -- a well-formed root has at least two children: nothing to collapse
      cases hh : t.h with
      | zero => rw [hh] at g2; exact g2
      | succ h' =>
        rw [hh] at g2
        cases n' with
        | leaf _ => exact g2.elim
        | internal c0 r =>
          cases r with
          | nil => have := g2.1; simp at this
          | cons p r => exact g2
    · cases hh : t.h with
      | zero => rw [hh] at g3; simpa [collapse, BTree.toAssoc, hh] using g3
      | succ h' =>
        rw [hh] at g2 g3
        cases n' with
        | leaf _ => exact g2.elim
        | internal c0 r =>
          cases r with
          | nil => have := g2.1; simp at this
          | cons p r => simpa [collapse, BTree.toAssoc, hh] using g3

/-- **delete (all row ids of a key), when no leaf underflows**: refines the ordered multimap,
    keeps the tree well-formed, returns whether the key was present.  The excluded region is
    exactly the rebalancing code (borrow / merge / root collapse), see `C17_delete_full`. -/
theorem C17_delete_partial (d : Nat) (t : BTree) (k : Key) (hw : t.WF d)
    (hn : NoUnderflow d (leafDeleteAll · k) t k) :
    ∃ t' b, BTree.delete d t k = .ok (t', b) ∧ t'.WF d ∧ t'.toAssoc = amErase t.toAssoc k := by
  obtain ⟨t', b, h1, h2, h3, _⟩ := deleteWith_partial d _ _ k (leafDeleteAll_spec k) t hw hn
  exact ⟨t', b, h1, h2, h3⟩

/-- **delete_specific, when no leaf underflows** -/
theorem C17_delete_specific_partial (d : Nat) (t : BTree) (k : Key) (rid : RowId) (hw : t.WF d)
    (hn : NoUnderflow d (leafDeleteOne · k rid) t k) :
    ∃ t' b, BTree.deleteSpecific d t k rid = .ok (t', b) ∧ t'.WF d ∧
      t'.toAssoc = amEraseOne t.toAssoc k rid := by
  obtain ⟨t', b, h1, h2, h3, _⟩ := deleteWith_partial d _ _ k (leafDeleteOne_spec k rid) t hw hn
  exact ⟨t', b, h1, h2, h3⟩

/-! ## delete / delete_specific in full: borrow, merge at both levels, root collapse -/

/-- the recursive deletion with rebalancing: the result is well-formed except possibly for its own
    child count (`WFw`, repaired one level up or by the root collapse), fully well-formed when the
    upward loop has stopped (`c = false`), and denotes the multimap after the deletion -/
theorem delAux_correct (d : Nat) (hd : 5 ≤ d) (f : List Entry → Option (List Entry))
    (g : List Entry → List Entry) (k : Key) (sp : LeafDelSpec f g k) :
    ∀ (h : Nat) (lo hi : Option Key) (n : Node), WF d h lo hi n → leB lo k → ltB k hi →
    ∃ es, findLeaf h n k = .ok es ∧
      (f es = none → delAux d f h n k = .ok .notFound ∧ g (flat h n) = flat h n) ∧
      (∀ es', f es = some es' →
        ∃ n' c, delAux d f h n k = .ok (.ok n' c) ∧ WFw d h lo hi n' ∧ (c = false → WF d h lo hi n') ∧
          flat h n' = g (flat h n)) := by
  intro h
  induction h with
  | zero =>
    intro lo hi n hw h1 h2
    cases n with
    | internal c0 r => exact hw.elim
    | leaf es =>
      obtain ⟨es0, hes, hnone, hsome⟩ := delAux_noUnderflow d f g k sp 0 lo hi (.leaf es) hw h1 h2
      refine ⟨es0, hes, hnone, ?_⟩
      intro es' hf
      obtain ⟨n', g1, g2, g3⟩ := hsome es' hf (Or.inl rfl)
      exact ⟨n', _, g1, g2, fun _ => g2, g3⟩
  | succ h ih =>
    intro lo hi n hw h1 h2
    cases n with
    | leaf es => exact hw.elim
    | internal c0 r =>
      obtain ⟨hr1, hr2, hk⟩ := hw
      obtain ⟨flo, hL, hF, hR, hlo, hhi⟩ := scan_spec (WF d h) k lo hi [] c0 r lo rfl hk h1 h2
      have hlen := scan_len k c0 r
      have hflat := flat_scan h k c0 r
      have hA := WFLeft_flat d h lo _ flo hL
      have hC := WFRight_flat d h hi _ hR
      obtain ⟨es, hes, hnone, hsome⟩ := ih flo _ _ hF hlo hhi
      have hAk : ∀ e ∈ flatLeft h (scan k [] c0 r).left, e.1 ≠ k := by
        intro e he; have := (hA e he).1 k hlo; omega
      have hCk : ∀ e ∈ flatRight h (scan k [] c0 r).right, e.1 ≠ k := by
        intro e he; have := (hC e he).1 k hhi; omega
      refine ⟨es, by simpa [findLeaf] using hes, ?_, ?_⟩
      · intro hf
        obtain ⟨g1, g2⟩ := hnone hf
        refine ⟨by simp [delAux, g1], ?_⟩
        rw [hflat, sp.parts _ _ _ hAk hCk, g2]
      · intro es' hf
        obtain ⟨c', chk, g1, g2, g2', g3⟩ := hsome es' hf
        have hspec : g (flat (h + 1) (.internal c0 r)) =
            flatLeft h (scan k [] c0 r).left ++ (flat h c' ++ flatRight h (scan k [] c0 r).right) := by
          rw [hflat, sp.parts _ _ _ hAk hCk, g3]
        by_cases hcond : (chk && underfull d c') = true
        · -- the child is underfull: borrow or merge at this level
          have hchk : chk = true := by cases chk <;> simp_all
          have hunder : c'.size < d / 2 := by
            have : underfull d c' = true := by cases chk <;> simp_all
            simpa [underfull] using this
          cases h with
          | zero =>
            cases c' with
            | internal a b => exact g2.elim
            | leaf es'' =>
              obtain ⟨n, m, e1, w1, w2, f1⟩ := rebalanceLeaf_correct d hd lo hi flo (scan k [] c0 r).left es'' (scan k [] c0 r).right hL g2 hR
                (by simpa [Node.size] using hunder) (by omega) (by omega)
              refine ⟨n, m, ?_, w1, w2, ?_⟩
              · simp only [delAux, g1, hcond, if_true, e1]
              · rw [f1, hspec]; rfl
          | succ h' =>
            cases c' with
            | leaf a => exact g2.elim
            | internal n0 nr =>
              obtain ⟨n, e1, w1, f1⟩ := rebalanceInternal_correct d hd h' lo hi flo (scan k [] c0 r).left n0 nr (scan k [] c0 r).right hL g2 hR
                (by simpa [Node.size] using hunder) (by omega) (by omega)
              refine ⟨n, true, ?_, w1, by simp, ?_⟩
              · simp only [delAux, g1, hcond, if_true, e1]
              · rw [f1, hspec]
        · -- no rebalancing here: the upward loop stops
          have hwf : WF d h flo (hiOf (scan k [] c0 r).right hi) c' := by
            cases hc : chk with
            | false => exact g2' hc
            | true =>
              have hnu : underfull d c' = false := by
                cases hu : underfull d c' with
                | false => rfl
                | true => rw [hc, hu] at hcond; simp at hcond
              have : d / 2 ≤ c'.size := by
                simp only [underfull, decide_eq_false_iff_not, Nat.not_lt] at hnu
                exact hnu
              exact WFw_toWF d h _ _ c' g2 (Or.inr (by omega))
          refine ⟨closeNode (scan k [] c0 r).left c' (scan k [] c0 r).right, false, ?_, ?_, ?_, ?_⟩
          · have : (chk && underfull d c') = false := by
              cases hx : (chk && underfull d c') with
              | false => rfl
              | true => exact absurd hx hcond
            simp only [delAux, g1, this]
            rfl
          · exact closeNode_WFw d h lo hi flo _ _ _ hL hwf hR (by omega)
          · intro _; exact closeNode_WF d h lo hi flo _ _ _ hL hwf hR (by omega) (by omega)
          · rw [flat_closeNode, hspec]

theorem deleteWith_full (d : Nat) (hd : 5 ≤ d) (f : List Entry → Option (List Entry))
    (g : List Entry → List Entry) (k : Key) (sp : LeafDelSpec f g k) (t : BTree) (hw : t.WF d) :
    ∃ t' b, deleteWith d f t k = .ok (t', b) ∧ t'.WF d ∧ t'.toAssoc = g t.toAssoc ∧
      ∃ es, findLeaf t.h t.root k = .ok es ∧ b = (f es).isSome := by
  obtain ⟨es, hes, hnone, hsome⟩ := delAux_correct d hd f g k sp t.h none none t.root hw trivial trivial
  cases hf : f es with
  | none =>
    obtain ⟨g1, g2⟩ := hnone hf
    exact ⟨t, false, by simp [deleteWith, g1], hw, g2.symm, es, hes, by simp [hf]⟩
  | some es' =>
    obtain ⟨n', c, g1, g2, _, g3⟩ := hsome es' hf
    refine ⟨collapse ⟨t.h, n'⟩, true, by simp [deleteWith, g1], ?_, ?_, es, hes, by simp [hf]⟩
    · cases hh : t.h with
      | zero => rw [hh] at g2; exact g2
      | succ h' =>
        rw [hh] at g2
        cases n' with
        | leaf _ => exact g2.elim
        | internal c0 r =>
          cases r with
          | nil => exact g2.2
          | cons p r => exact ⟨by simp, g2.1, g2.2⟩
    · cases hh : t.h with
      | zero => rw [hh] at g3; simpa [collapse, BTree.toAssoc, hh] using g3
      | succ h' =>
        rw [hh] at g2 g3
        cases n' with
        | leaf _ => exact g2.elim
        | internal c0 r =>
          cases r with
          | nil => simpa [collapse, BTree.toAssoc, hh, flat_internal] using g3
          | cons p r => simpa [collapse, BTree.toAssoc, hh] using g3

/-! ### the Boolean the API returns -/

theorem findLeaf_sorted (d : Nat) : ∀ (h : Nat) (lo hi : Option Key) (n : Node) (k : Key) (es : List Entry),
    WF d h lo hi n → leB lo k → ltB k hi → findLeaf h n k = .ok es →
    es.Pairwise (fun a b => a.1 < b.1) ∧ ∀ e ∈ es, e.2 ≠ [] := by
  intro h
  induction h with
  | zero =>
    intro lo hi n k es hw h1 h2 hf
    cases n with
    | leaf es0 =>
      simp [findLeaf] at hf
      subst hf
      exact ⟨hw.1, fun e he => (hw.2.1 e he).2.2⟩
    | internal c0 r => exact hw.elim
  | succ h ih =>
    intro lo hi n k es hw h1 h2 hf
    cases n with
    | leaf es0 => exact hw.elim
    | internal c0 r =>
      obtain ⟨flo, hL, hF, hR, hlo, hhi⟩ := scan_spec (WF d h) k lo hi [] c0 r lo rfl hw.2.2 h1 h2
      exact ih flo _ _ k es hF hlo hhi (by simpa [findLeaf] using hf)

theorem leafDeleteAll_isSome (es : List Entry) (k : Key) (hs : es.Pairwise (fun a b => a.1 < b.1))
    (hne : ∀ e ∈ es, e.2 ≠ []) : (leafDeleteAll es k).isSome = (amLookup es k != []) := by
  induction es with
  | nil => rfl
  | cons a es ih =>
    obtain ⟨k', rs⟩ := a
    rw [List.pairwise_cons] at hs
    simp only [leafDeleteAll, amLookup]
    by_cases h1 : k' < k
    · have h2 : ¬ k' = k := by omega
      simp only [h1, h2, if_true, if_false, Option.isSome_map]
      exact ih hs.2 (fun e he => hne e (by simp [he]))
    · by_cases h2 : k' = k
      · have := hne (k', rs) (by simp)
        simp [h1, h2, this]
      · simp only [h1, h2, if_false]
        have : amLookup es k = [] := by
          apply amLookup_nil_of
          intro e he
          have := hs.1 e he
          simp at this
          omega
        simp [this]

theorem leafDeleteOne_isSome (es : List Entry) (k : Key) (rid : RowId)
    (hs : es.Pairwise (fun a b => a.1 < b.1)) :
    (leafDeleteOne es k rid).isSome = (amLookup es k).contains rid := by
  induction es with
  | nil => rfl
  | cons a es ih =>
    obtain ⟨k', rs⟩ := a
    rw [List.pairwise_cons] at hs
    simp only [leafDeleteOne, amLookup]
    by_cases h1 : k' < k
    · have h2 : ¬ k' = k := by omega
      simp only [h1, h2, if_true, if_false, Option.isSome_map]
      exact ih hs.2
    · by_cases h2 : k' = k
      · by_cases h3 : rid ∈ rs
        · simp [h1, h2, h3]
        · simp [h1, h2, h3]
      · simp only [h1, h2, if_false]
        have : amLookup es k = [] := by
          apply amLookup_nil_of
          intro e he
          have := hs.1 e he
          simp at this
          omega
        simp [this]

theorem amLookup_leaf_eq (d : Nat) (t : BTree) (k : Key) (hw : t.WF d) (es : List Entry)
    (hes : findLeaf t.h t.root k = .ok es) : amLookup es k = amLookup t.toAssoc k := by
  obtain ⟨es', h1, h2⟩ := findLeaf_correct d t.h none none t.root k hw trivial trivial
  rw [hes] at h1
  cases h1
  show amLookup es k = amLookup (flat t.h t.root) k
  rw [← h2, leafSearch_eq es k (findLeaf_sorted d t.h none none t.root k es hw trivial trivial hes).1]

/-- the full statement for `delete` -/
def C17_delete_full : Prop :=
  ∀ (d : Nat), 5 ≤ d → ∀ (t : BTree) (k : Key), t.WF d →
    ∃ t' b, BTree.delete d t k = .ok (t', b) ∧ t'.WF d ∧ t'.toAssoc = amErase t.toAssoc k ∧
      b = (amLookup t.toAssoc k != [])

/-- the full statement for `delete_specific` -/
def C17_delete_specific_full : Prop :=
  ∀ (d : Nat), 5 ≤ d → ∀ (t : BTree) (k : Key) (rid : RowId), t.WF d →
    ∃ t' b, BTree.deleteSpecific d t k rid = .ok (t', b) ∧ t'.WF d ∧
      t'.toAssoc = amEraseOne t.toAssoc k rid ∧ b = (amLookup t.toAssoc k).contains rid

/-- **delete (all row ids of a key) refines the ordered multimap and keeps the tree well-formed**,
    with every rebalancing path: borrow from the left / right sibling, merge, the same one level up
    for as many levels as the upward loop walks, and the collapse of the root.  The returned flag
    says whether the key was present. -/
theorem C17_delete : C17_delete_full := by
  intro d hd t k hw
  obtain ⟨t', b, h1, h2, h3, es, hes, hb⟩ := deleteWith_full d hd _ _ k (leafDeleteAll_spec k) t hw
  refine ⟨t', b, h1, h2, h3, ?_⟩
  obtain ⟨s1, s2⟩ := findLeaf_sorted d t.h none none t.root k es hw trivial trivial hes
  rw [hb, leafDeleteAll_isSome es k s1 s2, amLookup_leaf_eq d t k hw es hes]

/-- **delete_specific refines the ordered multimap and keeps the tree well-formed** (same paths) -/
theorem C17_delete_specific : C17_delete_specific_full := by
  intro d hd t k rid hw
  obtain ⟨t', b, h1, h2, h3, es, hes, hb⟩ := deleteWith_full d hd _ _ k (leafDeleteOne_spec k rid) t hw
  refine ⟨t', b, h1, h2, h3, ?_⟩
  obtain ⟨s1, _⟩ := findLeaf_sorted d t.h none none t.root k es hw trivial trivial hes
  rw [hb, leafDeleteOne_isSome es k rid s1, amLookup_leaf_eq d t k hw es hes]

/-! ## bulk load -/

theorem takeCount_ok (d : Nat) (hd : 5 ≤ d) (n : Nat) (hn : 2 ≤ n) :
    2 ≤ takeCount (internalCap d) n ∧ takeCount (internalCap d) n ≤ n ∧ takeCount (internalCap d) n < d ∧
      n - takeCount (internalCap d) n ≠ 1 := by
  have key : ∀ m : Nat, m ≤ n → 2 ≤ m → m < d →
      2 ≤ (if n - m = 1 then (if 2 < m then m - 1 else m + 1) else m) ∧
      (if n - m = 1 then (if 2 < m then m - 1 else m + 1) else m) ≤ n ∧
      (if n - m = 1 then (if 2 < m then m - 1 else m + 1) else m) < d ∧
      n - (if n - m = 1 then (if 2 < m then m - 1 else m + 1) else m) ≠ 1 := by
    intro m h1 h2 h3
    by_cases c1 : n - m = 1 <;> by_cases c2 : 2 < m <;> simp only [c1, c2, if_true, if_false] <;> omega
  have hm1 : min (max (d * 3 / 4) 2) n ≤ n := Nat.min_le_right _ _
  have hm2 : min (max (d * 3 / 4) 2) n ≤ max (d * 3 / 4) 2 := Nat.min_le_left _ _
  have hm3 : 2 ≤ min (max (d * 3 / 4) 2) n := Nat.le_min.mpr ⟨Nat.le_max_right _ _, hn⟩
  have hm4 : max (d * 3 / 4) 2 < d := Nat.max_lt.mpr ⟨by omega, by omega⟩
  exact key (min (max (d * 3 / 4) 2) n) hm1 hm3 (by omega)

/-- **bulk load of key-sorted entries builds a well-formed tree that denotes the grouped entries**
    (any number of entries and duplicates, any degree ≥ 5; this is also what a spill to disk does) -/
theorem C17_bulk_load (d : Nat) (hd : 5 ≤ d) (es : List (Key × RowId))
    (hs : es.Pairwise (fun a b => a.1 ≤ b.1)) :
    ∃ t, bulkLoad d es = .ok t ∧ t.WF d ∧ t.toAssoc = group es := by
  obtain ⟨g1, g2⟩ := group_sorted es hs
  unfold bulkLoad
  cases hg : group es with
  | nil => exact ⟨BTree.empty, rfl, ⟨List.Pairwise.nil, by simp, by simp; omega, trivial⟩, rfl⟩
  | cons x xs =>
    rw [hg] at g1 g2
    obtain ⟨l0, lt, r, e1, e2, e3, _, e5, e6⟩ := leafLevel d (leafCap d) (by simp [leafCap]; omega)
      (by simp only [leafCap]; omega) (x :: xs).length x xs none (Nat.le_refl _) g1
      (fun e he => ⟨trivial, g2 e he⟩)
    simp only []
    rw [e1]
    obtain ⟨t, h1, h2, h3⟩ := buildLevels_correct d (internalCap d) (takeCount_ok d hd) (l0 :: lt).length 0 l0 lt r
      (by omega) e2 e3
    exact ⟨t, h1, h2, by rw [BTree.toAssoc, h3, e5]⟩

/-! ## operation sequences -/

theorem step_refines (d : Nat) (hd : 5 ≤ d) (t : BTree) (op : Op) (hw : t.WF d) :
    ∃ t' a, step d t op = .ok (t', a) ∧ specStep t.toAssoc op = (t'.toAssoc, a) ∧ t'.WF d := by
  cases op with
  | insert k r =>
    obtain ⟨t', h1, h2, h3⟩ := C17_insert d hd t k r hw
    exact ⟨t', .unit, by simp [step, h1, Except.map], by simp [specStep, h3], h2⟩
  | delete k =>
    obtain ⟨t', b, h1, h2, h3, h4⟩ := C17_delete d hd t k hw
    exact ⟨t', .bool b, by simp [step, h1, Except.map], by simp [specStep, h3, h4], h2⟩
  | deleteSpecific k r =>
    obtain ⟨t', b, h1, h2, h3, h4⟩ := C17_delete_specific d hd t k r hw
    exact ⟨t', .bool b, by simp [step, h1, Except.map], by simp [specStep, h3, h4], h2⟩
  | lookup k => exact ⟨t, _, by simp [step, C17_lookup d t k hw, Except.map], rfl, hw⟩
  | multiLookup ks => exact ⟨t, _, by simp [step, C17_multi_lookup d t ks hw, Except.map], rfl, hw⟩
  | rangeScan s e a b => exact ⟨t, _, by simp [step, C17_range_scan d t s e a b hw, Except.map], rfl, hw⟩

/-- **every answer of every sequence of insert, delete, delete_specific, lookup, multi-key lookup
    and range scan equals the ordered multimap's, and the tree stays well-formed** — any length,
    any keys, any mixture (so: through every split, borrow, merge and root collapse the sequence
    provokes) -/
theorem C17_run_refines (d : Nat) (hd : 5 ≤ d) : ∀ (ops : List Op) (t : BTree), t.WF d →
    ∃ t' as, run d t ops = .ok (t', as) ∧ specRun t.toAssoc ops = (t'.toAssoc, as) ∧ t'.WF d := by
  intro ops
  induction ops with
  | nil => intro t hw; exact ⟨t, [], rfl, rfl, hw⟩
  | cons op ops ih =>
    intro t hw
    obtain ⟨t1, a, h1, h2, h3⟩ := step_refines d hd t op hw
    obtain ⟨t2, as, g1, g2, g3⟩ := ih t1 h3
    refine ⟨t2, a :: as, ?_, ?_, g3⟩
    · simp only [run, h1, g1, bind, Except.bind, pure, Except.pure]
    · simp only [specRun, h2, g2]

/-- the empty tree `BTreeIndex::new` creates is well-formed and is the empty multimap -/
theorem C17_new (d : Nat) : BTree.empty.WF d ∧ BTree.empty.toAssoc = [] ∨ d = 0 := by
  cases d with
  | zero => exact Or.inr rfl
  | succ d => exact Or.inl ⟨⟨List.Pairwise.nil, by simp, by simp, trivial⟩, rfl⟩

/-! ## non-vacuity and executable checks of the model (tests, not proofs) -/

/-- a three-level tree at degree 5 obtained by 30 inserts: the hypotheses `WF` of the theorems
    are satisfiable by non-trivial trees (`C17_insert` itself produces them) -/
def sampleOps : List Op := (List.range 30).map (fun i => Op.insert ((i * 7 % 30 : Nat) : Int) i)

example : (run 5 BTree.empty sampleOps).toOption.map (fun p => (p.1.h, p.1.toAssoc.length)) = some (2, 30) := by
  decide

/-- `NoUnderflow` holds for a deletion in that tree (leaf keeps two entries) and fails for another -/
example : ∃ t, (run 5 BTree.empty sampleOps).toOption.map (·.1) = some t ∧
    (findLeaf t.h t.root 3).toOption.map (fun es => (leafDeleteAll es 3).map List.length) = some (some 2) := by
  refine ⟨_, rfl, ?_⟩
  decide

/-- deletions with borrow, merge, internal rebalancing and root collapse evaluated on the model
    (an instance of `C17_run_refines`, kept as an executable test) -/
example :
    let ops := sampleOps ++ (List.range 30).map (fun i => Op.delete ((i : Nat) : Int)) ++ [Op.rangeScan none none true true]
    (run 5 BTree.empty ops).toOption.map (fun p => (p.1.h, p.2)) =
      some (0, (specRun [] ops).2) := by
  decide

end VibeProof.C17
