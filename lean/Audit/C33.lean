import VibeProof.Props.C33
#print axioms VibeProof.C33.C33_step_preserves
#print axioms VibeProof.C33.C33_init
#print axioms VibeProof.C33.C33_history_preserves
#print axioms VibeProof.C33.C33_dropped_table_leaves_nothing
#print axioms VibeProof.C33.C33_recreated_table_is_fresh
#print axioms VibeProof.C33.C33_add_column_keeps_data
#print axioms VibeProof.C33.C33_agree
#print axioms VibeProof.C33.C33_insert_of_declared_width_accepted
#print axioms VibeProof.C33.C33_alter_keeps_table_usable
#print axioms VibeProof.C33.C33_index_lookup
#print axioms VibeProof.C33.C33_drop_column_removes_exactly
#print axioms VibeProof.C33.C33_registries_step
#print axioms VibeProof.C33.C33_registries_agree
#print axioms VibeProof.C33.stTable_other
#print axioms VibeProof.C33.C33_rebuild_reads_own_table
