#[allow(dead_code)]
#[path = "/repo/crates/vibesql-server/src/protocol/messages.rs"]
mod messages;
use bytes::BytesMut;
use messages::FrontendMessage;
fn hx(s: &str) -> Vec<u8> { vharness::sx::unhex(&s.replace(' ', "")).unwrap() }
fn main() {
    std::panic::set_hook(Box::new(|_| {}));
    for (startup, h) in [
        (false, "51 ff ff ff ff"),
        (false, "51 00 00 00 00 51 00 00 00 06 61 00"),
        (false, "51 00 00 00 04"),
        (false, "51 00 00 00 05 61 62 00"),
        (false, "58 00 00 00 00"),
        (false, "58 00 00 00 03 00 00"),
        (false, "51 80 00 00 00"),
        (false, "7a 00 00 00 04"),
        (true, "00 00 00 04"),
        (true, "00 00 00 00"),
        (true, "00 00 00 08 00 03 00 00"),
        (true, "00 00 00 08 00 03 00 00 61 00 62 00 00"),
        (true, "ff ff ff ff 00 03 00 00"),
        (true, "00 00 00 06 00 03 00 00 00"),
    ] {
        let b = hx(h);
        let r = std::panic::catch_unwind(|| {
            let mut buf = BytesMut::from(&b[..]);
            let r = if startup { FrontendMessage::decode_startup(&mut buf) } else { FrontendMessage::decode(&mut buf) };
            (format!("{:?}", r), buf.len())
        });
        match r {
            Ok((s, left)) => println!("{} {:<40} -> {} consumed={}", if startup {"S"} else {"M"}, h, s, b.len() - left),
            Err(e) => println!("{} {:<40} -> PANIC {:?}", if startup {"S"} else {"M"}, h, e.downcast_ref::<String>().cloned().or(e.downcast_ref::<&str>().map(|s| s.to_string()))),
        }
    }
}
