# C04: the "is this WHERE value true?" tables of the different filter implementations (sequential,
# rayon, vectorized): every copy must use the same rule, or the result depends on which one runs.
import re, os


def extract(read):
    rows = []
    base = "crates/vibesql-executor/src/select"
    for rel in ["filter.rs", "vectorized/predicate.rs", "scan/predicates.rs", "vectorized/mod.rs", "parallel.rs"]:
        src = read(base + "/" + rel)
        if not src:
            continue
        for m in re.finditer(r"fn (\w+)\s*\([^)]*\)\s*->\s*Result<bool,[^{]*\{(.*?)\n\}\n", src, re.S):
            fn, body = m.group(1), m.group(2)
            arms = re.findall(r"SqlValue::(\w+)\((\w+)\)\s*=>\s*Ok\(\*\2\s*(!=|>|<|==|>=|<=)\s*([0-9.]+)\)", body)
            if arms:
                rows.append((rel + ":" + fn, [(a[0], a[2], a[3]) for a in arms]))
    out = ["/-- select/{filter,vectorized/predicate,…}.rs: per truthiness function, the numeric arms `SqlValue::T(x) => Ok(*x OP ZERO)` as written -/"]
    out.append("def c04TruthyTables : List (String × List (String × String × String)) := [%s]"
               % ", ".join('("%s", [%s])' % (f, ", ".join('("%s", "%s", "%s")' % a for a in arms)) for f, arms in rows))
    return "\n".join(out) + "\n"
