import VibeProof.Model.BTree
/-
Well-formedness of the B+ tree model and the structural lemmas used by Props/C17.
-/
namespace VibeProof.BTree
local notation "Key" => Int

/-! ## Bounds -/

def leB : Option Int → Int → Prop
  | none, _ => True
  | some a, k => a ≤ k

def ltB : Int → Option Int → Prop
  | _, none => True
  | k, some b => k < b

def bndOK : Option Int → Option Int → Prop
  | some a, some b => a < b
  | _, _ => True

@[simp] theorem leB_none (k : Int) : leB none k = True := rfl
@[simp] theorem leB_some (a k : Int) : leB (some a) k = (a ≤ k) := rfl
@[simp] theorem ltB_none (k : Int) : ltB k none = True := rfl
@[simp] theorem ltB_some (k b : Int) : ltB k (some b) = (k < b) := rfl
@[simp] theorem bndOK_none_l (b : Option Int) : bndOK none b = True := by cases b <;> rfl
@[simp] theorem bndOK_none_r (a : Option Int) : bndOK a none = True := by cases a <;> rfl
@[simp] theorem bndOK_some (a b : Int) : bndOK (some a) (some b) = (a < b) := rfl

theorem bndOK_of (lo hi : Option Int) (k : Int) (h1 : leB lo k) (h2 : ltB k hi) : bndOK lo hi := by
  cases lo <;> cases hi <;> simp_all <;> omega

/-! ## Well-formedness -/

/-- the children of an internal node, each within the bounds its neighbours' separators give -/
def WFKids (P : Option Key → Option Key → Node → Prop) :
    Option Key → Option Key → Node → List (Key × Node) → Prop
  | lo, hi, c, [] => P lo hi c
  | lo, hi, c, (s, c') :: r => P lo (some s) c ∧ WFKids P (some s) hi c' r

/-- `WF d h lo hi n`: `n` is a subtree with `h` internal levels above its leaves (uniform leaf
    depth), keys strictly sorted in every node, every key `k` below a child lies between the
    separators around that child (`lo ≤ k < hi`), a leaf has fewer than `d` entries and no empty
    row-id list, an internal node has at least 2 and fewer than `d` children. -/
def WF (d : Nat) : Nat → Option Key → Option Key → Node → Prop
  | 0, lo, hi, .leaf es =>
    es.Pairwise (fun a b => a.1 < b.1) ∧ (∀ e ∈ es, leB lo e.1 ∧ ltB e.1 hi ∧ e.2 ≠ []) ∧
      es.length < d ∧ bndOK lo hi
  | 0, _, _, .internal _ _ => False
  | _ + 1, _, _, .leaf _ => False
  | h + 1, lo, hi, .internal c0 r => 1 ≤ r.length ∧ r.length + 1 < d ∧ WFKids (WF d h) lo hi c0 r

def BTree.WF (d : Nat) (t : BTree) : Prop := VibeProof.BTree.WF d t.h none none t.root

def hiOf (right : List (Key × Node)) (hi : Option Key) : Option Key :=
  match right with
  | [] => hi
  | (s, _) :: _ => some s

def WFRight (P : Option Key → Option Key → Node → Prop) (hi : Option Key) : List (Key × Node) → Prop
  | [] => True
  | (s, c) :: r => WFKids P (some s) hi c r

def WFLeft (P : Option Key → Option Key → Node → Prop) (lo : Option Key) :
    List (Node × Key) → Option Key → Prop
  | [], flo => flo = lo
  | (c, s) :: acc, flo => flo = some s ∧ ∃ clo, P clo (some s) c ∧ WFLeft P lo acc clo

theorem WFKids_focus (P) (lo hi : Option Key) (c : Node) (right : List (Key × Node)) :
    WFKids P lo hi c right ↔ P lo (hiOf right hi) c ∧ WFRight P hi right := by
  cases right with
  | nil => simp [WFKids, hiOf, WFRight]
  | cons p r => obtain ⟨s, c'⟩ := p; simp [WFKids, hiOf, WFRight]

theorem WFKids_close (P) (lo hi : Option Key) (left : List (Node × Key)) (c : Node)
    (right : List (Key × Node)) :
    WFKids P lo hi (close left c right).1 (close left c right).2 ↔
      ∃ flo, WFLeft P lo left flo ∧ WFKids P flo hi c right := by
  induction left generalizing c right with
  | nil => simp [close, WFLeft]
  | cons p acc ih =>
    obtain ⟨lc, lk⟩ := p
    simp only [close, ih, WFLeft, WFKids]
    constructor
    · rintro ⟨clo, h1, h2, h3⟩
      exact ⟨some lk, ⟨rfl, clo, h2, h1⟩, h3⟩
    · rintro ⟨flo, ⟨rfl, clo, h2, h1⟩, h3⟩
      exact ⟨clo, h1, h2, h3⟩

theorem WFKids_split (P) (lo hi : Option Key) (c0 : Node) (r1 r2 : List (Key × Node)) (mk : Key)
    (mc : Node) :
    WFKids P lo hi c0 (r1 ++ (mk, mc) :: r2) ↔ WFKids P lo (some mk) c0 r1 ∧ WFKids P (some mk) hi mc r2 := by
  induction r1 generalizing lo c0 with
  | nil => simp [WFKids]
  | cons p r ih => obtain ⟨s, c'⟩ := p; simp [WFKids, ih, and_assoc]

theorem close_length (left : List (Node × Key)) (c : Node) (right : List (Key × Node)) :
    (close left c right).2.length = left.length + right.length := by
  induction left generalizing c right with
  | nil => simp [close]
  | cons p acc ih => obtain ⟨lc, lk⟩ := p; simp [close, ih]; omega

theorem scan_close (k : Key) (acc : List (Node × Key)) (c : Node) (r : List (Key × Node)) :
    close (scan k acc c r).left (scan k acc c r).focus (scan k acc c r).right = close acc c r := by
  induction r generalizing acc c with
  | nil => simp [scan]
  | cons p r ih =>
    obtain ⟨s, c'⟩ := p
    simp only [scan]
    split
    · rw [ih]; simp [close]
    · rfl

/-- what the descent knows about the chosen child -/
theorem scan_spec (P) (k : Key) (lo hi : Option Key) (acc : List (Node × Key)) (c : Node)
    (r : List (Key × Node)) (flo : Option Key)
    (hl : WFLeft P lo acc flo) (hk : WFKids P flo hi c r) (h1 : leB flo k) (h2 : ltB k hi) :
    ∃ flo', WFLeft P lo (scan k acc c r).left flo' ∧
      P flo' (hiOf (scan k acc c r).right hi) (scan k acc c r).focus ∧
      WFRight P hi (scan k acc c r).right ∧ leB flo' k ∧ ltB k (hiOf (scan k acc c r).right hi) := by
  induction r generalizing acc c flo with
  | nil => exact ⟨flo, hl, by simpa [scan, hiOf, WFKids] using hk, by simp [scan, WFRight], h1, by simpa [scan, hiOf] using h2⟩
  | cons p r ih =>
    obtain ⟨s, c'⟩ := p
    simp only [scan]
    split
    · rename_i hs
      exact ih ((c, s) :: acc) c' (some s) ⟨rfl, flo, hk.1, hl⟩ hk.2 (by simpa using hs)
    · rename_i hs
      refine ⟨flo, hl, by simpa [hiOf] using hk.1, by simpa [WFRight] using hk.2, h1, ?_⟩
      simp [hiOf]; omega

/-! ## Flattening -/

def flatRight (h : Nat) (r : List (Key × Node)) : List Entry := r.flatMap (fun p => flat h p.2)

def flatLeft (h : Nat) : List (Node × Key) → List Entry
  | [] => []
  | (c, _) :: acc => flatLeft h acc ++ flat h c

theorem flat_internal (h : Nat) (c0 : Node) (r : List (Key × Node)) :
    flat (h + 1) (.internal c0 r) = flat h c0 ++ flatRight h r := rfl

@[simp] theorem flatRight_nil (h : Nat) : flatRight h [] = [] := rfl
@[simp] theorem flatRight_cons (h : Nat) (p : Key × Node) (r : List (Key × Node)) :
    flatRight h (p :: r) = flat h p.2 ++ flatRight h r := by simp [flatRight]
@[simp] theorem flatRight_append (h : Nat) (r1 r2 : List (Key × Node)) :
    flatRight h (r1 ++ r2) = flatRight h r1 ++ flatRight h r2 := by simp [flatRight]

theorem flat_close (h : Nat) (left : List (Node × Key)) (c : Node) (right : List (Key × Node)) :
    flat h (close left c right).1 ++ flatRight h (close left c right).2 =
      flatLeft h left ++ (flat h c ++ flatRight h right) := by
  induction left generalizing c right with
  | nil => simp [close, flatLeft]
  | cons p acc ih => obtain ⟨lc, lk⟩ := p; simp [close, ih, flatLeft]

theorem flat_closeNode (h : Nat) (left : List (Node × Key)) (c : Node) (right : List (Key × Node)) :
    flat (h + 1) (closeNode left c right) = flatLeft h left ++ (flat h c ++ flatRight h right) := by
  simp [closeNode, flat_internal, flat_close]

theorem flat_scan (h : Nat) (k : Key) (c0 : Node) (r : List (Key × Node)) :
    flat (h + 1) (.internal c0 r) =
      flatLeft h (scan k [] c0 r).left ++ (flat h (scan k [] c0 r).focus ++ flatRight h (scan k [] c0 r).right) := by
  rw [← flat_close, scan_close]; simp [close, flat_internal]

/-! ## Bounds of the flattened entries -/

theorem bnd_trans (a : Option Int) (s : Int) (c : Option Int) (h1 : bndOK a (some s)) (h2 : bndOK (some s) c) :
    bndOK a c := by
  cases a <;> cases c <;> simp_all <;> omega

theorem WFKids_bnd (P : Option Key → Option Key → Node → Prop)
    (hP : ∀ lo hi n, P lo hi n → bndOK lo hi) :
    ∀ (r : List (Key × Node)) (lo hi : Option Key) (c : Node), WFKids P lo hi c r → bndOK lo hi := by
  intro r
  induction r with
  | nil => intro lo hi c hk; exact hP _ _ _ hk
  | cons p r ih =>
    obtain ⟨s, c'⟩ := p
    intro lo hi c hk
    exact bnd_trans _ s _ (hP _ _ _ hk.1) (ih _ _ _ hk.2)

theorem WF_bnd (d : Nat) : ∀ (h : Nat) (lo hi : Option Key) (n : Node), WF d h lo hi n → bndOK lo hi := by
  intro h
  induction h with
  | zero =>
    intro lo hi n hw
    cases n with
    | leaf es => exact hw.2.2.2
    | internal c0 r => exact hw.elim
  | succ h ih =>
    intro lo hi n hw
    cases n with
    | leaf es => exact hw.elim
    | internal c0 r => exact WFKids_bnd _ ih r _ _ _ hw.2.2

theorem WFKids_flat_bounds (d h : Nat)
    (hP : ∀ lo hi n, WF d h lo hi n → ∀ e ∈ flat h n, leB lo e.1 ∧ ltB e.1 hi) :
    ∀ (r : List (Key × Node)) (lo hi : Option Key) (c : Node), WFKids (WF d h) lo hi c r →
      ∀ e ∈ flat h c ++ flatRight h r, leB lo e.1 ∧ ltB e.1 hi := by
  intro r
  induction r with
  | nil => intro lo hi c hk e he; simp at he; exact hP _ _ _ hk e he
  | cons p r ih =>
    obtain ⟨s, c'⟩ := p
    intro lo hi c hk e he
    simp only [flatRight_cons, List.mem_append] at he
    have b0 := WF_bnd d _ _ _ _ hk.1
    have b1 := WFKids_bnd _ (WF_bnd d h) r _ _ _ hk.2
    rcases he with he | he
    · have a := hP _ _ _ hk.1 e he
      cases lo <;> cases hi <;> simp_all <;> omega
    · have a := ih _ _ _ hk.2 e (by simpa [List.mem_append] using he)
      cases lo <;> cases hi <;> simp_all <;> omega

theorem WF_flat_bounds (d : Nat) : ∀ (h : Nat) (lo hi : Option Key) (n : Node), WF d h lo hi n →
    ∀ e ∈ flat h n, leB lo e.1 ∧ ltB e.1 hi := by
  intro h
  induction h with
  | zero =>
    intro lo hi n hw e he
    cases n with
    | leaf es => exact ⟨(hw.2.1 e he).1, (hw.2.1 e he).2.1⟩
    | internal c0 r => exact hw.elim
  | succ h ih =>
    intro lo hi n hw e he
    cases n with
    | leaf es => exact hw.elim
    | internal c0 r => exact WFKids_flat_bounds d h ih r _ _ _ hw.2.2 e he

theorem WFRight_flat (d h : Nat) (hi : Option Key) (right : List (Key × Node))
    (hw : WFRight (WF d h) hi right) :
    ∀ e ∈ flatRight h right, (∀ x, ltB x (hiOf right hi) → x < e.1) ∧ ltB e.1 hi := by
  intro e he
  cases right with
  | nil => simp at he
  | cons p r =>
    obtain ⟨s, c⟩ := p
    have := WFKids_flat_bounds d h (WF_flat_bounds d h) r _ _ _ hw e (by simpa using he)
    refine ⟨?_, this.2⟩
    intro x hx
    simp [hiOf] at hx
    simp at this
    omega

theorem WFLeft_lo_le (d h : Nat) (lo : Option Key) : ∀ (acc : List (Node × Key)) (clo : Option Key),
    WFLeft (WF d h) lo acc clo → ∀ x, leB clo x → leB lo x := by
  intro acc
  induction acc with
  | nil => intro clo h x hx; rw [h] at hx; exact hx
  | cons q acc' ihq =>
    obtain ⟨c2, s2⟩ := q
    intro clo h x hx
    obtain ⟨rfl, clo2, hc2, hacc2⟩ := h
    have b := WF_bnd d _ _ _ _ hc2
    apply ihq clo2 hacc2
    cases clo2 <;> simp_all <;> omega

theorem WFLeft_flat (d h : Nat) (lo : Option Key) (left : List (Node × Key)) (flo : Option Key)
    (hw : WFLeft (WF d h) lo left flo) :
    ∀ e ∈ flatLeft h left, (∀ x, leB flo x → e.1 < x) ∧ leB lo e.1 := by
  induction left generalizing flo with
  | nil => intro e he; simp [flatLeft] at he
  | cons p acc ih =>
    obtain ⟨c, s⟩ := p
    obtain ⟨rfl, clo, hc, hacc⟩ := hw
    intro e he
    simp only [flatLeft, List.mem_append] at he
    have hb := WF_bnd d _ _ _ _ hc
    rcases he with he | he
    · have := ih clo hacc e he
      refine ⟨?_, this.2⟩
      intro x hx
      simp at hx
      cases clo with
      | none =>
        cases acc with
        | nil => simp [flatLeft] at he
        | cons q acc' => obtain ⟨c2, s2⟩ := q; exact absurd hacc.1 (by simp)
      | some a =>
        have := this.1 a (by simp)
        simp at hb
        omega
    · have a := WF_flat_bounds d h _ _ _ hc e he
      refine ⟨?_, ?_⟩
      · intro x hx; simp at hx a; omega
      · exact WFLeft_lo_le d h lo acc clo hacc e.1 a.1

theorem WFRight_hi (d h : Nat) (hi : Option Key) : ∀ (right : List (Key × Node)),
    WFRight (WF d h) hi right → ∀ x, ltB x (hiOf right hi) → ltB x hi := by
  intro right hw x hx
  cases right with
  | nil => simpa [hiOf] using hx
  | cons p r =>
    obtain ⟨s, c⟩ := p
    simp [hiOf] at hx
    have : bndOK (some s) hi := WFKids_bnd _ (WF_bnd d h) r _ _ _ hw
    cases hi <;> simp_all <;> omega


theorem WFKids_forall (P : Option Key → Option Key → Node → Prop) (Q : Node → Prop)
    (hPQ : ∀ lo hi n, P lo hi n → Q n) :
    ∀ (r : List (Key × Node)) (lo hi : Option Key) (c : Node), WFKids P lo hi c r → Q c ∧ ∀ p ∈ r, Q p.2 := by
  intro r
  induction r with
  | nil => intro lo hi c hk; exact ⟨hPQ _ _ _ hk, by simp⟩
  | cons p r ih =>
    obtain ⟨s, c'⟩ := p
    intro lo hi c hk
    have := ih _ _ _ hk.2
    refine ⟨hPQ _ _ _ hk.1, ?_⟩
    intro q hq
    simp at hq
    rcases hq with rfl | hq
    · exact this.1
    · exact this.2 q hq

theorem flat_nonempty (d : Nat) : ∀ (h : Nat) (lo hi : Option Key) (n : Node), WF d h lo hi n →
    ∀ e ∈ flat h n, e.2 ≠ [] := by
  intro h
  induction h with
  | zero =>
    intro lo hi n hw e he
    cases n with
    | leaf es => exact (hw.2.1 e he).2.2
    | internal c0 r => exact hw.elim
  | succ h ih =>
    intro lo hi n hw e he
    cases n with
    | leaf es => exact hw.elim
    | internal c0 r =>
      have := WFKids_forall (WF d h) (fun n => ∀ e ∈ flat h n, e.2 ≠ []) ih r _ _ _ hw.2.2
      rw [flat_internal] at he
      simp only [List.mem_append, flatRight, List.mem_flatMap] at he
      rcases he with he | ⟨p, hp, he⟩
      · exact this.1 e he
      · exact this.2 p hp e he

theorem WFKids_sorted (d h : Nat)
    (hP : ∀ lo hi n, WF d h lo hi n → (flat h n).Pairwise (fun a b => a.1 < b.1)) :
    ∀ (r : List (Key × Node)) (lo hi : Option Key) (c : Node), WFKids (WF d h) lo hi c r →
      (flat h c ++ flatRight h r).Pairwise (fun a b => a.1 < b.1) := by
  intro r
  induction r with
  | nil => intro lo hi c hk; simpa using hP _ _ _ hk
  | cons p r ih =>
    obtain ⟨s, c'⟩ := p
    intro lo hi c hk
    rw [flatRight_cons, List.pairwise_append]
    refine ⟨hP _ _ _ hk.1, ih _ _ _ hk.2, ?_⟩
    intro a ha b hb
    have h1 := WF_flat_bounds d h _ _ _ hk.1 a ha
    have h2 := WFKids_flat_bounds d h (WF_flat_bounds d h) r _ _ _ hk.2 b hb
    simp at h1 h2
    omega

theorem flat_sorted (d : Nat) : ∀ (h : Nat) (lo hi : Option Key) (n : Node), WF d h lo hi n →
    (flat h n).Pairwise (fun a b => a.1 < b.1) := by
  intro h
  induction h with
  | zero =>
    intro lo hi n hw
    cases n with
    | leaf es => exact hw.1
    | internal c0 r => exact hw.elim
  | succ h ih =>
    intro lo hi n hw
    cases n with
    | leaf es => exact hw.elim
    | internal c0 r => exact WFKids_sorted d h ih r _ _ _ hw.2.2

/-! ## The association-list specification under concatenation -/

theorem amInsert_left (A L : List Entry) (k : Key) (r : RowId) (h : ∀ e ∈ A, e.1 < k) :
    amInsert (A ++ L) k r = A ++ amInsert L k r := by
  induction A with
  | nil => rfl
  | cons a A ih =>
    obtain ⟨k', rs⟩ := a
    have := h (k', rs) (by simp)
    simp only [List.cons_append, amInsert]
    simp at this
    simp [this, ih (fun e he => h e (by simp [he]))]

theorem amInsert_right (B C : List Entry) (k : Key) (r : RowId) (h : ∀ e ∈ C, k < e.1) :
    amInsert (B ++ C) k r = amInsert B k r ++ C := by
  induction B with
  | nil =>
    cases C with
    | nil => rfl
    | cons c C =>
      obtain ⟨k', rs⟩ := c
      have := h (k', rs) (by simp)
      simp at this
      simp only [List.nil_append, amInsert]
      have h1 : ¬ k' < k := by omega
      have h2 : ¬ k' = k := by omega
      simp [h1, h2]
  | cons b B ih =>
    obtain ⟨k', rs⟩ := b
    simp only [List.cons_append, amInsert]
    split
    · simp [ih]
    · split <;> simp

theorem amInsert_mem (L : List Entry) (k : Key) (r : RowId) :
    ∀ e ∈ amInsert L k r, e.1 = k ∨ e ∈ L ∨ ∃ rs, (e.1, rs) ∈ L ∧ e.2 = rs ++ [r] := by
  induction L with
  | nil => intro e he; simp [amInsert] at he; left; rw [he]
  | cons a L ih =>
    obtain ⟨k', rs⟩ := a
    intro e he
    simp only [amInsert] at he
    split at he
    · simp at he
      rcases he with rfl | he
      · right; left; simp
      · rcases ih e he with h | h | ⟨rs', h, h2⟩
        · left; exact h
        · right; left; simp [h]
        · right; right; exact ⟨rs', by simp [h], h2⟩
    · split at he
      · simp at he
        rcases he with rfl | he
        · left; simp; assumption
        · right; left; simp [he]
      · simp at he
        rcases he with rfl | rfl | he
        · left; rfl
        · right; left; simp
        · right; left; simp [he]

theorem amInsert_length (L : List Entry) (k : Key) (r : RowId) :
    (amInsert L k r).length ≤ L.length + 1 ∧ L.length ≤ (amInsert L k r).length := by
  induction L with
  | nil => simp [amInsert]
  | cons a L ih =>
    obtain ⟨k', rs⟩ := a
    simp only [amInsert]
    split
    · simp; omega
    · split <;> simp

theorem amInsert_sorted (L : List Entry) (k : Key) (r : RowId)
    (h : L.Pairwise (fun a b => a.1 < b.1)) : (amInsert L k r).Pairwise (fun a b => a.1 < b.1) := by
  induction L with
  | nil => simp [amInsert]
  | cons a L ih =>
    obtain ⟨k', rs⟩ := a
    rw [List.pairwise_cons] at h
    simp only [amInsert]
    split
    · rename_i hlt
      rw [List.pairwise_cons]
      refine ⟨?_, ih h.2⟩
      intro e he
      rcases amInsert_mem L k r e he with h1 | h1 | ⟨rs', h1, _⟩
      · simp; omega
      · exact h.1 e h1
      · exact h.1 (e.1, rs') h1
    · split
      · rw [List.pairwise_cons]; exact ⟨fun e he => h.1 e he, h.2⟩
      · rw [List.pairwise_cons, List.pairwise_cons]
        refine ⟨?_, h.1, h.2⟩
        intro e he
        simp at he
        rcases he with rfl | he
        · simp; omega
        · have := h.1 e he; simp at this ⊢; omega

theorem amLookup_left (A L : List Entry) (k : Key) (h : ∀ e ∈ A, e.1 ≠ k) :
    amLookup (A ++ L) k = amLookup L k := by
  induction A with
  | nil => rfl
  | cons a A ih =>
    obtain ⟨k', rs⟩ := a
    have := h (k', rs) (by simp)
    simp at this
    simp [amLookup, this, ih (fun e he => h e (by simp [he]))]

theorem amLookup_nil_of (C : List Entry) (k : Key) (h : ∀ e ∈ C, e.1 ≠ k) : amLookup C k = [] := by
  have := amLookup_left C [] k h
  simpa [amLookup] using this

theorem amLookup_right (B C : List Entry) (k : Key) (h : ∀ e ∈ C, e.1 ≠ k) (hne : ∀ e ∈ B, e.2 ≠ []) :
    amLookup (B ++ C) k = amLookup B k := by
  induction B with
  | nil => simp [amLookup, amLookup_nil_of C k h]
  | cons b B ih =>
    obtain ⟨k', rs⟩ := b
    simp only [List.cons_append, amLookup]
    split
    · rfl
    · exact ih (fun e he => hne e (by simp [he]))

theorem leafSearch_eq (es : List Entry) (k : Key) (h : es.Pairwise (fun a b => a.1 < b.1)) :
    leafSearch es k = amLookup es k := by
  induction es with
  | nil => rfl
  | cons a es ih =>
    obtain ⟨k', rs⟩ := a
    rw [List.pairwise_cons] at h
    simp only [leafSearch, amLookup]
    split
    · rename_i hlt
      have : ¬ k' = k := by omega
      simp [this, ih h.2]
    · split
      · rfl
      · rename_i h1 h2
        symm
        apply amLookup_nil_of
        intro e he
        have := h.1 e he
        simp at this
        omega

theorem amErase_parts (A B C : List Entry) (k : Key) (hA : ∀ e ∈ A, e.1 ≠ k) (hC : ∀ e ∈ C, e.1 ≠ k) :
    amErase (A ++ (B ++ C)) k = A ++ (amErase B k ++ C) := by
  have h1 : A.filter (fun e => e.1 ≠ k) = A := List.filter_eq_self.mpr (by intro e he; simpa using hA e he)
  have h2 : C.filter (fun e => e.1 ≠ k) = C := List.filter_eq_self.mpr (by intro e he; simpa using hC e he)
  simp only [amErase, List.filter_append, h1, h2]

theorem filterMap_eq_self {α : Type} (f : α → Option α) (l : List α) (h : ∀ a ∈ l, f a = some a) :
    l.filterMap f = l := by
  induction l with
  | nil => rfl
  | cons a l ih =>
    rw [List.filterMap_cons, h a (by simp)]
    simp [ih (fun b hb => h b (by simp [hb]))]

theorem amEraseOne_parts (A B C : List Entry) (k : Key) (rid : RowId) (hA : ∀ e ∈ A, e.1 ≠ k)
    (hC : ∀ e ∈ C, e.1 ≠ k) :
    amEraseOne (A ++ (B ++ C)) k rid = A ++ (amEraseOne B k rid ++ C) := by
  simp only [amEraseOne, List.filterMap_append]
  rw [filterMap_eq_self _ A (by intro e he; simp [hA e he]),
    filterMap_eq_self _ C (by intro e he; simp [hC e he])]

end VibeProof.BTree
