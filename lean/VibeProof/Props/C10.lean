import VibeProof.Lemmas.Dml
import VibeProof.Generated.Consts
/-
C10 — declared integrity constraints hold after every statement.

Model: `VibeProof.Dml` (Model/Dml.lean): one table = rows + hash indexes (PRIMARY KEY, UNIQUE)
+ AppendModeTracker; statements INSERT (plain / REPLACE / ON DUPLICATE KEY UPDATE / bulk
INSERT … SELECT), UPDATE, DELETE, TRUNCATE, ALTER TABLE ADD PRIMARY KEY / UNIQUE / CHECK, for
*every* row list, WHERE predicate and assignment function (they are function parameters).
Invariant `Inv` and the step lemmas are in Lemmas/Dml.lean.
-/
namespace VibeProof.C10
open VibeProof VibeProof.Dml

/-- threshold as the source has it now (re-extracted on every run) -/
abbrev thr : Nat := VibeProof.Generated.appendModeThreshold

/-- a freshly created table satisfies the invariant, whatever constraints it declares -/
theorem C10_init (ncols : Nat) (notNull : List Nat) (pk : Option (List Nat)) (uniques : List (List Nat))
    (checks : List Expr) : Inv (Table.create ncols notNull pk uniques checks) := by
  constructor
  · intro u hu
    have hk : u.keys = [] := by
      simp only [Table.create, List.mem_append, List.mem_map] at hu
      rcases hu with hu | ⟨c, _, rfl⟩
      · cases pk with
        | none => simp at hu
        | some cols => simp at hu; subst hu; rfl
      · rfl
    have hr : (Table.create ncols notNull pk uniques checks).rows = [] := rfl
    constructor <;> simp [ukeys, hk, hr]
  · intro r hr; simp [Table.create] at hr
  · intro r hr; simp [Table.create] at hr
  · intro cols hc
    simp only [Table.create] at hc
    subst hc
    exact ⟨{ cols := cols, skipNull := false, keys := [] }, by simp [Table.create], rfl, rfl⟩

/-- every statement, accepted or rejected, preserves the invariant -/
theorem C10_step (n : Nat) (t : Table) (s : Stmt) (h : Inv t) : Inv (step n t s).1 :=
  step_inv n t s h

/-- … hence every history does, from every state satisfying it (in particular from CREATE TABLE) -/
theorem C10_history (t : Table) (ss : List Stmt) (h : Inv t) : Inv (run thr t ss) :=
  run_inv thr ss t h

theorem C10_history_from_create (ncols : Nat) (notNull : List Nat) (pk : Option (List Nat))
    (uniques : List (List Nat)) (checks : List Expr) (ss : List Stmt) :
    Inv (run thr (Table.create ncols notNull pk uniques checks) ss) :=
  C10_history _ ss (C10_init ncols notNull pk uniques checks)

/-! what the invariant says, constraint by constraint -/

/-- PRIMARY KEY: no two rows share the key -/
theorem C10_primary_key_unique (t : Table) (h : Inv t) (cols : List Nat) (hp : t.pk = some cols) :
    (t.rows.map (keyOf cols)).Nodup := by
  obtain ⟨u, hu, hc, hs⟩ := h.pkIdx cols hp
  have := (h.idx u hu).unique
  have hf : u.relevant = fun _ => true := by funext k; simp [UIdx.relevant, hs]
  simp only [ukeys, hf, hc] at this
  rwa [List.filter_eq_self.mpr (by simp)] at this

/-- UNIQUE: no two rows share a key without NULL -/
theorem C10_unique_on_non_null (t : Table) (h : Inv t) (u : UIdx) (hu : u ∈ t.idxs) (hs : u.skipNull = true) :
    ((t.rows.map (keyOf u.cols)).filter (fun k => !hasNull k)).Nodup := by
  have := (h.idx u hu).unique
  have hf : u.relevant = fun k => !hasNull k := by funext k; simp [UIdx.relevant, hs]
  simpa only [ukeys, hf] using this

/-- the hash indexes answer `contains_key` exactly for the keys present in the rows -/
theorem C10_index_mirrors_rows (t : Table) (h : Inv t) (u : UIdx) (hu : u ∈ t.idxs) (k : Key) :
    k ∈ u.keys ↔ u.relevant k = true ∧ ∃ r ∈ t.rows, keyOf u.cols r = k := by
  rw [(h.idx u hu).mirror, mem_ukeys]

/-- NOT NULL columns hold no NULL -/
theorem C10_not_null (t : Table) (h : Inv t) (r : Row) (hr : r ∈ t.rows) (c : Nat) (hc : c ∈ t.notNull) :
    (r.getD c Value.null).isNull = false := by
  have := h.notNull r hr
  simp only [Table.checkNotNull, List.all_eq_true, Bool.not_eq_true'] at this
  exact this c hc

/-- no CHECK constraint evaluates to FALSE (nor fails to evaluate) on a stored row -/
theorem C10_check_never_false (t : Table) (h : Inv t) (r : Row) (hr : r ∈ t.rows) (c : Expr) (hc : c ∈ t.checks) :
    ∃ v, c.eval r = .ok v ∧ v ≠ Value.bool false := by
  have hall := h.checks r hr
  generalize t.checks = cs at hc hall
  induction cs with
  | nil => simp at hc
  | cons x xs ih =>
    unfold Table.checkChecks at hall
    split at hall
    · simp at hall
    · rename_i v hv
      split at hall
      · simp at hall
      · rename_i hne
        rcases List.mem_cons.mp hc with rfl | hc
        · exact ⟨v, hv, by simpa using hne⟩
        · exact ih hc hall

/-- a row is refused by INSERT exactly when a stored row already has its key (per index) -/
theorem C10_conflict_iff (t : Table) (h : Inv t) (u : UIdx) (hu : u ∈ t.idxs) (r : Row) :
    u.conflicts r = true ↔ u.relevant (keyOf u.cols r) = true ∧ ∃ x ∈ t.rows, keyOf u.cols x = keyOf u.cols r :=
  conflicts_iff_rows u t.rows r (h.idx u hu)

/-! non-vacuity: a history on a constrained table reaching a non-trivial state -/

def demoTable : Table := Table.create 3 [0, 1] (some [0]) [[2]] [Expr.bin .gt (.col 1) (.lit (.int 0))]

def demoHistory : List Stmt :=
  [ .insert [[.int 1, .int 10, .int 5], [.int 2, .int 20, .null], [.int 3, .int 30, .null]] .plain,
    .insert [[.int 3, .int 31, .int 5]] .plain,            -- rejected: duplicate primary key
    .update (fun r => .ok (r.getD 0 .null == .int 2)) (fun r => .ok (r.set 2 (.int 7))),
    .delete (fun r => r.getD 0 .null == .int 1) ]

example : Inv (run thr demoTable demoHistory) ∧ (run thr demoTable demoHistory).rows =
    [[.int 2, .int 20, .int 7], [.int 3, .int 30, .null]] :=
  ⟨C10_history_from_create _ _ _ _ _ _, by decide⟩

/-- ALTER TABLE ADD CHECK evaluates the predicate on every stored row separately (`checkAllRows` is a
plain recursion over the row list: no state is carried from one row to the next), so an accepted
ALTER means the predicate is not FALSE — and evaluates — on *every* stored row, whatever its position;
a rejected one leaves the table as it was. -/
theorem C10_add_check_accepted_all_rows (t : Table) (c : Expr) (n : Nat) (h : (t.addCheck c).2 = .ok n) :
    (∀ r ∈ t.rows, ∃ v, c.eval r = .ok v ∧ v ≠ Value.bool false) ∧ (t.addCheck c).1.checks = t.checks ++ [c] := by
  unfold Table.addCheck at h ⊢
  split at h
  · simp at h
  · rename_i hok
    refine ⟨?_, by simp [hok]⟩
    intro r hr
    have := checkAllRows_ok c t.rows hok r hr
    unfold Table.checkChecks at this
    split at this
    · simp at this
    · rename_i v hv
      split at this
      · simp at this
      · rename_i hne
        exact ⟨v, hv, by simpa using hne⟩

theorem C10_add_check_rejected_unchanged (t : Table) (c : Expr) (e : DErr) (h : (t.addCheck c).2 = .err e) :
    (t.addCheck c).1 = t := by
  unfold Table.addCheck at h ⊢
  split
  · rfl
  · rename_i hok; simp [hok] at h

/-- the violating row may sit anywhere: first row fine, third row violating -/
example : (Table.addCheck { demoTable with rows := [[.int 1, .int 2, .null], [.int 2, .int 3, .null], [.int 3, .int 9, .null]] }
    (Expr.between (.col 1) (.lit (.int 1)) (.lit (.int 5)) false)).2 = .err .constraint := by decide

/-! the repaired defects, as theorems about the code before the repair -/

/-- Skipping the existing-row lookup while the tracker is active (bulk_transfer before the
repair) is unsound: 1,2,3,4 activate append mode, then a transferred row with key 2 is stored. -/
theorem C10_append_skip_unsound :
    ¬ (∀ (t : Table) (rows : List Row), Inv t → Inv (Table.bulkLoop thr true t [] rows 0).1) := by
  intro hall
  let t0 := run thr (Table.create 2 [0] (some [0]) [] [])
    [.insert [[.int 1, .int 1]] .plain, .insert [[.int 2, .int 1]] .plain,
     .insert [[.int 3, .int 1]] .plain, .insert [[.int 4, .int 1]] .plain]
  have h0 : Inv t0 := C10_history_from_create _ _ _ _ _ _
  have h1 := hall t0 [[.int 2, .int 9]] h0
  have hp : (Table.bulkLoop thr true t0 [] [[.int 2, .int 9]] 0).1.pk = some [0] := by decide
  have := C10_primary_key_unique _ h1 [0] hp
  revert this
  decide

/-- the tracker really is active in that state (the skip was reachable) -/
example : (run thr (Table.create 2 [0] (some [0]) [] [])
    [.insert [[.int 1, .int 1]] .plain, .insert [[.int 2, .int 1]] .plain,
     .insert [[.int 3, .int 1]] .plain, .insert [[.int 4, .int 1]] .plain]).tracker.active = true := by decide

end VibeProof.C10
