/-
Column types in the binary catalog: `format_data_type` (persistence/save.rs) writes SQL text,
`parse_data_type` (persistence/binary/catalog.rs) reads it back.  Text is `List Char` (ASCII
upper-casing only: the writer emits ASCII except for user-defined type names).
-/
namespace VibeProof.BinTypes

inductive IField where
  | year | month | day | hour | minute | second
  deriving DecidableEq, Repr

inductive DataType where
  | integer | smallint | bigint | unsigned
  | numeric (p s : Nat) | decimal (p s : Nat)
  | float (p : Nat) | real | double
  | character (len : Nat) | varchar (max : Option Nat) | clob | name
  | boolean | date | time (tz : Bool) | timestamp (tz : Bool)
  | interval (start : IField) (end_ : Option IField)
  | blob | bit (len : Option Nat) | userDefined (n : List Char) | null
  deriving DecidableEq, Repr

def IField.debug : IField → List Char
  | .year => "Year".toList | .month => "Month".toList | .day => "Day".toList
  | .hour => "Hour".toList | .minute => "Minute".toList | .second => "Second".toList

def showNat (n : Nat) : List Char := Nat.toDigits 10 n

/-- `format_data_type` -/
def formatDataType : DataType → List Char
  | .integer => "INTEGER".toList
  | .smallint => "SMALLINT".toList
  | .bigint => "BIGINT".toList
  | .unsigned => "BIGINT UNSIGNED".toList
  | .float p => "FLOAT(".toList ++ showNat p ++ [')']
  | .real => "REAL".toList
  | .double => "DOUBLE PRECISION".toList
  | .varchar (some n) => "VARCHAR(".toList ++ showNat n ++ [')']
  | .varchar none => "VARCHAR".toList
  | .character n => "CHAR(".toList ++ showNat n ++ [')']
  | .boolean => "BOOLEAN".toList
  | .date => "DATE".toList
  | .time _ => "TIME".toList
  | .timestamp true => "TIMESTAMP WITH TIME ZONE".toList
  | .timestamp false => "TIMESTAMP".toList
  | .interval s _ => "INTERVAL ".toList ++ s.debug
  | .numeric p s => "NUMERIC(".toList ++ showNat p ++ ", ".toList ++ showNat s ++ [')']
  | .decimal p s => "DECIMAL(".toList ++ showNat p ++ ", ".toList ++ showNat s ++ [')']
  | .clob => "CLOB".toList
  | .name => "VARCHAR(128)".toList
  | .blob => "BLOB".toList
  | .bit (some n) => "BIT(".toList ++ showNat n ++ [')']
  | .bit none => "BIT".toList
  | .userDefined n => n
  | .null => "NULL".toList

def startsWith (p s : List Char) : Bool := p.isPrefixOf s

/-- `str::trim_start_matches(p)`: strip the prefix as often as it matches -/
def trimStartMatches (p : List Char) (s : List Char) : List Char :=
  if p.isEmpty then s else
  let rec go (fuel : Nat) (s : List Char) : List Char :=
    match fuel with
    | 0 => s
    | fuel + 1 => if p.isPrefixOf s then go fuel (s.drop p.length) else s
  go s.length s

/-- `str::trim_end_matches(')')` -/
def trimEndParen (s : List Char) : List Char := (s.reverse.dropWhile (· == ')')).reverse

/-- ASCII part of `char::is_whitespace` (`str::trim`) -/
def isWs (c : Char) : Bool := c == ' ' || (9 ≤ c.toNat && c.toNat ≤ 13)

def trimSpaces (s : List Char) : List Char :=
  ((s.dropWhile isWs).reverse.dropWhile isWs).reverse

/-- `str::parse::<uN>()`: optional `+`, at least one digit, digits only, value ≤ max -/
def parseNat (max : Nat) (s : List Char) : Option Nat :=
  let ds := if s.head? == some '+' then s.tail else s
  if ds.isEmpty || !ds.all Char.isDigit then none
  else
    let v := Nat.ofDigitChars 10 ds 0
    if v ≤ max then some v else none

def usizeMax : Nat := 2 ^ 64 - 1

def splitComma (s : List Char) : List (List Char) :=
  let rec go (cur : List Char) : List Char → List (List Char)
    | [] => [cur.reverse]
    | c :: r => if c == ',' then cur.reverse :: go [] r else go (c :: cur) r
  go [] s

def precScale (params : List Char) : Nat × Nat :=
  let parts := (splitComma params).map trimSpaces
  let p := ((parts[0]?).bind (parseNat 255)).getD 38   -- `unwrap_or(38)` as coded
  let s := ((parts[1]?).bind (parseNat 255)).getD 0    -- `unwrap_or(0)` as coded
  (p, s)

/-- `parse_data_type` -/
def DataType.canon : DataType → String
  | .integer => "integer" | .smallint => "smallint" | .bigint => "bigint" | .unsigned => "unsigned"
  | .numeric p s => s!"numeric:{p}:{s}" | .decimal p s => s!"decimal:{p}:{s}"
  | .float p => s!"float:{p}" | .real => "real" | .double => "double"
  | .character n => s!"char:{n}"
  | .varchar none => "varchar:none" | .varchar (some n) => s!"varchar:{n}"
  | .clob => "clob" | .name => "name" | .boolean => "boolean" | .date => "date"
  | .time tz => if tz then "time:1" else "time:0"
  | .timestamp tz => if tz then "timestamp:1" else "timestamp:0"
  | .interval _ _ => "interval" | .blob => "blob" | .bit _ => "bit"
  | .userDefined _ => "userdefined" | .null => "null"

def parseDataType (text : List Char) : Option DataType :=
  let s := text.map Char.toUpper
  if s == "INTEGER".toList then some .integer
  else if s == "SMALLINT".toList then some .smallint
  else if s == "BIGINT".toList then some .bigint
  else if s == "BIGINT UNSIGNED".toList then some .unsigned
  else if s == "REAL".toList then some .real
  else if s == "DOUBLE PRECISION".toList then some .double
  else if s == "BOOLEAN".toList then some .boolean
  else if s == "DATE".toList then some .date
  else if s == "TIME".toList then some (.time false)
  else if s == "TIMESTAMP".toList || s == "DATETIME".toList then some (.timestamp false)
  else if s == "TIMESTAMP WITH TIME ZONE".toList || s == "DATETIME WITH TIME ZONE".toList then
    some (.timestamp true)
  else if startsWith "VARCHAR(".toList s then
    some (.varchar (parseNat usizeMax (trimEndParen (trimStartMatches "VARCHAR(".toList s))))
  else if startsWith "VARCHAR".toList s then some (.varchar none)
  else if startsWith "CHAR(".toList s then
    some (.character ((parseNat usizeMax (trimEndParen (trimStartMatches "CHAR(".toList s))).getD 1))
  else if startsWith "FLOAT(".toList s then
    some (.float ((parseNat 255 (trimEndParen (trimStartMatches "FLOAT(".toList s))).getD 53))
  else if startsWith "NUMERIC(".toList s then
    let ps := precScale (trimEndParen (trimStartMatches "NUMERIC(".toList s))
    some (.numeric ps.1 ps.2)
  else if startsWith "DECIMAL(".toList s then
    let ps := precScale (trimEndParen (trimStartMatches "DECIMAL(".toList s))
    some (.decimal ps.1 ps.2)
  else none

end VibeProof.BinTypes
