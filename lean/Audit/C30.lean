import VibeProof.Props.C30
#print axioms VibeProof.C30.C30_quote_roundtrip
#print axioms VibeProof.C30.C30_structure
#print axioms VibeProof.C30.C30_placeholder_in_literal
#print axioms VibeProof.C30.C30_negative_after_minus
#print axioms VibeProof.C30.C30_string_before_quote
#print axioms VibeProof.C30.C30_history_counterexample
#print axioms VibeProof.C30.C30_count_unchecked_on_hit
#print axioms VibeProof.C30.C30_history_independent_boundKey
#print axioms VibeProof.C30.C30_full_counterexample
#print axioms VibeProof.C30.C30_bool_binds_as_bool
#print axioms VibeProof.C30.C30_int_roundtrip
#print axioms VibeProof.C30.C30_smallint_out_of_range
#print axioms VibeProof.C30.C30_scan_quote
