//! Shared by c03 and c07: generated tables, aggregate query shapes (SQL + protocol rendering),
//! a reference evaluator of the SQL definitions written directly in Rust (the direct oracle of
//! C07; independent of the Lean model), and comparison of engine values with model results.
use std::collections::BTreeMap;
use vharness::qast::{Lit, Schema, Ty};
use vharness::*;
use vibesql_types::SqlValue;

pub const ENV_NO_COLUMNAR: &str = "VIBESQL_VERIF_NO_COLUMNAR";

pub fn columnar(on: bool) {
    if on {
        std::env::remove_var(ENV_NO_COLUMNAR);
    } else {
        std::env::set_var(ENV_NO_COLUMNAR, "1");
    }
}

#[derive(Clone, Copy, Debug, PartialEq, Eq)]
pub enum Fn_ {
    Count,
    Sum,
    Avg,
    Min,
    Max,
}
impl Fn_ {
    pub fn sql(self) -> &'static str {
        match self {
            Fn_::Count => "COUNT",
            Fn_::Sum => "SUM",
            Fn_::Avg => "AVG",
            Fn_::Min => "MIN",
            Fn_::Max => "MAX",
        }
    }
    pub fn proto(self) -> &'static str {
        match self {
            Fn_::Count => "count",
            Fn_::Sum => "sum",
            Fn_::Avg => "avg",
            Fn_::Min => "min",
            Fn_::Max => "max",
        }
    }
    pub const ALL: [Fn_; 5] = [Fn_::Count, Fn_::Sum, Fn_::Avg, Fn_::Min, Fn_::Max];
}

#[derive(Clone, Debug)]
pub struct Item {
    pub f: Fn_,
    pub arg: Option<usize>, // None = COUNT(*)
    pub distinct: bool,
}
impl Item {
    pub fn sql(&self, s: &Schema) -> String {
        match self.arg {
            None => "COUNT(*)".into(),
            Some(c) => format!("{}({}{})", self.f.sql(), if self.distinct { "DISTINCT " } else { "" }, s.cols[c].0),
        }
    }
    pub fn sx(&self) -> String {
        format!(
            "({} {} {})",
            self.f.proto(),
            self.arg.map(|c| c.to_string()).unwrap_or_else(|| "*".into()),
            if self.distinct { 1 } else { 0 }
        )
    }
}

#[derive(Clone, Copy, Debug, PartialEq, Eq)]
pub enum Cmp {
    Lt,
    Gt,
    Le,
    Ge,
    Eq,
}
impl Cmp {
    pub const ALL: [Cmp; 5] = [Cmp::Lt, Cmp::Gt, Cmp::Le, Cmp::Ge, Cmp::Eq];
    pub fn sql(self) -> &'static str {
        match self {
            Cmp::Lt => "<",
            Cmp::Gt => ">",
            Cmp::Le => "<=",
            Cmp::Ge => ">=",
            Cmp::Eq => "=",
        }
    }
    pub fn proto(self) -> &'static str {
        match self {
            Cmp::Lt => "lt",
            Cmp::Gt => "gt",
            Cmp::Le => "le",
            Cmp::Ge => "ge",
            Cmp::Eq => "eq",
        }
    }
    /// the operator with its operands exchanged (`lit op col` is `col op' lit`)
    pub fn flip(self) -> Cmp {
        match self {
            Cmp::Lt => Cmp::Gt,
            Cmp::Gt => Cmp::Lt,
            Cmp::Le => Cmp::Ge,
            Cmp::Ge => Cmp::Le,
            Cmp::Eq => Cmp::Eq,
        }
    }
    pub fn holds(self, o: std::cmp::Ordering) -> bool {
        use std::cmp::Ordering::*;
        match self {
            Cmp::Lt => o == Less,
            Cmp::Gt => o == Greater,
            Cmp::Le => o != Greater,
            Cmp::Ge => o != Less,
            Cmp::Eq => o == Equal,
        }
    }
}

#[derive(Clone, Debug)]
pub enum Pred {
    /// `col op lit`; `reversed` renders it as `lit op' col`
    Cmp { op: Cmp, col: usize, lit: Lit, reversed: bool },
    Between { col: usize, lo: Lit, hi: Lit },
}
impl Pred {
    pub fn sql(&self, s: &Schema) -> String {
        match self {
            Pred::Cmp { op, col, lit, reversed: false } => format!("{} {} {}", s.cols[*col].0, op.sql(), lit.sql()),
            Pred::Cmp { op, col, lit, reversed: true } => format!("{} {} {}", lit.sql(), op.flip().sql(), s.cols[*col].0),
            Pred::Between { col, lo, hi } => format!("{} BETWEEN {} AND {}", s.cols[*col].0, lo.sql(), hi.sql()),
        }
    }
    pub fn sx(&self) -> String {
        match self {
            Pred::Cmp { op, col, lit, .. } => format!("({} {} {})", op.proto(), col, lit.proto()),
            Pred::Between { col, lo, hi } => format!("(between {} {} {})", col, lo.proto(), hi.proto()),
        }
    }
    pub fn col(&self) -> usize {
        match self {
            Pred::Cmp { col, .. } | Pred::Between { col, .. } => *col,
        }
    }
}

#[derive(Clone, Debug)]
pub struct Having {
    pub item: usize,
    pub op: Cmp,
    pub lit: i64,
}

#[derive(Clone, Debug)]
pub struct Stmt {
    pub items: Vec<Item>,
    pub preds: Vec<Pred>,
    pub having: Option<Having>,
    pub order_by: bool,
    pub limit: Option<u64>,
    pub offset: Option<u64>,
}
impl Stmt {
    pub fn sql(&self, s: &Schema) -> String {
        self.sql_with(s, None, None)
    }
    /// the statement with an extra conjunct ANDed to its WHERE and / or HAVING clause
    pub fn sql_with(&self, s: &Schema, extra_where: Option<&str>, extra_having: Option<&str>) -> String {
        let items: Vec<String> = self.items.iter().enumerate().map(|(i, it)| format!("{} AS x{}", it.sql(s), i)).collect();
        let mut q = format!("SELECT {} FROM {}", items.join(", "), s.table);
        let mut conj: Vec<String> = self.preds.iter().map(|p| p.sql(s)).collect();
        if let Some(w) = extra_where {
            conj.push(w.to_string());
        }
        if !conj.is_empty() {
            q.push_str(" WHERE ");
            q.push_str(&conj.join(" AND "));
        }
        let mut hav: Vec<String> = vec![];
        if let Some(h) = &self.having {
            hav.push(format!("{} {} {}", self.items[h.item].sql(s), h.op.sql(), Lit::I(h.lit).sql()));
        }
        if let Some(h) = extra_having {
            hav.push(h.to_string());
        }
        if !hav.is_empty() {
            q.push_str(&format!(" HAVING {}", hav.join(" AND ")));
        }
        if self.order_by {
            q.push_str(" ORDER BY x0");
        }
        if let Some(l) = self.limit {
            q.push_str(&format!(" LIMIT {}", l));
        }
        if let Some(o) = self.offset {
            q.push_str(&format!(" OFFSET {}", o));
        }
        q
    }
    /// `query …` request of the model driver (without the rows)
    pub fn sx_head(&self) -> String {
        format!(
            "({}) ({}) {} {} {} {}",
            self.items.iter().map(|i| i.sx()).collect::<Vec<_>>().join(" "),
            self.preds.iter().map(|p| p.sx()).collect::<Vec<_>>().join(" "),
            match &self.having {
                None => "-".to_string(),
                Some(h) => format!("({} {} {})", h.item, h.op.proto(), h.lit),
            },
            if self.order_by { 1 } else { 0 },
            self.limit.map(|l| l.to_string()).unwrap_or_else(|| "-".into()),
            self.offset.map(|l| l.to_string()).unwrap_or_else(|| "-".into()),
        )
    }
    /// does the gate (as repaired) accept the shape?  Only used for the measured distribution.
    pub fn gate_shape(&self) -> bool {
        self.having.is_none()
            && !self.order_by
            && self.limit.is_none()
            && self.offset.is_none()
            && self.items.iter().all(|i| !i.distinct && !(i.f == Fn_::Sum && i.arg.is_some()))
    }
}

// ---------------------------------------------------------------------------------------------
// tables

pub fn schema() -> Schema {
    Schema {
        table: "t".into(),
        cols: vec![("c0".into(), Ty::Int), ("c1".into(), Ty::Int), ("c2".into(), Ty::Int), ("s".into(), Ty::Str)],
    }
}

pub const STRS: &[&str] = &["", "a", "b", "ab", "abc", "ba", "B", "zz", "a b", "Z"];

#[derive(Clone, Debug)]
pub struct Table {
    pub rows: Vec<Vec<Lit>>,
    /// description of how each column was filled (for the measured distribution)
    pub fill: Vec<&'static str>,
}

/// size classes: 0, 1, 2..12, 100..130, >= 1000
pub fn gen_size(r: &mut Rng, class: u32, big_hi: i64) -> usize {
    match class {
        0 => 0,
        1 => 1,
        2 => r.range(2, 12) as usize,
        3 => r.range(100, 130) as usize,
        _ => r.range(1000, big_hi) as usize,
    }
}

pub fn gen_table(r: &mut Rng, s: &Schema, n: usize) -> Table {
    let mut fill = vec![];
    let mut cols: Vec<Vec<Lit>> = vec![];
    for (_, ty) in &s.cols {
        // per column: NULL density (incl. all-NULL), domain size, optional NULL prefix
        let mode = r.below(10);
        let (null_pct, name): (u64, &'static str) = match mode {
            0 => (100, "all-null"),
            1 | 2 => (0, "no-null"),
            3 | 4 => (10, "null-10%"),
            5 | 6 => (30, "null-30%"),
            7 => (60, "null-60%"),
            _ => (30, "null-prefix"), // first min(n,105) cells NULL, then 30%
        };
        let dom = *r.pick(&[2i64, 4, 9, 40]);
        let prefix = if mode >= 8 { 105.min(n) } else { 0 };
        let mut col = Vec::with_capacity(n);
        for i in 0..n {
            if i < prefix || r.below(100) < null_pct {
                col.push(Lit::Null);
            } else if *ty == Ty::Int {
                col.push(Lit::I(r.range(-3, dom - 3)));
            } else {
                col.push(Lit::S(STRS[r.below((dom as u64).min(STRS.len() as u64)) as usize].to_string()));
            }
        }
        fill.push(name);
        cols.push(col);
    }
    let rows = (0..n).map(|i| cols.iter().map(|c| c[i].clone()).collect()).collect();
    Table { rows, fill }
}

/// loads the table through SQL; returns the Db
pub fn load_table(s: &Schema, t: &Table) -> Db {
    let mut db = Db::new();
    db.keep_log = false;
    vharness::qast::load(&mut db, s, &t.rows);
    db
}

pub fn script(s: &Schema, t: &Table) -> String {
    let mut out = format!("{};\n", s.create_sql());
    if t.rows.len() > 140 {
        out.push_str(&format!("-- {} rows (first 140 shown; regenerate with the seed for all)\n", t.rows.len()));
    }
    for r in t.rows.iter().take(140) {
        out.push_str(&format!("INSERT INTO {} SELECT {};\n", s.table, r.iter().map(|v| v.sql()).collect::<Vec<_>>().join(", ")));
    }
    out
}

// ---------------------------------------------------------------------------------------------
// query generation

pub fn gen_lit_for(r: &mut Rng, s: &Schema, col: usize) -> Lit {
    if r.chance(1, 25) {
        return Lit::Null;
    }
    if s.cols[col].1 == Ty::Int {
        Lit::I(r.range(-4, 8))
    } else {
        Lit::S((*r.pick(STRS)).to_string())
    }
}

pub fn gen_pred(r: &mut Rng, s: &Schema) -> Pred {
    let col = r.below(s.cols.len() as u64) as usize;
    if r.chance(1, 4) {
        Pred::Between { col, lo: gen_lit_for(r, s, col), hi: gen_lit_for(r, s, col) }
    } else {
        Pred::Cmp { op: *r.pick(&Cmp::ALL), col, lit: gen_lit_for(r, s, col), reversed: r.chance(1, 4) }
    }
}

pub fn gen_item(r: &mut Rng, s: &Schema, allow_distinct: bool) -> Item {
    let f = *r.pick(&Fn_::ALL);
    if f == Fn_::Count && r.chance(1, 2) {
        return Item { f, arg: None, distinct: false };
    }
    let int_cols: Vec<usize> = s.cols_of(Ty::Int);
    let col = if matches!(f, Fn_::Sum | Fn_::Avg) || r.chance(2, 3) {
        *r.pick(&int_cols)
    } else {
        *r.pick(&s.cols_of(Ty::Str))
    };
    Item { f, arg: Some(col), distinct: allow_distinct && r.chance(1, 4) }
}

/// `tail` = may carry HAVING / ORDER BY / LIMIT / OFFSET; `distinct` = may carry DISTINCT aggregates
pub fn gen_stmt(r: &mut Rng, s: &Schema, tail: bool, distinct: bool) -> Stmt {
    let n_items = r.range(1, 4) as usize;
    let items: Vec<Item> = (0..n_items).map(|_| gen_item(r, s, distinct)).collect();
    let n_preds = match r.below(10) {
        0..=3 => 0,
        4..=7 => 1,
        _ => 2,
    };
    let preds: Vec<Pred> = (0..n_preds).map(|_| gen_pred(r, s)).collect();
    let mut st = Stmt { items, preds, having: None, order_by: false, limit: None, offset: None };
    if tail {
        if r.chance(1, 2) {
            // HAVING over an item with an integer / ratio value
            let cand: Vec<usize> = (0..st.items.len())
                .filter(|i| {
                    let it = &st.items[*i];
                    it.arg.map(|c| s.cols[c].1 == Ty::Int).unwrap_or(true) || it.f == Fn_::Count
                })
                .collect();
            if !cand.is_empty() {
                st.having = Some(Having { item: *r.pick(&cand), op: *r.pick(&Cmp::ALL), lit: r.range(-2, 6) });
            }
        }
        st.order_by = r.chance(1, 3);
        if r.chance(1, 2) {
            st.limit = Some(r.below(3));
        }
        if r.chance(1, 3) {
            st.offset = Some(r.below(2));
        }
        if st.having.is_none() && !st.order_by && st.limit.is_none() && st.offset.is_none() {
            st.limit = Some(r.below(2));
        }
    }
    st
}

// ---------------------------------------------------------------------------------------------
// reference evaluator: the SQL definitions, written directly (no accumulators, no model)

#[derive(Clone, Debug, PartialEq)]
pub enum RefVal {
    Null,
    Int(i128),
    Str(String),
    Ratio(i128, u64),
}

fn lit_cmp(a: &Lit, b: &Lit) -> Option<std::cmp::Ordering> {
    match (a, b) {
        (Lit::I(x), Lit::I(y)) => Some(x.cmp(y)),
        (Lit::S(x), Lit::S(y)) => Some(x.as_bytes().cmp(y.as_bytes())),
        _ => None,
    }
}

/// TRUE / FALSE / UNKNOWN(None); Err = ill-typed
fn cmp3(op: Cmp, a: &Lit, b: &Lit) -> Result<Option<bool>, ()> {
    if *a == Lit::Null || *b == Lit::Null {
        return Ok(None);
    }
    lit_cmp(a, b).map(|o| Some(op.holds(o))).ok_or(())
}

pub fn pred_true(p: &Pred, row: &[Lit]) -> Result<bool, ()> {
    match p {
        Pred::Cmp { op, col, lit, .. } => Ok(cmp3(*op, &row[*col], lit)? == Some(true)),
        Pred::Between { col, lo, hi } => {
            let a = cmp3(Cmp::Ge, &row[*col], lo)?;
            let b = cmp3(Cmp::Le, &row[*col], hi)?;
            Ok(a == Some(true) && b == Some(true))
        }
    }
}

pub fn ref_filter<'a>(preds: &[Pred], rows: &'a [Vec<Lit>]) -> Result<Vec<&'a Vec<Lit>>, ()> {
    let mut out = vec![];
    for r in rows {
        let mut keep = true;
        for p in preds {
            if !pred_true(p, r)? {
                keep = false;
            }
        }
        if keep {
            out.push(r);
        }
    }
    Ok(out)
}

/// one aggregate by its definition over the argument values of a group
pub fn ref_agg(it: &Item, group: &[&Vec<Lit>]) -> RefVal {
    let c = match it.arg {
        None => return RefVal::Int(group.len() as i128),
        Some(c) => c,
    };
    let mut vals: Vec<&Lit> = group.iter().map(|r| &r[c]).filter(|v| **v != Lit::Null).collect();
    if it.distinct {
        let mut seen: Vec<&Lit> = vec![];
        for v in vals {
            if !seen.contains(&v) {
                seen.push(v);
            }
        }
        vals = seen;
    }
    match it.f {
        Fn_::Count => RefVal::Int(vals.len() as i128),
        Fn_::Sum | Fn_::Avg => {
            let ints: Vec<i128> = vals.iter().filter_map(|v| if let Lit::I(i) = v { Some(*i as i128) } else { None }).collect();
            if ints.is_empty() {
                RefVal::Null
            } else if it.f == Fn_::Sum {
                RefVal::Int(ints.iter().sum())
            } else {
                RefVal::Ratio(ints.iter().sum(), ints.len() as u64)
            }
        }
        Fn_::Min | Fn_::Max => {
            let mut best: Option<&Lit> = None;
            for v in vals {
                best = Some(match best {
                    None => v,
                    Some(b) => {
                        let o = lit_cmp(v, b).unwrap_or(std::cmp::Ordering::Equal);
                        if (it.f == Fn_::Min && o == std::cmp::Ordering::Less) || (it.f == Fn_::Max && o == std::cmp::Ordering::Greater) {
                            v
                        } else {
                            b
                        }
                    }
                });
            }
            match best {
                None => RefVal::Null,
                Some(Lit::I(i)) => RefVal::Int(*i as i128),
                Some(Lit::S(s)) => RefVal::Str(s.clone()),
                Some(Lit::Null) => RefVal::Null,
            }
        }
    }
}

fn ref_cmp_int(op: Cmp, v: &RefVal, lit: i64) -> bool {
    match v {
        RefVal::Int(i) => op.holds(i.cmp(&(lit as i128))),
        RefVal::Ratio(s, c) => op.holds(s.cmp(&((lit as i128) * (*c as i128)))),
        _ => false,
    }
}

/// the whole statement by definition: Err = ill-typed predicate
pub fn ref_stmt(q: &Stmt, rows: &[Vec<Lit>]) -> Result<Vec<Vec<RefVal>>, ()> {
    let f = ref_filter(&q.preds, rows)?;
    let row: Vec<RefVal> = q.items.iter().map(|it| ref_agg(it, &f)).collect();
    let mut out = vec![row];
    if let Some(h) = &q.having {
        if !ref_cmp_int(h.op, &out[0][h.item], h.lit) {
            out.clear();
        }
    }
    let off = q.offset.unwrap_or(0) as usize;
    let mut out: Vec<Vec<RefVal>> = out.into_iter().skip(off).collect();
    if let Some(l) = q.limit {
        out.truncate(l as usize);
    }
    Ok(out)
}

/// GROUP BY one column by definition: key → aggregates
pub fn ref_grouped(key: usize, items: &[Item], preds: &[Pred], rows: &[Vec<Lit>]) -> Result<BTreeMap<String, Vec<RefVal>>, ()> {
    let f = ref_filter(preds, rows)?;
    let mut groups: BTreeMap<String, Vec<&Vec<Lit>>> = BTreeMap::new();
    for r in f {
        groups.entry(r[key].proto()).or_default().push(r);
    }
    Ok(groups.into_iter().map(|(k, g)| (k, items.iter().map(|it| ref_agg(it, &g)).collect())).collect())
}

// ---------------------------------------------------------------------------------------------
// comparison of engine values with reference / model values

pub fn f64_of(v: &SqlValue) -> Option<f64> {
    match v {
        SqlValue::Integer(i) | SqlValue::Bigint(i) => Some(*i as f64),
        SqlValue::Smallint(i) => Some(*i as f64),
        SqlValue::Numeric(f) | SqlValue::Double(f) => Some(*f),
        SqlValue::Float(f) | SqlValue::Real(f) => Some(*f as f64),
        _ => None,
    }
}

pub fn int_of(v: &SqlValue) -> Option<i128> {
    match v {
        SqlValue::Integer(i) | SqlValue::Bigint(i) => Some(*i as i128),
        SqlValue::Smallint(i) => Some(*i as i128),
        SqlValue::Numeric(f) | SqlValue::Double(f) if f.fract() == 0.0 && f.abs() < 9.0e15 => Some(*f as i128),
        SqlValue::Float(f) | SqlValue::Real(f) if f.fract() == 0.0 && f.abs() < 1.0e7 => Some(*f as i128),
        _ => None,
    }
}

pub fn ratio_close(f: f64, s: i128, c: u64) -> bool {
    let q = s as f64 / c as f64;
    (f - q).abs() <= 1e-9 * q.abs().max(1.0)
}

/// numerics by value; AVG within 1e-9 relative of the exact quotient
pub fn val_matches(v: &SqlValue, r: &RefVal) -> bool {
    match r {
        RefVal::Null => matches!(v, SqlValue::Null),
        RefVal::Int(i) => int_of(v) == Some(*i),
        RefVal::Str(s) => matches!(v, SqlValue::Varchar(x) | SqlValue::Character(x) if x == s),
        RefVal::Ratio(s, c) => f64_of(v).map(|f| ratio_close(f, *s, *c)).unwrap_or(false),
    }
}

pub fn rows_match(got: &[Vec<SqlValue>], want: &[Vec<RefVal>]) -> bool {
    got.len() == want.len() && got.iter().zip(want).all(|(g, w)| g.len() == w.len() && g.iter().zip(w).all(|(a, b)| val_matches(a, b)))
}

/// model reply value (`N`, `I..`, `S..`, `(ratio s c)`) → RefVal
pub fn refval_of_sx(x: &Sx) -> Option<RefVal> {
    match x {
        Sx::Atom(a) if a == "N" => Some(RefVal::Null),
        Sx::Atom(a) if a.starts_with('I') => a[1..].parse::<i128>().ok().map(RefVal::Int),
        Sx::Atom(a) if a.starts_with('S') => sx::unhex_str(&a[1..]).map(RefVal::Str),
        Sx::List(v) if v.len() == 3 && v[0].as_atom() == Some("ratio") => {
            Some(RefVal::Ratio(v[1].as_atom()?.parse().ok()?, v[2].as_atom()?.parse().ok()?))
        }
        _ => None,
    }
}

/// `(rows (R…)…)` → rows; `(err k)` → Err(kind)
pub fn rows_of_sx(x: &Sx) -> Option<Result<Vec<Vec<RefVal>>, String>> {
    let v = x.as_list()?;
    match v.first()?.as_atom()? {
        "rows" => {
            let mut out = vec![];
            for r in &v[1..] {
                out.push(r.as_list()?.iter().map(refval_of_sx).collect::<Option<Vec<_>>>()?);
            }
            Some(Ok(out))
        }
        "err" => Some(Err(v.get(1)?.as_atom()?.to_string())),
        _ => None,
    }
}

/// two engine outputs agree: same rows (numerics by value, floats to 1e-9 relative) or both errors
pub fn outs_agree(a: &Out, b: &Out) -> bool {
    match (a, b) {
        (Out::Rows(x), Out::Rows(y)) => {
            x.len() == y.len()
                && x.iter().zip(y).all(|(p, q)| {
                    p.len() == q.len()
                        && p.iter().zip(q).all(|(u, v)| match (f64_of(u), f64_of(v)) {
                            (Some(f), Some(g)) => (f - g).abs() <= 1e-9 * f.abs().max(g.abs()).max(1.0),
                            _ => canon::val(u) == canon::val(v),
                        })
                })
        }
        (Out::Err { .. }, Out::Err { .. }) => true,
        _ => false,
    }
}

pub fn size_class(n: usize) -> &'static str {
    match n {
        0 => "0",
        1 => "1",
        2..=12 => "2-12",
        13..=99 => "13-99",
        100..=999 => "100-999",
        _ => ">=1000",
    }
}

// ---------------------------------------------------------------------------------------------
// numeric value-domain stream: exact f64 / i64 values inserted through the storage API (no SQL
// literals), sizes around the SIMD lane width (4) and the batch size (1024), value domains chosen
// per table; statements aggregate a DOUBLE column `d` and a BIGINT column `b` with and without a
// one-sided filter against zero.

pub const NUM_SIZES: &[usize] = &[1, 2, 3, 4, 5, 7, 8, 9, 1023, 1024, 1025, 2047, 2048, 2049];
pub const D_DOMAINS: &[&str] = &[
    "all-negative", "all-non-positive", "all-positive", "all-zero", "mixed-sign", "single-repeated",
    "huge-exact-negative", "huge-exact-mixed", "tiny-exact-non-positive", "tiny-exact-mixed", "extremes-minmax-only",
];
pub const B_DOMAINS: &[&str] = &["all-negative", "all-positive", "mixed-sign", "all-zero", "i64-extremes"];

fn pow2(e: i32) -> f64 {
    2f64.powi(e)
}

pub fn gen_d(r: &mut Rng, dom: &str, single: f64) -> f64 {
    let q = |r: &mut Rng| r.range(1, 200) as f64 / 4.0;
    match dom {
        "all-negative" => -q(r),
        "all-non-positive" => match r.below(4) {
            0 => 0.0,
            1 => -0.0,
            _ => -q(r),
        },
        "all-positive" => q(r),
        "all-zero" => {
            if r.chance(1, 2) {
                0.0
            } else {
                -0.0
            }
        }
        "mixed-sign" => match r.below(5) {
            0 => 0.0,
            1 | 2 => q(r),
            _ => -q(r),
        },
        "single-repeated" => single,
        "huge-exact-negative" => -(r.range(1, 100) as f64) * pow2(990),
        "huge-exact-mixed" => (r.range(-100, 100) as f64) * pow2(990),
        "tiny-exact-non-positive" => match r.below(6) {
            0 => -5e-324,
            1 => -f64::MIN_POSITIVE,
            2 => -0.0,
            _ => -(r.range(0, 100) as f64) * pow2(-1060),
        },
        "tiny-exact-mixed" => match r.below(8) {
            0 => 5e-324,
            1 => -5e-324,
            2 => f64::MIN_POSITIVE,
            _ => (r.range(-100, 100) as f64) * pow2(-1060),
        },
        _ => *r.pick(&[1e300, -1e300, f64::MAX / 2.0, -f64::MAX / 2.0, 1e-300, -1e-300, 5e-324, -5e-324, f64::MIN_POSITIVE, -f64::MIN_POSITIVE, 0.0, -1.5]),
    }
}

pub fn gen_b(r: &mut Rng, dom: &str) -> i64 {
    match dom {
        "all-negative" => -r.range(1, 1000),
        "all-positive" => r.range(1, 1000),
        "mixed-sign" => r.range(-1000, 1000),
        "all-zero" => 0,
        _ => *r.pick(&[i64::MIN, i64::MAX, i64::MIN + 1, i64::MAX - 1, -1, 0, 1]),
    }
}

pub struct NumCase {
    pub n: usize,
    pub d_dom: &'static str,
    pub b_dom: &'static str,
    pub null_pct: u64,
    pub d: Vec<Option<f64>>,
    pub b: Vec<Option<i64>>,
}

pub fn gen_num_case(r: &mut Rng, n: usize, d_dom: &'static str, b_dom: &'static str) -> NumCase {
    let null_pct = *r.pick(&[0u64, 0, 20, 100]);
    let single = *r.pick(&[-2.5, 0.0, -0.0, 7.25, -f64::MIN_POSITIVE, -1e300]);
    let d_dom_eff = d_dom;
    let d = (0..n).map(|_| if r.below(100) < null_pct { None } else { Some(gen_d(r, d_dom_eff, single)) }).collect();
    let b = (0..n).map(|_| if r.below(100) < null_pct.min(20) { None } else { Some(gen_b(r, b_dom)) }).collect();
    NumCase { n, d_dom, b_dom, null_pct, d, b }
}

pub fn load_num_case(c: &NumCase) -> Db {
    let mut db = Db::new();
    db.keep_log = false;
    db.must("CREATE TABLE g (k INTEGER, d DOUBLE PRECISION, b BIGINT)");
    let name = if db.db.get_table("G").is_some() { "G" } else { "g" };
    for i in 0..c.n {
        let row = vibesql_storage::Row::new(vec![
            SqlValue::Integer(i as i64),
            c.d[i].map(SqlValue::Double).unwrap_or(SqlValue::Null),
            c.b[i].map(SqlValue::Bigint).unwrap_or(SqlValue::Null),
        ]);
        db.db.insert_row(name, row).expect("harness precondition: direct insert");
    }
    db
}

pub fn num_case_text(c: &NumCase) -> String {
    let show = 40.min(c.n);
    format!(
        "-- table g (k INTEGER, d DOUBLE PRECISION, b BIGINT): {} rows inserted through the storage API, d domain {}, b domain {}, NULL {}%\n-- first {} rows (d bits shown exactly): {}\n",
        c.n,
        c.d_dom,
        c.b_dom,
        c.null_pct,
        show,
        (0..show).map(|i| format!("({:?}, {:?})", c.d[i], c.b[i])).collect::<Vec<_>>().join(" ")
    )
}

#[derive(Clone, Copy, Debug, PartialEq)]
pub enum NumAgg {
    CountStar,
    Count,
    Sum,
    Avg,
    Min,
    Max,
}

#[derive(Clone, Debug)]
pub struct NumStmt {
    pub col: char, // 'd' or 'b'
    pub aggs: Vec<NumAgg>,
    /// `col op 0` (false) or `col op 0.0` (true)
    pub pred: Option<(Cmp, bool)>,
}

impl NumStmt {
    pub fn sql(&self) -> String {
        let c = self.col;
        let items: Vec<String> = self
            .aggs
            .iter()
            .map(|a| match a {
                NumAgg::CountStar => "COUNT(*)".to_string(),
                NumAgg::Count => format!("COUNT({})", c),
                NumAgg::Sum => format!("SUM({})", c),
                NumAgg::Avg => format!("AVG({})", c),
                NumAgg::Min => format!("MIN({})", c),
                NumAgg::Max => format!("MAX({})", c),
            })
            .collect();
        let mut q = format!("SELECT {} FROM g", items.join(", "));
        if let Some((op, fl)) = self.pred {
            q.push_str(&format!(" WHERE {} {} {}", c, op.sql(), if fl { "0.0" } else { "0" }));
        }
        q
    }
}

/// statements for one table; SUM/AVG are left out where they are not comparable (see the caller)
pub fn num_statements(c: &NumCase) -> Vec<NumStmt> {
    use NumAgg::*;
    let d_sums = c.d_dom != "extremes-minmax-only";
    let b_avg = c.b_dom != "i64-extremes";
    let mut out = vec![];
    let d_all: Vec<NumAgg> = if d_sums { vec![CountStar, Count, Sum, Avg, Min, Max] } else { vec![CountStar, Count, Min, Max] };
    let b_all: Vec<NumAgg> = if b_avg { vec![CountStar, Count, Avg, Min, Max] } else { vec![CountStar, Count, Min, Max] };
    out.push(NumStmt { col: 'd', aggs: d_all.clone(), pred: None });
    out.push(NumStmt { col: 'b', aggs: b_all.clone(), pred: None });
    out.push(NumStmt { col: 'd', aggs: vec![Max], pred: None });
    out.push(NumStmt { col: 'd', aggs: vec![Min], pred: None });
    out.push(NumStmt { col: 'b', aggs: vec![Max, Min], pred: None });
    for (op, fl) in [(Cmp::Lt, false), (Cmp::Le, true), (Cmp::Gt, true), (Cmp::Lt, true), (Cmp::Ge, false)] {
        out.push(NumStmt { col: 'd', aggs: d_all.clone(), pred: Some((op, fl)) });
    }
    for op in [Cmp::Lt, Cmp::Le, Cmp::Gt] {
        out.push(NumStmt { col: 'b', aggs: b_all.clone(), pred: Some((op, false)) });
    }
    if b_avg {
        // row path only (SUM over an exact integer column declines the columnar path)
        out.push(NumStmt { col: 'b', aggs: vec![Sum, CountStar], pred: Some((Cmp::Le, false)) });
    }
    out
}

/// known-finding class C03/filter-epsilon: a DOUBLE value within 1e-9 of the literal 0 but not 0
pub fn epsilon_class(c: &NumCase, st: &NumStmt) -> bool {
    st.col == 'd' && st.pred.is_some() && c.d.iter().flatten().any(|v| *v != 0.0 && v.abs() < 1e-9)
}

#[derive(Clone, Debug)]
pub enum NumWant {
    Int(i128),
    F(f64),
    Null,
}

/// the SQL definition, computed directly
pub fn num_expected(c: &NumCase, st: &NumStmt) -> Vec<NumWant> {
    let keep_f = |v: f64| match st.pred {
        None => true,
        Some((op, _)) => v.partial_cmp(&0.0).map(|o| op.holds(o)).unwrap_or(false),
    };
    let keep_i = |v: i64| match st.pred {
        None => true,
        Some((op, _)) => op.holds(v.cmp(&0)),
    };
    let (rows, fvals, ivals): (usize, Vec<f64>, Vec<i64>) = if st.col == 'd' {
        let sel: Vec<Option<f64>> = c.d.iter().cloned().filter(|v| st.pred.is_none() || v.map(keep_f).unwrap_or(false)).collect();
        (sel.len(), sel.iter().flatten().cloned().collect(), vec![])
    } else {
        let sel: Vec<Option<i64>> = c.b.iter().cloned().filter(|v| st.pred.is_none() || v.map(keep_i).unwrap_or(false)).collect();
        (sel.len(), vec![], sel.iter().flatten().cloned().collect())
    };
    st.aggs
        .iter()
        .map(|a| {
            if st.col == 'd' {
                let n = fvals.len();
                match a {
                    NumAgg::CountStar => NumWant::Int(rows as i128),
                    NumAgg::Count => NumWant::Int(n as i128),
                    _ if n == 0 => NumWant::Null,
                    NumAgg::Sum => NumWant::F(fvals.iter().sum()),
                    NumAgg::Avg => NumWant::F(fvals.iter().sum::<f64>() / n as f64),
                    NumAgg::Min => NumWant::F(fvals.iter().cloned().fold(f64::INFINITY, f64::min)),
                    NumAgg::Max => NumWant::F(fvals.iter().cloned().fold(f64::NEG_INFINITY, f64::max)),
                }
            } else {
                let n = ivals.len();
                let sum: i128 = ivals.iter().map(|v| *v as i128).sum();
                match a {
                    NumAgg::CountStar => NumWant::Int(rows as i128),
                    NumAgg::Count => NumWant::Int(n as i128),
                    _ if n == 0 => NumWant::Null,
                    NumAgg::Sum => NumWant::Int(sum),
                    NumAgg::Avg => NumWant::F(sum as f64 / n as f64),
                    NumAgg::Min => NumWant::Int(*ivals.iter().min().unwrap() as i128),
                    NumAgg::Max => NumWant::Int(*ivals.iter().max().unwrap() as i128),
                }
            }
        })
        .collect()
}

fn f_close(g: f64, w: f64) -> bool {
    g == w || (g - w).abs() <= 1e-9 * g.abs().max(w.abs())
}

/// MIN / MAX / COUNT exactly (0.0 == -0.0), SUM / AVG to 1e-9 relative
pub fn num_value_ok(agg: NumAgg, got: &SqlValue, want: &NumWant) -> bool {
    match want {
        NumWant::Null => matches!(got, SqlValue::Null),
        NumWant::Int(i) => match got {
            SqlValue::Integer(x) | SqlValue::Bigint(x) => *x as i128 == *i,
            other => f64_of(other).map(|f| f == *i as f64).unwrap_or(false),
        },
        NumWant::F(w) => match f64_of(got) {
            None => false,
            Some(g) => {
                if matches!(agg, NumAgg::Min | NumAgg::Max) {
                    g == *w
                } else {
                    f_close(g, *w)
                }
            }
        },
    }
}

pub fn num_row_ok(st: &NumStmt, out: &Out, want: &[NumWant]) -> bool {
    match out {
        Out::Rows(r) => r.len() == 1 && r[0].len() == want.len() && st.aggs.iter().zip(r[0].iter().zip(want)).all(|(a, (g, w))| num_value_ok(*a, g, w)),
        _ => false,
    }
}

/// two engine results of the same statement: MIN / MAX / COUNT exactly, SUM / AVG to 1e-9 relative
pub fn num_outs_agree(st: &NumStmt, a: &Out, b: &Out) -> bool {
    match (a, b) {
        (Out::Rows(x), Out::Rows(y)) => {
            x.len() == 1
                && y.len() == 1
                && x[0].len() == y[0].len()
                && x[0].len() == st.aggs.len()
                && st.aggs.iter().zip(x[0].iter().zip(y[0].iter())).all(|(agg, (u, v))| match (u, v) {
                    (SqlValue::Null, SqlValue::Null) => true,
                    _ => match (f64_of(u), f64_of(v)) {
                        (Some(f), Some(g)) => {
                            if matches!(agg, NumAgg::Sum | NumAgg::Avg) {
                                f_close(f, g)
                            } else {
                                f == g
                            }
                        }
                        _ => false,
                    },
                })
        }
        (Out::Err { .. }, Out::Err { .. }) => true,
        _ => false,
    }
}

/// (size, d domain, b domain) list: quick = every size with rotating domains and every domain at a
/// small, a lane-boundary and a batch-boundary size; thorough = the full product for d
pub fn num_plan(r: &mut Rng, thorough: bool) -> Vec<(usize, &'static str, &'static str)> {
    let mut plan = vec![];
    if thorough {
        for &n in NUM_SIZES {
            for (i, d) in D_DOMAINS.iter().enumerate() {
                plan.push((n, *d, B_DOMAINS[(i + n) % B_DOMAINS.len()]));
            }
        }
    } else {
        for (j, &n) in NUM_SIZES.iter().enumerate() {
            for t in 0..2 {
                plan.push((n, D_DOMAINS[(2 * j + t) % D_DOMAINS.len()], B_DOMAINS[(j + t) % B_DOMAINS.len()]));
            }
        }
        for (i, d) in D_DOMAINS.iter().enumerate() {
            for &n in &[3usize, 5, 1025] {
                plan.push((n, *d, B_DOMAINS[(i + n) % B_DOMAINS.len()]));
            }
        }
        let _ = r.next();
    }
    plan
}


// ---------------------------------------------------------------------------------------------
// vacuous subquery predicates: each one is TRUE for every row / group, so "S AND <predicate>" has
// the result of S, but its presence makes the optimizer's subquery passes rebuild the statement.
// They need the helper tables of `load_vacuous_helpers` and a unique non-NULL column `id` in t.

pub const VAC_WHERE: &[&str] = &[
    "id IN (SELECT id FROM keep)",
    "EXISTS (SELECT 1 FROM keep WHERE keep.id = t.id)",
    "NOT EXISTS (SELECT 1 FROM keep WHERE 1 = 0)",
    "id NOT IN (SELECT id FROM nonek)",
    "id <= (SELECT MAX(id) FROM keep)",
    "(SELECT COUNT(*) FROM nonek) = 0",
    "EXISTS (SELECT 1 FROM one)",
];
pub const VAC_HAVING: &[&str] = &[
    "EXISTS (SELECT 1 FROM one)",
    "1 IN (SELECT x FROM one)",
    "NOT EXISTS (SELECT 1 FROM nonek)",
    "(SELECT COUNT(*) FROM nonek) = 0",
    "1 NOT IN (SELECT id FROM nonek)",
];

/// schema() plus the unique non-NULL row number `id`
pub fn schema_with_id() -> Schema {
    let mut s = schema();
    s.cols.push(("id".into(), Ty::Int));
    s
}

pub fn add_ids(t: &mut Table) {
    for (i, r) in t.rows.iter_mut().enumerate() {
        if r.len() == 4 {
            r.push(Lit::I(i as i64));
        } else {
            r[4] = Lit::I(i as i64);
        }
    }
}

/// keep = every id of t, nonek = empty, one = a single row
pub fn load_vacuous_helpers(db: &mut Db, n: usize) {
    db.must("CREATE TABLE keep (id INTEGER)");
    db.must("CREATE TABLE nonek (id INTEGER)");
    db.must("CREATE TABLE one (x INTEGER)");
    db.must("INSERT INTO one VALUES (1)");
    let ids: Vec<String> = (0..n).map(|i| format!("({})", i)).collect();
    for chunk in ids.chunks(200) {
        db.must(&format!("INSERT INTO keep VALUES {}", chunk.join(", ")));
    }
}

/// the WHERE predicate for rotation step `k`; tables of more than 200 rows only get the predicates
/// whose subquery is not evaluated per row against `keep` (those are quadratic in the engine)
pub fn vac_where(k: usize, table_rows: usize) -> &'static str {
    if table_rows > 200 {
        let cheap = [2usize, 3, 5, 6];
        VAC_WHERE[cheap[k % cheap.len()]]
    } else {
        VAC_WHERE[k % VAC_WHERE.len()]
    }
}
