//! C13 — ROLLBACK restores exactly the state at BEGIN; COMMIT keeps the last state.
//!
//! Direct oracle (real engine only): observation before BEGIN (every table's rows, constraint
//! indexes, user-defined index data, list_tables, list_indexes, a full-scan query and
//! index-driven equality queries per indexed column) vs the observation after ROLLBACK, over
//! histories with DML, TRUNCATE, CREATE/DROP TABLE, CREATE/DROP INDEX and savepoints inside the
//! transaction; with COMMIT the observation after the last statement must be kept.
//! Correspondence: the whole history through the Lean table state machine (same driver as C15).
#[path = "c15/common.rs"]
mod common;
use common::*;
use std::collections::BTreeMap;
use vharness::*;


/// everything a client can observe; key -> canonical text
fn observe13(db: &mut Db, with_queries: bool) -> BTreeMap<String, String> {
    let mut m = BTreeMap::new();
    let mut tables = db.db.list_tables();
    tables.sort();
    m.insert("list_tables".into(), format!("{:?}", tables));
    let mut idx: Vec<String> = db.db.list_indexes().iter().map(|s| s.to_uppercase()).collect();
    idx.sort();
    m.insert("list_indexes".into(), format!("{:?}", idx));
    for t in &tables {
        match observe(db, t) {
            Some(Ok(o)) => {
                m.insert(format!("rows:{}", t), format!("{:?}", o.rows));
                m.insert(format!("constraint_indexes:{}", t), format!("{:?}", o.hidx));
                m.insert(format!("user_index_data:{}", t), format!("{:?}", o.uidx));
            }
            Some(Err(e)) => {
                m.insert(format!("rows:{}", t), format!("unreadable {}", e));
            }
            None => {
                m.insert(format!("rows:{}", t), "listed but not stored".into());
            }
        }
        if with_queries {
            let keep = db.keep_log;
            db.keep_log = false;
            let q = db.exec(&format!("SELECT * FROM {}", t));
            m.insert(format!("select:{}", t), match q.rows() { Some(r) => canon::rows_bag(r), None => q.brief() });
            // index-driven: equality on the first column of every user-defined index (c0..c3 are
            // the columns of T; small integer / string domain)
            let ncols = db.db.get_table(t).map(|x| x.schema.columns.len()).unwrap_or(0);
            for c in 0..ncols {
                let name = db.db.get_table(t).map(|x| x.schema.columns[c].name.clone()).unwrap_or_default();
                for v in ["0", "1", "2", "3", "5", "7", "'a'", "'b'"] {
                    let q = db.exec(&format!("SELECT * FROM {} WHERE {} = {}", t, name, v));
                    if let Some(r) = q.rows() {
                        if !r.is_empty() {
                            m.insert(format!("query:{}:{}={}", t, name, v), canon::rows_bag(r));
                        }
                    }
                }
            }
            db.keep_log = keep;
        }
    }
    m
}

fn diff(a: &BTreeMap<String, String>, b: &BTreeMap<String, String>) -> Vec<String> {
    let mut keys: Vec<&String> = a.keys().chain(b.keys()).collect();
    keys.sort();
    keys.dedup();
    keys.into_iter().filter(|k| a.get(*k) != b.get(*k)).cloned().collect()
}

struct TxnCase {
    schema: Schema,
    pre: Vec<Stmt>,
    body: Vec<Stmt>,
    commit: bool,
}

fn full_script(c: &TxnCase) -> String {
    let mut s = format!("{};\n", c.schema.create_sql());
    for st in &c.pre {
        s.push_str(&format!("{};\n", st.sql()));
    }
    s.push_str("-- observe here\nBEGIN;\n");
    for st in &c.body {
        s.push_str(&format!("{};\n", st.sql()));
    }
    s.push_str(if c.commit { "COMMIT;\n" } else { "ROLLBACK;\n-- observe again: must be equal\n" });
    s
}

fn run_txn_case(c: &TxnCase, model: &mut model::Model, rep: &mut Report, label: &str) {
    let case_id = full_script(c);
    let mut db = Db::new();
    db.must(&c.schema.create_sql());
    for st in &c.pre {
        let _ = db.exec(&st.sql());
    }
    let before = observe13(&mut db, true);
    if !db.exec("BEGIN").is_ok() {
        rep.fail(FailKind::Oracle, None, "BEGIN failed on a committed state", &case_id);
        return;
    }
    let mut index_ddl = false;
    let mut changed = 0;
    for st in &c.body {
        let pre_rows = scan_vals(&db, TABLE);
        let out = db.exec(&st.sql());
        rep.count(&format!("in_txn_{}", st.kind()));
        if out.is_panic() {
            rep.fail(FailKind::Oracle, None, "engine panicked inside the transaction", &format!("{}-- at: {} => {}", case_id, st.sql(), out.brief()));
            return;
        }
        if out.is_ok() {
            if matches!(st, Stmt::CreateIndex(..) | Stmt::DropIndex(_)) {
                index_ddl = true;
            }
            if pre_rows != scan_vals(&db, TABLE) || matches!(st, Stmt::Raw(_) | Stmt::CreateIndex(..) | Stmt::DropIndex(_)) {
                changed += 1;
            }
        }
    }
    let last = observe13(&mut db, true);
    let end = db.exec(if c.commit { "COMMIT" } else { "ROLLBACK" });
    if !end.is_ok() {
        rep.fail(FailKind::Oracle, None, "COMMIT/ROLLBACK of an open transaction failed", &format!("{}-- {}", case_id, end.brief()));
        return;
    }
    let after = observe13(&mut db, true);
    rep.case(&case_id, changed >= 1 && (c.commit || before != last));
    rep.count(if c.commit { "ended_by_commit" } else { "ended_by_rollback" });
    if index_ddl {
        rep.count("cases_with_index_ddl_in_txn");
    }
    let want = if c.commit { &last } else { &before };
    let d = diff(want, &after);
    if !d.is_empty() {
        // (index DDL inside a transaction used to survive ROLLBACK — repaired by 650ff828; no
        // failure class is excused any more)
        let sig: Option<&str> = None;
        let mut detail = String::new();
        for k in &d {
            detail.push_str(&format!("-- {}:\n--   expected {}\n--   got      {}\n", k, want.get(k).cloned().unwrap_or("<absent>".into()), after.get(k).cloned().unwrap_or("<absent>".into())));
        }
        rep.fail(
            FailKind::Oracle,
            sig,
            if c.commit { "state after COMMIT differs from the state after the last statement" } else { "state after ROLLBACK differs from the state before BEGIN" },
            &format!("{}{}", case_id, detail),
        );
    }
    // correspondence: whole history through the model (T only)
    let mut stmts = c.pre.clone();
    stmts.push(Stmt::Begin);
    stmts.extend(c.body.iter().cloned());
    stmts.push(if c.commit { Stmt::Commit } else { Stmt::Rollback });
    run_case_opts(&Case { schema: c.schema.clone(), stmts }, model, rep, label, false);
}

fn gen_txn_case(r: &mut Rng) -> TxnCase {
    let pre_cfg = GenCfg { txn_weight: 0, savepoint_weight: 0, index_ddl_in_txn: true, len_lo: 2, len_hi: 8 };
    let pre = gen_case(r, &pre_cfg);
    let body_cfg = GenCfg { txn_weight: 0, savepoint_weight: 8, index_ddl_in_txn: r.chance(1, 3), len_lo: 1, len_hi: 10 };
    let mut body_rng = r.fork();
    // body over the same schema: generate, then drop its own leading setup statements' BEGINs
    let mut body_case = gen_case(&mut body_rng, &body_cfg);
    body_case.schema = pre.schema.clone();
    let ncols = pre.schema.ncols();
    let fits = |st: &Stmt| -> bool {
        match st {
            Stmt::Insert(rows) => rows.iter().all(|x| x.len() == ncols),
            Stmt::Replace(x) | Stmt::Upsert(x, _, _) => x.len() == ncols,
            _ => true,
        }
    };
    let mut body: Vec<Stmt> = vec![];
    for st in body_case.stmts {
        let st = match st {
            Stmt::Begin | Stmt::Commit | Stmt::Rollback => continue,
            Stmt::CreateIndex(n, cols, u) => {
                if !body_cfg.index_ddl_in_txn {
                    continue;
                }
                Stmt::CreateIndex(format!("b{}", n), cols.into_iter().filter(|c| *c < ncols).collect::<Vec<_>>(), u)
            }
            Stmt::DropIndex(_) => {
                if !body_cfg.index_ddl_in_txn {
                    continue;
                }
                // drop one of the indexes of the pre-state if there is one
                let names: Vec<String> = pre.stmts.iter().filter_map(|s| if let Stmt::CreateIndex(n, _, _) = s { Some(n.clone()) } else { None }).collect();
                if names.is_empty() {
                    continue;
                }
                Stmt::DropIndex(r.pick(&names).clone())
            }
            Stmt::Update(sets, p) => {
                let ok = sets.iter().all(|(c, _)| *c < ncols)
                    && match &p {
                        Pred::Cmp(c, _, _) | Pred::IsNull(c) => *c < ncols,
                        Pred::All => true,
                    };
                if !ok {
                    continue;
                }
                Stmt::Update(sets, p)
            }
            Stmt::Delete(p) => {
                let ok = match &p {
                    Pred::Cmp(c, _, _) | Pred::IsNull(c) => *c < ncols,
                    Pred::All => true,
                };
                if !ok {
                    continue;
                }
                Stmt::Delete(p)
            }
            Stmt::Upsert(x, c, v) => {
                if c >= ncols {
                    continue;
                }
                Stmt::Upsert(x, c, v)
            }
            other => other,
        };
        if matches!(&st, Stmt::CreateIndex(_, cols, _) if cols.is_empty()) {
            continue;
        }
        if fits(&st) {
            body.push(st);
        }
    }
    // other schema objects inside the transaction
    if r.chance(1, 3) {
        let at = r.below(body.len() as u64 + 1) as usize;
        body.insert(at, Stmt::Raw("CREATE TABLE u (k INT PRIMARY KEY, w INT)".into()));
        if r.chance(2, 3) {
            body.insert(at + 1, Stmt::Raw(format!("INSERT INTO u VALUES ({}, {})", r.range(0, 9), r.range(0, 9))));
        }
        if r.chance(1, 3) {
            body.push(Stmt::Raw("DROP TABLE u".into()));
        }
    }
    TxnCase { schema: pre.schema, pre: pre.stmts, body, commit: r.chance(1, 5) }
}

fn v(i: i64) -> Val {
    Val::Int(i)
}

fn probes() -> Vec<(&'static str, TxnCase)> {
    let s2 = Schema { int_col: vec![true, true], pk: true, uniques: vec![] };
    let pre = vec![
        Stmt::CreateIndex("qv".into(), vec![1], false),
        Stmt::Insert(vec![vec![v(1), v(1)]]),
        Stmt::Insert(vec![vec![v(2), v(2)]]),
        Stmt::Insert(vec![vec![v(3), v(2)]]),
    ];
    vec![
        ("delete-in-txn", TxnCase { schema: s2.clone(), pre: pre.clone(), body: vec![Stmt::Delete(Pred::Cmp(0, "=", v(1)))], commit: false }),
        ("insert-update-in-txn", TxnCase { schema: s2.clone(), pre: pre.clone(), body: vec![Stmt::Insert(vec![vec![v(9), v(2)]]), Stmt::Update(vec![(1, SetE::Const(v(7)))], Pred::Cmp(1, "=", v(2)))], commit: false }),
        ("truncate-in-txn", TxnCase { schema: s2.clone(), pre: pre.clone(), body: vec![Stmt::Truncate, Stmt::Insert(vec![vec![v(1), v(5)]])], commit: false }),
        ("create-drop-table-in-txn", TxnCase { schema: s2.clone(), pre: pre.clone(), body: vec![Stmt::Raw("CREATE TABLE u (k INT PRIMARY KEY, w INT)".into()), Stmt::Raw("INSERT INTO u VALUES (1, 1)".into())], commit: false }),
        ("commit-keeps", TxnCase { schema: s2.clone(), pre: pre.clone(), body: vec![Stmt::Delete(Pred::Cmp(0, "=", v(1))), Stmt::Insert(vec![vec![v(9), v(2)]])], commit: true }),
        // repaired defect 650ff828, kept as regression probes
        ("create-index-in-txn (regression: 650ff828)", TxnCase { schema: s2.clone(), pre: pre.clone(), body: vec![Stmt::CreateIndex("zz".into(), vec![0, 1], false)], commit: false }),
        ("drop-index-in-txn (regression: 650ff828)", TxnCase { schema: s2.clone(), pre: pre.clone(), body: vec![Stmt::DropIndex("qv".into())], commit: false }),
    ]
}

fn main() {
    engine::silence_panics();
    let args = Args::parse("C13");
    let mut rep = Report::new(
        &args,
        "case = (committed pre-state built by a random history, statements executed between BEGIN and ROLLBACK/COMMIT); \
         observation = rows, constraint indexes, user-defined index data of every table, list_tables, list_indexes, SELECT * and \
         equality queries on every column; non-trivial = the transaction changed something observable (for ROLLBACK: the state \
         just before ROLLBACK differs from the state at BEGIN); distinct by script",
    );
    rep.assumptions.push("one main table T (plus a second table U created/dropped inside the transaction); in-memory index backend".into());
    rep.assumptions.push("sequences, views, triggers, roles are not created inside the transactions (catalog snapshot covers them alike)".into());
    let mut model = args.model();
    for (name, c) in probes() {
        run_txn_case(&c, &mut model, &mut rep, name);
        rep.count("probe_cases");
    }
    let mut rng = Rng::new(args.seed);
    let n = args.n(350, 15000);
    for i in 0..n {
        let mut r = rng.fork();
        let c = gen_txn_case(&mut r);
        if i < 3 {
            rep.sample(serde_json::json!({"script": full_script(&c)}));
        }
        run_txn_case(&c, &mut model, &mut rep, "generated");
    }
    std::process::exit(rep.finish());
}
