import VibeProof.Model.Codec
import VibeProof.Model.Sql
/- Protocol glue for `Model/Sql.lean` (not part of any theorem). -/
namespace VibeProof.SqlCodec
open VibeProof VibeProof.Proto VibeProof.Codec VibeProof.Sql

def decOptExpr : Sx → Option (Option Expr)
  | .atom "none" => some none
  | s => (decExpr s).map some

def decAgg : Sx → Option AggCall
  | .list [.atom f, .atom d, e] => do
      let fn ← match f with
        | "countstar" => some AggFn.countStar | "count" => some .count | "sum" => some .sum
        | "min" => some .min | "max" => some .max | _ => none
      pure { fn := fn, arg := (← decExpr e), distinct := d == "1" }
  | _ => none

def decSub : Sx → Option SubQ
  | .list [.atom "sub", .atom t, f, o] => do
      let out ← match o with
        | .list [.atom "col", e] => (decExpr e).map SubOut.col
        | .list [.atom "agg", a] => (decAgg a).map SubOut.agg
        | _ => none
      pure { tbl := (← t.toNat?), filter := (← decOptExpr f), out := out }
  | _ => none

partial def decPred : Sx → Option Pred
  | .list [.atom "ex", e] => (decExpr e).map Pred.ex
  | .list [.atom "insub", a, s] => do pure (Pred.inSub (← decExpr a) (← decSub s) false)
  | .list [.atom "ninsub", a, s] => do pure (Pred.inSub (← decExpr a) (← decSub s) true)
  | .list [.atom "exists", s] => do pure (Pred.exists_ (← decSub s) false)
  | .list [.atom "nexists", s] => do pure (Pred.exists_ (← decSub s) true)
  | .list [.atom "cmpsub", .atom op, a, s] => do pure (Pred.cmpSub (← binOpOf op) (← decExpr a) (← decSub s))
  | .list [.atom "pand", a, b] => do pure (Pred.and (← decPred a) (← decPred b))
  | .list [.atom "por", a, b] => do pure (Pred.or (← decPred a) (← decPred b))
  | .list [.atom "pnot", a] => do pure (Pred.not (← decPred a))
  | _ => none

partial def decFrom : Sx → Option From
  | .list [.atom "t", .atom i] => i.toNat?.map From.table
  | .list [.atom "cross", l, r] => do pure (From.cross (← decFrom l) (← decFrom r))
  | .list [.atom "inner", l, r, e] => do pure (From.inner (← decFrom l) (← decFrom r) (← decExpr e))
  | .list [.atom "left", l, r, e] => do pure (From.left (← decFrom l) (← decFrom r) (← decExpr e))
  | .list [.atom "right", l, r, e] => do pure (From.right (← decFrom l) (← decFrom r) (← decExpr e))
  | .list [.atom "full", l, r, e] => do pure (From.full (← decFrom l) (← decFrom r) (← decExpr e))
  | _ => none

def decGroup : Sx → Option (Option Group)
  | .atom "none" => some none
  | .list [.atom "group", .list ks, .list as, h] => do
      pure (some { keys := (← ks.mapM decExpr), aggs := (← as.mapM decAgg), having := (← decOptExpr h) })
  | _ => none

def decOrder : Sx → Option (List (Nat × Bool))
  | .list xs => xs.mapM (fun x => match x with
      | .list [.atom i, .atom d] => do pure ((← i.toNat?), d == "1")
      | _ => none)
  | _ => none

def decCore : Sx → Option Core
  | .list [.atom "core", f, w, g, .list sel, .atom d, o, l, .atom off] => do
      let where_ ← match w with
        | .atom "none" => some none
        | p => (decPred p).map some
      let limit ← match l with
        | .atom "none" => some none
        | .atom n => n.toNat?.map some
        | _ => none
      pure { from_ := (← decFrom f), where_ := where_, group := (← decGroup g),
             select := (← sel.mapM decExpr), distinct := d == "1", orderBy := (← decOrder o),
             limit := limit, offset := (← off.toNat?) }
  | _ => none

partial def decQuery : Sx → Option Query
  | .list [.atom "setop", .atom op, .atom all, l, r] => do
      let o ← match op with
        | "union" => some SetOp.union | "intersect" => some .intersect | "except" => some .except
        | _ => none
      pure (Query.setop o (all == "1") (← decQuery l) (← decQuery r))
  | s => (decCore s).map Query.core

def decDb : Sx → Option Db
  | .list ts => do
      let tables ← ts.mapM (fun t => match t with
        | .list [.atom w, rows] => do pure ((← w.toNat?), (← decRows rows))
        | _ => none)
      pure { tables := tables }
  | _ => none

end VibeProof.SqlCodec
