import VibeProof.Model.Codec
import VibeProof.Model.TableSM
/-
Protocol glue for the table state machine (drivers of C15, C13, C14).  Not part of any theorem.

request  `(trace (SIG…) (OP…))`   SIG = `((col…) skipNull01)`
reply    `(trace STEP…)`          STEP = `(ERR (rows ROW…) (hidx ((KEY pos)…)…) (uidx (NAME ((KEY (pos…))…))…) (saves NAME…))`
one STEP for the initial state and one after every op.  KEY = `(comp…)`, comp = value atom or `X`.
OP: `(ins ROW…)` `(upd (i ROW (col…))…)` `(ups i ROW)` `(del pos…)` `(trunc)` `(repl ROW)`
    `(cidx NAME (col…) u01)` `(didx NAME)` `(begin)` `(commit)` `(rollback)` `(sp NAME)`
    `(rbto NAME)` `(rel NAME)`
-/
namespace VibeProof.TSMCodec
open VibeProof VibeProof.Proto VibeProof.Codec VibeProof.Idx VibeProof.TSM

def decNats : Sx → Option (List Nat)
  | .list xs => xs.mapM Sx.nat?
  | _ => none

def decBool01 : Sx → Option Bool
  | .atom "0" => some false
  | .atom "1" => some true
  | _ => none

def decSig : Sx → Option (List Nat × Bool)
  | .list [cols, sn] => do pure (← decNats cols, ← decBool01 sn)
  | _ => none

def decUp : Sx → Option (Nat × Row × List Nat)
  | .list [i, r, ch] => do pure (← i.nat?, ← decRow r, ← decNats ch)
  | _ => none

def decOp : Sx → Option Op
  | .list (.atom "ins" :: rs) => do pure (.insert (← rs.mapM decRow))
  | .list (.atom "upd" :: us) => do pure (.update (← us.mapM decUp))
  | .list [.atom "ups", i, r] => do pure (.upsert (← i.nat?) (← decRow r))
  | .list (.atom "del" :: ps) => do pure (.delete (← ps.mapM Sx.nat?))
  | .list [.atom "trunc"] => some .truncate
  | .list [.atom "repl", r] => do pure (.replace (← decRow r))
  | .list [.atom "cidx", .atom n, cols, u] => do pure (.createIndex n (← decNats cols) (← decBool01 u))
  | .list [.atom "didx", .atom n] => some (.dropIndex n)
  | .list [.atom "begin"] => some .begin
  | .list [.atom "commit"] => some .commit
  | .list [.atom "rollback"] => some .rollback
  | .list [.atom "sp", .atom n] => some (.savepoint n)
  | .list [.atom "rbto", .atom n] => some (.rollbackTo n)
  | .list [.atom "rel", .atom n] => some (.release n)
  | _ => none

def encKey (k : Key) : Sx :=
  .list (k.map (fun c => match c with | some v => .atom (encValue v) | none => .atom "X"))

def encErrT : Option TErr → Sx
  | none => .atom "ok"
  | some .txnActive => .atom "txnActive"
  | some .noTxn => .atom "noTxn"
  | some .noSavepoint => .atom "noSavepoint"
  | some .indexExists => .atom "indexExists"
  | some .indexMissing => .atom "indexMissing"
  | some .outOfRange => .atom "outOfRange"
  | some .rowNotFound => .atom "rowNotFound"

def encState (e : Option TErr) (s : TState) : Sx :=
  .list [encErrT e,
    .list (.atom "rows" :: s.rows.map encRow),
    .list (.atom "hidx" :: s.hidx.map (fun h => .list (h.data.map (fun kp => .list [encKey kp.1, sxNat kp.2])))),
    .list (.atom "uidx" :: s.uidx.map (fun u => .list [.atom u.name,
        .list (u.data.map (fun kv => .list [encKey kv.1, .list (kv.2.map sxNat)]))])),
    .list (.atom "saves" :: (match s.txn with
      | none => [.atom "-none-"]
      | some t => t.saves.map (fun sp => .atom sp.1)))]

def traceFrom (s : TState) : List Op → List Sx
  | [] => []
  | op :: ops =>
    let r := step s op
    encState r.2 r.1 :: traceFrom r.1 ops

def handle : List Sx → Sx
  | [.atom "trace", .list sigs, .list ops] =>
    match sigs.mapM decSig, ops.mapM decOp with
    | some sg, some os =>
      let s0 := init sg
      .list (.atom "trace" :: encState none s0 :: traceFrom s0 os)
    | _, _ => .atom "bad-request"
  | _ => .atom "bad-request"

end VibeProof.TSMCodec
