import VibeProof.Model.View
/-
C32 — views and CTEs behave as their defining query.
-/
namespace VibeProof.C32
open VibeProof VibeProof.Sql VibeProof.View

/-- a reference to a view equals the defining SELECT inlined as a derived table, on every database -/
theorem C32_view_eq_derived (env : Env) (db : Db) (name : Name) (body outer : Core)
    (hc : lookupCI name env.ctes = none) (hv : lookupCI name env.views = some body) :
    evalNamed env db name outer = evalDerived db body outer := by
  simp [evalNamed, resolve, hc, hv]

/-- a reference to a CTE equals the inlined definition; the CTE shadows a view or table of the
same name -/
theorem C32_cte_eq_derived (env : Env) (db : Db) (name : Name) (body outer : Core)
    (hc : lookupCI name env.ctes = some body) :
    evalNamed env db name outer = evalDerived db body outer := by
  simp [evalNamed, resolve, hc]

/-- hence view, CTE and derived-table spellings agree with each other -/
theorem C32_view_eq_cte (envV envC : Env) (db : Db) (name : Name) (body outer : Core)
    (hv0 : lookupCI name envV.ctes = none) (hv : lookupCI name envV.views = some body)
    (hc : lookupCI name envC.ctes = some body) :
    evalNamed envV db name outer = evalNamed envC db name outer := by
  rw [C32_view_eq_derived envV db name body outer hv0 hv, C32_cte_eq_derived envC db name body outer hc]

/-- freshness: a view holds no rows — after any change of the base tables a reference returns
the defining query evaluated on the *new* database -/
theorem C32_view_fresh (env : Env) (db : Db) (change : Db → Db) (name : Name) (body outer : Core)
    (hc : lookupCI name env.ctes = none) (hv : lookupCI name env.views = some body) :
    evalNamed env (change db) name outer = evalDerived (change db) body outer :=
  C32_view_eq_derived env (change db) name body outer hc hv

/-- name resolution is case-insensitive -/
theorem C32_lookup_case_insensitive {β : Type} (a b : Name) (l : List (Name × β))
    (h : lower a = lower b) : lookupCI a l = lookupCI b l := by
  induction l with
  | nil => rfl
  | cons p rest ih => obtain ⟨n, v⟩ := p; simp [lookupCI, h, ih]

/-- pushing an outer predicate below the definition's projection is sound:
filtering the projected rows = projecting the rows filtered by the composed predicate -/
theorem C32_pushdown_through_projection {α β : Type} (f : α → β) (p : β → TV) (rows : List α) :
    filter3 p (rows.map f) = (filter3 (fun r => p (f r)) rows).map f := by
  simp [filter3, List.filter_map, Function.comp_def]

/-- an outer predicate over a filtered definition composes with the definition's predicate -/
theorem C32_filter_compose {α : Type} (p q : α → TV) (rows : List α) :
    filter3 p (filter3 q rows) = filter3 (fun r => TV.and3 (q r) (p r)) rows := by
  simp only [filter3, List.filter_filter]
  apply List.filter_congr
  intro r _
  cases hq : q r <;> cases hp : p r <;> simp [TV.and3]

/-- non-vacuity: a CTE named like a view (up to case) shadows it -/
example :
    let c : Core := { from_ := .table 0, where_ := none, group := none, select := [.col 0], distinct := false, orderBy := [], limit := none, offset := 0 }
    let c2 : Core := { c with select := [.lit (.int 7)] }
    (match resolve { ctes := [(['V'], c2)], views := [(['v'], c)], tables := [(['t'], 0)] } ['v'] with
      | some (.cte b) => b.select.length == 1 | _ => false) = true := by
  decide

end VibeProof.C32
