import VibeProof.Model.Arith
import VibeProof.Model.RangeGuard
/-
C24 — statement execution never panics and never silently wraps numbers.

Proved here, about the as-coded models `Model/Arith.lean` and `Model/RangeGuard.lean`:
* integer expressions of any nesting depth: a returned value is the exact integer and a machine
  integer; an error other than overflow is the error of the exact semantics (never spurious);
* the SUM accumulator returns the exact sum, in range, or NULL;
* `IndexData::range_scan` never calls `BTreeMap::range` with a pair of bounds on which it panics,
  for every key type, order, increment function and input; before the repair it did;
* LIMIT/OFFSET arithmetic never underflows and is `drop`/`take`;
* SUBSTRING returns a contiguous run of whole characters of its argument.
-/
namespace VibeProof.C24
open VibeProof VibeProof.Arith VibeProof.RangeGuard

/-- a value is a machine value: integers within the signed 64-bit range -/
def valInRange : Value → Prop
  | .int i => Value.inRange64 i = true
  | _ => True

theorem inRange_iff (i : Int) : Value.inRange64 i = true ↔ (-(2^63 : Int) ≤ i ∧ i ≤ 2^63 - 1) := by
  simp [Value.inRange64]

theorem chk_ok {r : Int} {v : Value} (h : chk r = .ok v) : v = .int r ∧ Value.inRange64 r = true := by
  unfold chk at h
  split at h
  · next hr => cases h; exact ⟨rfl, hr⟩
  · cases h

/-- truncated remainder of a machine integer is a machine integer (why `checked_rem(..).unwrap_or(0)`
    needs no range error) -/
theorem tmod_inRange (x y : Int) (hx : Value.inRange64 x = true) : Value.inRange64 (Int.tmod x y) = true := by
  rw [inRange_iff] at *
  have habs := Int.natAbs_tmod x y
  have hle : (Int.tmod x y).natAbs ≤ x.natAbs := by
    rw [habs]; exact Nat.mod_le _ _
  by_cases h0 : 0 ≤ x
  · have := Int.tmod_nonneg y h0
    omega
  · have hneg : Int.tmod x y = -Int.tmod (-x) y := by
      rw [Int.neg_tmod]; omega
    have h2 : 0 ≤ Int.tmod (-x) y := Int.tmod_nonneg y (by omega)
    omega


theorem iToI64_ofValue (a : Value) : iToI64? (IVal.ofValue a) = toI64? a := by
  cases a <;> rfl

theorem arithI_exact (op : AOp) (x y : Int) (v : Value) (hx : Value.inRange64 x = true)
    (h : arithI op x y = .ok v) :
    (exactOp op x y = .ok none ∧ v = .null) ∨
    (∃ r, exactOp op x y = .ok (some r) ∧ v = .int r ∧ Value.inRange64 r = true) := by
  unfold arithI at h
  cases hop : exactOp op x y with
  | error e => rw [hop] at h; cases h
  | ok o =>
    rw [hop] at h
    cases o with
    | none => left; simp at h; exact ⟨rfl, h.symm⟩
    | some r =>
      right
      by_cases hm : op = .imod
      · subst hm
        simp at h
        refine ⟨r, rfl, h.symm, ?_⟩
        simp only [exactOp] at hop
        split at hop
        · cases hop
        · cases hop; exact tmod_inRange x y hx
      · simp [hm] at h
        have := chk_ok h
        exact ⟨r, rfl, this.1, this.2⟩

/-- one binary operator on machine values: a returned value is the exact result of the unbounded
    semantics, and a machine value -/
theorem C24_binop_exact (op : AOp) (a b v : Value) (ha : valInRange a) (hb : valInRange b)
    (h : evalBin op a b = .ok v) :
    idealBin op (IVal.ofValue a) (IVal.ofValue b) = .ok (IVal.ofValue v) ∧ valInRange v := by
  cases a <;> cases b <;>
    simp only [evalBin, idealBin, IVal.ofValue, toI64?, iToI64?, Except.ok.injEq, reduceCtorEq] at h ⊢ <;>
    first
    | (subst h; exact ⟨rfl, trivial⟩)
    | skip
  all_goals
    rcases arithI_exact _ _ _ _ (by first | exact ha | (split <;> decide)) h with
      ⟨he, hv⟩ | ⟨r, he, hv, hr⟩
    · rw [he, hv]; exact ⟨rfl, trivial⟩
    · rw [he, hv]; exact ⟨rfl, hr⟩

theorem C24_neg_exact (a v : Value) (h : evalNeg a = .ok v) :
    idealNeg (IVal.ofValue a) = .ok (IVal.ofValue v) ∧ valInRange v := by
  cases a <;> simp only [evalNeg, idealNeg, IVal.ofValue, Except.ok.injEq, reduceCtorEq] at h ⊢
  · subst h; exact ⟨rfl, trivial⟩
  · have := chk_ok h; rw [this.1]; exact ⟨rfl, this.2⟩

theorem C24_abs_exact (a v : Value) (h : evalAbs a = .ok v) :
    idealAbs (IVal.ofValue a) = .ok (IVal.ofValue v) ∧ valInRange v := by
  cases a <;> simp only [evalAbs, idealAbs, IVal.ofValue, Except.ok.injEq, reduceCtorEq] at h ⊢
  · subst h; exact ⟨rfl, trivial⟩
  · have := chk_ok h; rw [this.1]; exact ⟨rfl, this.2⟩

/-- **T1.** For an expression of any nesting depth whose literals are machine integers: if the
    as-coded evaluator returns a value, it is the value `⟦e⟧ℤ` of the exact integer semantics and
    lies in the signed 64-bit range — never a wrapped number. -/
theorem C24_eval_exact (e : AExpr) (hl : litsInRange e) (v : Value) (h : eval e = .ok v) :
    ideal e = .ok (IVal.ofValue v) ∧ valInRange v := by
  induction e generalizing v with
  | lit w =>
    simp only [eval, Except.ok.injEq] at h
    subst h
    refine ⟨rfl, ?_⟩
    cases w <;> first | trivial | exact hl
  | bin op a b iha ihb =>
    simp only [eval, bind, Except.bind] at h
    cases ha : eval a with
    | error er => rw [ha] at h; cases h
    | ok x =>
      rw [ha] at h
      cases hb : eval b with
      | error er => rw [hb] at h; cases h
      | ok y =>
        rw [hb] at h
        have h1 := iha hl.1 x ha
        have h2 := ihb hl.2 y hb
        have h3 := C24_binop_exact op x y v h1.2 h2.2 h
        simp only [ideal, bind, Except.bind, h1.1, h2.1]
        exact h3
  | neg a iha =>
    simp only [eval, bind, Except.bind] at h
    cases ha : eval a with
    | error er => rw [ha] at h; cases h
    | ok x =>
      rw [ha] at h
      have h1 := iha hl x ha
      simp only [ideal, bind, Except.bind, h1.1]
      exact C24_neg_exact x v h
  | abs a iha =>
    simp only [eval, bind, Except.bind] at h
    cases ha : eval a with
    | error er => rw [ha] at h; cases h
    | ok x =>
      rw [ha] at h
      have h1 := iha hl x ha
      simp only [ideal, bind, Except.bind, h1.1]
      exact C24_abs_exact x v h

/-- non-vacuity: a nested expression with machine literals that evaluates, and one that overflows -/
example : litsInRange (.bin .mul (.bin .add (.lit (.int 3)) (.lit (.bool true))) (.neg (.lit (.int 5)))) ∧
    eval (.bin .mul (.bin .add (.lit (.int 3)) (.lit (.bool true))) (.neg (.lit (.int 5)))) = .ok (.int (-20)) := by
  refine ⟨?_, by rfl⟩
  simp [litsInRange, Value.inRange64]
example : eval (.bin .add (.lit (.int 9223372036854775807)) (.lit (.int 1))) = .error .overflow := by rfl
example : eval (.bin .imod (.neg (.bin .add (.lit (.int 9223372036854775807)) (.lit (.int 0)))) (.lit (.int (-1)))) = .ok (.int 0) := by
  rfl


/-! ### errors are never spurious -/

theorem chk_error {r : Int} {er : AErr} (h : chk r = .error er) : er = .overflow := by
  unfold chk at h
  split at h
  · cases h
  · cases h; rfl

theorem arithI_error (op : AOp) (x y : Int) (er : AErr) (h : arithI op x y = .error er) :
    er = .overflow ∨ exactOp op x y = .error er := by
  unfold arithI at h
  cases hop : exactOp op x y with
  | error e => rw [hop] at h; simp at h; right; rw [h]
  | ok o =>
    rw [hop] at h
    cases o with
    | none => cases h
    | some r =>
      by_cases hm : op = .imod
      · simp [hm] at h
      · simp [hm] at h; left; exact chk_error h

theorem binop_error (op : AOp) (a b : Value) (er : AErr) (h : evalBin op a b = .error er) :
    er = .overflow ∨ idealBin op (IVal.ofValue a) (IVal.ofValue b) = .error er := by
  cases a <;> cases b <;>
    simp only [evalBin, idealBin, IVal.ofValue, toI64?, iToI64?, Except.error.injEq, reduceCtorEq] at h ⊢ <;>
    first
    | (subst h; right; rfl)
    | skip
  all_goals
    rcases arithI_error _ _ _ _ h with ho | he
    · left; exact ho
    · right; rw [he]

theorem neg_error (a : Value) (er : AErr) (h : evalNeg a = .error er) :
    er = .overflow ∨ idealNeg (IVal.ofValue a) = .error er := by
  cases a <;> simp only [evalNeg, idealNeg, IVal.ofValue, Except.error.injEq, reduceCtorEq] at h ⊢
  · left; exact chk_error h
  · subst h; right; rfl
  · subst h; right; rfl

theorem abs_error (a : Value) (er : AErr) (h : evalAbs a = .error er) :
    er = .overflow ∨ idealAbs (IVal.ofValue a) = .error er := by
  cases a <;> simp only [evalAbs, idealAbs, IVal.ofValue, Except.error.injEq, reduceCtorEq] at h ⊢
  · left; exact chk_error h
  · subst h; right; rfl
  · subst h; right; rfl

/-- **T1b.** The only error the machine range adds is `overflow`: any other error returned by the
    as-coded evaluator (type mismatch, division by zero) is the error of the exact semantics. -/
theorem C24_eval_error_not_spurious (e : AExpr) (hl : litsInRange e) (er : AErr)
    (h : eval e = .error er) : er = .overflow ∨ ideal e = .error er := by
  induction e generalizing er with
  | lit w => simp [eval] at h
  | bin op a b iha ihb =>
    simp only [eval, bind, Except.bind] at h
    cases ha : eval a with
    | error e1 =>
      rw [ha] at h; simp at h; subst h
      rcases iha hl.1 e1 ha with ho | hi
      · left; exact ho
      · right; simp only [ideal, bind, Except.bind, hi]
    | ok x =>
      rw [ha] at h
      have h1 := C24_eval_exact a hl.1 x ha
      cases hb : eval b with
      | error e2 =>
        rw [hb] at h; simp at h; subst h
        rcases ihb hl.2 e2 hb with ho | hi
        · left; exact ho
        · right; simp only [ideal, bind, Except.bind, h1.1, hi]
      | ok y =>
        rw [hb] at h
        have h2 := C24_eval_exact b hl.2 y hb
        rcases binop_error op x y er h with ho | hi
        · left; exact ho
        · right; simp only [ideal, bind, Except.bind, h1.1, h2.1]; exact hi
  | neg a iha =>
    simp only [eval, bind, Except.bind] at h
    cases ha : eval a with
    | error e1 =>
      rw [ha] at h; simp at h; subst h
      rcases iha hl e1 ha with ho | hi
      · left; exact ho
      · right; simp only [ideal, bind, Except.bind, hi]
    | ok x =>
      rw [ha] at h
      have h1 := C24_eval_exact a hl x ha
      rcases neg_error x er h with ho | hi
      · left; exact ho
      · right; simp only [ideal, bind, Except.bind, h1.1]; exact hi
  | abs a iha =>
    simp only [eval, bind, Except.bind] at h
    cases ha : eval a with
    | error e1 =>
      rw [ha] at h; simp at h; subst h
      rcases iha hl e1 ha with ho | hi
      · left; exact ho
      · right; simp only [ideal, bind, Except.bind, hi]
    | ok x =>
      rw [ha] at h
      have h1 := C24_eval_exact a hl x ha
      rcases abs_error x er h with ho | hi
      · left; exact ho
      · right; simp only [ideal, bind, Except.bind, h1.1]; exact hi


/-! ### SUM accumulator -/

theorem addSql_null (v : Value) : addSql .null v = .null := by
  simp [addSql, evalBin]

theorem addSql_int (a i : Int) :
    addSql (.int a) (.int i) = .null ∨
    (addSql (.int a) (.int i) = .int (a + i) ∧ Value.inRange64 (a + i) = true) := by
  simp only [addSql, evalBin, toI64?, arithI, exactOp]
  simp only [reduceCtorEq, if_false]
  unfold chk
  by_cases h : Value.inRange64 (a + i) = true
  · right; simp [h]
  · left; simp [h]

theorem sumFold_null (vs : List Value) (n : Nat) : (vs.foldl sumStep (.null, n)).1 = .null := by
  induction vs generalizing n with
  | nil => rfl
  | cons w ws ihw =>
    rw [List.foldl_cons]
    have : sumStep (.null, n) w = (.null, n) ∨ sumStep (.null, n) w = (.null, n + 1) := by
      unfold sumStep
      split
      · left; rfl
      · right; simp [addSql_null]
    rcases this with h | h
    · rw [h]; exact ihw n
    · rw [h]; exact ihw (n + 1)

/-- invariant of the fold: the running sum is NULL (sticky, after an overflow) or the exact sum so
    far, and it stays a machine integer -/
theorem sumFold_inv (vs : List Value) (a : Int) (n : Nat) (ha : Value.inRange64 a = true) :
    (vs.foldl sumStep (.int a, n)).1 = .null ∨
    ((vs.foldl sumStep (.int a, n)).1 = .int (a + exactSum vs) ∧
      Value.inRange64 (a + exactSum vs) = true) := by
  induction vs generalizing a n with
  | nil => right; simpa [exactSum] using ha
  | cons v vs ih =>
    cases v with
    | int i =>
      have hstep : sumStep (.int a, n) (.int i) = (addSql (.int a) (.int i), n + 1) := by
        simp [sumStep, Value.isNull, isNumeric]
      rw [List.foldl_cons, hstep]
      rcases addSql_int a i with hnull | ⟨hint, hr⟩
      · left; rw [hnull]; exact sumFold_null vs (n + 1)
      · rw [hint]
        have e : a + exactSum (.int i :: vs) = a + i + exactSum vs := by simp [exactSum]; omega
        rw [e]
        exact ih (a + i) (n + 1) hr
    | null =>
      have hstep : sumStep (.int a, n) .null = (.int a, n) := by simp [sumStep, Value.isNull]
      rw [List.foldl_cons, hstep]
      simpa [exactSum] using ih a n ha
    | str s =>
      have hstep : sumStep (.int a, n) (.str s) = (.int a, n) := by simp [sumStep, Value.isNull, isNumeric]
      rw [List.foldl_cons, hstep]
      simpa [exactSum] using ih a n ha
    | bool b =>
      have hstep : sumStep (.int a, n) (.bool b) = (.int a, n) := by simp [sumStep, Value.isNull, isNumeric]
      rw [List.foldl_cons, hstep]
      simpa [exactSum] using ih a n ha

/-- **T1c.** SUM over any input list (row-at-a-time accumulator): an integer result is the exact sum
    of the integer inputs and a machine integer; the only other outcome is NULL. -/
theorem C24_sum_exact (vs : List Value) :
    sumAgg vs = .null ∨ (sumAgg vs = .int (exactSum vs) ∧ Value.inRange64 (exactSum vs) = true) := by
  simp only [sumAgg, sumFold]
  by_cases hc : (vs.foldl sumStep (.int 0, 0)).2 = 0
  · left; simp [hc]
  · rcases sumFold_inv vs 0 0 (by decide) with h | ⟨h1, h2⟩
    · left; simp [hc, h]
    · right; simp only [Int.zero_add] at h1 h2; simp [hc, h1, h2]

example : sumAgg [.int 5, .null, .str "x", .int (-7)] = .int (-2) := by rfl
example : sumAgg [.int 9223372036854775807, .int 1, .int (-5)] = .null := by rfl

/-! ### index range scan: no pair of bounds on which `BTreeMap::range` panics -/

theorem invalidRange_eq_rangePanics {κ : Type} (cmp : κ → κ → Ordering) (lo hi : Bnd κ) :
    invalidRange cmp lo hi = rangePanics cmp lo hi := by
  cases lo <;> cases hi <;> rfl

/-- **T2.** For every key type, every total order / SQL comparison / increment function, every
    `start`, `end`, `inclusive_start`, `inclusive_end` and both index shapes: whenever
    `range_scan` reaches `BTreeMap::range`, the bounds are not in std's panic region. -/
theorem C24_range_never_panics {κ : Type} (o : KeyOps κ) (multi : Bool) (start end_ : Option κ)
    (incS incE : Bool) (lo hi : Bnd κ) (h : planOf o multi start end_ incS incE = .range lo hi) :
    rangePanics o.cmp lo hi = false := by
  unfold planOf at h
  cases hg : earlyGuards o start end_ incS incE with
  | some p =>
    rw [hg] at h
    simp only at h
    subst h
    -- early guards only produce `prefixScan` / `empty`
    unfold earlyGuards at hg
    split at hg
    · split at hg
      · cases hg
      · split at hg
        · cases hg
        · split at hg
          · cases hg
          · cases hg
    · cases hg
  | none =>
    rw [hg] at h
    simp only at h
    generalize (if (multi && (start.isSome || end_.isSome)) = true then multiBounds o start end_ incS incE
      else stdBounds o start end_ incS incE) = b at h
    by_cases hinv : invalidRange o.cmp b.1 b.2 = true
    · simp [hinv] at h
    · simp only [hinv] at h
      simp only [Bool.false_eq_true, if_false] at h
      cases h
      rw [← invalidRange_eq_rangePanics]
      simpa using hinv

/-- the guard is needed: with the guard sequence as it was before the repair there are inputs
    (an increment that overshoots the end, as `x + |x|·ε` does for `1.5 < b < 1.5000000000000002`)
    that reach `BTreeMap::range` inside its panic region -/
theorem C24_range_guard_needed :
    ∃ (o : KeyOps Int) (multi : Bool) (s e : Option Int) (iS iE : Bool) (lo hi : Bnd Int),
      planOfBefore o multi s e iS iE = .range lo hi ∧ rangePanics o.cmp lo hi = true :=
  ⟨⟨compare, fun a b => decide (a > b), fun a b => decide (a = b), fun v => some (v + 2), fun v => some (v + 1), -1000⟩,
    true, some 10, some 11, false, false, .incl 12, .excl 11, by decide, by decide⟩

/-- a second region of the old guard sequence, on the key order of the real index: an end bound
    NULL is below every number in the map's order but not comparable in SQL order -/
theorem C24_range_guard_needed_null :
    planOfBefore keyOps false (some (.num 10)) (some .null) true true = .range (.incl (.num 10)) (.incl .null) ∧
    rangePanics Key.cmp (.incl (.num 10)) (.incl .null) = true := by
  decide

example : planOf keyOps true (some (.num 10)) (some (.num 40)) false true
    = .range (.incl (.num 11)) (.excl (.num 41)) := by decide
example : planOf keyOps false (some (.num 10)) (some .null) true true = .empty := by decide

/-! ### LIMIT / OFFSET -/

/-- **T2b.** `apply_limit_offset` never underflows and returns `OFFSET`-dropped, `LIMIT`-truncated rows -/
theorem C24_limit_offset {α : Type} (rows : List α) (limit offset : Option Nat) :
    limitOffset rows limit offset =
      .rows (match limit with
        | some l => (rows.drop (match offset with | some o => o | none => 0)).take l
        | none => rows.drop (match offset with | some o => o | none => 0)) := by
  have key : ∀ start : Nat,
      (if start ≥ rows.length then Slice.rows []
        else if rows.length < start then Slice.panicUnderflow
        else Slice.rows ((rows.drop start).take (match limit with
          | some l => min l (rows.length - start)
          | none => rows.length - start))) =
      Slice.rows (match limit with
        | some l => (rows.drop start).take l
        | none => rows.drop start) := by
    intro start
    by_cases hge : start ≥ rows.length
    · have : rows.drop start = [] := List.drop_eq_nil_of_le hge
      rw [if_pos hge]
      cases limit <;> simp [this]
    · rw [if_neg hge, if_neg (by omega)]
      cases limit with
      | none => simp only; rw [List.take_of_length_le (by simp)]
      | some l =>
        simp only
        congr 1
        by_cases hl : l ≤ rows.length - start
        · rw [Nat.min_eq_left hl]
        · rw [Nat.min_eq_right (by omega)]
          rw [List.take_of_length_le (by simp), List.take_of_length_le (by simp; omega)]
  unfold limitOffset
  cases offset with
  | none => exact key 0
  | some o => exact key o

/-! ### SUBSTRING -/

/-- **T3.** SUBSTRING returns a contiguous run of whole characters of its argument: there is no
    index outside the string, no start after the end, and (the model being over characters, as
    the code after the repair iterates `chars()`) no cut inside a character. -/
theorem C24_substring_in_bounds (s : List Char) (start : Int) (len : Option Int) :
    ∃ pre post, s = pre ++ substring s start len ++ post ∧
      pre.length = min (substringStart start) s.length := by
  unfold substring
  cases len with
  | none =>
    exact ⟨s.take (substringStart start), [], by simp, by simp⟩
  | some l =>
    simp only
    split
    · exact ⟨s.take (substringStart start), s.drop (substringStart start), by simp, by simp⟩
    · refine ⟨s.take (substringStart start), (s.drop (substringStart start)).drop l.toNat, ?_, by simp⟩
      rw [List.append_assoc, List.take_append_drop, List.take_append_drop]

example : substring "héllo".toList 3 none = "llo".toList := by decide
example : substring "héllo".toList 2 (some 1) = "é".toList := by decide
example : substring "hello".toList (-9223372036854775807) (some 3) = "hel".toList := by decide


/-! ### assignment coercion -/

/-- **T1d.** A value stored into an integer column is the assigned value itself and lies in the
    column type's range — for every column type and every integer: the coercion never yields a
    different (wrapped, truncated, saturated) number. -/
theorem C24_assign_no_wrap (ty : ColTy) (i j : Int) (h : coerceTo ty i = some j) :
    j = i ∧ inRangeTy ty j = true := by
  unfold coerceTo at h
  split at h
  · next hr => cases h; exact ⟨rfl, hr⟩
  · cases h

/-- … and a value outside the range is not converted at all (the statement fails) -/
theorem C24_assign_rejects_out_of_range (ty : ColTy) (i : Int) (h : inRangeTy ty i = false) :
    coerceTo ty i = none := by
  simp [coerceTo, h]

example : coerceTo .smallint 32767 = some 32767 ∧ coerceTo .smallint 32768 = none ∧
    coerceTo .smallint 70000 = none ∧ coerceTo .unsigned (-1) = none ∧
    coerceTo .bigint 9223372036854775808 = none := by decide

end VibeProof.C24
