import VibeProof.Model.BinCodec
import VibeProof.Lemmas.BinCodec
import VibeProof.Model.BinTypes
import VibeProof.Lemmas.BinTypes
import VibeProof.Props.C22
/-
C20 — loading damaged database files fails cleanly (binary format, byte level).

For *every* byte string the model loader ends in `ok` or in one of the `Err` values (there is
no panic outcome in the transliterated readers), what it leaves unread is a suffix of the
input, and no buffer whose size comes from the file is requested larger than the input that is
still there.
-/
namespace VibeProof.C20
open VibeProof.BinCodec VibeProof.Generated

theorem safe_readTemporal (k : TKind) : Safe (readTemporal k) := by
  unfold readTemporal
  refine Safe.bind Safe.readString (fun s => ?_)
  split
  · exact Safe.pure _
  · exact Safe.fail _
  · exact Safe.fail _

theorem safe_readBody (t : Tag) : Safe (readBody t) := by
  cases t <;> unfold readBody <;>
    first
    | exact Safe.pure _
    | exact Safe.bind (Safe.iN _) (fun _ => Safe.pure _)
    | exact Safe.bind (Safe.uN _) (fun _ => Safe.pure _)
    | exact Safe.bind Safe.readString (fun _ => Safe.pure _)
    | exact Safe.bind Safe.rbool (fun _ => Safe.pure _)
    | exact safe_readTemporal _

/-- **T2/T3 for values.** `read_sql_value` on arbitrary bytes -/
theorem C20_readValue_safe : Safe readValue := by
  unfold readValue
  refine Safe.bind Safe.u8 (fun b => ?_)
  cases Tag.fromNat? b.toNat with
  | none => exact Safe.fail _
  | some t => exact safe_readBody t

/-- a byte that is no arm of `TypeTag::from_u8` is rejected as such, whatever follows -/
theorem C20_unknown_tag_rejected (b : UInt8) (rest : Bytes) (h : Tag.fromNat? b.toNat = none) :
    (readValue (b :: rest)).res = .error (.badTag b.toNat) := by
  unfold readValue
  rw [bind_def, bind_res_ok (a := b) (rest := rest) rfl]
  simp only [h]; rfl

example : Tag.fromNat? (0x09 : UInt8).toNat = none := by decide

/-- **T3 for strings (repaired reader).** the buffer `read_string` asks for never exceeds the
    bytes that are still in the input, and it leaves a suffix -/
theorem C20_readString_alloc_bounded : Safe readString := Safe.readString

/-- the same statement is false for `read_string` as it was before the repair:
    a 4-byte input asks for 4 GiB -/
theorem C20_readString_alloc_counterexample_before_fix :
    ¬ (∀ inp, ∀ n ∈ (readStringOld inp).ledger, n ≤ inp.length) := by
  intro h
  have := h [0xff, 0xff, 0xff, 0xff] 4294967295 (by decide)
  exact absurd this (by decide)

/-- ... and the repaired reader on the same input asks for nothing and reports end of input -/
theorem C20_readString_ffffffff :
    (readString [0xff, 0xff, 0xff, 0xff]).ledger = [0] ∧
    (readString [0xff, 0xff, 0xff, 0xff]).res = .error .eof := ⟨rfl, rfl⟩

theorem C20_readRows_safe (n k : Nat) : Safe (readRows n k) :=
  Safe.many (Safe.many C20_readValue_safe k) n

theorem safe_counted {rd : Reader α} (h : Safe rd) : Safe (readCounted rd) :=
  Safe.bind (Safe.uN 4) (fun k => Safe.many h k)

theorem safe_readCol : Safe readCol :=
  Safe.bind Safe.readString (fun _ => Safe.bind Safe.readString (fun _ =>
    Safe.bind Safe.rbool (fun _ => Safe.pure _)))

theorem safe_readTableDef : Safe readTableDef :=
  Safe.bind Safe.readString (fun _ => Safe.bind (Safe.uN 4) (fun k =>
    Safe.bind (Safe.many safe_readCol k) (fun _ => Safe.pure _)))

theorem safe_readIdxCol : Safe readIdxCol :=
  Safe.bind Safe.readString (fun _ => Safe.bind Safe.u8 (fun _ =>
    Safe.ite (Safe.pure _) (Safe.ite (Safe.pure _)
      (Safe.ite (Safe.bind (Safe.uN 8) (fun _ => Safe.pure _))
        (Safe.ite (Safe.bind (Safe.uN 8) (fun _ => Safe.pure _)) (Safe.fail _))))))

theorem safe_readIdxDef : Safe readIdxDef :=
  Safe.bind Safe.readString (fun _ => Safe.bind Safe.readString (fun _ =>
    Safe.bind Safe.rbool (fun _ => Safe.bind (Safe.uN 4) (fun k =>
      Safe.bind (Safe.many safe_readIdxCol k) (fun _ => Safe.pure _)))))

/-! ### expressions in trigger WHEN conditions (depth-bounded reader) -/

theorem safe_checkTypeText (t : Bytes) : Safe (checkTypeText t) := by
  unfold checkTypeText
  split
  · exact Safe.fail _
  · split
    · exact Safe.pure _
    · exact Safe.fail _

macro "safe_step" : tactic => `(tactic| first
  | exact Safe.pure _ | exact Safe.fail _ | assumption
  | exact Safe.readString | exact Safe.rbool | exact Safe.u8 | exact Safe.uN _
  | exact Safe.readEnum _ | exact C20_readValue_safe | exact safe_checkTypeText _
  | apply Safe.optional | apply Safe.many | apply Safe.ite | apply Safe.bind | intro _)

theorem safe_readCaseWhen {rec : Reader ExInfo} (h : Safe rec) : Safe (readCaseWhen rec) := by
  unfold readCaseWhen; repeat safe_step

theorem safe_readFrameBound {rec : Reader ExInfo} (h : Safe rec) : Safe (readFrameBound rec) := by
  unfold readFrameBound; repeat safe_step

theorem safe_readWindow {rec : Reader ExInfo} (h : Safe rec) : Safe (readWindow rec) := by
  have hb := safe_readFrameBound h
  unfold readWindow; repeat safe_step

theorem safe_readExprBody {rec : Reader ExInfo} (h : Safe rec) (k : EK) : Safe (readExprBody rec k) := by
  have hc := safe_readCaseWhen h
  have hw := safe_readWindow h
  have ht := safe_checkTypeText
  cases k <;> unfold readExprBody <;> repeat safe_step

/-- **T2/T3 for expressions**: at every nesting budget the reader leaves a suffix and asks for no
    buffer beyond the input -/
theorem C20_readExpr_safe (fuel : Nat) : Safe (readExpr fuel) := by
  induction fuel with
  | zero => exact Safe.fail _
  | succ f ih =>
    unfold readExpr
    refine Safe.bind Safe.u8 (fun b => ?_)
    cases EK.fromNat? b.toNat with
    | none => exact Safe.fail _
    | some k => exact safe_readExprBody ih k

theorem combine_depth_le (cs : List ExInfo) (d : Nat) (h : ∀ c ∈ cs, c.depth ≤ d) :
    (ExInfo.combine cs).depth ≤ d + 1 := by
  have : ∀ (l : List ExInfo) (m : Nat), m ≤ d → (∀ c ∈ l, c.depth ≤ d) →
      l.foldl (fun m c => max m c.depth) m ≤ d := by
    intro l
    induction l with
    | nil => intro m hm _; simpa using hm
    | cons a l ih =>
      intro m hm hl
      simp only [List.foldl_cons]
      exact ih _ (Nat.max_le.mpr ⟨hm, hl a (by simp)⟩) (fun c hc => hl c (by simp [hc]))
  have := this cs 0 (Nat.zero_le _) h
  simp only [ExInfo.combine]; omega

/-- depth predicate on lists of children -/
abbrev AllLe (d : Nat) (l : List ExInfo) : Prop := ∀ c ∈ l, c.depth ≤ d

macro "post_step" : tactic => `(tactic| first
  | assumption
  | exact Post.fail _
  | apply Post.ite
  | intro _ )

theorem post_leaf (d : Nat) : Post (fun e : ExInfo => e.depth ≤ d + 1) (Pure.pure ExInfo.leaf) :=
  Post.pure (by simp [ExInfo.leaf])

/-- a reader whose children all come from `rec`: the children collected so far satisfy `AllLe d` -/
theorem post_combine {d : Nat} {cs : List ExInfo} (h : AllLe d cs) :
    Post (fun e : ExInfo => e.depth ≤ d + 1) (Pure.pure (ExInfo.combine cs)) :=
  Post.pure (combine_depth_le cs d h)

theorem allLe_nil (d : Nat) : AllLe d [] := by intro c hc; cases hc
theorem allLe_cons {d : Nat} {a : ExInfo} {l : List ExInfo} (ha : a.depth ≤ d) (hl : AllLe d l) :
    AllLe d (a :: l) := by
  intro c hc; rcases List.mem_cons.mp hc with e | e
  · subst e; exact ha
  · exact hl c e
theorem allLe_append {d : Nat} {l m : List ExInfo} (hl : AllLe d l) (hm : AllLe d m) :
    AllLe d (l ++ m) := by
  intro c hc; rcases List.mem_append.mp hc with e | e
  · exact hl c e
  · exact hm c e
theorem allLe_optList {d : Nat} {o : Option ExInfo} (h : ∀ x, o = some x → x.depth ≤ d) :
    AllLe d o.toList := by
  cases o with
  | none => exact allLe_nil d
  | some x => intro c hc; simp at hc; rw [hc]; exact h x rfl
theorem allLe_getD {d : Nat} {o : Option (List ExInfo)} (h : ∀ x, o = some x → AllLe d x) :
    AllLe d (o.getD []) := by
  cases o with
  | none => exact allLe_nil d
  | some x => exact h x rfl
theorem allLe_flatten {d : Nat} {ll : List (List ExInfo)} (h : ∀ l ∈ ll, AllLe d l) :
    AllLe d ll.flatten := by
  intro c hc
  obtain ⟨l, hl, hcl⟩ := List.mem_flatten.mp hc
  exact h l hl c hcl

theorem post_caseWhen {rec : Reader ExInfo} {d : Nat} (h : Post (fun e => e.depth ≤ d) rec) :
    Post (AllLe d) (readCaseWhen rec) := by
  unfold readCaseWhen
  refine Post.bind (Post.trivial _) (fun m _ => Post.bind (Post.many h m) (fun conds hc =>
    Post.bind h (fun r hr => Post.pure ?_)))
  exact allLe_append hc (allLe_cons hr (allLe_nil d))

theorem post_frameBound {rec : Reader ExInfo} {d : Nat} (h : Post (fun e => e.depth ≤ d) rec) :
    Post (AllLe d) (readFrameBound rec) := by
  unfold readFrameBound
  refine Post.bind (Post.trivial _) (fun t _ => Post.ite ?_ (Post.pure (allLe_nil d)))
  exact Post.bind h (fun e he => Post.pure (allLe_cons he (allLe_nil d)))

theorem post_window {rec : Reader ExInfo} {d : Nat} (h : Post (fun e => e.depth ≤ d) rec) :
    Post (AllLe d) (readWindow rec) := by
  unfold readWindow
  refine Post.bind (Post.trivial _) (fun _ _ => Post.bind (Post.trivial _) (fun _ _ =>
    Post.bind (Post.trivial _) (fun n _ => Post.bind (Post.many h n) (fun args ha => ?_))))
  refine Post.bind (Post.optional (P := AllLe d)
    (Post.bind (Post.trivial _) (fun k _ => Post.many h k))) (fun part hp => ?_)
  refine Post.bind (Post.trivial _) (fun ho _ => Post.ite (Post.fail _) ?_)
  refine Post.bind (Post.optional (P := AllLe d) ?_) (fun frame hf => Post.pure ?_)
  · refine Post.bind (Post.trivial _) (fun _ _ => Post.bind (post_frameBound h) (fun s hs =>
      Post.bind (Post.optional (post_frameBound h)) (fun e he => Post.pure ?_)))
    exact allLe_append hs (allLe_getD he)
  · exact allLe_append (allLe_append ha (allLe_getD hp)) (allLe_getD hf)

theorem post_readExprBody {rec : Reader ExInfo} {d : Nat} (h : Post (fun e => e.depth ≤ d) rec)
    (k : EK) : Post (fun e => e.depth ≤ d + 1) (readExprBody rec k) := by
  have T {α : Type} (rd : Reader α) := Post.trivial rd
  have n0 := allLe_nil d
  cases k <;> unfold readExprBody
  case literal => exact Post.bind (T _) (fun _ _ => post_leaf d)
  case columnRef => exact Post.bind (T _) (fun _ _ => Post.bind (T _) (fun _ _ => post_leaf d))
  case binaryOp =>
    exact Post.bind (T _) (fun _ _ => Post.bind h (fun l hl => Post.bind h (fun r hr =>
      post_combine (allLe_cons hl (allLe_cons hr n0)))))
  case unaryOp =>
    exact Post.bind (T _) (fun _ _ => Post.bind h (fun e he => post_combine (allLe_cons he n0)))
  case function =>
    exact Post.bind (T _) (fun _ _ => Post.bind (T _) (fun n _ => Post.bind (Post.many h n)
      (fun args ha => Post.bind (T _) (fun _ _ => post_combine ha))))
  case aggregateFunction =>
    exact Post.bind (T _) (fun _ _ => Post.bind (T _) (fun _ _ => Post.bind (T _) (fun n _ =>
      Post.bind (Post.many h n) (fun args ha => post_combine ha))))
  case isNull =>
    exact Post.bind h (fun e he => Post.bind (T _) (fun _ _ => post_combine (allLe_cons he n0)))
  case wildcard => exact post_leaf d
  case case =>
    exact Post.bind (Post.optional h) (fun op hop => Post.bind (T _) (fun n _ =>
      Post.bind (Post.many (post_caseWhen h) n) (fun whens hw => Post.bind (Post.optional h)
        (fun els hels => post_combine
          (allLe_append (allLe_append (allLe_optList hop) (allLe_flatten hw)) (allLe_optList hels))))))
  case scalarSubquery => exact Post.fail _
  case inSubquery => exact Post.fail _
  case inList =>
    exact Post.bind h (fun e he => Post.bind (T _) (fun n _ => Post.bind (Post.many h n)
      (fun vs hv => Post.bind (T _) (fun _ _ => post_combine (allLe_cons he hv)))))
  case between =>
    exact Post.bind h (fun e he => Post.bind h (fun lo hlo => Post.bind h (fun hi hhi =>
      Post.bind (T _) (fun _ _ => Post.bind (T _) (fun _ _ =>
        post_combine (allLe_cons he (allLe_cons hlo (allLe_cons hhi n0))))))))
  case cast =>
    exact Post.bind h (fun e he => Post.bind (T _) (fun _ _ => Post.bind (T _) (fun _ _ =>
      post_combine (allLe_cons he n0))))
  case position =>
    exact Post.bind h (fun a ha => Post.bind h (fun b hb => Post.bind (T _) (fun _ _ =>
      post_combine (allLe_cons ha (allLe_cons hb n0)))))
  case trim =>
    exact Post.bind (T _) (fun _ _ => Post.bind (Post.optional h) (fun c hc => Post.bind h
      (fun e he => post_combine (allLe_append (allLe_optList hc) (allLe_cons he n0)))))
  case like =>
    exact Post.bind h (fun e he => Post.bind h (fun p hp => Post.bind (T _) (fun _ _ =>
      post_combine (allLe_cons he (allLe_cons hp n0)))))
  case «exists» => exact Post.fail _
  case quantifiedComparison => exact Post.fail _
  case currentDate => exact post_leaf d
  case currentTime => exact Post.bind (T _) (fun _ _ => post_leaf d)
  case currentTimestamp => exact Post.bind (T _) (fun _ _ => post_leaf d)
  case interval =>
    exact Post.bind h (fun e he => Post.bind (T _) (fun _ _ => Post.bind (T _) (fun _ _ =>
      Post.bind (T _) (fun _ _ => post_combine (allLe_cons he n0)))))
  case default => exact post_leaf d
  case duplicateKeyValue => exact Post.bind (T _) (fun _ _ => post_leaf d)
  case windowFunction => exact Post.bind (post_window h) (fun cs hcs => post_combine hcs)
  case nextValue => exact Post.bind (T _) (fun _ _ => post_leaf d)
  case matchAgainst =>
    exact Post.bind (T _) (fun _ _ => Post.bind (T _) (fun _ _ => Post.bind h (fun e he =>
      Post.bind (T _) (fun _ _ => post_combine (allLe_cons he n0)))))
  case pseudoVariable => exact Post.bind (T _) (fun _ _ => Post.bind (T _) (fun _ _ => post_leaf d))
  case sessionVariable => exact Post.bind (T _) (fun _ _ => post_leaf d)

/-- **the nesting depth of whatever the reader accepts never exceeds its budget** -/
theorem C20_readExpr_depth_bounded (fuel : Nat) :
    Post (fun e : ExInfo => e.depth ≤ fuel) (readExpr fuel) := by
  induction fuel with
  | zero => exact Post.fail _
  | succ f ih =>
    unfold readExpr
    refine Post.bind (Post.trivial _) (fun b _ => ?_)
    cases EK.fromNat? b.toNat with
    | none => exact Post.fail _
    | some k => exact post_readExprBody ih k

/-- … so an accepted WHEN condition is at most `MAX_EXPRESSION_DEPTH + 1` levels deep -/
theorem C20_readExpression_depth (inp : Bytes) (e : ExInfo) (rest : Bytes)
    (h : (readExpression inp).res = .ok (e, rest)) : e.depth ≤ exprMaxDepth + 1 :=
  C20_readExpr_depth_bounded _ inp e rest h

/-- the 06 byte is the `IsNull` arm (taken from the source table) -/
theorem ek_isNull : EK.fromNat? (6 : UInt8).toNat = some .isNull := by decide

/-- **a run of nested expression tags longer than the budget is an error, not a deep recursion**:
    `n ≥ fuel` bytes `06` (IsNull), whatever follows -/
theorem C20_nesting_beyond_limit_rejected (fuel n : Nat) (rest : Bytes) (h : fuel ≤ n) :
    (readExpr fuel (List.replicate n 6 ++ rest)).res = .error .depthExceeded := by
  induction fuel generalizing n with
  | zero => rfl
  | succ f ih =>
    obtain ⟨m, rfl⟩ : ∃ m, n = m + 1 := ⟨n - 1, by omega⟩
    have hm : f ≤ m := by omega
    unfold readExpr
    rw [List.replicate_succ, List.cons_append, bind_def,
      bind_res_ok (a := (6 : UInt8)) (rest := List.replicate m 6 ++ rest) rfl]
    simp only [ek_isNull, readExprBody]
    rw [bind_def, bind_res_err (ih m hm)]

/-- the crafted probe of the harness: 400000 nested IsNull tags -/
theorem C20_probe_400000_nested (rest : Bytes) :
    (readExpression (List.replicate 400000 6 ++ rest)).res = .error .depthExceeded :=
  C20_nesting_beyond_limit_rejected (exprMaxDepth + 1) 400000 rest (by decide)

theorem safe_readTrig : Safe readTrig := by
  unfold readTrig
  refine Safe.bind Safe.readString (fun _ => Safe.bind Safe.readString (fun _ =>
    Safe.bind Safe.u8 (fun _ => Safe.ite (Safe.fail _) ?_)))
  refine Safe.bind Safe.u8 (fun _ => Safe.ite (Safe.fail _) ?_)
  refine Safe.bind (Safe.ite (Safe.bind (Safe.uN 4) (fun k => Safe.many Safe.readString k))
    (Safe.pure _)) (fun _ => ?_)
  refine Safe.bind Safe.u8 (fun _ => Safe.ite (Safe.fail _) ?_)
  refine Safe.bind (Safe.optional (C20_readExpr_safe _)) (fun _ => ?_)
  refine Safe.bind Safe.u8 (fun _ => Safe.ite (Safe.fail _) ?_)
  exact Safe.bind Safe.readString (fun _ => Safe.pure _)

/-- **T2/T3 for the catalog section** -/
theorem C20_readCatalog_safe : Safe readCatalog :=
  Safe.bind (safe_counted Safe.readString) (fun _ =>
  Safe.bind (safe_counted Safe.readString) (fun _ =>
  Safe.bind (safe_counted safe_readTableDef) (fun _ =>
  Safe.bind (safe_counted safe_readIdxDef) (fun _ =>
  Safe.bind (safe_counted safe_readTrig) (fun _ => Safe.pure _)))))

theorem safe_readHeader : Safe readHeader := by
  unfold readHeader
  refine Safe.bind (Safe.takeN _) (fun _ => Safe.ite (Safe.fail _) ?_)
  refine Safe.bind Safe.u8 (fun _ => Safe.ite (Safe.fail _) ?_)
  exact Safe.bind Safe.u8 (fun _ => Safe.bind (Safe.takeN _) (fun _ => Safe.pure _))

theorem safe_readTableData (tables : List TableDef) : Safe (readTableData tables) := by
  unfold readTableData
  refine Safe.bind Safe.readString (fun name => Safe.bind (Safe.uN 8) (fun n => ?_))
  cases findCols tables name with
  | none => exact Safe.fail _
  | some k => exact Safe.ite (Safe.fail _) (Safe.bind (C20_readRows_safe n k) (fun _ => Safe.pure _))

theorem safe_loadFile : Safe loadFile :=
  Safe.bind safe_readHeader (fun _ => Safe.bind C20_readCatalog_safe (fun c =>
    Safe.bind (Safe.many (safe_readTableData c.tables) c.tables.length) (fun _ => Safe.pure _)))

/-- **T1 + T2 + T3, whole file.** For every byte string `b`: the loader ends in `ok` (leaving a
    suffix of `b` unread) or in an `Err`; and every length-prefixed buffer it asks for on the way
    — also on the failing paths — is at most `|b|` bytes. -/
theorem C20_load_total_consumes_prefix_alloc_bounded (b : Bytes) :
    ((∃ f rest, (loadFile b).res = .ok (f, rest) ∧ rest <:+ b) ∨ (∃ e, (loadFile b).res = .error e)) ∧
    (∀ n ∈ (loadFile b).ledger, n ≤ b.length) := by
  refine ⟨?_, (safe_loadFile b).1⟩
  cases h : (loadFile b).res with
  | error e => exact Or.inr ⟨e, rfl⟩
  | ok p => exact Or.inl ⟨p.1, p.2, rfl, (safe_loadFile b).2 p.1 p.2 h⟩

/-- the empty input and a wrong magic number are errors -/
theorem C20_empty_and_bad_magic :
    (loadFile []).res = .error .eof ∧
    (loadFile ([0x56, 0x42, 0x53, 0x51, 0x4D] ++ List.replicate 11 0)).res = .error .badMagic :=
  ⟨rfl, rfl⟩

/-- a zero-column row consumes no input: this is why the row loop of `read_data` needs a guard
    (before the repair the loop ran `n` times for any row count `n` found in the file) -/
theorem C20_zero_column_rows_consume_nothing (n : Nat) (inp : Bytes) :
    (readRows n 0 inp).res = .ok (List.replicate n [], inp) := by
  induction n with
  | zero => rfl
  | succ n ih =>
    unfold readRows at *
    unfold readMany
    rw [bind_def, bind_res_ok (a := ([] : Row)) (rest := inp) rfl,
      bind_def, bind_res_ok ih]
    rfl

/-- every encoded value takes at least its tag byte -/
theorem eats_readValue : Eats 1 readValue := by
  unfold readValue
  have := Eats.bind (m := 1) (k := 0) Eats.u8 (g := fun b : UInt8 =>
    match Tag.fromNat? b.toNat with
    | none => (fail (.badTag b.toNat) : Reader BVal)
    | some t => readBody t) (fun b => by
      cases Tag.fromNat? b.toNat with
      | none => exact Eats.of_safe (Safe.fail _)
      | some t => exact Eats.of_safe (safe_readBody t))
  exact this

/-- `n` rows of `k` values consume at least `n * k` bytes -/
theorem C20_rows_consume_input (n k : Nat) : Eats (n * k) (readRows n k) := by
  have h1 : Eats k (readRow k) := by
    have := Eats.many eats_readValue k
    simpa [readRow] using this
  exact Eats.many h1 n

/-- **the repaired data reader: the number of rows it returns is bounded by the input it consumed**
    — for every byte string, every catalog; a table without columns cannot claim rows -/
theorem C20_table_rows_bounded_by_input (tables : List TableDef) (inp : Bytes) (t : TableData)
    (rest : Bytes) (h : (readTableData tables inp).res = .ok (t, rest)) :
    t.rows.length + rest.length ≤ inp.length := by
  unfold readTableData at h
  obtain ⟨name, m1, h1, h⟩ := bind_ok_inv h
  obtain ⟨n, m2, h2, h⟩ := bind_ok_inv h
  have l1 := ((Safe.readString inp).2 name m1 h1).length_le
  have l2 := ((Safe.uN 8 m1).2 n m2 h2).length_le
  cases hk : findCols tables name with
  | none => simp only [hk] at h; cases h
  | some k =>
    simp only [hk] at h
    by_cases hz : k = 0 ∧ n > 0
    · rw [if_pos hz] at h; cases h
    · rw [if_neg hz] at h
      obtain ⟨rows, m3, h3, h⟩ := bind_ok_inv h
      obtain ⟨ht, hr⟩ := pure_ok_inv h
      have e := C20_rows_consume_input n k m2 rows m3 h3
      have hl : rows.length = n := many_length n m2 rows m3 h3
      rw [ht, hr]
      show rows.length + m3.length ≤ inp.length
      have : n ≤ n * k := by
        rcases Nat.eq_zero_or_pos n with h0 | h0
        · simp [h0]
        · have : k ≠ 0 := fun hk0 => hz ⟨hk0, h0⟩
          exact Nat.le_mul_of_pos_right n (Nat.pos_of_ne_zero this)
      omega

/-- the crafted probe: a data block for a table without columns that claims rows is rejected -/
theorem C20_zero_column_data_rejected (tables : List TableDef) (name : Bytes) (n : Nat) (rest : Bytes)
    (hv : validUtf8 name = true) (hl : name.length < 2 ^ 32) (hn : 0 < n) (hn2 : n < 2 ^ 64)
    (hk : findCols tables name = some 0) :
    (readTableData tables (writeString name ++ (leBytes 8 n ++ rest))).res = .error .zeroColumnRows := by
  unfold readTableData
  rw [bind_def, bind_res_ok (Reads.string hv hl _), bind_def,
    bind_res_ok (Reads.uN (k := 8) (by simpa using hn2) _)]
  simp only [hk, hn, and_self, if_true]
  rfl

/-! ### T1 made explicit: no input makes the loader panic

The model's readers have exactly one source of the `panic` outcome: the text parsers of DATE / TIME /
TIMESTAMP / INTERVAL values (Model/Temporal.lean, where `parts[i]` out of range and `unwrap` on an
empty string are `Fail.panic`).  That those never panic is C22's theorem (`C22_total`, imported
read-only); everything else is closed under the reader combinators. -/

/-- the hypothesis "the value parsers are total", discharged by C22 -/
theorem map_unit_panic {α : Type} {r : Except Temporal.Fail α}
    (h : r.map (fun _ => ()) = .error .panic) : r = .error .panic := by
  cases r with
  | ok v => cases h
  | error e => cases e with
    | err => cases h
    | panic => rfl

theorem temporalCheck_noPanic (k : TKind) (s : Bytes) : temporalCheck k s ≠ .error .panic := by
  have h := VibeProof.C22.C22_total s
  cases k <;> intro hp
  · exact h.1 (map_unit_panic (r := Temporal.Date.fromStr s) hp)
  · exact h.2.1 (map_unit_panic (r := Temporal.Time.fromStr s) hp)
  · exact h.2.2.1 (map_unit_panic (r := Temporal.Timestamp.fromStr s) hp)
  · exact h.2.2.2 (map_unit_panic (r := Temporal.Interval.new s) hp)

theorem np_readTemporal (k : TKind) : NoPanic (readTemporal k) := by
  unfold readTemporal
  refine NoPanic.bind NoPanic.readString (fun s => ?_)
  have := temporalCheck_noPanic k s
  cases hc : temporalCheck k s with
  | ok u => exact NoPanic.pure _
  | error e =>
    cases e with
    | err => exact NoPanic.fail (by decide)
    | panic => exact absurd hc this

macro "np_step" : tactic => `(tactic| first
  | exact NoPanic.pure _ | exact NoPanic.fail (by simp) | assumption
  | exact NoPanic.readString | exact NoPanic.rbool | exact NoPanic.u8 | exact NoPanic.uN _
  | exact NoPanic.iN _ | exact NoPanic.takeN _ | exact NoPanic.readEnum _ | exact np_readTemporal _
  | apply NoPanic.optional | apply NoPanic.many | apply NoPanic.ite | apply NoPanic.bind | intro _)

theorem np_readBody (t : Tag) : NoPanic (readBody t) := by
  cases t <;> unfold readBody <;> repeat np_step

/-- `read_sql_value` never panics — given (and because) its text parsers never do -/
theorem C20_readValue_never_panics : NoPanic readValue := by
  unfold readValue
  refine NoPanic.bind NoPanic.u8 (fun b => ?_)
  cases Tag.fromNat? b.toNat with
  | none => exact NoPanic.fail (by simp)
  | some t => exact np_readBody t

theorem np_checkTypeText (t : Bytes) : NoPanic (checkTypeText t) := by
  unfold checkTypeText
  split
  · exact NoPanic.fail (by simp)
  · split
    · exact NoPanic.pure _
    · exact NoPanic.fail (by simp)

set_option maxHeartbeats 4000000 in
theorem np_readExprBody {rec : Reader ExInfo} (h : NoPanic rec) (k : EK) :
    NoPanic (readExprBody rec k) := by
  have hv := C20_readValue_never_panics
  have ht := np_checkTypeText
  have hc : NoPanic (readCaseWhen rec) := by unfold readCaseWhen; repeat np_step
  have hb : NoPanic (readFrameBound rec) := by unfold readFrameBound; repeat np_step
  have hw : NoPanic (readWindow rec) := by unfold readWindow; repeat np_step
  cases k <;> unfold readExprBody <;> repeat (first | exact ht _ | np_step)

theorem np_readExpr (fuel : Nat) : NoPanic (readExpr fuel) := by
  induction fuel with
  | zero => exact NoPanic.fail (by simp)
  | succ f ih =>
    unfold readExpr
    refine NoPanic.bind NoPanic.u8 (fun b => ?_)
    cases EK.fromNat? b.toNat with
    | none => exact NoPanic.fail (by simp)
    | some k => exact np_readExprBody ih k

theorem np_counted {rd : Reader α} (h : NoPanic rd) : NoPanic (readCounted rd) :=
  NoPanic.bind (NoPanic.uN 4) (fun k => NoPanic.many h k)

theorem np_readCatalog : NoPanic readCatalog := by
  have hcol : NoPanic readCol := by unfold readCol; repeat np_step
  have htab : NoPanic readTableDef := by unfold readTableDef; repeat np_step
  have hic : NoPanic readIdxCol := by unfold readIdxCol; repeat np_step
  have hidx : NoPanic readIdxDef := by unfold readIdxDef; repeat np_step
  have hex : NoPanic readExpression := np_readExpr _
  have htr : NoPanic readTrig := by unfold readTrig; repeat np_step
  unfold readCatalog
  exact NoPanic.bind (np_counted NoPanic.readString) (fun _ =>
    NoPanic.bind (np_counted NoPanic.readString) (fun _ =>
    NoPanic.bind (np_counted htab) (fun _ =>
    NoPanic.bind (np_counted hidx) (fun _ =>
    NoPanic.bind (np_counted htr) (fun _ => NoPanic.pure _)))))

theorem np_readTableData (tables : List TableDef) : NoPanic (readTableData tables) := by
  unfold readTableData
  refine NoPanic.bind NoPanic.readString (fun name => NoPanic.bind (NoPanic.uN 8) (fun n => ?_))
  cases findCols tables name with
  | none => exact NoPanic.fail (by simp)
  | some k =>
    exact NoPanic.ite (NoPanic.fail (by simp))
      (NoPanic.bind (NoPanic.many (NoPanic.many C20_readValue_never_panics k) n) (fun _ => NoPanic.pure _))

/-- **T1, explicit.** For every byte string the binary loader ends in `ok` or in an error value other
    than `panic`: total given total value parsers, and C22 proves those total. -/
theorem C20_load_never_panics (b : Bytes) : (loadFile b).res ≠ .error .panic := by
  have hh : NoPanic readHeader := by unfold readHeader; repeat np_step
  have : NoPanic loadFile := by
    unfold loadFile
    exact NoPanic.bind hh (fun _ => NoPanic.bind np_readCatalog (fun c =>
      NoPanic.bind (NoPanic.many (np_readTableData c.tables) c.tables.length) (fun _ => NoPanic.pure _)))
  exact this b

/-- the hypothesis of the loader's totality, as a C20 statement: the four value-text parsers never
    panic (C22's `C22_total`) -/
theorem C20_value_parsers_never_panic (k : TKind) (s : Bytes) :
    temporalCheck k s ≠ .error .panic := temporalCheck_noPanic k s

/-- the seeded near-miss text: the model's interval parser rejects or accepts it, it does not panic -/
theorem C20_interval_text_ending_in_TO :
    temporalCheck .interval "1-6 YEAR TO".toUTF8.toList ≠ .error .panic :=
  temporalCheck_noPanic _ _

/-! ### the index rebuild at the end of the load: prefix truncation is total for every length -/

/-- a prefix of 0 characters is the empty string (for a string that starts with a character) -/
theorem C20_prefix_zero_is_empty (b : UInt8) (r : Bytes) (h : Temporal.isCont b = false) :
    takeChars 0 (b :: r) = [] := by
  simp [takeChars, h]

/-- whatever the prefix length, the key is a prefix of the stored string (never out of range) -/
theorem C20_takeChars_is_prefix (n : Nat) (s : Bytes) : takeChars n s <+: s := by
  induction s generalizing n with
  | nil => simp [takeChars]
  | cons b r ih =>
    unfold takeChars
    split
    · exact List.prefix_cons_inj b |>.mpr (ih n)
    · cases n with
      | zero => exact List.nil_prefix
      | succ m => exact List.prefix_cons_inj b |>.mpr (ih m)

theorem mapE_ne_panic {α β : Type} (g : α → Except Err β) (h : ∀ x, g x ≠ .error .panic) (xs : List α) :
    mapE g xs ≠ .error .panic := by
  induction xs with
  | nil => intro hh; cases hh
  | cons a l ih =>
    unfold mapE
    cases hg : g a with
    | error e =>
      intro hh
      have : e = .panic := by injection hh
      exact h a (by rw [hg, this])
    | ok b =>
      cases hl : mapE g l with
      | error e =>
        intro hh
        have : e = .panic := by injection hh
        exact ih (by rw [hl, this])
      | ok bs => intro hh; cases hh

theorem buildIndex_ne_panic (f : FileContent) (i : IdxDef) : buildIndex f i ≠ .error .panic := by
  unfold buildIndex
  split
  · intro h; cases h
  · next t _ =>
    have h1 := mapE_ne_panic (fun c : IdxCol => match colPos t c.name with
        | some p => (.ok (p, c.pfx) : Except Err (Nat × Option Nat))
        | none => .error .columnNotFound) (by intro c; split <;> (intro h; cases h)) i.cols
    split
    · next e he => intro h; injection h with h; subst h; exact h1 he
    · next pos _ =>
      have h2 := mapE_ne_panic (fun r : Row => mapE (fun (pp : Nat × Option Nat) => match r[pp.1]? with
          | some v => (.ok (applyPrefix pp.2 v) : Except Err BVal)
          | none => .error .columnNotFound) pos)
        (fun r => mapE_ne_panic _ (by intro pp; split <;> (intro h; cases h)) pos)
        (((f.data.filter (fun d => upper d.name == upper t.name)).map (·.rows)).flatten)
      dsimp only
      split
      · next e he => intro h; injection h with h; subst h; exact h2 he
      · intro h; cases h

/-- **the index rebuild never panics**, whatever prefix lengths (0 and 2^64-1 included), column
    names and table names the file declares: it builds the keys or fails with an error -/
theorem C20_index_rebuild_never_panics (f : FileContent) : rebuildIndexes f ≠ .error .panic :=
  mapE_ne_panic _ (buildIndex_ne_panic f) _

/-- loader and rebuild together: for every byte string, neither step ends in `panic` -/
theorem C20_load_and_rebuild_never_panic (b : Bytes) :
    (loadFile b).res ≠ .error .panic ∧
    ∀ f rest, (loadFile b).res = .ok (f, rest) → rebuildIndexes f ≠ .error .panic :=
  ⟨C20_load_never_panics b, fun f _ _ => C20_index_rebuild_never_panics f⟩

/-! ### column type texts read from a (possibly damaged) catalog: `parse_data_type`

`parseDataType` (Model/BinTypes.lean) is total by construction: every branch of the code uses
`parts.first()` / `parts.get(1)` / `unwrap_or`, mirrored by `[i]?` / `getD`.  The theorems below
say what that buys: whatever follows a recognised prefix, the result is a type (never a failure
inside the branch), and the texts `format_data_type` writes for the re-readable types come back
as the same type for every parameter value. -/

open VibeProof.BinTypes

/-- `split(',')` always yields at least one part — why `parts.first()` cannot fail -/
theorem C20_split_nonempty (s : List Char) : splitComma s ≠ [] := splitComma_nonempty s

/-- … but without a comma there is no second part: `parts.get(1)` is `None`, and an
    unconditional `parts[1]` would be out of bounds exactly on these inputs -/
theorem C20_split_second_part_absent (s : List Char) (h : ∀ c ∈ s, (c == ',') = false) :
    (splitComma s)[1]? = none := by
  rw [splitComma_noComma s h]; rfl

example : (splitComma "10  2".toList)[1]? = none := by decide

/-- whatever bytes follow `NUMERIC(` / `DECIMAL(` (missing comma, missing digits, garbage), the
    branch yields a NUMERIC / DECIMAL type with both parameters in `u8` range -/
theorem C20_parseType_numeric_prefix_total (rest : List Char) :
    (∃ p s, parseDataType ("NUMERIC(".toList ++ rest) = some (.numeric p s) ∧ p ≤ 255 ∧ s ≤ 255) ∧
    (∃ p s, parseDataType ("DECIMAL(".toList ++ rest) = some (.decimal p s) ∧ p ≤ 255 ∧ s ≤ 255) := by
  refine ⟨⟨_, _, parse_numeric_prefix rest, precScale_le _⟩, ⟨_, _, parse_decimal_prefix rest, precScale_le _⟩⟩

/-- the same for the one-parameter prefixes: always a type, never a failure -/
theorem C20_parseType_single_prefix_total (rest : List Char) :
    (∃ m, parseDataType ("VARCHAR(".toList ++ rest) = some (.varchar m)) ∧
    (∃ n, parseDataType ("CHAR(".toList ++ rest) = some (.character n)) ∧
    (∃ n, parseDataType ("FLOAT(".toList ++ rest) = some (.float n)) :=
  ⟨⟨_, parse_varchar_prefix rest⟩, ⟨_, parse_char_prefix rest⟩, ⟨_, parse_float_prefix rest⟩⟩

/-- the column types whose catalog text identifies them, with the parameter ranges of the Rust
    fields (`u8` precision / scale, `usize` lengths) -/
def Rereadable : DataType → Prop
  | .integer | .smallint | .bigint | .unsigned | .real | .double | .boolean | .date => True
  | .time tz => tz = false
  | .timestamp _ => True
  | .varchar none => True
  | .varchar (some n) => n ≤ usizeMax
  | .character n => n ≤ usizeMax
  | .float p => p ≤ 255
  | .numeric p s => p ≤ 255 ∧ s ≤ 255
  | .decimal p s => p ≤ 255 ∧ s ≤ 255
  | _ => False

/-- **round trip of the catalog type text, all parameter values**:
    `parse_data_type (format_data_type t) = t` for every re-readable type -/
theorem C20_type_text_roundtrip (t : DataType) (h : Rereadable t) :
    parseDataType (formatDataType t) = some t := by
  cases t with
  | numeric p s => exact roundtrip_numeric p s h.1 h.2
  | decimal p s => exact roundtrip_decimal p s h.1 h.2
  | float p => exact roundtrip_float p h
  | character n => exact roundtrip_char n h
  | varchar m =>
    cases m with
    | none => decide
    | some n => exact roundtrip_varchar n h
  | time tz => cases tz <;> first | decide | exact absurd h (by simp [Rereadable])
  | timestamp tz => cases tz <;> decide
  | integer => decide
  | smallint => decide
  | bigint => decide
  | unsigned => decide
  | real => decide
  | double => decide
  | boolean => decide
  | date => decide
  | clob => exact absurd h (by simp [Rereadable])
  | name => exact absurd h (by simp [Rereadable])
  | interval a b => exact absurd h (by simp [Rereadable])
  | blob => exact absurd h (by simp [Rereadable])
  | bit l => exact absurd h (by simp [Rereadable])
  | userDefined n => exact absurd h (by simp [Rereadable])
  | null => exact absurd h (by simp [Rereadable])

example : Rereadable (.numeric 255 0) ∧ Rereadable (.varchar (some usizeMax)) ∧
    Rereadable (.timestamp true) :=
  ⟨⟨by decide, by decide⟩, Nat.le_refl _, trivial⟩

/-- outside that class the statement is false (the C18 findings): the text of these types is
    rejected or read as another type -/
theorem C20_type_text_roundtrip_counterexample :
    ¬ (∀ t : DataType, parseDataType (formatDataType t) = some t) := by
  intro h
  exact absurd (h (.interval .year (some .month))) (by decide)

/-- near-miss texts of the corruption dictionary: each is a type or a clean rejection -/
theorem C20_near_miss_texts :
    parseDataType "NUMERIC(10  2)".toList = some (.numeric 38 0) ∧
    parseDataType "NUMERIC(10".toList = some (.numeric 10 0) ∧
    parseDataType "NUMERIC(".toList = some (.numeric 38 0) ∧
    parseDataType "DECIMAL(,)".toList = some (.decimal 38 0) ∧
    parseDataType "NUMERIC(999, 2)".toList = some (.numeric 38 2) ∧
    parseDataType "VARCHAR(".toList = some (.varchar none) ∧
    parseDataType "CHAR(x)".toList = some (.character 1) ∧
    parseDataType "FLOAT(256)".toList = some (.float 53) ∧
    parseDataType "TIMESTAMP(".toList = none ∧
    parseDataType "INTERVAL YEAR TO".toList = none ∧
    parseDataType "".toList = none := by decide

end VibeProof.C20
