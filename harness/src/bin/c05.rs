//! C05 — join ordering, join algorithms and subquery rewrites preserve query meaning.
//!
//! Direct oracle (engine only): metamorphic families on one database — permuted comma joins,
//! JOIN…ON vs WHERE over a cross product, IN / EXISTS and NOT EXISTS formulations, derived-table
//! wrapping — all members must be multiset-equal.
//! Correspondence: the Lean join algorithms (hashJoinInner / hashSemi / hashAnti) and the
//! definitional IN / NOT IN truth sets vs the engine's answers for the pure forms.
use vharness::qast::*;
use vharness::sqlast::*;
use vharness::*;

fn model_rows(model: &mut model::Model, op: &str, kl: usize, kr: usize, l: &TableDef, r: &TableDef) -> (String, Vec<String>) {
    let req = format!("{} {} {} {} {}", op, kl, kr, rows_sx(&l.rows), rows_sx(&r.rows));
    let reply = model.ask(&req);
    let rows = match Sx::parse(&reply) {
        Some(Sx::List(v)) if v.len() == 2 && v[0].as_atom() == Some("rows") => {
            let mut x: Vec<String> = v[1].as_list().unwrap_or(&[]).iter().map(|r| r.to_string()).collect();
            x.sort();
            x
        }
        _ => vec![format!("<bad model reply {}>", reply)],
    };
    (req, rows)
}

fn bag(o: &Out) -> Option<Vec<String>> {
    o.rows().map(|r| canon::bag_vec(r))
}

fn has_null(t: &TableDef, col: usize) -> bool {
    t.rows.iter().any(|r| r[col] == Lit::Null)
}

fn qn(unq: bool, t: &str, c: &str) -> String {
    if unq { c.to_string() } else { format!("{}.{}", t, c) }
}

fn run_case(dbd: &DbDef, r: &mut Rng, model: &mut model::Model, rep: &mut Report) {
    let mut db = Db::new();
    dbd.load(&mut db);
    let (a, b) = (&dbd.tables[0], &dbd.tables[1]);
    let (ta, tb) = (&a.schema.table, &b.schema.table);
    // one case in four writes every column reference without its table qualifier (column names
    // are unique across the generated tables, so the meaning is the same)
    let unq = r.chance(1, 4);
    rep.count(if unq { "names_unqualified" } else { "names_qualified" });
    // key columns of the same type (INTEGER preferred, VARCHAR sometimes)
    let want = if r.chance(1, 5) && !a.schema.cols_of(Ty::Str).is_empty() && !b.schema.cols_of(Ty::Str).is_empty() { Ty::Str } else { Ty::Int };
    let ka = *r.pick(&a.schema.cols_of(want));
    let kb = *r.pick(&b.schema.cols_of(want));
    let (ca, cb) = (qn(unq, ta, &a.schema.cols[ka].0), qn(unq, tb, &b.schema.cols[kb].0));
    let case_id = format!("{} {} {}", dbd.sx(), ka, kb);
    let nontrivial = !a.rows.is_empty() && !b.rows.is_empty();
    rep.case(&case_id, nontrivial);
    if has_null(a, ka) || has_null(b, kb) {
        rep.count("null_join_keys");
    }
    if a.rows.is_empty() || b.rows.is_empty() {
        rep.count("empty_side");
    }
    // an extra single-table predicate to steer pushdown / reordering
    let ga = Gen::new(&a.schema);
    let extra = ga.boolean(r, 1);
    let names_a: Vec<String> = a.schema.cols.iter().map(|c| qn(unq, ta, &c.0)).collect();
    let extra_sql = extra.sql(&names_a);
    let all_a = names_a.join(", ");
    let names_b: Vec<String> = b.schema.cols.iter().map(|c| qn(unq, tb, &c.0)).collect();
    let all_ab = format!("{}, {}", all_a, names_b.join(", "));
    let mut script = dbd.script();
    // one case in three: secondary indexes on random columns (the laws and the model know no indexes)
    if r.chance(1, 3) {
        for ix in random_index_sql(r, dbd) {
            db.must(&ix);
            script.push_str(&format!("{};\n", ix));
        }
        rep.count("database_with_secondary_indexes");
    }

    let mut family = |rep: &mut Report, name: &str, members: Vec<String>, db: &mut Db| -> Vec<Out> {
        let outs: Vec<Out> = members.iter().map(|m| db.query(m)).collect();
        rep.count(&format!("family_{}", name));
        let mut base: Option<(usize, Vec<String>)> = None;
        for (i, o) in outs.iter().enumerate() {
            match o {
                Out::Panic(p) => rep.fail(FailKind::Oracle, None, &format!("{}: engine panicked: {}", name, p), &format!("{}{};", script, members[i])),
                Out::Err { .. } | Out::Count(_) => rep.fail(
                    FailKind::Oracle,
                    None,
                    &format!("{}: a member of the rewrite family is rejected", name),
                    &format!("{}{};\n  => {}", script, members[i], o.brief()),
                ),
                Out::Rows(rows) => {
                    let b = canon::bag_vec(rows);
                    match &base {
                        None => base = Some((i, b)),
                        Some((j, bb)) => {
                            if &b != bb {
                                rep.fail(
                                    FailKind::Oracle,
                                    None,
                                    &format!("{}: two formulations of the same query return different multisets", name),
                                    &format!("{}{};\n  => {}\n{};\n  => {}", script, members[*j], outs[*j].brief(), members[i], o.brief()),
                                );
                            }
                        }
                    }
                }
            }
        }
        outs
    };

    // F1/F2: inner join four ways (+ the extra predicate)
    let outs = family(
        rep,
        "inner_join",
        vec![
            format!("SELECT {} FROM {} INNER JOIN {} ON {} = {} WHERE {}", all_ab, ta, tb, ca, cb, extra_sql),
            format!("SELECT {} FROM {}, {} WHERE {} = {} AND {}", all_ab, ta, tb, ca, cb, extra_sql),
            format!("SELECT {} FROM {}, {} WHERE {} AND {} = {}", all_ab, tb, ta, extra_sql, cb, ca),
            format!("SELECT {} FROM {} INNER JOIN {} ON {} = {} WHERE {}", all_ab, tb, ta, cb, ca, extra_sql),
        ],
        &mut db,
    );
    let _ = outs;
    // pure equi-join vs the Lean hash join (bag) — theorem: = nested loop
    let pure = db.query(&format!("SELECT {} FROM {} INNER JOIN {} ON {} = {}", all_ab, ta, tb, ca, cb));
    let (req, m) = model_rows(model, "join", ka, kb, a, b);
    rep.traces_validated += 1;
    if bag(&pure).as_ref() != Some(&m) {
        rep.fail(FailKind::ModelDiff, None, "equi-join: engine and hash-join model differ", &format!("{}-- request: {}\n-- engine: {}\n-- model: {:?}", script, req, pure.brief(), m));
    }
    // OR of equi-joins in the ON condition (the shape `analyze_or_equi_join` turns into a hash join
    // on a "common" equality): branches sharing one column, and the TPC-H Q19 shape repeating one
    // equality — always against the WHERE-over-cross-product spelling
    let ints_a = a.schema.cols_of(Ty::Int);
    let ints_b = b.schema.cols_of(Ty::Int);
    let qa = |i: usize| qn(unq, ta, &a.schema.cols[i].0);
    let qb = |i: usize| qn(unq, tb, &b.schema.cols[i].0);
    let mut or_conds: Vec<String> = vec![];
    if ints_b.len() >= 2 {
        or_conds.push(format!("({} = {} OR {} = {})", qa(ints_a[0]), qb(ints_b[0]), qa(ints_a[0]), qb(ints_b[1])));
        or_conds.push(format!("({} = {} OR ({} = {} AND {}))", qa(ints_a[0]), qb(ints_b[1]), qa(ints_a[0]), qb(ints_b[0]), extra_sql));
    }
    if ints_a.len() >= 2 {
        or_conds.push(format!("({} = {} OR {} = {})", qa(ints_a[0]), qb(ints_b[0]), qa(ints_a[1]), qb(ints_b[0])));
    }
    or_conds.push(format!("(({} = {} AND {}) OR ({} = {} AND NOT ({})))", qa(ints_a[0]), qb(ints_b[0]), extra_sql, qa(ints_a[0]), qb(ints_b[0]), extra_sql));
    for cond in or_conds {
        family(
            rep,
            "or_of_equi_joins",
            vec![
                format!("SELECT {} FROM {} INNER JOIN {} ON {}", all_ab, ta, tb, cond),
                format!("SELECT {} FROM {}, {} WHERE {}", all_ab, ta, tb, cond),
                format!("SELECT {} FROM {} INNER JOIN {} ON {}", all_ab, tb, ta, cond),
            ],
            &mut db,
        );
    }
    // three tables: all permutations of a comma join
    if dbd.tables.len() >= 3 {
        let c = &dbd.tables[2];
        let tc = &c.schema.table;
        let kc = c.schema.cols_of(Ty::Int)[0];
        let cc = qn(unq, tc, &c.schema.cols[kc].0);
        let ia = a.schema.cols_of(Ty::Int)[0];
        let cai = qn(unq, ta, &a.schema.cols[ia].0);
        let sel = format!("{}, {}, {}", ca, cb, cc);
        let conds = if want == Ty::Int { format!("{} = {} AND {} = {}", ca, cb, cb, cc) } else { format!("{} = {} AND {} = {}", ca, cb, cai, cc) };
        let mut perms = vec![];
        for p in [[ta, tb, tc], [ta, tc, tb], [tb, ta, tc], [tb, tc, ta], [tc, ta, tb], [tc, tb, ta]] {
            perms.push(format!("SELECT {} FROM {}, {}, {} WHERE {}", sel, p[0], p[1], p[2], conds));
        }
        family(rep, "comma_join_permutations", perms, &mut db);
    }
    // F3: semi join: IN vs EXISTS
    let outs = family(
        rep,
        "semi_join",
        vec![
            format!("SELECT {} FROM {} WHERE {} IN (SELECT {} FROM {})", all_a, ta, ca, cb, tb),
            format!("SELECT {} FROM {} WHERE EXISTS (SELECT 1 FROM {} WHERE {} = {})", all_a, ta, tb, cb, ca),
            format!("SELECT {} FROM {} WHERE {} IN (SELECT {} FROM {}) AND {} = {}", all_a, ta, ca, cb, tb, ca, ca),
        ],
        &mut db,
    );
    let (req, m) = model_rows(model, "semi", ka, kb, a, b);
    rep.traces_validated += 1;
    if bag(&outs[0]).as_ref() != Some(&m) {
        rep.fail(FailKind::ModelDiff, None, "IN (subquery): engine and semi-join model differ", &format!("{}-- request: {}\n-- engine: {}\n-- model: {:?}", script, req, outs[0].brief(), m));
    }
    // anti join: NOT EXISTS (always the anti join) and NOT IN (correct NULL semantics required)
    let ne = db.query(&format!("SELECT {} FROM {} WHERE NOT EXISTS (SELECT 1 FROM {} WHERE {} = {})", all_a, ta, tb, cb, ca));
    let (req, m) = model_rows(model, "anti", ka, kb, a, b);
    rep.traces_validated += 1;
    if bag(&ne).as_ref() != Some(&m) {
        rep.fail(FailKind::ModelDiff, None, "NOT EXISTS: engine and anti-join model differ", &format!("{}-- request: {}\n-- engine: {}\n-- model: {:?}", script, req, ne.brief(), m));
    }
    let ni_sql = format!("SELECT {} FROM {} WHERE {} NOT IN (SELECT {} FROM {})", all_a, ta, ca, cb, tb);
    let ni = db.query(&ni_sql);
    let (req_spec, spec) = model_rows(model, "notin", ka, kb, a, b);
    let (_, coded) = model_rows(model, "notinaware", ka, kb, a, b);
    rep.traces_validated += 1;
    let nib = bag(&ni);
    if coded != spec {
        rep.fail(FailKind::ModelDiff, None, "model: the NULL-aware NOT IN conversion differs from the TRUE-set of NOT IN (contradicts theorem C05_not_in_null_aware)", &req_spec);
    }
    if nib.as_ref() != Some(&spec) {
        // since fix 38420538 the engine's NOT IN has SQL's NULL semantics in every region
        rep.fail(
            FailKind::Oracle,
            None,
            "x NOT IN (subquery) does not have SQL's NULL semantics",
            &format!("{}{};\n-- request: {}\n-- engine: {}\n-- spec (TRUE-set of NOT IN): {:?}", script, ni_sql, req_spec, ni.brief(), spec),
        );
    } else if has_null(b, kb) || has_null(a, ka) {
        rep.count("not_in_null_region_correct");
    }
    // IN / NOT IN over a FILTERED subquery (the filter may select nothing although the table is not
    // empty — then NULL NOT IN (…) is TRUE): against the TRUE-set computed by the model on the rows
    // the filter keeps, and against the derived-table spelling
    {
        let fcol = *r.pick(&b.schema.cols_of(Ty::Int));
        let fval: i64 = match b.rows.get(r.below(b.rows.len().max(1) as u64) as usize).map(|row| row[fcol].clone()) {
            Some(Lit::I(v)) if r.chance(2, 3) => v,
            _ => r.range(7, 9), // mostly absent from the data
        };
        let fsql = format!("{} = {}", qn(unq, tb, &b.schema.cols[fcol].0), Lit::I(fval).sql());
        let bf = TableDef { schema: b.schema.clone(), rows: b.rows.iter().filter(|row| row[fcol] == Lit::I(fval)).cloned().collect() };
        rep.count(if bf.rows.is_empty() { "filtered_subquery_empty" } else { "filtered_subquery_nonempty" });
        for (op, kw) in [("notin", "NOT IN"), ("semi", "IN")] {
            let q1 = format!("SELECT {} FROM {} WHERE {} {} (SELECT {} FROM {} WHERE {})", all_a, ta, ca, kw, cb, tb, fsql);
            let q2 = format!("SELECT {} FROM {} WHERE {} {} (SELECT d.{} FROM (SELECT * FROM {} WHERE {}) AS d)", all_a, ta, ca, kw, b.schema.cols[kb].0, tb, fsql);
            let (o1, o2) = (db.query(&q1), db.query(&q2));
            let (req, spec) = model_rows(model, op, ka, kb, a, &bf);
            rep.traces_validated += 1;
            rep.count(&format!("family_filtered_{}", op));
            if bag(&o1).as_ref() != Some(&spec) || bag(&o2).as_ref() != Some(&spec) {
                rep.fail(FailKind::Oracle, None, &format!("x {} (filtered subquery): the result is not the SQL TRUE-set (direct and / or derived-table spelling)", kw),
                    &format!("{}{};\n  => {}\n{};\n  => {}\n-- request: {}\n-- spec: {:?}", script, q1, o1.brief(), q2, o2.brief(), req, spec));
            }
        }
    }
    // IN / NOT IN over a SLICE of the subquery (ORDER BY … LIMIT / OFFSET): the slice is computed here
    // (NULLs last, ties are interchangeable because only the key values matter)
    if want == Ty::Int {
        let mut keyed: Vec<&Vec<Lit>> = b.rows.iter().collect();
        keyed.sort_by_key(|row| match row[kb] { Lit::I(v) => (0, v), _ => (1, 0) });
        let m = r.below(4) as usize;
        let lim: Option<usize> = if r.chance(1, 2) { Some(r.below(4) as usize) } else { None };
        let slice: Vec<Vec<Lit>> = keyed.iter().skip(m).take(lim.unwrap_or(usize::MAX)).map(|x| (*x).clone()).collect();
        let bs = TableDef { schema: b.schema.clone(), rows: slice };
        let tail = format!("ORDER BY {}{}{}", cb, lim.map(|n| format!(" LIMIT {}", n)).unwrap_or_default(), if m > 0 { format!(" OFFSET {}", m) } else { String::new() });
        if lim.is_some() || m > 0 {
            for (op, kw) in [("notin", "NOT IN"), ("semi", "IN")] {
                let q = format!("SELECT {} FROM {} WHERE {} {} (SELECT {} FROM {} {})", all_a, ta, ca, kw, cb, tb, tail);
                let o = db.query(&q);
                let (req, spec) = model_rows(model, op, ka, kb, a, &bs);
                rep.traces_validated += 1;
                rep.count(&format!("family_sliced_{}", op));
                if bag(&o).as_ref() != Some(&spec) {
                    rep.fail(FailKind::Oracle, None, &format!("x {} (subquery with ORDER BY … LIMIT/OFFSET): the result is not the TRUE-set over the slice", kw),
                        &format!("{}{};\n  => {}\n-- request: {}\n-- spec: {:?}", script, q, o.brief(), req, spec));
                }
            }
        }
    }
    // F4: derived-table wrapping
    family(
        rep,
        "derived_table",
        vec![
            format!("SELECT {} FROM {} WHERE {}", all_a, ta, extra_sql),
            format!(
                "SELECT {} FROM (SELECT * FROM {}) AS {} WHERE {}",
                all_a, ta, ta, extra_sql
            ),
        ],
        &mut db,
    );
    // left join: ON-condition rows + NULL-padded unmatched rows = |left| lower bound, and inner ⊆ left
    let lj = db.query(&format!("SELECT {} FROM {} LEFT JOIN {} ON {} = {}", all_ab, ta, tb, ca, cb));
    if let (Some(l), Some(i)) = (bag(&lj), bag(&pure)) {
        rep.count("family_left_join");
        let unmatched = l.len() as i64 - i.len() as i64;
        let (_, anti) = model_rows(model, "anti", ka, kb, a, b);
        if unmatched != anti.len() as i64 || !i.iter().all(|x| l.contains(x)) {
            rep.fail(FailKind::Oracle, None, "LEFT JOIN is not INNER JOIN plus one NULL-padded row per unmatched left row", &format!("{}-- left join: {}\n-- inner join: {}", script, lj.brief(), pure.brief()));
        }
    }
    // RIGHT JOIN = LEFT JOIN with the sides swapped (same select list by name), with and without a
    // WHERE predicate on the preserved / the null-supplying side
    let null_side = format!("{} IS NULL", cb);
    for (tag, wh) in [("plain", String::new()), ("where_preserved", format!(" WHERE {}", extra_sql)), ("where_null_side", format!(" WHERE {}", null_side)), ("where_coalesce", format!(" WHERE COALESCE({}, {}) = {}", cb, ca, ca))] {
        family(
            rep,
            &format!("outer_join_mirror_{}", tag),
            vec![
                format!("SELECT {} FROM {} LEFT JOIN {} ON {} = {}{}", all_ab, ta, tb, ca, cb, wh),
                format!("SELECT {} FROM {} RIGHT JOIN {} ON {} = {}{}", all_ab, tb, ta, ca, cb, wh),
                format!("SELECT {} FROM {} RIGHT JOIN {} ON {} = {}{}", all_ab, tb, ta, cb, ca, wh),
            ],
            &mut db,
        );
    }
    // FULL OUTER JOIN = LEFT JOIN rows + right rows without a partner (counted through the anti joins)
    let fj = db.query(&format!("SELECT {} FROM {} FULL OUTER JOIN {} ON {} = {}", all_ab, ta, tb, ca, cb));
    let fj2 = db.query(&format!("SELECT {} FROM {} FULL OUTER JOIN {} ON {} = {}", all_ab, tb, ta, cb, ca));
    if let (Some(f), Some(f2), Some(l)) = (bag(&fj), bag(&fj2), bag(&lj)) {
        rep.count("family_full_join");
        let (_, anti_b) = model_rows(model, "anti", kb, ka, b, a);
        if f != f2 || f.len() != l.len() + anti_b.len() || !l.iter().all(|x| f.contains(x)) {
            rep.fail(FailKind::Oracle, None, "FULL OUTER JOIN is not the LEFT JOIN plus one NULL-padded row per unmatched right row (or differs when the sides are swapped)", &format!("{}-- full join: {}\n-- swapped: {}\n-- left join: {}", script, fj.brief(), fj2.brief(), lj.brief()));
        }
    } else if fj.is_panic() || fj2.is_panic() {
        rep.fail(FailKind::Oracle, None, "FULL OUTER JOIN panicked", &format!("{}=> {}", script, fj.brief()));
    }
}

fn probes(model: &mut model::Model, rep: &mut Report) {
    // the two excluded regions of C05_anti_eq_not_in_partial, and the boundary cases around them
    let mk = |a: Vec<Vec<Lit>>, b: Vec<Vec<Lit>>| DbDef {
        tables: vec![
            TableDef { schema: Schema { table: "t0".into(), cols: vec![("t0c0".into(), Ty::Int), ("t0c1".into(), Ty::Int)] }, rows: a },
            TableDef { schema: Schema { table: "t1".into(), cols: vec![("t1c0".into(), Ty::Int), ("t1c1".into(), Ty::Int)] }, rows: b },
            TableDef { schema: Schema { table: "t2".into(), cols: vec![("t2c0".into(), Ty::Int)] }, rows: vec![vec![Lit::I(1)], vec![Lit::I(2)]] },
        ],
    };
    let i = |x: i64| Lit::I(x);
    let n = Lit::Null;
    let cases = vec![
        mk(vec![vec![i(1), i(1)], vec![i(2), i(2)]], vec![vec![n.clone(), i(0)]]),
        mk(vec![vec![n.clone(), i(1)], vec![i(2), i(2)]], vec![vec![i(2), i(0)]]),
        mk(vec![vec![n.clone(), i(1)], vec![i(2), i(2)]], vec![]),
        mk(vec![vec![i(1), i(1)], vec![i(1), i(2)], vec![i(3), i(3)]], vec![vec![i(1), i(0)], vec![i(1), i(5)], vec![i(4), i(4)]]),
        mk(vec![], vec![vec![i(1), i(0)]]),
    ];
    for (k, c) in cases.iter().enumerate() {
        let mut r = Rng::new(1000 + k as u64);
        // force key columns 0/0 by making column 1 irrelevant: run_case picks among INTEGER columns at random,
        // so run it a few times
        for _ in 0..4 {
            run_case(c, &mut r, model, rep);
        }
        rep.count("probe_cases");
    }
}

/// Same column names inside and outside the subquery (the generated tables use unique names):
/// the unqualified spelling must answer like the qualified one, on every repetition.
fn same_name_probes(rep: &mut Report) {
    let setup = [
        "CREATE TABLE l1 (k INTEGER, g INTEGER)",
        "CREATE TABLE l2 (k INTEGER, v INTEGER)",
        "INSERT INTO l1 VALUES (1, 1), (2, 2), (3, 3), (NULL, 4), (5, 5)",
        "INSERT INTO l2 VALUES (1, 2), (3, 2), (5, 0), (NULL, 2)",
    ];
    let pairs = [
        ("SELECT k FROM l1 WHERE k IN (SELECT k FROM l2 WHERE v = 2)", "SELECT l1.k FROM l1 WHERE l1.k IN (SELECT l2.k FROM l2 WHERE l2.v = 2)", "((I1) (I3))"),
        ("SELECT k FROM l1 WHERE g > 0 AND k IN (SELECT k FROM l2)", "SELECT l1.k FROM l1 WHERE l1.g > 0 AND l1.k IN (SELECT l2.k FROM l2)", "((I1) (I3) (I5))"),
        ("SELECT k FROM l1 WHERE EXISTS (SELECT 1 FROM l2 WHERE l2.k = l1.k AND v = 2)", "SELECT l1.k FROM l1 WHERE EXISTS (SELECT 1 FROM l2 WHERE l2.k = l1.k AND l2.v = 2)", "((I1) (I3))"),
    ];
    for (unq, qual, expect) in pairs.iter() {
        let mut db = Db::new();
        for s in setup.iter() {
            db.must(s);
        }
        rep.case(&format!("same-name probe {}", unq), true);
        rep.count("probe_same_column_names");
        for round in 0..4 {
            let a = db.query(unq);
            let b = db.query(qual);
            let ok = match (&a, &b) {
                (Out::Rows(x), Out::Rows(y)) => canon::rows_bag(x) == *expect && canon::rows_bag(y) == *expect,
                _ => false,
            };
            if !ok {
                rep.fail(
                    FailKind::Oracle,
                    None,
                    "IN / EXISTS with the same column name inside and outside the subquery: wrong or unstable answer",
                    &format!("{};\n-- round {}\n{};\n  => {}\n{};\n  => {}\n-- expected {}", setup.join(";\n"), round, unq, a.brief(), qual, b.brief(), expect),
                );
                break;
            }
        }
    }
}

/// Large inputs (the parallel hash-table build and the hash join proper are only chosen above a
/// size threshold): every join spelling against a join computed here from the generated rows.
fn large_join_cases(r: &mut Rng, rep: &mut Report, n_cases: usize) {
    use std::collections::HashMap;
    for _ in 0..n_cases {
        // sizes around the thresholds (2 500 / 5 000 rows) and deliberately not multiples of 1 000
        let na = *r.pick(&[2501usize, 2703, 3301, 5301, 6007]);
        let nb = *r.pick(&[2600usize, 3999, 5301, 7000]);
        let dom = (na.max(nb) as i64) * 2;
        let mut db = Db::new();
        db.keep_log = false;
        db.must("CREATE TABLE la (id INTEGER, k INTEGER)");
        db.must("CREATE TABLE lb (id INTEGER, k INTEGER)");
        let gen = |r: &mut Rng, n: usize| -> Vec<(i64, Option<i64>)> { (0..n).map(|i| (i as i64, if r.chance(1, 40) { None } else { Some(r.range(0, dom)) })).collect() };
        let (ra, rb) = (gen(r, na), gen(r, nb));
        for (t, rows) in [("la", &ra), ("lb", &rb)] {
            for chunk in rows.chunks(500) {
                let vals: Vec<String> = chunk.iter().map(|(i, k)| format!("({}, {})", i, k.map(|v| v.to_string()).unwrap_or("NULL".into()))).collect();
                db.must(&format!("INSERT INTO {} VALUES {}", t, vals.join(", ")));
            }
        }
        // expected: pairs of ids with equal non-NULL keys
        let mut by_k: HashMap<i64, Vec<i64>> = HashMap::new();
        for (i, k) in &rb {
            if let Some(k) = k {
                by_k.entry(*k).or_default().push(*i);
            }
        }
        let mut inner: Vec<String> = vec![];
        let mut left: Vec<String> = vec![];
        let mut semi: Vec<String> = vec![];
        for (i, k) in &ra {
            let ms = k.and_then(|k| by_k.get(&k));
            match ms {
                Some(ms) => {
                    semi.push(format!("(I{})", i));
                    for j in ms {
                        inner.push(format!("(I{} I{})", i, j));
                        left.push(format!("(I{} I{})", i, j));
                    }
                }
                None => left.push(format!("(I{} N)", i)),
            }
        }
        inner.sort();
        left.sort();
        semi.sort();
        let mut run = |name: &str, sql: &str, want: &Vec<String>, rep: &mut Report| {
            let o = db.query(sql);
            rep.count(&format!("large_{}", name));
            let got = o.rows().map(|rows| canon::bag_vec(rows));
            if got.as_ref() != Some(want) {
                let diff = got.as_ref().map(|g| (g.len(), g.iter().filter(|x| !want.contains(x)).take(3).cloned().collect::<Vec<_>>()));
                rep.fail(FailKind::Oracle, None, &format!("large join ({} x {} rows), {}: result differs from the definitional join", na, nb, name),
                    &format!("tables la({} rows), lb({} rows): id = position, k random in [0,{}) with NULLs; seed-determined\n{};\n expected {} rows, got {:?} (rows, first unexpected ones) / {}", na, nb, dom, sql, want.len(), diff, o.brief().chars().take(200).collect::<String>()));
            }
        };
        rep.case(&format!("large join {} {}", na, nb), true);
        run("inner_on", "SELECT la.id, lb.id FROM la INNER JOIN lb ON la.k = lb.k", &inner, rep);
        run("inner_on_swapped", "SELECT la.id, lb.id FROM lb INNER JOIN la ON lb.k = la.k", &inner, rep);
        run("comma_where", "SELECT la.id, lb.id FROM la, lb WHERE la.k = lb.k", &inner, rep);
        run("derived", "SELECT la.id, d.id FROM la INNER JOIN (SELECT * FROM lb) AS d ON la.k = d.k", &inner, rep);
        run("left_join", "SELECT la.id, lb.id FROM la LEFT JOIN lb ON la.k = lb.k", &left, rep);
        run("right_join", "SELECT la.id, lb.id FROM lb RIGHT JOIN la ON la.k = lb.k", &left, rep);
        run("semi_in", "SELECT la.id FROM la WHERE la.k IN (SELECT lb.k FROM lb)", &semi, rep);
        run("semi_exists", "SELECT la.id FROM la WHERE EXISTS (SELECT 1 FROM lb WHERE lb.k = la.k)", &semi, rep);
    }
}

/// joins over tables of 99–300 rows (from 100 rows a table-local WHERE conjunct pushed into the
/// scan goes through the columnar predicate-tree path) with a filter on each side written in every
/// shape `column op literal` / `literal op column`, literals drawn from the stored values
/// (boundary equalities): comma join, JOIN … ON + WHERE, derived table, LEFT JOIN; expected rows
/// computed here from the definition
fn medium_filtered_join_cases(r: &mut Rng, rep: &mut Report, n_cases: usize) {
    for _ in 0..n_cases {
        let na = *r.pick(&[99usize, 100, 101, 128, 200, 300]);
        let nb = *r.pick(&[100usize, 129, 150, 257]);
        let mut db = Db::new();
        db.keep_log = false;
        db.must("CREATE TABLE ma (aid INTEGER, v INTEGER)");
        db.must("CREATE TABLE mb (bid INTEGER, k INTEGER, w INTEGER)");
        let val = |r: &mut Rng| if r.chance(1, 15) { None } else { Some(r.range(0, 10)) };
        let ra: Vec<(i64, Option<i64>)> = (0..na).map(|i| (i as i64, val(r))).collect();
        let rb: Vec<(i64, Option<i64>, Option<i64>)> = (0..nb).map(|i| (i as i64, val(r), val(r))).collect();
        let lit = |x: &Option<i64>| x.map(|v| v.to_string()).unwrap_or("NULL".into());
        for chunk in ra.chunks(100) {
            db.must(&format!("INSERT INTO ma VALUES {}", chunk.iter().map(|(i, v)| format!("({}, {})", i, lit(v))).collect::<Vec<_>>().join(", ")));
        }
        for chunk in rb.chunks(100) {
            db.must(&format!("INSERT INTO mb VALUES {}", chunk.iter().map(|(i, k, w)| format!("({}, {}, {})", i, lit(k), lit(w))).collect::<Vec<_>>().join(", ")));
        }
        let ops = ["<", "<=", ">", ">=", "=", "<>"];
        let cmp = |op: &str, a: i64, b: i64| match op { "<" => a < b, "<=" => a <= b, ">" => a > b, ">=" => a >= b, "=" => a == b, _ => a != b };
        for _ in 0..12 {
            // (qualified column references are not pushed into the scan by this engine: 2 in 3 unqualified)
            let unq = r.chance(2, 3);
            let (opb, lb, revb) = (*r.pick(&ops), r.range(0, 10), r.chance(1, 2));
            let (opa, la, reva) = (*r.pick(&ops), r.range(0, na as i64), r.chance(1, 2));
            let q = |t: &str, c: &str| if unq { c.to_string() } else { format!("{}.{}", t, c) };
            let side = |col: String, op: &str, l: i64, rev: bool| if rev { format!("{} {} {}", l, op, col) } else { format!("{} {} {}", col, op, l) };
            let fb = |t: &str| side(q(t, "w"), opb, lb, revb);
            let fa = side(q("ma", "aid"), opa, la, reva);
            let okb = |w: &Option<i64>| w.map(|w| if revb { cmp(opb, lb, w) } else { cmp(opb, w, lb) }).unwrap_or(false);
            let oka = |id: i64| if reva { cmp(opa, la, id) } else { cmp(opa, id, la) };
            let mut inner: Vec<String> = vec![];
            let mut left: Vec<String> = vec![];
            for (ai, v) in &ra {
                let mut matched = false;
                for (bi, k, w) in &rb {
                    if v.is_some() && v == k {
                        matched = true;
                        if oka(*ai) {
                            left.push(format!("(I{} I{})", ai, bi));
                            if okb(w) {
                                inner.push(format!("(I{} I{})", ai, bi));
                            }
                        }
                    }
                }
                if !matched && oka(*ai) {
                    left.push(format!("(I{} N)", ai));
                }
            }
            inner.sort();
            left.sort();
            rep.case(&format!("medium filtered join {} {} {} {} {} {} {} {} {}", na, nb, opa, la, reva, opb, lb, revb, unq), !inner.is_empty());
            rep.count(if revb { "medium_filter_literal_on_left" } else { "medium_filter_literal_on_right" });
            let sel = format!("SELECT {}, {}", q("ma", "aid"), q("mb", "bid"));
            let on = format!("{} = {}", q("ma", "v"), q("mb", "k"));
            let members = vec![
                ("comma_where", format!("{} FROM ma, mb WHERE {} AND {} AND {}", sel, on, fb("mb"), fa), &inner),
                ("comma_where_filters_first", format!("{} FROM mb, ma WHERE {} AND {} AND {}", sel, fb("mb"), fa, on), &inner),
                ("join_on_where", format!("{} FROM ma INNER JOIN mb ON {} WHERE {} AND {}", sel, on, fb("mb"), fa), &inner),
                ("join_on_all", format!("{} FROM ma INNER JOIN mb ON {} AND {} AND {}", sel, on, fb("mb"), fa), &inner),
                ("derived", format!("SELECT ma.aid, d.bid FROM ma INNER JOIN (SELECT * FROM mb) AS d ON ma.v = d.k WHERE {} AND {}", side("d.w".into(), opb, lb, revb), side("ma.aid".into(), opa, la, reva)), &inner),
                ("left_join_where_preserved", format!("{} FROM ma LEFT JOIN mb ON {} WHERE {}", sel, on, fa), &left),
            ];
            for (name, sql, want) in members {
                let o = db.query(&sql);
                rep.count(&format!("medium_{}", name));
                let got = o.rows().map(|rows| canon::bag_vec(rows));
                if got.as_ref() != Some(want) {
                    let diff = got.as_ref().map(|g| (g.len(), g.iter().filter(|x| !want.contains(x)).take(3).cloned().collect::<Vec<_>>(), want.iter().filter(|x| !g.contains(x)).take(3).cloned().collect::<Vec<_>>()));
                    let mut script = String::from("CREATE TABLE ma (aid INTEGER, v INTEGER);\nCREATE TABLE mb (bid INTEGER, k INTEGER, w INTEGER);\n");
                    for (i, v) in &ra {
                        script.push_str(&format!("INSERT INTO ma VALUES ({}, {});\n", i, lit(v)));
                    }
                    for (i, k, w) in &rb {
                        script.push_str(&format!("INSERT INTO mb VALUES ({}, {}, {});\n", i, lit(k), lit(w)));
                    }
                    rep.fail(FailKind::Oracle, None, &format!("filtered join over {} x {} rows, {}: result differs from the definitional join", na, nb, name),
                        &format!("{}{};\n-- expected {} rows, got {:?} (rows, first unexpected, first missing) / {}", script, sql, want.len(), diff, o.brief().chars().take(200).collect::<String>()));
                    break;
                }
            }
        }
    }
}

fn main() {
    engine::silence_panics();
    let args = Args::parse("C05");
    let mut rep = Report::new(
        &args,
        "case = (database of 3 tables, join-key columns, extra predicate); each case runs the rewrite families \
         (inner join ×4 spellings, 6 comma-join permutations, IN/EXISTS, NOT EXISTS, NOT IN, derived table, LEFT JOIN); \
         non-trivial = both join sides non-empty; distinct by hash of (database, key columns)",
    );
    rep.assumptions.push("the engine's typed hash keys (Integer vs Bigint) are not exercised: all key columns are INTEGER or VARCHAR".into());
    let mut model = args.model();
    probes(&mut model, &mut rep);
    same_name_probes(&mut rep);
    let mut rng = Rng::new(args.seed);
    {
        let mut r = rng.fork();
        let n_large = args.n(1, 8) as usize;
        large_join_cases(&mut r, &mut rep, n_large);
        let n_medium = args.n(5, 60) as usize;
        medium_filtered_join_cases(&mut r, &mut rep, n_medium);
    }
    let n = args.n(500, 15000);
    for i in 0..n {
        let mut r = rng.fork();
        let max_rows = if args.quick() { 8 } else { 30 };
        let dbd = gen_db(&mut r, 3, max_rows);
        if i < 3 {
            rep.sample(serde_json::json!({"tables": dbd.tables.iter().map(|t| t.rows.len()).collect::<Vec<_>>(), "model_db": dbd.sx().to_string().chars().take(300).collect::<String>()}));
        }
        run_case(&dbd, &mut r, &mut model, &mut rep);
    }
    std::process::exit(rep.finish());
}
