//! C33 — schema changes keep catalog, storage and indexes consistent.
//!
//! Direct oracle (real engine only), after every statement of a DDL/DML history over a small
//! pool of table names in several spellings (t, T, "t", u): same table set in the catalog
//! listing and in storage; no index names a missing table; every listed table answers
//! `SELECT *` with the declared number of columns and accepts an INSERT of that width; catalog
//! and stored schema agree on the columns; equality queries (index-driven when an index exists)
//! return what a filter of the scan returns; a dropped table leaves no index; a re-created table
//! is empty and index-free; ALTER keeps the data of retained columns.
//! Correspondence: the three registries after every statement vs the Lean model (`Model/Ddl.lean`).
use std::collections::{BTreeMap, BTreeSet};
use vharness::*;


#[derive(Clone, Debug)]
enum St {
    CreateTable(usize, Vec<&'static str>),
    DropTable(usize),
    CreateIndex(String, usize, Vec<&'static str>),
    DropIndex(String),
    Insert(usize, Vec<i64>),
    Clear(usize),
    AddColumn(usize, &'static str),
    DropColumn(usize, &'static str),
    /// CHANGE COLUMN old new INT (rename)
    ChangeColumn(usize, &'static str, &'static str),
    /// MODIFY COLUMN c BIGINT (type only)
    ModifyColumn(usize, &'static str),
}

/// an index name as the catalog records it: unquoted names are upper-cased by the lexer,
/// delimited names are kept as written
fn written(sql_name: &str) -> String {
    if let Some(inner) = sql_name.strip_prefix('"') {
        inner.trim_end_matches('"').to_string()
    } else {
        sql_name.to_uppercase()
    }
}

fn hexname(sql_name: &str) -> String {
    sx::hex_str(&written(sql_name))
}

/// spellings: (as written in SQL, normalised name, INSERT/DELETE/ALTER parse with this spelling)
const SPELL: [(&str, &str, bool); 4] = [("t", "T", true), ("T", "T", true), ("\"t\"", "t", false), ("u", "U", true)];

impl St {
    fn sql(&self) -> String {
        match self {
            St::CreateTable(s, cols) => format!("CREATE TABLE {} ({})", SPELL[*s].0, cols.iter().map(|c| format!("{} INT", c)).collect::<Vec<_>>().join(", ")),
            St::DropTable(s) => format!("DROP TABLE {}", SPELL[*s].0),
            St::CreateIndex(i, s, cols) => format!("CREATE INDEX {} ON {} ({})", i, SPELL[*s].0, cols.join(", ")),
            St::DropIndex(i) => format!("DROP INDEX {}", i),
            St::Insert(s, vals) => format!("INSERT INTO {} VALUES ({})", SPELL[*s].0, vals.iter().map(|v| v.to_string()).collect::<Vec<_>>().join(", ")),
            St::Clear(s) => format!("DELETE FROM {}", SPELL[*s].0),
            St::AddColumn(s, c) => format!("ALTER TABLE {} ADD COLUMN {} INT", SPELL[*s].0, c),
            St::DropColumn(s, c) => format!("ALTER TABLE {} DROP COLUMN {}", SPELL[*s].0, c),
            St::ChangeColumn(s, o, n) => format!("ALTER TABLE {} CHANGE COLUMN {} {} INT", SPELL[*s].0, o, n),
            St::ModifyColumn(s, c) => format!("ALTER TABLE {} MODIFY COLUMN {} INT", SPELL[*s].0, c),
        }
    }
    fn model(&self) -> String {
        let up = |cols: &Vec<&'static str>| cols.iter().map(|c| c.to_uppercase()).collect::<Vec<_>>().join(" ");
        match self {
            St::CreateTable(s, cols) => format!("(ct {} ({}))", SPELL[*s].1, up(cols)),
            St::DropTable(s) => format!("(dt {})", SPELL[*s].1),
            St::CreateIndex(i, s, cols) => format!("(ci {} {} ({}))", hexname(i), SPELL[*s].1, up(cols)),
            St::DropIndex(i) => format!("(di {})", hexname(i)),
            St::Insert(s, vals) => format!("(ins {} ({}))", SPELL[*s].1, vals.iter().map(|v| format!("I{}", v)).collect::<Vec<_>>().join(" ")),
            St::Clear(s) => format!("(clr {})", SPELL[*s].1),
            St::AddColumn(s, c) => format!("(ac {} {})", SPELL[*s].1, c.to_uppercase()),
            St::DropColumn(s, c) => format!("(dc {} {})", SPELL[*s].1, c.to_uppercase()),
            St::ChangeColumn(s, o, n) => format!("(cc {} {} {})", SPELL[*s].1, o.to_uppercase(), n.to_uppercase()),
            St::ModifyColumn(s, c) => format!("(mc {} {})", SPELL[*s].1, c.to_uppercase()),
        }
    }
    fn kind(&self) -> &'static str {
        match self {
            St::CreateTable(..) => "create_table",
            St::DropTable(_) => "drop_table",
            St::CreateIndex(..) => "create_index",
            St::DropIndex(_) => "drop_index",
            St::Insert(..) => "insert",
            St::Clear(_) => "delete_all",
            St::AddColumn(..) => "add_column",
            St::DropColumn(..) => "drop_column",
            St::ChangeColumn(..) => "change_column",
            St::ModifyColumn(..) => "modify_column",
        }
    }
    fn table(&self) -> Option<&'static str> {
        match self {
            St::CreateTable(s, _) | St::DropTable(s) | St::CreateIndex(_, s, _) | St::Insert(s, _) | St::Clear(s) | St::AddColumn(s, _) | St::DropColumn(s, _) | St::ChangeColumn(s, _, _) | St::ModifyColumn(s, _) => Some(SPELL[*s].1),
            St::DropIndex(_) => None,
        }
    }
}

#[derive(Clone, Debug, PartialEq, Eq, Default)]
struct Regs {
    catalog: BTreeMap<String, Vec<String>>,
    stored: BTreeMap<String, (Vec<String>, Vec<String>)>,
    /// storage registry: key (normalised name) -> (name as written, table, columns)
    reg: BTreeMap<String, (String, String, Vec<String>)>,
    /// catalog index list: name as written -> [(table, columns)]
    creg: BTreeMap<String, Vec<(String, Vec<String>)>>,
}

fn observe(db: &Db) -> Regs {
    let mut r = Regs::default();
    for t in db.db.list_tables() {
        let cols = db.db.catalog.get_table(&t).map(|s| s.columns.iter().map(|c| c.name.clone()).collect()).unwrap_or_default();
        r.catalog.insert(t, cols);
    }
    for (k, t) in db.db.tables.iter() {
        let name = k.strip_prefix("public.").unwrap_or(k).to_string();
        r.stored.insert(name, (t.schema.columns.iter().map(|c| c.name.clone()).collect(), t.scan().iter().map(|x| canon::row(&x.values)).collect()));
    }
    for i in db.db.list_indexes() {
        if let Some(m) = db.db.get_index(&i) {
            r.reg.insert(i.clone(), (m.index_name.clone(), m.table_name.clone(), m.columns.iter().map(|c| c.column_name.clone()).collect()));
        }
    }
    for ci in db.db.catalog.list_all_indexes() {
        r.creg.entry(ci.name.clone()).or_default().push((ci.table_name.clone(), ci.columns.iter().map(|c| c.column_name.clone()).collect()));
    }
    for v in r.creg.values_mut() {
        v.sort();
    }
    r
}

fn parse_model(reply: &str) -> Option<Vec<(String, Regs)>> {
    let sx = Sx::parse(reply)?;
    let l = sx.as_list()?;
    if l.first()?.as_atom()? != "trace" {
        return None;
    }
    let names = |x: &Sx| -> Vec<String> { x.as_list().map(|v| v.iter().filter_map(|a| a.as_atom().map(|s| s.to_string())).collect()).unwrap_or_default() };
    let mut out = vec![];
    for st in &l[1..] {
        let p = st.as_list()?;
        let err = p.first()?.as_atom()?.to_string();
        let mut r = Regs::default();
        for part in &p[1..] {
            let pl = part.as_list()?;
            match pl.first()?.as_atom()? {
                "catalog" => {
                    for e in &pl[1..] {
                        let e = e.as_list()?;
                        r.catalog.insert(e[0].as_atom()?.to_string(), names(&e[1]));
                    }
                }
                "stored" => {
                    for e in &pl[1..] {
                        let e = e.as_list()?;
                        r.stored.insert(e[0].as_atom()?.to_string(), (names(&e[1]), e[2].as_list()?.iter().map(|x| x.to_string()).collect()));
                    }
                }
                "reg" => {
                    for e in &pl[1..] {
                        let e = e.as_list()?;
                        r.creg.entry(sx::unhex_str(e[0].as_atom()?)?).or_default().push((e[1].as_atom()?.to_string(), names(&e[2])));
                    }
                    for v in r.creg.values_mut() {
                        v.sort();
                    }
                }
                "sreg" => {
                    for e in &pl[1..] {
                        let e = e.as_list()?;
                        r.reg.insert(sx::unhex_str(e[0].as_atom()?)?, (sx::unhex_str(e[1].as_atom()?)?, e[2].as_atom()?.to_string(), names(&e[3])));
                    }
                }
                _ => {}
            }
        }
        out.push((err, r));
    }
    Some(out)
}

fn script(stmts: &[St], upto: usize) -> String {
    stmts.iter().take(upto).map(|s| format!("{};\n", s.sql())).collect()
}

/// SQL spelling under which a normalised table name can be queried
fn spelling(name: &str) -> String {
    if name.chars().any(|c| c.is_lowercase()) {
        format!("\"{}\"", name)
    } else {
        name.to_string()
    }
}

/// The parser rejects a delimited table name after INSERT INTO / DELETE FROM (and possibly
/// ALTER TABLE): such statements are parsed for a placeholder name and the table name is set on
/// the AST (as the engine's own tests do)
fn exec_st(db: &mut Db, st: &St) -> Out {
    let delimited = |s: &usize| !SPELL[*s].2;
    let target = match st {
        St::Insert(s, _) | St::Clear(s) | St::AddColumn(s, _) | St::DropColumn(s, _) | St::ChangeColumn(s, _, _) | St::ModifyColumn(s, _) if delimited(s) => Some(SPELL[*s].1.to_string()),
        _ => None,
    };
    let Some(name) = target else { return db.exec(&st.sql()) };
    let sql = st.sql().replace(SPELL[2].0, "zzplaceholder");
    let mut stmt = match Db::parse(&sql) {
        Ok(s) => s,
        Err(o) => return o,
    };
    use vibesql_ast::{AlterColumnStmt, AlterTableStmt, Statement};
    match &mut stmt {
        Statement::Insert(x) => x.table_name = name,
        Statement::Delete(x) => x.table_name = name,
        Statement::AlterTable(a) => match a {
            AlterTableStmt::AddColumn(x) => x.table_name = name,
            AlterTableStmt::DropColumn(x) => x.table_name = name,
            AlterTableStmt::ModifyColumn(x) => x.table_name = name,
            AlterTableStmt::ChangeColumn(x) => x.table_name = name,
            AlterTableStmt::AlterColumn(x) => match x {
                AlterColumnStmt::SetDefault { table_name, .. } | AlterColumnStmt::DropDefault { table_name, .. } | AlterColumnStmt::SetNotNull { table_name, .. } | AlterColumnStmt::DropNotNull { table_name, .. } => *table_name = name,
            },
            _ => {}
        },
        _ => {}
    }
    db.exec_stmt(&stmt)
}

fn run_case(stmts: &[St], model: &mut model::Model, rep: &mut Report, label: &str) {
    let mut db = Db::new();
    db.keep_log = false;
    let case_id = script(stmts, stmts.len());
    let mut altered: BTreeSet<String> = BTreeSet::new();
    let mut expected: Vec<(usize, bool, Regs)> = vec![];
    let mut ddl_effects = 0;
    let mut stop = false;
    for (k, st) in stmts.iter().enumerate() {
        let before = observe(&db);
        let out = exec_st(&mut db, st);
        rep.count(&format!("stmt_{}", st.kind()));
        if !out.is_ok() {
            rep.count(&format!("stmt_error_{}", out.err_class().unwrap_or("panic")));
        }
        let after = observe(&db);
        let tname = st.table().unwrap_or("");
        let fail = |rep: &mut Report, what: &str, detail: String, table: &str, altered: &BTreeSet<String>| {
            // (ALTER TABLE ADD/DROP COLUMN used to leave the catalog behind — repaired by
            // ecda3d9a; no failure class is excused any more)
            let _ = (table, altered);
            rep.fail(FailKind::Oracle, None, what, &format!("{}-- {}\n", script(stmts, k + 1), detail));
        };
        if out.is_panic() {
            fail(rep, "engine panicked", out.brief(), tname, &altered);
            stop = true;
        }
        if out.is_ok() {
            match st {
                St::AddColumn(..) | St::DropColumn(..) => {
                    altered.insert(tname.to_string());
                }
                St::DropTable(_) => {
                    altered.remove(tname);
                }
                _ => {}
            }
            if !matches!(st, St::Insert(..) | St::Clear(_)) {
                ddl_effects += 1;
            }
        }
        // (O1) same table set in catalog listing and storage
        let cat: BTreeSet<&String> = after.catalog.keys().collect();
        let sto: BTreeSet<&String> = after.stored.keys().collect();
        if cat != sto {
            fail(rep, "catalog listing and stored tables differ", format!("catalog {:?} stored {:?}", cat, sto), "", &altered);
            stop = true;
        }
        // (O2) no index names a missing table
        for (i, (_, t, _)) in &after.reg {
            if !after.catalog.contains_key(t) {
                fail(rep, "an index names a table that does not exist", format!("index {} on {}", i, t), "", &altered);
                stop = true;
            }
        }
        // (O8) catalog index list = storage registry (names as written; exactly and ignoring case)
        {
            let cat: BTreeSet<(String, String)> = after.creg.iter().flat_map(|(n, v)| v.iter().map(move |(t, _)| (n.clone(), t.clone()))).collect();
            let sto: BTreeSet<(String, String)> = after.reg.values().map(|(n, t, _)| (n.clone(), t.clone())).collect();
            if cat != sto {
                let ci = |x: &BTreeSet<(String, String)>| -> BTreeSet<(String, String)> { x.iter().map(|(n, t)| (n.to_uppercase(), t.to_uppercase())).collect() };
                let how = if ci(&cat) == ci(&sto) { "equal ignoring case, different exactly" } else { "different even ignoring case" };
                fail(rep, "catalog index list and storage index registry differ", format!("{}: catalog {:?} storage {:?}", how, cat, sto), "", &altered);
                stop = true;
            }
            // every index column (catalog and storage) exists in its table
            for (n, v) in &after.creg {
                for (t, cols) in v {
                    if let Some(tc) = after.catalog.get(t) {
                        if let Some(c) = cols.iter().find(|c| !tc.contains(c)) {
                            fail(rep, "a catalog index names a column its table does not have", format!("index {} on {} column {} (table columns {:?})", n, t, c, tc), "", &altered);
                            stop = true;
                        }
                    }
                }
            }
            for (k2, (n, t, cols)) in &after.reg {
                if let Some(tc) = after.catalog.get(t) {
                    if let Some(c) = cols.iter().find(|c| !tc.contains(c)) {
                        fail(rep, "a storage index names a column its table does not have", format!("index {} ({}) on {} column {} (table columns {:?})", k2, n, t, c, tc), "", &altered);
                        stop = true;
                    }
                }
            }
        }
        // (O9) index contents = rebuild of the scan; (O10) name reuse and DROP INDEX on clones
        if !stop {
            for (key, (n, t, cols)) in &after.reg {
                let Some(table) = db.db.get_table(t) else { continue };
                let pos: Vec<Option<usize>> = cols.iter().map(|c| table.schema.get_column_index(c)).collect();
                if pos.iter().any(|p| p.is_none()) {
                    continue;
                }
                let mut want: BTreeMap<String, Vec<usize>> = BTreeMap::new();
                for (p, r) in table.scan().iter().enumerate() {
                    let k3: Vec<String> = pos.iter().map(|c| canon::val(&r.values[c.unwrap()])).collect();
                    want.entry(k3.join(" ")).or_default().push(p);
                }
                let got: Option<BTreeMap<String, Vec<usize>>> = match db.db.get_index_data(key) {
                    Some(vibesql_storage::database::IndexData::InMemory { data }) => Some(
                        data.iter()
                            .map(|(k3, ps)| {
                                let mut ps = ps.clone();
                                ps.sort();
                                (k3.iter().map(canon::val).collect::<Vec<_>>().join(" "), ps)
                            })
                            .collect(),
                    ),
                    _ => None,
                };
                if got.as_ref() != Some(&want) {
                    fail(rep, "index contents differ from a rebuild of the table", format!("index {} ({}) on {}: got {:?} want {:?}", key, n, t, got, want), "", &altered);
                    stop = true;
                }
            }
            let quote = |n: &str| format!("\"{}\"", n);
            let listed: BTreeSet<String> = after.creg.keys().cloned().chain(after.reg.values().map(|(n, _, _)| n.clone())).collect();
            // (probed on clones, so only after statements that can change an index list)
            let relevant = out.is_ok() && matches!(st, St::CreateIndex(..) | St::DropIndex(_) | St::DropColumn(..) | St::ChangeColumn(..) | St::DropTable(_));
            for n in listed.iter().filter(|_| relevant) {
                // DROP INDEX of a listed name succeeds and removes it from both lists
                let mut probe = Db::from(db.db.clone());
                probe.keep_log = false;
                let o = probe.exec(&format!("DROP INDEX {}", quote(n)));
                let gone = observe(&probe);
                if !o.is_ok() || gone.creg.contains_key(n) || gone.reg.values().any(|(w, _, _)| w == n) {
                    fail(rep, "DROP INDEX of a listed index does not remove it", format!("DROP INDEX {} => {} ; catalog {:?} storage {:?}", quote(n), o.brief(), gone.creg.keys().collect::<Vec<_>>(), gone.reg), "", &altered);
                    stop = true;
                }
                // CREATE INDEX of an existing name fails
                if let Some(t) = after.catalog.keys().find(|t| !t.chars().any(|c| c.is_lowercase())) {
                    let col = after.catalog[t].first().cloned().unwrap_or_default();
                    let mut probe = Db::from(db.db.clone());
                    probe.keep_log = false;
                    let o = probe.exec(&format!("CREATE INDEX {} ON {} ({})", quote(n), t, col));
                    if o.is_ok() {
                        fail(rep, "CREATE INDEX of an existing index name succeeds", format!("CREATE INDEX {} ON {} ({})", quote(n), t, col), "", &altered);
                        stop = true;
                    }
                }
            }
            // a name that is in neither list can be created (name reuse after DROP / ALTER)
            if let (Some(t), St::DropIndex(i) | St::CreateIndex(i, _, _)) = (after.catalog.keys().find(|t| !t.chars().any(|c| c.is_lowercase())), st) {
                let n = written(i);
                let taken = after.reg.contains_key(&n.to_uppercase());
                if !listed.contains(&n) && !taken {
                    let col = after.catalog[t].first().cloned().unwrap_or_default();
                    let mut probe = Db::from(db.db.clone());
                    probe.keep_log = false;
                    let o = probe.exec(&format!("CREATE INDEX {} ON {} ({})", quote(&n), t, col));
                    if !o.is_ok() {
                        fail(rep, "an index name that is not listed anywhere cannot be created", format!("CREATE INDEX {} ON {} ({}) => {}", quote(&n), t, col, o.brief()), "", &altered);
                        stop = true;
                    }
                }
            }
        }
        // (O4) DROP TABLE leaves nothing; re-created table is empty and index-free
        if out.is_ok() {
            if let St::DropTable(_) = st {
                if after.stored.contains_key(tname) || after.reg.values().any(|(_, t, _)| t == tname) {
                    fail(rep, "DROP TABLE left storage or indexes behind", format!("{:?}", after), "", &altered);
                    stop = true;
                }
            }
            if let St::CreateTable(..) = st {
                let fresh = after.stored.get(tname).map(|(_, rows)| rows.is_empty()).unwrap_or(false) && !after.reg.values().any(|(_, t, _)| t == tname);
                if !fresh {
                    fail(rep, "a newly created table is not empty and index-free", format!("{:?}", after), "", &altered);
                    stop = true;
                }
            }
            // (O5) ALTER keeps the data of retained columns
            if let (St::AddColumn(..), Some((_, old)), Some((_, new))) = (st, before.stored.get(tname), after.stored.get(tname)) {
                let ok = old.len() == new.len() && old.iter().zip(new.iter()).all(|(o, n)| n.starts_with(o.trim_end_matches(')')));
                if !ok {
                    fail(rep, "ADD COLUMN changed existing data", format!("before {:?} after {:?}", old, new), "", &altered);
                    stop = true;
                }
            }
            if let (St::DropColumn(_, c), Some((ocols, old)), Some((_, new))) = (st, before.stored.get(tname), after.stored.get(tname)) {
                let k = ocols.iter().position(|x| x.eq_ignore_ascii_case(c));
                let strip = |r: &String| -> Vec<String> { r.trim_matches(|ch| ch == '(' || ch == ')').split(' ').map(|s| s.to_string()).collect() };
                let ok = k.is_some()
                    && old.len() == new.len()
                    && old.iter().zip(new.iter()).all(|(o, n)| {
                        let mut ov = strip(o);
                        ov.remove(k.unwrap());
                        ov == strip(n)
                    });
                if !ok {
                    fail(rep, "DROP COLUMN changed the data of retained columns", format!("before {:?} after {:?}", old, new), "", &altered);
                    stop = true;
                }
            }
        }
        // per listed table: (O6) catalog columns = stored columns; (O3) SELECT * has the declared
        // width and equality queries agree with a filter of the scan; (O7) an INSERT of the
        // declared width is accepted (probed on a clone of the database)
        if !stop {
            for (t, ccols) in &after.catalog {
                let Some((scols, rows)) = after.stored.get(t) else { continue };
                if ccols != scols {
                    fail(rep, "catalog and stored table disagree on the declared columns", format!("table {} catalog {:?} stored {:?}", t, ccols, scols), t, &altered);
                    stop = true;
                    break;
                }
                let sp = spelling(t);
                let q = db.exec(&format!("SELECT * FROM {}", sp));
                let okq = match q.rows() {
                    Some(r) => r.len() == rows.len() && r.iter().all(|x| x.len() == ccols.len()),
                    None => false,
                };
                if !okq {
                    fail(rep, "a listed table is not queryable with its declared columns", format!("SELECT * FROM {} => {}", sp, q.brief()), t, &altered);
                    stop = true;
                    break;
                }
                for (ci, c) in ccols.iter().enumerate() {
                    for v in [1, 2, 3] {
                        let q = db.exec(&format!("SELECT * FROM {} WHERE {} = {}", sp, c, v));
                        let want: Vec<&String> = rows.iter().filter(|r| r.trim_matches(|ch| ch == '(' || ch == ')').split(' ').nth(ci) == Some(&format!("I{}", v))).collect();
                        let got = q.rows().map(|r| r.len());
                        if got != Some(want.len()) {
                            fail(rep, "an equality query on a listed table disagrees with the stored rows", format!("SELECT * FROM {} WHERE {} = {} => {} ; stored rows {:?}", sp, c, v, q.brief(), rows), t, &altered);
                            stop = true;
                        }
                    }
                }
                if stop {
                    break;
                }
                if !t.chars().any(|c| c.is_lowercase()) {
                    let mut probe = Db::from(db.db.clone());
                    probe.keep_log = false;
                    let ins = probe.exec(&format!("INSERT INTO {} VALUES ({})", sp, vec!["9"; ccols.len()].join(", ")));
                    if !ins.is_ok() {
                        fail(rep, "a listed table rejects a row of its declared width", format!("table {} columns {:?}: {}", t, ccols, ins.brief()), t, &altered);
                        stop = true;
                        break;
                    }
                }
            }
        }
        expected.push((k, out.is_ok(), after));
        if stop {
            break;
        }
    }
    rep.case(&case_id, ddl_effects >= 3);
    // ---- correspondence ----
    let upto = expected.len();
    let req = format!("trace ({})", stmts[..upto].iter().map(|s| s.model()).collect::<Vec<_>>().join(" "));
    let reply = model.ask(&req);
    let Some(steps) = parse_model(&reply) else {
        rep.fail(FailKind::ModelDiff, None, "model rejected the request", &format!("{}-- {}\n-- {}", case_id, req, reply));
        return;
    };
    for (j, (k, eng_ok, regs)) in expected.iter().enumerate() {
        let Some((err, m)) = steps.get(j) else { break };
        if (err == "ok") != *eng_ok || m != regs {
            rep.fail(
                FailKind::ModelDiff,
                None,
                &format!("model and engine registries differ after {} ({})", stmts[*k].kind(), label),
                &format!("{}-- request: {}\n-- engine ok={} model status={}\n-- engine: {:?}\n-- model:  {:?}", script(stmts, k + 1), req, eng_ok, err, regs, m),
            );
            return;
        }
    }
    rep.traces_validated += 1;
    rep.add("model_steps_compared", expected.len() as u64);
}

fn gen(r: &mut Rng) -> Vec<St> {
    let n = r.range(6, 22);
    let mut v = vec![];
    let mut idx: i64 = 0;
    let mut idx_names: Vec<String> = vec![];
    let cols_pool: [&'static str; 4] = ["a", "b", "c", "d"];
    // model of declared widths to make most inserts fit
    let mut width: BTreeMap<&'static str, usize> = BTreeMap::new();
    for _ in 0..n {
        let s = r.below(4) as usize;
        let w = r.below(100);
        let st = if w < 18 {
            let k = r.range(2, 3) as usize;
            width.entry(SPELL[s].1).or_insert(k);
            St::CreateTable(s, cols_pool[..k].to_vec())
        } else if w < 28 {
            width.remove(SPELL[s].1);
            St::DropTable(s)
        } else if w < 42 {
            idx += 1;
            // spellings: unquoted (upper-cased), delimited lower case, delimited mixed case with a
            // blank, and a delimited lower-case twin of an unquoted name (differs only in case)
            let name = match r.below(6) {
                0 | 1 => format!("ix{}", idx),
                2 | 3 => format!("\"idx_{}\"", idx),
                4 => format!("\"Idx {}\"", idx),
                _ => format!("\"ix{}\"", r.range(1, idx.max(1))),
            };
            idx_names.push(name.clone());
            let mut cols = vec![*r.pick(&cols_pool[..3])];
            if r.chance(1, 4) {
                let c2 = *r.pick(&cols_pool[..3]);
                if c2 != cols[0] {
                    cols.push(c2);
                }
            }
            St::CreateIndex(name, s, cols)
        } else if w < 48 {
            if idx_names.is_empty() {
                St::DropIndex("nope".into())
            } else {
                let i = r.below(idx_names.len() as u64) as usize;
                if r.chance(3, 4) { St::DropIndex(idx_names.remove(i)) } else { St::DropIndex(idx_names[i].clone()) }
            }
        } else if w < 78 {
            let s = if SPELL[s].2 || r.chance(2, 3) { s } else { 0 };
            let k = if r.chance(1, 8) { r.range(1, 4) as usize } else { *width.get(SPELL[s].1).unwrap_or(&2) };
            St::Insert(s, (0..k).map(|_| r.range(1, 3)).collect())
        } else if w < 84 {
            let s = if SPELL[s].2 || r.chance(2, 3) { s } else { 0 };
            St::Clear(s)
        } else if w < 90 {
            let s = if SPELL[s].2 || r.chance(2, 3) { s } else { 1 };
            St::AddColumn(s, *r.pick(&["d", "c", "e"]))
        } else if w < 94 {
            let s = if SPELL[s].2 || r.chance(2, 3) { s } else { 1 };
            St::DropColumn(s, *r.pick(&["b", "c", "d", "b2"]))
        } else if w < 98 {
            let s = if SPELL[s].2 || r.chance(2, 3) { s } else { 1 };
            let (o, n) = *r.pick(&[("b", "b2"), ("c", "c2"), ("b2", "b"), ("a", "a2")]);
            St::ChangeColumn(s, o, n)
        } else {
            let s = if SPELL[s].2 || r.chance(2, 3) { s } else { 1 };
            St::ModifyColumn(s, *r.pick(&["b", "c"]))
        };
        v.push(st);
    }
    v
}

fn probes() -> Vec<(&'static str, Vec<St>)> {
    let ab: Vec<&'static str> = vec!["a", "b"];
    let abc: Vec<&'static str> = vec!["a", "b", "c"];
    vec![
        ("drop-recreate", vec![St::CreateTable(0, ab.clone()), St::CreateIndex("qi".into(), 0, vec!["b"]), St::Insert(0, vec![1, 1]), St::DropTable(1), St::CreateTable(1, abc.clone()), St::Insert(0, vec![1, 2, 3]), St::CreateIndex("qi".into(), 0, vec!["c"]), St::DropIndex("qi".into()), St::DropIndex("qi".into())]),
        ("case-variants", vec![St::CreateTable(2, ab.clone()), St::CreateTable(1, ab.clone()), St::CreateTable(0, ab.clone()), St::Insert(0, vec![2, 2]), St::CreateIndex("i1".into(), 2, vec!["b"]), St::CreateIndex("i2".into(), 0, vec!["b"]), St::DropTable(2), St::Insert(1, vec![3, 2]), St::DropTable(0), St::CreateTable(2, abc.clone())]),
        ("index-on-missing", vec![St::CreateIndex("i1".into(), 3, vec!["a"]), St::CreateTable(3, ab.clone()), St::CreateIndex("i1".into(), 3, vec!["z"]), St::CreateIndex("i1".into(), 3, vec!["a"]), St::CreateIndex("i1".into(), 3, vec!["b"]), St::Insert(3, vec![1]), St::Insert(3, vec![1, 2]), St::Clear(3)]),
        ("delimited-index-names", vec![St::CreateTable(0, abc.clone()), St::Insert(0, vec![1, 2, 3]), St::CreateIndex("\"idx_a\"".into(), 0, vec!["b"]), St::CreateIndex("\"Idx B\"".into(), 0, vec!["b", "c"]), St::CreateIndex("ix1".into(), 0, vec!["c"]), St::CreateIndex("\"ix1\"".into(), 0, vec!["a"]), St::DropColumn(0, "b"), St::CreateIndex("\"idx_a\"".into(), 0, vec!["c"]), St::DropIndex("\"ix1\"".into()), St::DropIndex("ix1".into())]),
        ("change-column-with-delimited-index", vec![St::CreateTable(0, abc.clone()), St::Insert(0, vec![1, 2, 3]), St::CreateIndex("\"idx_b\"".into(), 0, vec!["b"]), St::CreateIndex("ixc".into(), 0, vec!["c", "b"]), St::ChangeColumn(0, "b", "b2"), St::Insert(0, vec![4, 5, 6]), St::ModifyColumn(0, "c"), St::DropColumn(0, "b2"), St::CreateIndex("\"idx_b\"".into(), 0, vec!["a"])]),
        ("namesakes-different-rows-rebuilds", vec![
            St::CreateTable(2, abc.clone()), St::CreateTable(1, abc.clone()),
            St::Insert(2, vec![1, 1, 1]), St::Insert(2, vec![2, 2, 2]), St::Insert(1, vec![3, 3, 3]), St::Insert(1, vec![1, 2, 3]), St::Insert(1, vec![2, 1, 1]),
            St::CreateIndex("ilow".into(), 2, vec!["a"]), St::CreateIndex("iup".into(), 1, vec!["a"]),
            St::AddColumn(2, "d"), St::AddColumn(1, "d"), St::ModifyColumn(2, "b"), St::ChangeColumn(2, "c", "c2"), St::ChangeColumn(1, "c", "c2"),
            St::DropColumn(2, "b"), St::DropColumn(1, "b"), St::Insert(2, vec![3, 1, 1]), St::Clear(1), St::Insert(1, vec![2, 2, 2]), St::Clear(2), St::Insert(2, vec![1, 1, 1]),
        ]),
        ("empty-delimited-table-alter", vec![St::CreateTable(2, ab.clone()), St::CreateTable(1, ab.clone()), St::Insert(1, vec![1, 1]), St::Insert(1, vec![2, 2]), St::CreateIndex("ilow".into(), 2, vec!["a"]), St::AddColumn(2, "c"), St::ModifyColumn(2, "b")]),
        // repaired defect ecda3d9a, kept as regression probes
        ("add-column (regression: ecda3d9a)", vec![St::CreateTable(0, ab.clone()), St::Insert(0, vec![1, 1]), St::AddColumn(0, "c")]),
        ("drop-column (regression: ecda3d9a)", vec![St::CreateTable(0, abc.clone()), St::CreateIndex("qc".into(), 0, vec!["c"]), St::Insert(0, vec![1, 2, 3]), St::DropColumn(0, "b")]),
    ]
}

fn main() {
    engine::silence_panics();
    let args = Args::parse("C33");
    let mut rep = Report::new(
        &args,
        "case = history of CREATE/DROP TABLE, CREATE/DROP INDEX, ALTER TABLE ADD/DROP COLUMN, INSERT, DELETE over the names \
         t / T / \"t\" / u (name reuse, case variants); after every statement the three registries are compared with the Lean model \
         and the direct oracle is evaluated; non-trivial = at least three successful DDL statements; distinct by script",
    );
    rep.assumptions.push("INTEGER columns without constraints (constraint DDL is C10/C12); default schema only".into());
    rep.assumptions.push("quoted lower-case table names are exercised through DDL and SELECT only (INSERT/DELETE/ALTER do not parse them)".into());
    let mut model = args.model();
    for (name, c) in probes() {
        run_case(&c, &mut model, &mut rep, name);
        rep.count("probe_cases");
    }
    let mut rng = Rng::new(args.seed);
    let n = args.n(500, 20000);
    for i in 0..n {
        let mut r = rng.fork();
        let c = gen(&mut r);
        if i < 3 {
            rep.sample(serde_json::json!({"script": script(&c, c.len())}));
        }
        run_case(&c, &mut model, &mut rep, "generated");
    }
    std::process::exit(rep.finish());
}
