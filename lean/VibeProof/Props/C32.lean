import VibeProof.Model.View
import VibeProof.Lemmas.Reindex
/-
C32 — views and CTEs behave as their defining query.
-/
namespace VibeProof.C32
open VibeProof VibeProof.Sql VibeProof.View

/-- a reference to a view equals the defining SELECT inlined as a derived table, on every database -/
theorem C32_view_eq_derived (env : Env) (db : Db) (name : Name) (body outer : Core)
    (hc : lookupCI name env.ctes = none) (hv : lookupCI name env.views = some body) :
    evalNamed env db name outer = evalDerived db body outer := by
  simp [evalNamed, resolve, hc, hv]

/-- a reference to a CTE equals the inlined definition; the CTE shadows a view or table of the
same name -/
theorem C32_cte_eq_derived (env : Env) (db : Db) (name : Name) (body outer : Core)
    (hc : lookupCI name env.ctes = some body) :
    evalNamed env db name outer = evalDerived db body outer := by
  simp [evalNamed, resolve, hc]

/-- hence view, CTE and derived-table spellings agree with each other -/
theorem C32_view_eq_cte (envV envC : Env) (db : Db) (name : Name) (body outer : Core)
    (hv0 : lookupCI name envV.ctes = none) (hv : lookupCI name envV.views = some body)
    (hc : lookupCI name envC.ctes = some body) :
    evalNamed envV db name outer = evalNamed envC db name outer := by
  rw [C32_view_eq_derived envV db name body outer hv0 hv, C32_cte_eq_derived envC db name body outer hc]

/-- freshness: a view holds no rows — after any change of the base tables a reference returns
the defining query evaluated on the *new* database -/
theorem C32_view_fresh (env : Env) (db : Db) (change : Db → Db) (name : Name) (body outer : Core)
    (hc : lookupCI name env.ctes = none) (hv : lookupCI name env.views = some body) :
    evalNamed env (change db) name outer = evalDerived (change db) body outer :=
  C32_view_eq_derived env (change db) name body outer hc hv

/-- name resolution is case-insensitive -/
theorem C32_lookup_case_insensitive {β : Type} (a b : Name) (l : List (Name × β))
    (h : lower a = lower b) : lookupCI a l = lookupCI b l := by
  induction l with
  | nil => rfl
  | cons p rest ih => obtain ⟨n, v⟩ := p; simp [lookupCI, h, ih]

/-- pushing an outer predicate below the definition's projection is sound:
filtering the projected rows = projecting the rows filtered by the composed predicate -/
theorem C32_pushdown_through_projection {α β : Type} (f : α → β) (p : β → TV) (rows : List α) :
    filter3 p (rows.map f) = (filter3 (fun r => p (f r)) rows).map f := by
  simp [filter3, List.filter_map, Function.comp_def]

/-- an outer predicate over a filtered definition composes with the definition's predicate -/
theorem C32_filter_compose {α : Type} (p q : α → TV) (rows : List α) :
    filter3 p (filter3 q rows) = filter3 (fun r => TV.and3 (q r) (p r)) rows := by
  simp only [filter3, List.filter_filter]
  apply List.filter_congr
  intro r _
  cases hq : q r <;> cases hp : p r <;> simp [TV.and3]

/-- a view (or CTE) defined as `SELECT * FROM t` is interchangeable with `t` itself in every
outer query, on every database whose rows have the declared width -/
theorem C32_star_view_is_table (env : Env) (db : Db) (name : Name) (i w : Nat) (rows : List Row) (outer : Core)
    (hc : lookupCI name env.ctes = none) (hv : lookupCI name env.views = some (selectStar i w))
    (ht : db.tables[i]? = some (w, rows)) (hw : ∀ r ∈ rows, r.length = w) :
    evalNamed env db name outer
      = (outer.reindex (fun j => if j = db.tables.length then i else j)).eval db := by
  rw [C32_view_eq_derived env db name _ outer hc hv]
  exact derived_wrap_identity db i w rows outer ht hw

/-- a query over a view only depends on the database through the tables it (and the view) read:
re-indexing lemma instantiated — the same query over two databases that agree table by table
gives the same result -/
theorem C32_depends_only_on_tables (d1 d2 : Db) (body outer : Core) (h : d1.tables = d2.tables) :
    evalDerived d1 body outer = evalDerived d2 body outer := by
  cases d1; cases d2; simp only at h; subst h; rfl

/-- non-vacuity: a CTE named like a view (up to case) shadows it -/
example :
    let c : Core := { from_ := .table 0, where_ := none, group := none, select := [.col 0], distinct := false, orderBy := [], limit := none, offset := 0 }
    let c2 : Core := { c with select := [.lit (.int 7)] }
    (match resolve { ctes := [(['V'], c2)], views := [(['v'], c)], tables := [(['t'], 0)] } ['v'] with
      | some (.cte b) => b.select.length == 1 | _ => false) = true := by
  decide

end VibeProof.C32
