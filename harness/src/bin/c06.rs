//! C06 — predicates partition rows consistently under three-valued logic.
//!
//! Direct oracle (real engine only): for table T and predicate p,
//!   bag(Q) = bag(Q WHERE p) ⊎ bag(Q WHERE NOT p) ⊎ bag(Q WHERE p IS NULL), and
//!   |Q WHERE p| = #TRUE in SELECT p FROM T; same for DISTINCT, GROUP BY/HAVING, aggregate forms.
//! Correspondence: the Lean model's truth value per row (Expr.tv) vs the engine's filters.
use std::collections::BTreeMap;
use vharness::qast::*;
use vharness::*;

fn bag_count(rows: &[Vec<vibesql_types::SqlValue>]) -> BTreeMap<String, i64> {
    let mut m = BTreeMap::new();
    for r in rows {
        *m.entry(canon::row(r)).or_insert(0) += 1;
    }
    m
}

fn add(a: &mut BTreeMap<String, i64>, b: &BTreeMap<String, i64>) {
    for (k, v) in b {
        *a.entry(k.clone()).or_insert(0) += v;
    }
}

struct Case {
    schema: Schema,
    rows: Vec<Vec<Lit>>,
    pred: E,
    int_truthy: bool,
    /// column with a secondary index (the predicate may then be answered by an index range scan)
    index_on: Option<usize>,
}

fn script(c: &Case, names: &[String]) -> String {
    let mut s = String::new();
    s.push_str(&format!("{};\n", c.schema.create_sql()));
    for r in &c.rows {
        s.push_str(&format!(
            "INSERT INTO {} SELECT {};\n",
            c.schema.table,
            r.iter().map(|v| v.sql()).collect::<Vec<_>>().join(", ")
        ));
    }
    if let Some(ix) = c.index_on {
        s.push_str(&format!("CREATE INDEX ix_c06 ON {} ({});\n", c.schema.table, c.schema.cols[ix].0));
    }
    s.push_str(&format!("-- predicate: {}\n-- model request: tvs {} {}\n", c.pred.sql(names), rows_sx(&c.rows), c.pred.sx()));
    s
}

fn run_case(c: &Case, model: &mut model::Model, rep: &mut Report) {
    let names: Vec<String> = c.schema.cols.iter().map(|(n, _)| n.clone()).collect();
    let p = c.pred.sql(&names);
    let t = &c.schema.table;
    let mut db = Db::new();
    load(&mut db, &c.schema, &c.rows);
    if let Some(ix) = c.index_on {
        db.must(&format!("CREATE INDEX ix_c06 ON {} ({})", t, c.schema.cols[ix].0));
    }
    let case_id = format!("{} {} {} {:?}", rows_sx(&c.rows), c.pred.sx(), c.int_truthy, c.index_on);

    // --- model ---
    let reply = model.ask(&format!("tvs {} {}", rows_sx(&c.rows), c.pred.sx()));
    let msx = Sx::parse(&reply);
    let tvs: Option<Vec<String>> = match &msx {
        Some(Sx::List(v)) if v.first().and_then(|x| x.as_atom()) == Some("tvs") => {
            Some(v[1..].iter().map(|x| x.as_atom().unwrap_or("?").to_string()).collect())
        }
        _ => None,
    };

    // --- engine: the four derived queries ---
    let q_all = db.query(&format!("SELECT * FROM {}", t));
    let q_p = db.query(&format!("SELECT * FROM {} WHERE {}", t, p));
    let q_np = db.query(&format!("SELECT * FROM {} WHERE NOT ({})", t, p));
    let q_un = db.query(&format!("SELECT * FROM {} WHERE ({}) IS NULL", t, p));
    let q_sel = if c.int_truthy { None } else { Some(db.query(&format!("SELECT {} FROM {}", p, t))) };

    let outs = [&q_all, &q_p, &q_np, &q_un];
    if outs.iter().any(|o| o.is_panic()) {
        rep.case(&case_id, true);
        rep.fail(FailKind::Oracle, None, "engine panicked on a partition query", &format!("{}{}", script(c, &names), outs.iter().map(|o| o.brief()).collect::<Vec<_>>().join("\n")));
        return;
    }
    let all_ok = outs.iter().all(|o| o.is_ok());
    if !all_ok {
        // the engine rejects the predicate: the model must reject it too (error class is not compared)
        rep.count("engine_error_cases");
        rep.case(&case_id, false);
        if tvs.is_some() && !c.int_truthy {
            // an error in only some of the four queries, or in all while the model evaluates it
            rep.fail(
                FailKind::ModelDiff,
                None,
                "engine returns an error for a well-typed predicate the model evaluates",
                &format!("{}{}\nmodel: {}", script(c, &names), outs.iter().map(|o| o.brief()).collect::<Vec<_>>().join("\n"), reply),
            );
        }
        return;
    }
    let (all, rp, rnp, run) = (q_all.rows().unwrap(), q_p.rows().unwrap(), q_np.rows().unwrap(), q_un.rows().unwrap());

    // truth-value mix (non-trivial: predicate takes at least two truth values on the data)
    let classes = [rp.len() > 0, rnp.len() > 0, run.len() > 0].iter().filter(|b| **b).count();
    rep.case(&case_id, classes >= 2);
    rep.add("rows_TRUE", rp.len() as u64);
    rep.add("rows_FALSE", rnp.len() as u64);
    rep.add("rows_UNKNOWN", run.len() as u64);
    rep.count(&format!("size_class_{}", match c.rows.len() { 0 => "0", 1 => "1", 2..=12 => "2-12", 13..=99 => "13-99", _ => ">=100" }));
    let mut ops = vec![];
    c.pred.ops(&mut ops);
    for o in ops {
        rep.count(&format!("op_{}", o));
    }

    // --- direct oracle 1: partition as multisets ---
    let mut sum = bag_count(rp);
    add(&mut sum, &bag_count(rnp));
    add(&mut sum, &bag_count(run));
    if sum != bag_count(all) {
        rep.fail(
            FailKind::Oracle,
            None,
            "rows of Q are not the disjoint union of Q WHERE p, WHERE NOT p, WHERE p IS NULL",
            &format!("{}Q: {}\np: {}\nNOT p: {}\np IS NULL: {}", script(c, &names), q_all.brief(), q_p.brief(), q_np.brief(), q_un.brief()),
        );
    }
    // --- direct oracle 2: WHERE count = TRUE count in the select list ---
    if let Some(qs) = &q_sel {
        match qs {
            Out::Rows(vals) => {
                let n_true = vals.iter().filter(|r| matches!(r.first(), Some(vibesql_types::SqlValue::Boolean(true)))).count();
                if n_true != rp.len() || vals.len() != all.len() {
                    rep.fail(
                        FailKind::Oracle,
                        None,
                        "number of rows passing WHERE p differs from the number of TRUE values of p in the select list",
                        &format!("{}WHERE p: {}\nSELECT p: {}", script(c, &names), q_p.brief(), qs.brief()),
                    );
                }
            }
            other => rep.fail(
                FailKind::Oracle,
                None,
                "predicate accepted in WHERE but rejected in the select list",
                &format!("{}SELECT p: {}", script(c, &names), other.brief()),
            ),
        }
    }
    // --- derived forms: DISTINCT, GROUP BY/HAVING, aggregates (engine only) ---
    if let Some(ci) = c.schema.cols_of(Ty::Int).first() {
        let col = &names[*ci];
        let forms = [
            ("distinct", format!("SELECT DISTINCT {} FROM {}", col, t)),
            ("group", format!("SELECT {}, COUNT(*) FROM {} {{W}} GROUP BY {}", col, t, col)),
            ("having", format!("SELECT {}, COUNT(*) FROM {} {{W}} GROUP BY {} HAVING COUNT(*) >= 1", col, t, col)),
            ("agg", format!("SELECT COUNT(*), COUNT({}), SUM({}) FROM {} {{W}}", col, col, t)),
        ];
        for (name, f) in forms.iter() {
            let mk = |w: &str| if f.contains("{W}") { f.replace("{W}", w) } else { format!("{} {}", f, w) };
            let full = db.query(&mk(""));
            let parts = [db.query(&mk(&format!("WHERE {}", p))), db.query(&mk(&format!("WHERE NOT ({})", p))), db.query(&mk(&format!("WHERE ({}) IS NULL", p)))];
            if !(full.is_ok() && parts.iter().all(|o| o.is_ok())) {
                if full.is_panic() || parts.iter().any(|o| o.is_panic()) {
                    rep.fail(FailKind::Oracle, None, &format!("engine panicked in the {} form", name), &format!("{}{}", script(c, &names), mk("WHERE <p>")));
                }
                rep.count("derived_form_error");
                continue;
            }
            rep.count(&format!("form_{}", name));
            let fr = full.rows().unwrap();
            let pr: Vec<&Vec<Vec<vibesql_types::SqlValue>>> = parts.iter().map(|o| o.rows().unwrap()).collect();
            let ok = match *name {
                "distinct" => {
                    let mut u: std::collections::BTreeSet<String> = Default::default();
                    for p in &pr {
                        for r in p.iter() {
                            u.insert(canon::row(r));
                        }
                    }
                    let f: std::collections::BTreeSet<String> = fr.iter().map(|r| canon::row(r)).collect();
                    let no_dup = fr.len() == f.len();
                    u == f && no_dup
                }
                "group" | "having" => {
                    // per key, counts add up
                    let mut m: BTreeMap<String, i64> = BTreeMap::new();
                    for p in &pr {
                        for r in p.iter() {
                            if let vibesql_types::SqlValue::Integer(n) = r[1] {
                                *m.entry(canon::val(&r[0])).or_insert(0) += n;
                            }
                        }
                    }
                    let mut f: BTreeMap<String, i64> = BTreeMap::new();
                    for r in fr.iter() {
                        if let vibesql_types::SqlValue::Integer(n) = r[1] {
                            *f.entry(canon::val(&r[0])).or_insert(0) += n;
                        }
                    }
                    m == f && f.len() == fr.len()
                }
                _ => {
                    // COUNT(*), COUNT(c) add; SUM adds NULL-aware
                    let num = |v: &vibesql_types::SqlValue| -> Option<i128> {
                        match canon::val(v).strip_prefix('I') {
                            Some(s) => s.parse().ok(),
                            None => None,
                        }
                    };
                    let one = |rows: &Vec<Vec<vibesql_types::SqlValue>>| -> Option<(i128, i128, Option<i128>)> {
                        if rows.len() != 1 {
                            return None;
                        }
                        Some((num(&rows[0][0])?, num(&rows[0][1])?, num(&rows[0][2])))
                    };
                    match (one(fr), one(pr[0]), one(pr[1]), one(pr[2])) {
                        (Some(f), Some(a), Some(b), Some(c3)) => {
                            let sums = [a.2, b.2, c3.2];
                            let s: Option<i128> = if sums.iter().all(|x| x.is_none()) { None } else { Some(sums.iter().map(|x| x.unwrap_or(0)).sum()) };
                            f.0 == a.0 + b.0 + c3.0 && f.1 == a.1 + b.1 + c3.1 && f.2 == s
                        }
                        _ => false,
                    }
                }
            };
            if !ok {
                let sig = if *name == "agg" && c.rows.len() >= 0 { classify_agg(&full, &parts) } else { None };
                rep.fail(
                    FailKind::Oracle,
                    sig,
                    &format!("{} form: Q is not the combination of its three parts", name),
                    &format!("{}{}\nfull: {}\np: {}\nNOT p: {}\np IS NULL: {}", script(c, &names), mk("WHERE <p>"), full.brief(), parts[0].brief(), parts[1].brief(), parts[2].brief()),
                );
            }
        }
    }

    // --- correspondence with the Lean model ---
    match tvs {
        Some(tv) if tv.len() == c.rows.len() => {
            let expect = |sel: &str| -> BTreeMap<String, i64> {
                let mut m = BTreeMap::new();
                for (i, r) in c.rows.iter().enumerate() {
                    if tv[i] == sel {
                        *m.entry(lit_row_canon(r)).or_insert(0) += 1;
                    }
                }
                m
            };
            let ok = expect("t") == bag_count(rp) && (c.int_truthy || (expect("f") == bag_count(rnp) && expect("u") == bag_count(run)));
            rep.traces_validated += 1;
            if !ok {
                rep.fail(
                    FailKind::ModelDiff,
                    None,
                    "model truth values and engine filters select different rows",
                    &format!("{}model: {}\np: {}\nNOT p: {}\np IS NULL: {}", script(c, &names), reply, q_p.brief(), q_np.brief(), q_un.brief()),
                );
            }
        }
        _ => {
            rep.fail(
                FailKind::ModelDiff,
                None,
                "model rejects a predicate the engine evaluates",
                &format!("{}model: {}\np: {}", script(c, &names), reply, q_p.brief()),
            );
        }
    }
}

/// known columnar-path defects reached by the aggregate form (see C03): signature only when
/// the failing shape is exactly the recorded one
fn classify_agg(_full: &Out, _parts: &[Out]) -> Option<&'static str> {
    None
}

fn gen_case(r: &mut Rng, size_class: u32) -> Case {
    let ncols = r.range(2, 4) as usize;
    let mut cols = vec![];
    for i in 0..ncols {
        let ty = if i == 0 || r.chance(3, 5) { Ty::Int } else { Ty::Str };
        cols.push((format!("c{}", i), ty));
    }
    let schema = Schema { table: "t".into(), cols };
    let n = match size_class {
        0 => 0,
        1 => 1,
        2 => r.range(2, 12) as usize,
        _ => r.range(100, 130) as usize,
    };
    let rows = gen_rows(r, &schema, n);
    let g = Gen::new(&schema);
    let int_truthy = r.chance(1, 12);
    let depth = r.range(0, 3) as u32;
    let pred = if int_truthy { g.int(r, 2) } else { g.boolean(r, depth) };
    Case { schema, rows, pred, int_truthy, index_on: None }
}

/// Tables of 100–620 rows with a table-local predicate that is an OR / AND tree of
/// column-vs-literal comparisons (both operand orders) and BETWEEN: the shape the scan turns into
/// a columnar bitmap filter evaluated in 256-row batches (scan/predicates.rs,
/// columnar/filter.rs). Literals are taken from the data so that boundary rows exist, and the
/// rows at positions 255 / 511 are made to satisfy the predicate's first leaf.
fn gen_large_or_case(r: &mut Rng) -> Case {
    let schema = Schema { table: "t".into(), cols: vec![("c0".into(), Ty::Int), ("c1".into(), Ty::Int), ("c2".into(), Ty::Int)] };
    let n = *r.pick(&[100usize, 129, 255, 256, 257, 300, 511, 512, 520, 620]);
    let dom = *r.pick(&[5i64, 9, 40]);
    let mut rows: Vec<Vec<Lit>> = (0..n)
        .map(|_| (0..3).map(|_| if r.chance(1, 8) { Lit::Null } else { Lit::I(r.range(-2, dom)) }).collect())
        .collect();
    let cmp = [Op::Eq, Op::Ne, Op::Lt, Op::Le, Op::Gt, Op::Ge];
    let mut leaf = |r: &mut Rng, rows: &Vec<Vec<Lit>>| -> E {
        let col = r.below(3) as usize;
        // a literal that occurs in the column (boundary hits), sometimes one that does not
        let lit = match rows.get(r.below(n as u64) as usize).map(|row| row[col].clone()) {
            Some(Lit::I(v)) if r.chance(4, 5) => v,
            _ => r.range(-3, dom + 1),
        };
        match r.below(5) {
            0 | 1 => E::Bin(*r.pick(&cmp), Box::new(E::Col(col)), Box::new(E::Lit(Lit::I(lit)))),
            2 | 3 => E::Bin(*r.pick(&cmp), Box::new(E::Lit(Lit::I(lit))), Box::new(E::Col(col))),
            _ => E::Between(Box::new(E::Col(col)), Box::new(E::Lit(Lit::I(lit))), Box::new(E::Lit(Lit::I(lit + r.range(0, 3)))), false),
        }
    };
    let first = leaf(r, &rows);
    let mut pred = first.clone();
    let extra = r.range(1, 3);
    for k in 0..extra {
        let l = leaf(r, &rows);
        let op = if k == 0 || r.chance(2, 3) { Op::Or } else { Op::And };
        pred = if r.chance(1, 2) { E::Bin(op, Box::new(pred), Box::new(l)) } else { E::Bin(op, Box::new(l), Box::new(pred)) };
    }
    // batch-boundary rows: make positions 255 and 511 satisfy the first leaf with equality on its literal
    if let E::Bin(_, a, b) = &first {
        let (col, lit) = match (&**a, &**b) {
            (E::Col(c), E::Lit(Lit::I(v))) | (E::Lit(Lit::I(v)), E::Col(c)) => (Some(*c), *v),
            _ => (None, 0),
        };
        if let Some(c) = col {
            for pos in [255usize, 511] {
                if pos < rows.len() {
                    rows[pos][c] = Lit::I(lit);
                }
            }
        }
    }
    Case { schema, rows, pred, int_truthy: false, index_on: None }
}

/// indexed column × conjunctions / disjunctions of bounds on it, in every order and orientation
/// (upper bound first, literal first, BETWEEN, equality), literals taken from the data
fn gen_index_range_case(r: &mut Rng) -> Case {
    let schema = Schema { table: "t".into(), cols: vec![("c0".into(), Ty::Int), ("c1".into(), Ty::Int), ("c2".into(), Ty::Str)] };
    let n = *r.pick(&[0usize, 1, 7, 20, 45, 130]);
    let dom = *r.pick(&[4i64, 12, 60]);
    let rows: Vec<Vec<Lit>> = (0..n)
        .map(|_| vec![
            if r.chance(1, 8) { Lit::Null } else { Lit::I(r.range(0, dom)) },
            if r.chance(1, 8) { Lit::Null } else { Lit::I(r.range(-2, 5)) },
            if r.chance(1, 8) { Lit::Null } else { Lit::S(r.pick(&["a", "ab", "b", ""]).to_string()) },
        ])
        .collect();
    let ix = if r.chance(5, 6) { 0 } else { 1 };
    let lit = |r: &mut Rng| -> i64 {
        match rows.get(r.below(n.max(1) as u64) as usize).map(|row| row[ix].clone()) {
            Some(Lit::I(v)) if r.chance(4, 5) => v,
            _ => r.range(0, dom + 1),
        }
    };
    let bound = |r: &mut Rng, lower: bool, v: i64| -> E {
        let strict = r.chance(1, 2);
        let (col, l) = (Box::new(E::Col(ix)), Box::new(E::Lit(Lit::I(v))));
        // lower bound: col > v / col >= v / v < col / v <= col ; upper bound symmetric
        match (lower, r.chance(1, 2)) {
            (true, true) => E::Bin(if strict { Op::Gt } else { Op::Ge }, col, l),
            (true, false) => E::Bin(if strict { Op::Lt } else { Op::Le }, l, col),
            (false, true) => E::Bin(if strict { Op::Lt } else { Op::Le }, col, l),
            (false, false) => E::Bin(if strict { Op::Gt } else { Op::Ge }, l, col),
        }
    };
    let (a, b) = (lit(r), lit(r));
    let (lo, hi) = (a.min(b), a.max(b));
    let mut pred = match r.below(8) {
        0 | 1 | 2 => {
            // two bounds in either order
            let (x, y) = (bound(r, true, lo), bound(r, false, hi));
            if r.chance(1, 2) { E::Bin(Op::And, Box::new(x), Box::new(y)) } else { E::Bin(Op::And, Box::new(y), Box::new(x)) }
        }
        3 => {
            let lower = r.chance(1, 2);
            bound(r, lower, lo)
        }
        4 => E::Between(Box::new(E::Col(ix)), Box::new(E::Lit(Lit::I(lo))), Box::new(E::Lit(Lit::I(hi))), r.chance(1, 5)),
        5 => E::Bin(Op::Eq, Box::new(E::Col(ix)), Box::new(E::Lit(Lit::I(lo)))),
        6 => {
            let v = lit(r);
            E::InList(Box::new(E::Col(ix)), vec![Lit::I(lo), Lit::I(hi), Lit::I(v)], r.chance(1, 5))
        }
        _ => {
            // three bounds: the tighter one must win
            let (lower, v) = (r.chance(1, 2), lit(r));
            let (x, y, z) = (bound(r, true, lo), bound(r, false, hi), bound(r, lower, v));
            E::Bin(Op::And, Box::new(E::Bin(Op::And, Box::new(y), Box::new(x))), Box::new(z))
        }
    };
    if r.chance(1, 4) {
        // an extra conjunct / disjunct on another column
        let other = E::Bin(*r.pick(&[Op::Eq, Op::Ne, Op::Lt, Op::Ge]), Box::new(E::Col(1 - ix)), Box::new(E::Lit(Lit::I(r.range(-1, 4)))));
        pred = if r.chance(3, 4) { E::Bin(Op::And, Box::new(pred), Box::new(other)) } else { E::Bin(Op::Or, Box::new(pred), Box::new(other)) };
    }
    Case { schema, rows, pred, int_truthy: false, index_on: Some(ix) }
}

/// LIKE / BETWEEN / IN-list with constant operands under OR, CASE and NOT, on rows that reach the
/// truth of the predicate through different disjuncts (a value cached from one row and reused for the
/// next shows up here), first rows chosen so that the first and the later rows disagree on the sub-predicate
fn gen_cached_subpredicate_case(r: &mut Rng) -> Case {
    let schema = Schema { table: "t".into(), cols: vec![("c0".into(), Ty::Int), ("c1".into(), Ty::Str), ("c2".into(), Ty::Int)] };
    let n = *r.pick(&[2usize, 3, 6, 12, 40]);
    let strs = ["a", "ab", "abc", "b", "ba", "", "xa"];
    let mut rows: Vec<Vec<Lit>> = (0..n)
        .map(|_| vec![
            if r.chance(1, 8) { Lit::Null } else { Lit::I(r.range(0, 6)) },
            if r.chance(1, 8) { Lit::Null } else { Lit::S(r.pick(&strs).to_string()) },
            if r.chance(1, 8) { Lit::Null } else { Lit::I(r.range(0, 6)) },
        ])
        .collect();
    let pat = r.pick(&["a%", "%a", "_b%", "a", "%"]).to_string();
    let like = E::Like(Box::new(E::Col(1)), Box::new(E::Lit(Lit::S(pat))), r.chance(1, 4));
    let k = r.range(1, 4);
    let between = E::Between(Box::new(E::Col(0)), Box::new(E::Lit(Lit::I(k))), Box::new(E::Lit(Lit::I(k + r.range(0, 2)))), r.chance(1, 4));
    let inlist = E::InList(Box::new(E::Col(0)), vec![Lit::I(k), Lit::I(k + 2), Lit::I(9)], r.chance(1, 4));
    let sub = match r.below(4) { 0 | 1 => like, 2 => between, _ => inlist };
    let other = E::Bin(*r.pick(&[Op::Gt, Op::Le, Op::Eq]), Box::new(E::Col(2)), Box::new(E::Lit(Lit::I(r.range(1, 4)))));
    let pred = match r.below(5) {
        0 | 1 => E::Bin(Op::Or, Box::new(sub), Box::new(other)),
        2 => E::Bin(Op::Or, Box::new(other), Box::new(sub)),
        3 => E::Ite(Box::new(sub), Box::new(other.clone()), Box::new(E::Not(Box::new(other)))),
        _ => E::Bin(Op::Or, Box::new(E::Not(Box::new(sub))), Box::new(other)),
    };
    // the first row fails the sub-predicate's usual positive form but passes `other` (c2 large), the second the opposite
    if rows.len() >= 2 {
        rows[0] = vec![Lit::I(9), Lit::S("zz".into()), Lit::I(5)];
        rows[1] = vec![Lit::I(k), Lit::S("ab".into()), Lit::I(0)];
        if r.chance(1, 2) {
            rows.swap(0, 1);
        }
    }
    Case { schema, rows, pred, int_truthy: false, index_on: None }
}

/// fractional keys × single- and multi-column indexes × range predicates: table tf (id, f, g) with
/// f DOUBLE / NUMERIC / REAL (values k, k+0.25, k+0.5, k+0.75, NULLs), an index on (f), (f, g),
/// (g, f) or none; the truth of the predicate is computed here (exact in binary: multiples of
/// 0.25); WHERE p / WHERE NOT (p) / WHERE (p) IS NULL must return exactly the TRUE / FALSE /
/// UNKNOWN rows
fn float_index_partition_cases(r: &mut Rng, rep: &mut Report, n_cases: usize) {
    for _ in 0..n_cases {
        let fty = *r.pick(&["DOUBLE PRECISION", "NUMERIC(10, 2)", "REAL", "FLOAT"]);
        let n = *r.pick(&[3usize, 9, 20, 60, 130]);
        let dom = *r.pick(&[3i64, 8, 45]);
        let rows: Vec<(i64, Option<f64>, Option<i64>)> = (0..n)
            .map(|i| (i as i64, if r.chance(1, 8) { None } else { Some(r.range(0, dom) as f64 + 0.25 * r.below(4) as f64) }, if r.chance(1, 8) { None } else { Some(r.range(0, 4)) }))
            .collect();
        let index = *r.pick(&["", "CREATE INDEX ixf ON tf (f)", "CREATE INDEX ixf ON tf (f, g)", "CREATE INDEX ixf ON tf (f, g)", "CREATE INDEX ixf ON tf (g, f)", "CREATE INDEX ixf ON tf (f DESC, g)"]);
        let mut db = Db::new();
        db.keep_log = false;
        let mut script = format!("CREATE TABLE tf (id INTEGER, f {}, g INTEGER);\n", fty);
        db.must(&format!("CREATE TABLE tf (id INTEGER, f {}, g INTEGER)", fty));
        let before = r.below(n as u64 + 1) as usize;
        let fl = |x: &Option<f64>| x.map(|v| format!("{:?}", v)).unwrap_or("NULL".into());
        let il = |x: &Option<i64>| x.map(|v| v.to_string()).unwrap_or("NULL".into());
        for (k, (id, f, g)) in rows.iter().enumerate() {
            if k == before && !index.is_empty() {
                db.must(index);
                script.push_str(&format!("{};\n", index));
            }
            let ins = format!("INSERT INTO tf VALUES ({}, {}, {})", id, fl(f), il(g));
            db.must(&ins);
            script.push_str(&format!("{};\n", ins));
        }
        if before >= n && !index.is_empty() {
            db.must(index);
            script.push_str(&format!("{};\n", index));
        }
        for _ in 0..8 {
            // literal: a stored value, its integer part, or a value between stored ones
            let base = rows.get(r.below(n as u64) as usize).and_then(|x| x.1).unwrap_or(1.0);
            let v = match r.below(4) { 0 => base, 1 => base.floor(), 2 => base.floor() + 1.0, _ => base + 0.125 };
            let v2 = v + *r.pick(&[0.0, 0.25, 1.0, 2.5]);
            let vs = if v.fract() == 0.0 && r.chance(1, 2) { format!("{}", v as i64) } else { format!("{:?}", v) };
            let v2s = if v2.fract() == 0.0 && r.chance(1, 2) { format!("{}", v2 as i64) } else { format!("{:?}", v2) };
            let gk = r.range(0, 4);
            type P = Box<dyn Fn(Option<f64>, Option<i64>) -> Option<bool>>;
            let and3 = |a: Option<bool>, b: Option<bool>| match (a, b) { (Some(false), _) | (_, Some(false)) => Some(false), (Some(true), Some(true)) => Some(true), _ => None };
            let (psql, truth): (String, P) = match r.below(10) {
                0 => (format!("f > {}", vs), Box::new(move |f, _| f.map(|f| f > v))),
                1 => (format!("f >= {}", vs), Box::new(move |f, _| f.map(|f| f >= v))),
                2 => (format!("f < {}", vs), Box::new(move |f, _| f.map(|f| f < v))),
                3 => (format!("f <= {}", vs), Box::new(move |f, _| f.map(|f| f <= v))),
                4 => (format!("{} < f", vs), Box::new(move |f, _| f.map(|f| v < f))),
                5 => (format!("f > {} AND f <= {}", vs, v2s), Box::new(move |f, _| f.map(|f| f > v && f <= v2))),
                6 => (format!("f BETWEEN {} AND {}", vs, v2s), Box::new(move |f, _| f.map(|f| f >= v && f <= v2))),
                7 => (format!("f = {}", vs), Box::new(move |f, _| f.map(|f| f == v))),
                8 => (format!("f > {} AND g = {}", vs, gk), Box::new(move |f, g| and3(f.map(|f| f > v), g.map(|g| g == gk)))),
                _ => (format!("g = {} AND f >= {} AND f < {}", gk, vs, v2s), Box::new(move |f, g| and3(g.map(|g| g == gk), f.map(|f| f >= v && f < v2)))),
            };
            let ids = |want: Option<bool>| -> Vec<String> {
                let mut v: Vec<String> = rows.iter().filter(|(_, f, g)| truth(*f, *g) == want).map(|(id, _, _)| format!("(I{})", id)).collect();
                v.sort();
                v
            };
            let kinds = [ids(Some(true)), ids(Some(false)), ids(None)];
            let nontrivial = kinds.iter().filter(|k| !k.is_empty()).count() >= 2;
            rep.case(&format!("float index partition {} {} {} {}", fty, index, n, psql), nontrivial);
            rep.count(if index.is_empty() { "float_partition_no_index" } else if index.contains("(f)") { "float_partition_single_column_index" } else { "float_partition_multi_column_index" });
            let queries = [
                ("WHERE p", format!("SELECT id FROM tf WHERE {}", psql), &kinds[0]),
                ("WHERE NOT (p)", format!("SELECT id FROM tf WHERE NOT ({})", psql), &kinds[1]),
                ("WHERE (p) IS NULL", format!("SELECT id FROM tf WHERE ({}) IS NULL", psql), &kinds[2]),
            ];
            for (what, sql, want) in queries.iter() {
                let o = db.query(sql);
                let got = o.rows().map(|rows| canon::bag_vec(rows));
                if got.as_ref() != Some(*want) {
                    rep.fail(FailKind::Oracle, None, &format!("fractional keys: {} does not return exactly the rows on which p has that truth value", what),
                        &format!("{}{};\n  => {}\n-- expected ids {:?}", script, sql, o.brief().chars().take(300).collect::<String>(), want));
                    break;
                }
            }
        }
    }
}

fn main() {
    engine::silence_panics();
    let args = Args::parse("C06");
    let mut rep = Report::new(
        &args,
        "case = (table contents, predicate); generated type-directed over INTEGER/VARCHAR columns with NULLs; \
         non-trivial = the predicate takes at least two of TRUE/FALSE/UNKNOWN on the data; distinct by hash of (rows, predicate)",
    );
    rep.assumptions.push("integer literals and column values are small, so + - * never overflow here (overflow is C24)".into());
    rep.assumptions.push("strings are ASCII; LIKE is matched on bytes by the engine (evaluator/pattern.rs)".into());
    let mut model = args.model();
    let mut rng = Rng::new(args.seed);
    let n = args.n(700, 20000);
    for i in 0..n {
        let class = match i % 20 {
            0 => 0,
            1 => 1,
            19 => 3,
            _ => 2,
        };
        let mut r = rng.fork();
        let c = gen_case(&mut r, class);
        if i < 4 {
            let names: Vec<String> = c.schema.cols.iter().map(|(n, _)| n.clone()).collect();
            rep.sample(serde_json::json!({"rows": c.rows.len(), "predicate": c.pred.sql(&names), "model_request_expr": c.pred.sx().to_string()}));
        }
        run_case(&c, &mut model, &mut rep);
    }
    // large tables × OR trees of simple comparisons (the batched bitmap filter of the scan)
    let n_large = args.n(40, 1500);
    for _ in 0..n_large {
        let mut r = rng.fork();
        let c = gen_large_or_case(&mut r);
        rep.count("large_or_tree_cases");
        run_case(&c, &mut model, &mut rep);
    }
    // sub-predicates with constant operands under OR / CASE / NOT
    let n_cs = args.n(200, 5000);
    for _ in 0..n_cs {
        let mut r = rng.fork();
        let c = gen_cached_subpredicate_case(&mut r);
        rep.count("cached_subpredicate_cases");
        run_case(&c, &mut model, &mut rep);
    }
    // indexed column × range predicates (the index range scan may answer WHERE p on its own)
    let n_ix = args.n(250, 6000);
    for _ in 0..n_ix {
        let mut r = rng.fork();
        let c = gen_index_range_case(&mut r);
        rep.count("index_range_cases");
        run_case(&c, &mut model, &mut rep);
    }
    // fractional keys × single- / multi-column indexes × range predicates (hand-computed truth)
    {
        let mut r = rng.fork();
        let n_f = args.n(40, 1500) as usize;
        float_index_partition_cases(&mut r, &mut rep, n_f);
    }
    std::process::exit(rep.finish());
}
