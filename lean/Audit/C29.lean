import VibeProof.Props.C29
#print axioms VibeProof.C29.C29_cleartext_iff
#print axioms VibeProof.C29.C29_cleartext_created
#print axioms VibeProof.C29.C29_cleartext_exact
#print axioms VibeProof.C29.C29_cleartext_unknown_user
#print axioms VibeProof.C29.C29_cleartext_other_format
#print axioms VibeProof.C29.C29_cleartext_md5_entry
#print axioms VibeProof.C29.C29_cleartext_unparsable
#print axioms VibeProof.C29.C29_md5_iff
#print axioms VibeProof.C29.C29_md5_iff_simple
#print axioms VibeProof.C29.C29_md5_partial
#print axioms VibeProof.C29.C29_md5_bare_digest_accepted
#print axioms VibeProof.C29.C29_md5_counterexample
#print axioms VibeProof.C29.C29_md5_unknown_user
#print axioms VibeProof.C29.C29_md5_other_format
#print axioms VibeProof.C29.C29_md5_argon2_entry
#print axioms VibeProof.C29.C29_md5_accept_implies_md5_entry
#print axioms VibeProof.C29.C29_md5_non_md5_secret_rejects_all
