import VibeProof.Model.Priv
/-
C26 — access control is complete and follows the GRANT/REVOKE history.

Model: `Model/Priv.lean` (privilege store, GRANT/REVOKE executors, `check_privilege`,
statement footprints), as coded.
-/
namespace VibeProof.C26
open VibeProof.Priv

/-! ## the store follows the history -/

theorem hasPrivilege_addGrant (gs : Grants) (x : Grant) (g o : String) (p : Priv) :
    hasPrivilege (addGrant gs x) g o p = (hasPrivilege gs g o p || x.isFor g o p) := by
  simp [hasPrivilege, addGrant, List.any_append]

theorem isFor_iff (x : Grant) (g o : String) (p : Priv) :
    x.isFor g o p = true ↔ x.grantee = g ∧ x.object = o ∧ x.privilege = p := by
  simp [Grant.isFor, and_assoc]

theorem hasPrivilege_revoke (gs : Grants) (o' g' : String) (p' : Priv) (g o : String) (p : Priv) :
    hasPrivilege (removeGrants gs o' g' p' false) g o p
      = (if g' = g ∧ o' = o ∧ p' = p then false else hasPrivilege gs g o p) := by
  induction gs with
  | nil => simp [hasPrivilege, removeGrants]
  | cons x xs ih =>
    simp only [removeGrants, hasPrivilege] at ih ⊢
    simp only [Bool.false_eq_true, if_false] at ih ⊢
    by_cases hx' : x.isFor g' o' p' = true
    · -- x is removed
      simp only [List.filter_cons, hx', Bool.not_true, Bool.false_eq_true, if_false, ih, List.any_cons]
      by_cases hsame : g' = g ∧ o' = o ∧ p' = p
      · simp [hsame]
      · simp only [hsame, if_false]
        have : x.isFor g o p = false := by
          cases h : x.isFor g o p with
          | false => rfl
          | true =>
            exfalso; apply hsame
            have h1 := (isFor_iff x g' o' p').mp hx'
            have h2 := (isFor_iff x g o p).mp h
            exact ⟨h1.1.symm.trans h2.1, h1.2.1.symm.trans h2.2.1, h1.2.2.symm.trans h2.2.2⟩
        simp [this]
    · -- x is kept
      have hx'f : x.isFor g' o' p' = false := by simpa using hx'
      simp only [List.filter_cons, hx'f, Bool.not_false, if_true, List.any_cons, ih]
      by_cases hsame : g' = g ∧ o' = o ∧ p' = p
      · simp only [hsame, and_self, if_true, Bool.or_false]
        obtain ⟨h1, h2, h3⟩ := hsame
        subst h1; subst h2; subst h3
        exact hx'f
      · simp [hsame]

theorem hasPrivilege_revokeOption (gs : Grants) (o' g' : String) (p' : Priv) (g o : String) (p : Priv) :
    hasPrivilege (removeGrants gs o' g' p' true) g o p = hasPrivilege gs g o p := by
  simp only [removeGrants, hasPrivilege, if_true, List.any_map]
  congr 1
  funext x
  simp only [Function.comp]
  split <;> rfl

theorem hasPrivilege_applyOp (gs : Grants) (op : Op) (g o : String) (p : Priv) :
    hasPrivilege (applyOp gs op) g o p
      = (match touch g o p op with | some b => b | none => hasPrivilege gs g o p) := by
  cases op with
  | grant x =>
    simp only [applyOp, touch, hasPrivilege_addGrant]
    by_cases h : x.isFor g o p = true
    · simp [h]
    · have : x.isFor g o p = false := by simpa using h
      simp [this]
  | revoke o' g' p' =>
    simp only [applyOp, touch, hasPrivilege_revoke]
    by_cases h : g' = g ∧ o' = o ∧ p' = p <;> simp [h]
  | revokeOption o' g' p' =>
    simp [applyOp, touch, hasPrivilege_revokeOption]

/-- **History theorem.** After any history of grants and revokes, a role holds a privilege on
    an object exactly when the last operation concerning that (grantee, object, privilege)
    triple — compared by exact string equality, as coded — is a grant; if the history never
    mentions the triple, the initial store decides. -/
theorem C26_history (h : List Op) (gs : Grants) (g o : String) (p : Priv) :
    hasPrivilege (run gs h) g o p
      = (match lastTouch g o p h with | some b => b | none => hasPrivilege gs g o p) := by
  induction h generalizing gs with
  | nil => simp [run, lastTouch]
  | cons op rest ih =>
    have hr : run gs (op :: rest) = run (applyOp gs op) rest := by simp [run]
    rw [hr, ih]
    simp only [lastTouch]
    cases hl : lastTouch g o p rest with
    | some b => simp
    | none => simp [hasPrivilege_applyOp]

/-- from the empty store: held ⇔ the last operation on the triple is a grant -/
theorem C26_history_from_empty (h : List Op) (g o : String) (p : Priv) :
    hasPrivilege (run [] h) g o p = true ↔ lastTouch g o p h = some true := by
  rw [C26_history]
  cases hl : lastTouch g o p h with
  | none => simp [hasPrivilege]
  | some b => cases b <;> simp

/-- names are compared exactly: a grant to `R1` says nothing about `r1`; a grant of
    column-level SELECT is not the table-level SELECT that `check_select` asks for -/
theorem C26_exact_names :
    let g : Grant := ⟨"T", .select none, "R1", "PUBLIC", false⟩
    hasPrivilege [g] "R1" "T" (.select none) = true ∧ hasPrivilege [g] "r1" "T" (.select none) = false
      ∧ hasPrivilege [g] "R1" "t" (.select none) = false
      ∧ hasPrivilege [⟨"T", .select (some ["A"]), "R1", "PUBLIC", false⟩] "R1" "T" (.select none) = false := by
  decide

/-- non-vacuity of the history theorem: grant, revoke, grant again, and an unrelated revoke -/
example :
    let g : Grant := ⟨"T", .select none, "R1", "PUBLIC", false⟩
    let h := [Op.grant g, .revoke "T" "R1" (.select none), .grant g, .revoke "T" "R2" (.select none),
              .revokeOption "T" "R1" (.select none)]
    lastTouch "R1" "T" (.select none) h = some true ∧ hasPrivilege (run [] h) "R1" "T" (.select none) = true
      ∧ lastTouch "R1" "T" (.select none) (h ++ [.revoke "T" "R1" (.select none)]) = some false := by
  decide

/-! ## the decision logic -/

theorem firstDenied_allow_iff (sec : Bool) (role : String) (gs : Grants) (cs : List Check) :
    firstDenied sec role gs cs = .allow ↔ ∀ c ∈ cs, checkPrivilege sec role gs c = true := by
  induction cs with
  | nil => simp [firstDenied]
  | cons c cs ih =>
    simp only [firstDenied]
    by_cases h : checkPrivilege sec role gs c = true
    · simp [h, ih]
    · simp [h]

theorem firstDenied_deny (sec : Bool) (role : String) (gs : Grants) (cs : List Check) (c : Check)
    (h : firstDenied sec role gs cs = .deny c) : c ∈ cs ∧ checkPrivilege sec role gs c = false := by
  induction cs with
  | nil => simp [firstDenied] at h
  | cons d ds ih =>
    simp only [firstDenied] at h
    by_cases hd : checkPrivilege sec role gs d = true
    · simp only [hd, if_true] at h
      have := ih h
      exact ⟨List.mem_cons_of_mem _ this.1, this.2⟩
    · simp only [hd] at h
      have hd' : checkPrivilege sec role gs d = false := by simpa using hd
      have : d = c := by simpa using h
      subst this
      exact ⟨List.mem_cons_self, hd'⟩

theorem checkPrivilege_false_iff (sec : Bool) (role : String) (gs : Grants) (c : Check) :
    checkPrivilege sec role gs c = false ↔
      sec = true ∧ isAdmin role = false ∧ hasPrivilege gs role c.object c.access.priv = false := by
  unfold checkPrivilege
  cases sec <;> cases isAdmin role <;> cases hasPrivilege gs role c.object c.access.priv <;> simp

/-- **Allow is exactly: security off, or an admin role, or every needed privilege is held.**
    (Security disabled and the roles of `privAdminRoles` are the only bypasses.) -/
theorem C26_allow_iff (sec : Bool) (role : String) (gs : Grants) (s : Stmt) :
    authorize sec role gs s = .allow ↔
      (sec = false ∨ isAdmin role = true ∨
        ∀ c ∈ s.checks, hasPrivilege gs role c.object c.access.priv = true) := by
  unfold authorize
  rw [firstDenied_allow_iff]
  constructor
  · intro h
    cases hs : sec with
    | false => exact Or.inl rfl
    | true =>
      cases ha : isAdmin role with
      | true => exact Or.inr (Or.inl rfl)
      | false =>
        refine Or.inr (Or.inr ?_)
        intro c hc
        have := h c hc
        simpa [checkPrivilege, hs, ha] using this
  · intro h c hc
    rcases h with h | h | h
    · simp [checkPrivilege, h]
    · simp [checkPrivilege, h]
    · simp [checkPrivilege, h c hc]

/-- a denial names a check the statement needs and the role does not hold, under enabled
    security and a non-admin role -/
theorem C26_deny_sound (sec : Bool) (role : String) (gs : Grants) (s : Stmt) (c : Check)
    (h : authorize sec role gs s = .deny c) :
    c ∈ s.checks ∧ sec = true ∧ isAdmin role = false ∧ hasPrivilege gs role c.object c.access.priv = false := by
  have := firstDenied_deny sec role gs s.checks c h
  exact ⟨this.1, (checkPrivilege_false_iff sec role gs c).mp this.2⟩

/-- **Reads are complete.** If the statement reads (at any depth: FROM items, subqueries of
    any clause, view bodies, INSERT … SELECT sources) a table on which the role does not hold
    SELECT, the decision is deny. -/
theorem C26_read_without_select_denied (sec : Bool) (role : String) (gs : Grants) (s : Stmt)
    (hsec : sec = true) (hrole : isAdmin role = false)
    (h : ∃ t ∈ s.reads, hasPrivilege gs role t (.select none) = false) :
    ∃ c, authorize sec role gs s = .deny c := by
  cases ha : authorize sec role gs s with
  | deny c => exact ⟨c, rfl⟩
  | allow =>
    exfalso
    obtain ⟨t, ht, hp⟩ := h
    rcases (C26_allow_iff sec role gs s).mp ha with h1 | h1 | h1
    · simp [hsec] at h1
    · simp [hrole] at h1
    · have hc : (⟨.select, t⟩ : Check) ∈ s.checks := by
        simp only [Stmt.checks, List.mem_append, List.mem_map]
        exact Or.inr ⟨t, ht, rfl⟩
      have := h1 _ hc
      simp [Access.priv, hp] at this

/-- **Writes need the matching privilege**, and it is the first thing checked: the denial
    names exactly the write check. -/
theorem C26_write_without_privilege_denied (sec : Bool) (role : String) (gs : Grants) (s : Stmt) (c : Check)
    (hsec : sec = true) (hrole : isAdmin role = false) (hw : s.write = some c)
    (hp : hasPrivilege gs role c.object c.access.priv = false) :
    authorize sec role gs s = .deny c := by
  unfold authorize Stmt.checks
  simp [hw, firstDenied, checkPrivilege, hsec, hrole, hp]

/-- **Monotonicity**: granting never turns allow into deny. -/
theorem C26_monotone (sec : Bool) (role : String) (gs : Grants) (s : Stmt) (x : Grant)
    (h : authorize sec role gs s = .allow) : authorize sec role (addGrant gs x) s = .allow := by
  rw [C26_allow_iff] at h ⊢
  rcases h with h | h | h
  · exact Or.inl h
  · exact Or.inr (Or.inl h)
  · refine Or.inr (Or.inr ?_)
    intro c hc
    rw [hasPrivilege_addGrant, h c hc]
    rfl

/-- **Every table of a multi-table statement is protected**: TRUNCATE (multi-table, or CASCADE
    over the foreign-key dependents) and DROP TABLE are denied as soon as DELETE is missing on
    *any one* of the tables they would empty — holding it on the root is not enough. -/
theorem C26_truncate_needs_delete_on_every_table (sec : Bool) (role : String) (gs : Grants)
    (ts : List String) (hsec : sec = true) (hrole : isAdmin role = false)
    (h : ∃ t ∈ ts, hasPrivilege gs role t .delete = false) :
    ∃ c, authorize sec role gs (.truncate ts) = .deny c := by
  cases ha : authorize sec role gs (.truncate ts) with
  | deny c => exact ⟨c, rfl⟩
  | allow =>
    exfalso
    obtain ⟨t, ht, hp⟩ := h
    rcases (C26_allow_iff sec role gs (.truncate ts)).mp ha with h1 | h1 | h1
    · simp [hsec] at h1
    · simp [hrole] at h1
    · have hc : (⟨.delete, t⟩ : Check) ∈ (Stmt.truncate ts).checks := by
        simp only [Stmt.checks, Stmt.write, Stmt.moreWrites, Stmt.reads, List.mem_append, List.mem_map]
        exact Or.inl (Or.inr ⟨t, ht, rfl⟩)
      have := h1 _ hc
      simp [Access.priv, hp] at this

/-- non-vacuity: DELETE on the parent only does not authorise TRUNCATE parent CASCADE -/
example : authorize true "R1" [⟨"P", .delete, "R1", "PUBLIC", false⟩] (.truncate ["C", "P"]) = .deny ⟨.delete, "C"⟩
    ∧ authorize true "R1" [⟨"P", .delete, "R1", "PUBLIC", false⟩, ⟨"C", .delete, "R1", "PUBLIC", false⟩]
        (.truncate ["C", "P"]) = .allow := by
  decide

/-! ## deny is inert; what the caller sees -/

/-- **Deny is inert**: whatever the statement would do, a denied statement leaves the
    database as it was. -/
theorem C26_deny_inert {DB : Type} (sec : Bool) (role : String) (gs : Grants) (s : Stmt)
    (effect : DB → DB) (db : DB) (c : Check) (h : authorize sec role gs s = .deny c) :
    (step sec role gs s effect db).1 = db := by
  unfold step
  rw [h]
  cases s <;> simp
  split <;> rfl

/-- full statement: a statement lacking a privilege *fails* with a permission error and
    changes nothing -/
def C26_full : Prop :=
  ∀ (sec : Bool) (role : String) (gs : Grants) (s : Stmt) (effect : Nat → Nat) (db : Nat),
    (∃ c ∈ s.checks, checkPrivilege sec role gs c = false) →
    ∃ c, step sec role gs s effect db = (db, .permissionDenied c)

/-- part that holds as coded: every statement except a DELETE whose own DELETE privilege is
    held while a table read by its WHERE clause is not readable -/
theorem C26_deny_fails_partial {DB : Type} (sec : Bool) (role : String) (gs : Grants) (s : Stmt)
    (effect : DB → DB) (db : DB)
    (hx : ∀ t q, s = .delete t q → checkPrivilege sec role gs ⟨.delete, t⟩ = false)
    (h : ∃ c ∈ s.checks, checkPrivilege sec role gs c = false) :
    ∃ c, step sec role gs s effect db = (db, .permissionDenied c) := by
  have hd : ∃ c, authorize sec role gs s = .deny c := by
    cases ha : authorize sec role gs s with
    | deny c => exact ⟨c, rfl⟩
    | allow =>
      exfalso
      obtain ⟨c, hc, hf⟩ := h
      have := (firstDenied_allow_iff sec role gs s.checks).mp ha c hc
      simp [hf] at this
  obtain ⟨c, hc⟩ := hd
  refine ⟨c, ?_⟩
  unfold step
  rw [hc]
  cases s with
  | select q => rfl
  | insert t q => rfl
  | update t q => rfl
  | truncate ts => rfl
  | delete t q =>
    have hdel := hx t q rfl
    have : c = ⟨.delete, t⟩ := by
      unfold authorize Stmt.checks at hc
      simp [Stmt.write, Stmt.moreWrites, firstDenied, hdel] at hc
      exact hc.symm
    simp [this]

/-- non-vacuity of the partial theorem's hypotheses -/
example : ∃ c, step true "R1" [] (.insert "W" (.table "U")) (fun (n : Nat) => n + 1) 0 = (0, .permissionDenied c) :=
  C26_deny_fails_partial true "R1" [] _ _ 0 (by intro t q h; cases h) ⟨⟨.insert, "W"⟩, by decide⟩

/-- as coded the full statement is false: `DELETE FROM w WHERE a IN (SELECT a FROM u)` by a
    role holding DELETE on `W` but not SELECT on `U` reports success (nothing deleted) -/
theorem C26_delete_counterexample : ¬ C26_full := by
  intro h
  have := h true "R1" [⟨"W", .delete, "R1", "PUBLIC", false⟩] (.delete "W" (.table "U")) (fun n => n + 1) 0
    ⟨⟨.select, "U"⟩, by decide⟩
  obtain ⟨c, hc⟩ := this
  have h2 : step true "R1" [⟨"W", .delete, "R1", "PUBLIC", false⟩] (.delete "W" (.table "U")) (fun n => n + 1) 0
      = (0, .inertSuccess) := by decide
  rw [h2] at hc
  cases hc

/-! ## statement-level GRANT / REVOKE -/

theorem hasPrivilege_foldl_addGrant (news : List Grant) (gs : Grants) (g o : String) (p : Priv) :
    hasPrivilege (news.foldl addGrant gs) g o p = (hasPrivilege gs g o p || news.any (fun x => x.isFor g o p)) := by
  induction news generalizing gs with
  | nil => simp
  | cons x xs ih => simp [List.foldl_cons, ih, hasPrivilege_addGrant, Bool.or_assoc]

/-- **GRANT is effective**: after a successful GRANT every grantee holds every granted
    privilege (ALL PRIVILEGES expanded as coded) on the object. -/
theorem C26_grant_effective (c c' : Cat) (cur : String) (privs : List Priv) (o : String) (gts : List String)
    (wgo : Bool) (h : execGrant c cur privs o gts wgo = .ok c') (g : String) (hg : g ∈ gts)
    (p : Priv) (hp : p ∈ expand privs) : hasPrivilege c'.grants g o p = true := by
  unfold execGrant at h
  split at h
  · cases h
  · split at h
    · cases h
    · injection h with h
      subst h
      simp only [hasPrivilege_foldl_addGrant, Bool.or_eq_true, List.any_eq_true, List.mem_flatMap, List.mem_map]
      refine Or.inr ⟨⟨o, p, g, cur, wgo⟩, ⟨g, hg, p, hp, rfl⟩, ?_⟩
      simp [Grant.isFor]

theorem removeGrants_keeps_absent (gs : Grants) (o' g' : String) (p' : Priv) (b : Bool) (g o : String) (p : Priv)
    (h : hasPrivilege gs g o p = false) : hasPrivilege (removeGrants gs o' g' p' b) g o p = false := by
  cases b with
  | true => rw [hasPrivilege_revokeOption]; exact h
  | false => rw [hasPrivilege_revoke]; split <;> simp [h]

theorem revokeCascade_keeps_absent (fuel : Nat) (gs gs' : Grants) (o gr : String) (p' : Priv) (b : Bool)
    (g : String) (p : Priv) (hr : revokeCascade fuel gs o gr p' b = .ok gs')
    (h : hasPrivilege gs g o p = false) : hasPrivilege gs' g o p = false := by
  induction fuel generalizing gs gs' gr with
  | zero => simp [revokeCascade] at hr
  | succ f ih =>
    simp only [revokeCascade] at hr
    generalize ((gs.filter (fun x => x.object == o && x.grantor == gr && x.privilege == p')).map (·.grantee)) = deps at hr
    induction deps generalizing gs with
    | nil => simp [List.foldlM, pure, Except.pure] at hr; subst hr; exact h
    | cons d ds ihd =>
      simp only [List.foldlM_cons, bind, Except.bind] at hr
      split at hr
      · cases hr
      · rename_i gs1 hgs1
        exact ihd gs1 (ih _ _ _ hgs1 (removeGrants_keeps_absent gs o d p' b g o p h)) hr

/-- **REVOKE is effective** (plain, RESTRICT or CASCADE; not GRANT OPTION FOR): after a
    successful REVOKE no named grantee holds any of the revoked privileges on the object. -/
theorem C26_revoke_effective (fuel : Nat) (c c' : Cat) (privs : List Priv) (o : String) (gts : List String)
    (casc : Cascade) (h : execRevoke fuel c privs o gts false casc = .ok c') (g : String) (hg : g ∈ gts)
    (p : Priv) (hp : p ∈ expand privs) : hasPrivilege c'.grants g o p = false := by
  unfold execRevoke at h
  split at h
  · cases h
  · split at h
    · cases h
    · simp only at h
      split at h
      · cases h
      · simp only [bind, Except.bind, pure, Except.pure] at h
        split at h
        · cases h
        · rename_i gsf hfold
          injection h with h
          subst h
          simp only
          have hmem : (g, p) ∈ gts.flatMap (fun g => (expand privs).map (fun p => (g, p))) := by
            simp only [List.mem_flatMap, List.mem_map]
            exact ⟨g, hg, p, hp, rfl⟩
          generalize gts.flatMap (fun g => (expand privs).map (fun p => (g, p))) = pairs at hfold hmem
          -- invariant of the fold: once (g,p) has been processed the privilege is gone for good
          have key : ∀ (pairs : List (String × Priv)) (gs0 gsf : Grants),
              pairs.foldlM (fun gs gp =>
                let gs1 := removeGrants gs o gp.1 gp.2 false
                if casc == .cascade then revokeCascade fuel gs1 o gp.1 gp.2 false else Except.ok gs1) gs0 = .ok gsf →
              ((g, p) ∈ pairs ∨ hasPrivilege gs0 g o p = false) → hasPrivilege gsf g o p = false := by
            intro pairs
            induction pairs with
            | nil =>
              intro gs0 gsf hf hor
              simp [List.foldlM, pure, Except.pure] at hf
              subst hf
              rcases hor with hm | ha
              · cases hm
              · exact ha
            | cons gp rest ihp =>
              intro gs0 gsf hf hor
              simp only [List.foldlM_cons, bind, Except.bind] at hf
              split at hf
              · cases hf
              · rename_i gs1 hstep
                apply ihp gs1 gsf hf
                -- after this step: either (g,p) is still to come, or it is absent now
                by_cases hhere : gp = (g, p)
                · right
                  subst hhere
                  have hrem : hasPrivilege (removeGrants gs0 o g p false) g o p = false := by
                    rw [hasPrivilege_revoke]; simp
                  by_cases hc : (casc == Cascade.cascade) = true
                  · simp only [hc, if_true] at hstep
                    exact revokeCascade_keeps_absent fuel _ _ o g p false g p hstep hrem
                  · simp only [hc] at hstep
                    injection hstep with hstep
                    subst hstep
                    exact hrem
                · rcases hor with hm | ha
                  · left
                    rcases List.mem_cons.mp hm with heq | hm'
                    · exact absurd heq.symm hhere
                    · exact hm'
                  · right
                    have hrem := removeGrants_keeps_absent gs0 o gp.1 gp.2 false g o p ha
                    by_cases hc : (casc == Cascade.cascade) = true
                    · simp only [hc, if_true] at hstep
                      exact revokeCascade_keeps_absent fuel _ _ o gp.1 gp.2 false g p hstep hrem
                    · simp only [hc] at hstep
                      injection hstep with hstep
                      subst hstep
                      exact hrem
          exact key pairs c.grants gsf hfold (Or.inl hmem)

/-- non-vacuity: a cascading revoke over a chain of grantors succeeds and removes the chain -/
example :
    let c : Cat := ⟨["R1", "R2"], ["T"], [⟨"T", .select none, "R1", "PUBLIC", true⟩, ⟨"T", .select none, "R2", "R1", false⟩]⟩
    (execRevoke 8 c [.select none] "T" ["R1"] false .cascade).toOption.map (·.grants) = some [] ∧
    (execRevoke 8 c [.select none] "T" ["R1"] false .restrict).toOption.map (·.grants) = none := by
  decide

/-! ## the tables of the code (re-extracted from the source on every run) -/

/-- `check_select/insert/update/delete` ask for the privilege of the same name, the
    security-disabled bypass is present, the bypassing roles are ADMIN and DBA, and
    ALL PRIVILEGES on a table expands identically in GRANT and REVOKE to the model's list -/
theorem C26_code_tables :
    Generated.privCheckFns.take 4 = [("check_select", "Select"), ("check_insert", "Insert"),
      ("check_update", "Update"), ("check_delete", "Delete")]
    ∧ Generated.privSecurityBypass = 1
    ∧ Generated.privAdminRoles = ["ADMIN", "DBA"]
    ∧ Generated.privAllTableGrant = ["Select", "Insert", "Update", "Delete", "References"]
    ∧ Generated.privAllTableRevoke = Generated.privAllTableGrant := by
  decide

end VibeProof.C26
