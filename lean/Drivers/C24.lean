import VibeProof.Model.Codec
import VibeProof.Model.Arith
import VibeProof.Model.RangeGuard
open VibeProof VibeProof.Proto VibeProof.Codec VibeProof.Arith VibeProof.RangeGuard

def aopOf : String → Option AOp
  | "add" => some .add | "sub" => some .sub | "mul" => some .mul
  | "div" => some .idiv | "mod" => some .imod
  | _ => none

partial def decA : Sx → Option AExpr
  | .list [.atom "lit", .atom v] => (decValue v).map AExpr.lit
  | .list [.atom "neg", a] => (decA a).map AExpr.neg
  | .list [.atom "abs", a] => (decA a).map AExpr.abs
  | .list [.atom op, a, b] => do
      let o ← aopOf op
      pure (AExpr.bin o (← decA a) (← decA b))
  | _ => none

def encAErr : AErr → Sx
  | .overflow => .list [.atom "err", .atom "overflow"]
  | .typeMismatch => .list [.atom "err", .atom "type"]
  | .divZero => .list [.atom "err", .atom "divzero"]

/-- keys: `N`, `D<twice>` (number on the half-step line), `S<hex>` -/
def decKey (s : String) : Option Key :=
  match s.toList with
  | ['N'] => some .null
  | 'D' :: rest => (String.ofList rest).toInt?.map Key.num
  | 'S' :: rest => (hexToStr (String.ofList rest)).map Key.str
  | _ => none

def decKeySx : Sx → Option Key
  | .atom s => decKey s
  | _ => none

def decOptKey : Sx → Option (Option Key)
  | .atom "-" => some none
  | .atom s => (decKey s).map some
  | _ => none

def decEntry : Sx → Option (List Key × List Nat)
  | .list [.list ks, .list ids] => do
      pure (← ks.mapM decKeySx, ← ids.mapM Sx.nat?)
  | _ => none

def decBool : Sx → Option Bool
  | .atom "1" => some true
  | .atom "0" => some false
  | _ => none

def decOptInt : Sx → Option (Option Int)
  | .atom "-" => some none
  | .atom s => s.toInt?.map some
  | _ => none

def decOptNat : Sx → Option (Option Nat)
  | .atom "-" => some none
  | .atom s => s.toNat?.map some
  | _ => none

/-- `(arith E)` → `(ok V)` | `(err class)`
    `(sum V…)` → `(ok V)`
    `(substr S start len|-)` → `(ok S)`
    `(limoff n limit|- offset|-)` → `(rows i…)` | `(panic)` over rows `0..n-1`
    `(scan (ENTRY…) start|- end|- incS incE)` → `(rows id…)` | `(panic)` -/
def handle : List Sx → Sx
  | [.atom "arith", e] =>
    match decA e with
    | some ex =>
      match eval ex with
      | .ok v => .list [.atom "ok", .atom (encValue v)]
      | .error er => encAErr er
    | none => .atom "bad-request"
  | .atom "sum" :: vs =>
    match vs.mapM decValueSx with
    | some l => .list [.atom "ok", .atom (encValue (sumAgg l))]
    | none => .atom "bad-request"
  | [.atom "substr", .atom s, .atom st, len] =>
    match hexToChars s, st.toInt?, decOptInt len with
    | some cs, some i, some l => .list [.atom "ok", .atom (charsToHex (substring cs i l))]
    | _, _, _ => .atom "bad-request"
  | [.atom "limoff", .atom n, lim, off] =>
    match n.toNat?, decOptNat lim, decOptNat off with
    | some k, some l, some o =>
      match limitOffset (List.range k) l o with
      | .rows r => .list (.atom "rows" :: r.map sxNat)
      | .panicUnderflow => .list [.atom "panic"]
    | _, _, _ => .atom "bad-request"
  | [.atom "scan", .list es, st, en, iS, iE] =>
    match es.mapM decEntry, decOptKey st, decOptKey en, decBool iS, decBool iE with
    | some entries, some s, some e, some a, some b =>
      match scan entries s e a b with
      | .rows ids => .list (.atom "rows" :: ids.map sxNat)
      | .panic => .list [.atom "panic"]
    | _, _, _, _, _ => .atom "bad-request"
  | [.atom "assign", .atom ty, .atom v] =>
    -- `(assign smallint|integer|bigint|unsigned <int>)` → `(ok I<v>)` | `(reject)`
    let t : Option ColTy := match ty with
      | "smallint" => some .smallint | "integer" => some .integer
      | "bigint" => some .bigint | "unsigned" => some .unsigned
      | _ => none
    match t, v.toInt? with
    | some t, some i =>
      match coerceTo t i with
      | some j => .list [.atom "ok", .atom ("I" ++ toString j)]
      | none => .list [.atom "reject"]
    | _, _ => .atom "bad-request"
  | _ => .atom "bad-request"

def main : IO Unit := runDriver handle
