import VibeProof.Model.Temporal
/-
Number formatting / parsing lemmas for the round-trip theorems of C22.
-/
namespace VibeProof.Temporal

theorem digit_facts (k : Nat) (h : k < 10) :
    isDigit (digitByte k) = true ∧ (digitByte k).toNat - 48 = k := by
  have : k = 0 ∨ k = 1 ∨ k = 2 ∨ k = 3 ∨ k = 4 ∨ k = 5 ∨ k = 6 ∨ k = 7 ∨ k = 8 ∨ k = 9 := by omega
  rcases this with h | h | h | h | h | h | h | h | h | h <;> subst h <;> decide

theorem digitsVal_append (a b : Bytes) (acc : Nat) :
    digitsVal (a ++ b) acc = (digitsVal a acc).bind (fun x => digitsVal b x) := by
  induction a generalizing acc with
  | nil => simp [digitsVal]
  | cons x xs ih =>
    simp only [List.cons_append, digitsVal]
    split
    · exact ih _
    · simp

theorem digitsVal_natDigits (n : Nat) : digitsVal (natDigits n) 0 = some n := by
  induction n using Nat.strongRecOn with
  | _ n ih =>
    rw [natDigits]
    split
    · rename_i h
      have := digit_facts n h
      simp only [digitsVal, this.1, this.2, if_true]
      simp
    · rename_i h
      have hd := digit_facts (n % 10) (Nat.mod_lt _ (by omega))
      rw [digitsVal_append, ih (n / 10) (by omega)]
      simp only [Option.bind_some, digitsVal, hd.1, hd.2, if_true]
      congr 1
      omega

theorem natDigits_ne_nil (n : Nat) : natDigits n ≠ [] := by
  rw [natDigits]; split <;> simp

/-- every byte of a rendered number is a digit -/
theorem natDigits_all (n : Nat) : ∀ b ∈ natDigits n, isDigit b = true := by
  induction n using Nat.strongRecOn with
  | _ n ih =>
    rw [natDigits]
    split
    · rename_i h
      intro b hb
      simp at hb; subst hb
      exact (digit_facts n h).1
    · rename_i h
      intro b hb
      simp at hb
      rcases hb with hb | hb
      · exact ih (n / 10) (by omega) b hb
      · subst hb; exact (digit_facts (n % 10) (Nat.mod_lt _ (by omega))).1

theorem digitsVal_zeros (k : Nat) (s : Bytes) : digitsVal (List.replicate k 48 ++ s) 0 = digitsVal s 0 := by
  induction k with
  | zero => simp
  | succ k ih =>
    simp only [List.replicate_succ, List.cons_append, digitsVal]
    have : isDigit 48 = true := by decide
    simp [this]
    exact ih

theorem padLeft0_all (w n : Nat) : ∀ b ∈ padLeft0 w (natDigits n), isDigit b = true := by
  intro b hb
  simp [padLeft0] at hb
  rcases hb with hb | hb
  · rw [hb.2]; decide
  · exact natDigits_all n b hb

theorem padLeft0_ne_nil (w n : Nat) : padLeft0 w (natDigits n) ≠ [] := by
  simp [padLeft0, natDigits_ne_nil]

theorem parseMag_pad (w n : Nat) : parseMag (padLeft0 w (natDigits n)) = some n := by
  have he : (padLeft0 w (natDigits n)).isEmpty = false := by
    have := padLeft0_ne_nil w n
    cases h : padLeft0 w (natDigits n) with
    | nil => exact absurd h this
    | cons b r => rfl
  simp only [parseMag, he]
  rw [padLeft0, digitsVal_zeros, digitsVal_natDigits]
  simp

theorem isDigit_ne {b : UInt8} (h : isDigit b = true) :
    b ≠ 43 ∧ b ≠ 45 ∧ b ≠ 46 ∧ b ≠ 58 ∧ b ≠ 32 ∧ b ≠ 84 := by
  simp only [isDigit, Bool.and_eq_true, decide_eq_true_eq] at h
  have h1 := UInt8.le_iff_toNat_le.mp h.1
  have h2 := UInt8.le_iff_toNat_le.mp h.2
  refine ⟨?_, ?_, ?_, ?_, ?_, ?_⟩ <;> (intro e; subst e; simp at h1 h2)

theorem parseUnsigned_of (max : Nat) (b : UInt8) (r : Bytes) (n : Nat) (hb : isDigit b = true)
    (hm : parseMag (b :: r) = some n) (h : n ≤ max) : parseUnsigned max (b :: r) = some n := by
  unfold parseUnsigned
  have hb43 : b ≠ 43 := (isDigit_ne hb).1
  split
  · rename_i body hbody
    simp at hbody; exact absurd hbody.1 hb43
  · simp only [hm]
    simp [h]

/-- `{:0w}` of an unsigned number parses back -/
theorem parseUnsigned_fmtNat (max w n : Nat) (h : n ≤ max) : parseUnsigned max (fmtNat w n) = some n := by
  unfold fmtNat
  have hne := padLeft0_ne_nil w n
  have hall := padLeft0_all w n
  have hm := parseMag_pad w n
  cases hs : padLeft0 w (natDigits n) with
  | nil => exact absurd hs hne
  | cons b r =>
    rw [hs] at hm hall
    exact parseUnsigned_of max b r n (hall b (by simp)) hm h

/-- `{:0w}` of a signed number parses back -/
theorem parseSigned_fmtInt (min max : Int) (w : Nat) (i : Int) (h1 : min ≤ i) (h2 : i ≤ max) :
    parseSigned min max (fmtInt w i) = some i := by
  unfold fmtInt
  split
  · rename_i hneg
    simp only [parseSigned, parseMag_pad]
    have : -(i.natAbs : Int) = i := by omega
    simp [this, h1]
  · rename_i hpos
    have hne := padLeft0_ne_nil w i.toNat
    have hall := padLeft0_all w i.toNat
    have hm := parseMag_pad w i.toNat
    cases hs : padLeft0 w (natDigits i.toNat) with
    | nil => exact absurd hs hne
    | cons b r =>
      rw [hs] at hm hall
      have hb : isDigit b = true := hall b (by simp)
      have hbn := isDigit_ne hb
      unfold parseSigned
      split
      · rename_i heq; simp at heq; exact absurd heq.1 hbn.2.1
      · rename_i heq; simp at heq; exact absurd heq.1 hbn.1
      · rw [hm]
        have : (i.toNat : Int) = i := by omega
        simp [this, h2]

end VibeProof.Temporal

namespace VibeProof.Temporal

theorem splitLastP_go_none (p : UInt8 → Bool) (post : Bytes) (h : ∀ b ∈ post, p b = false) :
    splitLastP.go p post = none := by
  induction post with
  | nil => rfl
  | cons x xs ih =>
    have hx : p x = false := h x (by simp)
    simp [splitLastP.go, ih (fun b hb => h b (by simp [hb])), hx]

theorem splitLastP_app (p : UInt8 → Bool) (pre post : Bytes) (c : UInt8) (hc : p c = true)
    (hpost : ∀ b ∈ post, p b = false) : splitLastP p (pre ++ c :: post) = some (pre, c, post) := by
  unfold splitLastP
  induction pre with
  | nil => simp [splitLastP.go, splitLastP_go_none p post hpost, hc]
  | cons x xs ih => simp [splitLastP.go, ih]

theorem digits_not (c : UInt8) (hc : isDigit c = false) (s : Bytes) (h : ∀ b ∈ s, isDigit b = true) :
    ∀ b ∈ s, (b == c) = false := by
  intro b hb
  have := h b hb
  cases hbc : b == c with
  | false => rfl
  | true => simp at hbc; subst hbc; rw [hc] at this; exact absurd this (by simp)

theorem fmtNat_all (w n : Nat) : ∀ b ∈ fmtNat w n, isDigit b = true := padLeft0_all w n

theorem rsplit3_date (Y M D : Bytes) (hM : ∀ b ∈ M, isDigit b = true) (hD : ∀ b ∈ D, isDigit b = true) :
    rsplit3 45 (Y ++ [45] ++ M ++ [45] ++ D) = [Y, M, D] := by
  have h45 : isDigit 45 = false := by decide
  have e1 : Y ++ [45] ++ M ++ [45] ++ D = (Y ++ [45] ++ M) ++ 45 :: D := by simp
  have e2 : Y ++ [45] ++ M = Y ++ 45 :: M := by simp
  unfold rsplit3
  rw [e1, splitLastP_app _ _ _ _ (by decide) (digits_not 45 h45 D hD)]
  simp only []
  rw [e2, splitLastP_app _ _ _ _ (by decide) (digits_not 45 h45 M hM)]

end VibeProof.Temporal

namespace VibeProof.Temporal

theorem splitFirst_none (c : UInt8) (s : Bytes) (h : ∀ b ∈ s, b ≠ c) : splitFirst c s = none := by
  induction s with
  | nil => rfl
  | cons x xs ih =>
    have hx : x ≠ c := h x (by simp)
    simp [splitFirst, hx, ih (fun b hb => h b (by simp [hb]))]

theorem splitFirst_app (c : UInt8) (pre post : Bytes) (h : ∀ b ∈ pre, b ≠ c) :
    splitFirst c (pre ++ c :: post) = some (pre, post) := by
  induction pre with
  | nil => simp [splitFirst]
  | cons x xs ih =>
    have hx : x ≠ c := h x (by simp)
    simp [splitFirst, hx, ih (fun b hb => h b (by simp [hb]))]

theorem splitOn_none (c : UInt8) (s : Bytes) (h : ∀ b ∈ s, b ≠ c) : splitOn c s = [s] := by
  induction s with
  | nil => rfl
  | cons x xs ih =>
    have hx : x ≠ c := h x (by simp)
    simp [splitOn, hx, ih (fun b hb => h b (by simp [hb]))]

theorem splitOn_ne_nil (c : UInt8) (s : Bytes) : splitOn c s ≠ [] := by
  induction s with
  | nil => simp [splitOn]
  | cons x xs ih =>
    simp only [splitOn]
    split
    · simp
    · split <;> simp

theorem splitOn_app (c : UInt8) (pre rest : Bytes) (h : ∀ b ∈ pre, b ≠ c) :
    splitOn c (pre ++ c :: rest) = pre :: splitOn c rest := by
  induction pre with
  | nil => simp [splitOn]
  | cons x xs ih =>
    have hx : x ≠ c := h x (by simp)
    simp only [List.cons_append, splitOn, hx, if_false, ih (fun b hb => h b (by simp [hb]))]

theorem digits_ne (c : UInt8) (hc : isDigit c = false) (s : Bytes) (h : ∀ b ∈ s, isDigit b = true) :
    ∀ b ∈ s, b ≠ c := by
  intro b hb e
  subst e
  rw [h b hb] at hc
  exact absurd hc (by simp)

theorem splitOn_hms (H M S : Bytes) (hH : ∀ b ∈ H, isDigit b = true) (hM : ∀ b ∈ M, isDigit b = true)
    (hS : ∀ b ∈ S, isDigit b = true) : splitOn 58 (H ++ [58] ++ M ++ [58] ++ S) = [H, M, S] := by
  have h58 : isDigit 58 = false := by decide
  have e : H ++ [58] ++ M ++ [58] ++ S = H ++ 58 :: (M ++ 58 :: S) := by simp
  rw [e, splitOn_app _ _ _ (digits_ne 58 h58 H hH), splitOn_app _ _ _ (digits_ne 58 h58 M hM),
    splitOn_none _ _ (digits_ne 58 h58 S hS)]

theorem natDigits_length_le (k n : Nat) (h : n < 10 ^ (k + 1)) : (natDigits n).length ≤ k + 1 := by
  induction k generalizing n with
  | zero =>
    rw [natDigits]
    have : n < 10 := by simpa using h
    simp [this]
  | succ k ih =>
    rw [natDigits]
    split
    · simp
    · have : n / 10 < 10 ^ (k + 1) := by
        have : n < 10 ^ (k + 1) * 10 := by rw [← Nat.pow_succ]; exact h
        omega
      have := ih (n / 10) this
      simp; omega

theorem fmtNat_length (k n : Nat) (h : n < 10 ^ (k + 1)) : (fmtNat (k + 1) n).length = k + 1 := by
  have := natDigits_length_le k n h
  simp [fmtNat, padLeft0]; omega

theorem charCount_digits (s : Bytes) (h : ∀ b ∈ s, isDigit b = true) : charCount s = s.length := by
  unfold charCount
  congr 1
  apply List.filter_eq_self.mpr
  intro b hb
  have := h b hb
  simp only [isDigit, Bool.and_eq_true, decide_eq_true_eq] at this
  have h2 := UInt8.le_iff_toNat_le.mp this.2
  simp only [isCont, Bool.not_eq_true', Bool.and_eq_false_imp, decide_eq_true_eq, decide_eq_false_iff_not]
  intro h128
  have := UInt8.le_iff_toNat_le.mp h128
  simp at this h2
  omega

theorem dropWhile0_pad (r : Bytes) :
    (r.dropWhile (· == (48 : UInt8))).reverse
      ++ List.replicate (r.length - (r.dropWhile (· == (48 : UInt8))).length) 48 = r.reverse := by
  induction r with
  | nil => simp
  | cons x xs ih =>
    by_cases hx : (x == (48 : UInt8)) = true
    · have hle := (List.dropWhile_sublist (· == (48 : UInt8)) (l := xs)).length_le
      have hx' : x = 48 := by simpa using hx
      have hd : List.dropWhile (· == (48 : UInt8)) (x :: xs) = List.dropWhile (· == (48 : UInt8)) xs := by
        simp [List.dropWhile_cons, hx']
      rw [hd]
      have : (x :: xs).length - (List.dropWhile (· == (48 : UInt8)) xs).length
          = (xs.length - (List.dropWhile (· == (48 : UInt8)) xs).length) + 1 := by
        simp; omega
      rw [this, List.replicate_succ', ← List.append_assoc, ih, hx']
      simp
    · have hd : List.dropWhile (· == (48 : UInt8)) (x :: xs) = x :: xs := by
        simp only [List.dropWhile_cons, hx]; simp
      rw [hd]
      simp

theorem trimEnd0_pad (l : Bytes) :
    trimEnd0 l ++ List.replicate (l.length - (trimEnd0 l).length) 48 = l := by
  unfold trimEnd0
  have := dropWhile0_pad l.reverse
  simpa using this

theorem trimEnd0_all (l : Bytes) (h : ∀ b ∈ l, isDigit b = true) : ∀ b ∈ trimEnd0 l, isDigit b = true := by
  intro b hb
  unfold trimEnd0 at hb
  have : b ∈ l.reverse := (List.dropWhile_sublist _).subset (List.mem_reverse.mp hb)
  exact h b (List.mem_reverse.mp this)

theorem trimEnd0_length_le (l : Bytes) : (trimEnd0 l).length ≤ l.length := by
  unfold trimEnd0
  rw [List.length_reverse]
  have := (List.dropWhile_sublist (· == (48 : UInt8)) (l := l.reverse)).length_le
  simpa using this

end VibeProof.Temporal
