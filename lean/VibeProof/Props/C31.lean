import VibeProof.Model.Text
import VibeProof.Lemmas.Text
import VibeProof.Lemmas.Csv
/-
C31 — CLI import/export transfers data faithfully and safely.

 T1  the CSV writer is right: a reference RFC 4180 reader gets back every table of cells;
 T2  the reader as coded (`import_csv`: split at line breaks, split at commas, trim) produces the
     INSERTs of the written rows exactly when no cell contains `,` `"` a line break or outer
     blanks — one counterexample per excluded character;
 T3  values never escape their literal in the generated INSERT text (uses C19-T1); column names
     are copied verbatim, so they are safe only if validated — which `validate_json_columns` now
     does for every object;
 T4  export followed by import does not reproduce a table (header `Column`, cells in Debug form).
-/
namespace VibeProof.C31
open VibeProof.Text VibeProof.Text.Csv

/-! ## T1 -/

/-- **T1.** Whatever the cells contain (commas, quotes, line breaks, anything), the reference
reader reads back exactly the rows the writer wrote (each row has at least one cell). -/
theorem C31_writer_rfc4180 (rows : List (List Str)) (hne : ∀ r ∈ rows, r ≠ []) :
    parseCsv (writeCsv rows) = .ok rows := by
  have h := rRun_rows rows hne []
  simp only [parseCsv, rInit, h, rFinish]
  simp

example : parseCsv (writeCsv [["a,b".toList, "q\"r".toList], ["x\ny".toList, []]])
    = .ok [["a,b".toList, "q\"r".toList], ["x\ny".toList, []]] :=
  C31_writer_rfc4180 _ (by intro r h; simp at h; rcases h with h | h <;> subst h <;> simp)

/-! ## T2 -/

/-- a cell the naive reader handles: none of `,` `"` LF CR, and no blank at either end -/
def naiveSafe (v : Str) : Bool :=
  v.all (fun c => c ≠ ',' && c ≠ '"' && c ≠ '\n' && c ≠ '\r') && trim v = v

/-- the full statement: importing what the writer wrote yields the INSERTs of the rows -/
def C31_import_full : Prop :=
  ∀ (table : Str) (header : List Str) (rows : List (List Str)),
    header ≠ [] → (∀ r ∈ rows, r.length = header.length) →
    importCsv table (writeCsv (header :: rows)) = .ok (insertsOf table header rows)

theorem splitOnAux_noSep (sep : Char) (v : Str) (h : v.all (· ≠ sep) = true) :
    ∀ (cur rest : Str), splitOnAux sep cur (v ++ sep :: rest) = (cur.reverse ++ v) :: splitOnAux sep [] rest := by
  induction v with
  | nil => intro cur rest; simp [splitOnAux]
  | cons c cs ih =>
    intro cur rest
    simp only [List.all_cons, Bool.and_eq_true, decide_eq_true_eq] at h
    simp only [List.cons_append, splitOnAux, h.1, if_false]
    rw [ih (by simpa using h.2)]
    simp

theorem splitOnAux_last (sep : Char) (v : Str) (h : v.all (· ≠ sep) = true) :
    ∀ (cur : Str), splitOnAux sep cur v = [cur.reverse ++ v] := by
  induction v with
  | nil => intro cur; simp [splitOnAux]
  | cons c cs ih =>
    intro cur
    simp only [List.all_cons, Bool.and_eq_true, decide_eq_true_eq] at h
    simp only [splitOnAux, h.1, if_false]
    rw [ih (by simpa using h.2)]
    simp

theorem naiveSafe_parts (v : Str) (h : naiveSafe v = true) :
    v.all (· ≠ ',') = true ∧ v.all (· ≠ '\n') = true ∧ needsQuote v = false ∧ trim v = v ∧
      v.all (· ≠ '\r') = true := by
  simp only [naiveSafe, Bool.and_eq_true, decide_eq_true_eq] at h
  obtain ⟨hall, ht⟩ := h
  have hmem : ∀ c ∈ v, c ≠ ',' ∧ c ≠ '"' ∧ c ≠ '\n' ∧ c ≠ '\r' := by
    intro c hc
    have := (List.all_eq_true.mp hall) c hc
    simp only [Bool.and_eq_true, decide_eq_true_eq] at this
    exact ⟨this.1.1.1, this.1.1.2, this.1.2, this.2⟩
  refine ⟨?_, ?_, ?_, ht, ?_⟩
  · simp only [List.all_eq_true, decide_eq_true_eq]; exact fun c hc => (hmem c hc).1
  · simp only [List.all_eq_true, decide_eq_true_eq]; exact fun c hc => (hmem c hc).2.2.1
  · simp only [needsQuote, Bool.or_eq_false_iff, List.any_eq_false, decide_eq_true_eq]
    exact ⟨⟨fun c hc => (hmem c hc).1, fun c hc => (hmem c hc).2.1⟩, fun c hc => (hmem c hc).2.2.1⟩
  · simp only [List.all_eq_true, decide_eq_true_eq]; exact fun c hc => (hmem c hc).2.2.2

/-- a written row of naive-safe cells splits back into its cells -/
theorem split_joinCells (cells : List Str) (hne : cells ≠ []) (hs : ∀ c ∈ cells, naiveSafe c = true) :
    ∀ (cur : Str), splitOnAux ',' cur (joinCells cells) =
      match cells with
      | [] => []
      | c :: cs => (cur.reverse ++ c) :: cs := by
  induction cells with
  | nil => exact absurd rfl hne
  | cons c cs ih =>
    intro cur
    obtain ⟨h1, _, h3, _, _⟩ := naiveSafe_parts c (hs c (by simp))
    cases cs with
    | nil =>
      simp only [joinCells, escape, h3, Bool.false_eq_true, if_false]
      exact splitOnAux_last ',' c h1 cur
    | cons c2 cs2 =>
      have := ih (by simp) (fun x hx => hs x (by simp [hx])) []
      simp only [joinCells, escape, h3, Bool.false_eq_true, if_false] at this ⊢
      rw [splitOnAux_noSep ',' c h1, this]
      simp

theorem joinCells_noNl (cells : List Str) (hs : ∀ c ∈ cells, naiveSafe c = true) :
    (joinCells cells).all (· ≠ '\n') = true ∧ (joinCells cells).all (· ≠ '\r') = true := by
  induction cells with
  | nil => simp [joinCells]
  | cons c cs ih =>
    obtain ⟨_, h2, h3, _, h5⟩ := naiveSafe_parts c (hs c (by simp))
    cases cs with
    | nil => simp only [joinCells, escape, h3, Bool.false_eq_true, if_false]; exact ⟨h2, h5⟩
    | cons c2 cs2 =>
      obtain ⟨i1, i2⟩ := ih (fun x hx => hs x (by simp [hx]))
      simp only [joinCells, escape, h3, Bool.false_eq_true, if_false, List.all_append, List.all_cons,
        Bool.and_eq_true] at i1 i2 ⊢
      exact ⟨⟨h2, by decide, i1⟩, ⟨h5, by decide, i2⟩⟩

/-- `lines` on written rows of naive-safe cells gives one line per row -/
theorem lines_written (rows : List (List Str)) (hs : ∀ r ∈ rows, ∀ c ∈ r, naiveSafe c = true)
    (hne : ∀ r ∈ rows, r ≠ []) :
    lines (writeCsv rows) = rows.map joinCells := by
  have aux : ∀ (l : Str), l.all (· ≠ '\n') = true → l.all (· ≠ '\r') = true → ∀ (cur rest : Str),
      cur.all (· ≠ '\r') = true →
      linesAux cur (l ++ '\n' :: rest) = (cur.reverse ++ l) :: linesAux [] rest := by
    intro l
    induction l with
    | nil =>
      intro _ _ cur rest hc
      have : stripCr cur = cur := by
        cases cur with
        | nil => rfl
        | cons x xs =>
          simp only [List.all_cons, Bool.and_eq_true, decide_eq_true_eq] at hc
          simp [stripCr, hc.1]
      simp [linesAux, this]
    | cons c cs ih =>
      intro h1 h2 cur rest hc
      simp only [List.all_cons, Bool.and_eq_true, decide_eq_true_eq] at h1 h2
      simp only [List.cons_append, linesAux, h1.1, if_false]
      rw [ih (by simpa using h1.2) (by simpa using h2.2) (c :: cur) rest
        (by simp only [List.all_cons, Bool.and_eq_true, decide_eq_true_eq]; exact ⟨h2.1, hc⟩)]
      simp
  induction rows with
  | nil => simp [writeCsv, lines, linesAux]
  | cons r rs ih =>
    obtain ⟨n1, n2⟩ := joinCells_noNl r (hs r (by simp))
    have := ih (fun r' h => hs r' (by simp [h])) (fun r' h => hne r' (by simp [h]))
    simp only [lines, writeCsv, List.map_cons, List.flatten_cons, writeRow, List.append_assoc,
      List.singleton_append] at this ⊢
    rw [aux (joinCells r) n1 n2 [] _ rfl, this]
    simp

/-- **T2 (partial).** If every cell (header included) is free of `,` `"` line breaks and outer
blanks, the reader as coded turns the written file into exactly the INSERTs of the rows. -/
theorem C31_import_roundtrip_partial (table : Str) (header : List Str) (rows : List (List Str))
    (hh : header ≠ []) (hlen : ∀ r ∈ rows, r.length = header.length)
    (hsafe : ∀ r ∈ header :: rows, ∀ c ∈ r, naiveSafe c = true) :
    importCsv table (writeCsv (header :: rows)) = .ok (insertsOf table header rows) := by
  have hne : ∀ r ∈ header :: rows, r ≠ [] := by
    intro r hr
    simp only [List.mem_cons] at hr
    rcases hr with h | h
    · subst h; exact hh
    · intro hnil
      have := hlen r h
      rw [hnil] at this
      cases header with
      | nil => exact hh rfl
      | cons _ _ => simp at this
  have hsplit : ∀ r ∈ header :: rows, splitOn ',' (joinCells r) = r := by
    intro r hr
    have := split_joinCells r (hne r hr) (hsafe r hr) []
    cases r with
    | nil => exact absurd rfl (hne _ hr)
    | cons c cs => simpa [splitOn] using this
  have hrows : ∀ (rs : List (List Str)) (n : Nat), (∀ r ∈ rs, r ∈ header :: rows) →
      (∀ r ∈ rs, r.length = header.length) →
      importRows table header n (rs.map joinCells) = .ok (insertsOf table header rs) := by
    intro rs
    induction rs with
    | nil => intro n _ _; simp [importRows, insertsOf]
    | cons r rs ih =>
      intro n hmem hl
      have hr := hmem r (by simp)
      have hq : r.map quoteCell = r.map renderStr := by
        apply List.map_congr_left
        intro c hc
        have := (naiveSafe_parts c (hsafe r hr c hc)).2.2.2.1
        simp [quoteCell, this]
      simp only [List.map_cons, importRows, hsplit r hr, hl r (by simp), ne_eq, not_true_eq_false,
        if_false]
      rw [ih (n + 1) (fun r' h => hmem r' (by simp [h])) (fun r' h => hl r' (by simp [h]))]
      simp [insertsOf, hq]
  simp only [importCsv, lines_written (header :: rows) hsafe hne, List.map_cons]
  rw [hsplit header (by simp)]
  exact hrows rows 2 (fun r h => by simp [h]) hlen

example : importCsv ['t'] (writeCsv ([['a'], ['b']] :: [[['1'], "it's".toList]]))
    = .ok (insertsOf ['t'] [['a'], ['b']] [[['1'], "it's".toList]]) :=
  C31_import_roundtrip_partial _ _ _ (by simp) (by decide +kernel) (by decide +kernel)

/-- a comma inside a cell: the writer quotes the cell, the reader splits it -/
theorem C31_import_comma_counterexample :
    importCsv ['t'] (writeCsv [[['a']], [['x', ',', 'y']]]) = .error (.columnCount 2) := by decide

/-- a quote inside a cell: the quoting characters become part of the value -/
theorem C31_import_quote_counterexample :
    importCsv ['t'] (writeCsv [[['a']], [['q', '"', 'r']]]) =
      .ok ["INSERT INTO t (a) VALUES ('\"q\"\"r\"');".toList] := by decide

/-- a line break inside a cell: the record is cut in two -/
theorem C31_import_newline_counterexample :
    importCsv ['t'] (writeCsv [[['a']], [['x', '\n', 'y']]]) =
      .ok ["INSERT INTO t (a) VALUES ('\"x');".toList, "INSERT INTO t (a) VALUES ('y\"');".toList] := by
  decide

/-- outer blanks are trimmed away -/
theorem C31_import_blank_counterexample :
    importCsv ['t'] (writeCsv [[['a']], [[' ', 'p', ' ']]]) =
      .ok ["INSERT INTO t (a) VALUES ('p');".toList] := by decide

theorem C31_import_counterexample : ¬ C31_import_full := by
  intro h
  have := h ['t'] [['a']] [[['x', ',', 'y']]] (by simp) (by intro r hr; simp at hr; subst hr; rfl)
  rw [C31_import_comma_counterexample] at this
  cases this

/-! ## T3 -/

/-- **T3.** In a generated INSERT every CSV cell is one string literal whose content is the
(trimmed) cell, whatever the cell contains: the lexer's string rule consumes exactly the quoted
cell and resumes at the text the generator put after it (`, ` or `);`). -/
theorem C31_value_confined (v r : Str) (hr : ∀ c r', r = c :: r' → c ≠ '\'') :
    lexString (quoteCell v ++ r) = .ok (trim v, r) :=
  lexString_renderStr (trim v) r hr

/-- the same for a JSON value other than the text `NULL` -/
theorem C31_json_value_confined (v r : Str) (hv : v ≠ "NULL".toList)
    (hr : ∀ c r', r = c :: r' → c ≠ '\'') :
    lexString (jsonCell v ++ r) = .ok (v, r) := by
  simp only [jsonCell, hv, if_false]
  exact lexString_renderStr v r hr

example : lexString (quoteCell "'); DROP TABLE t; --".toList ++ ");".toList)
    = .ok ("'); DROP TABLE t; --".toList, ");".toList) :=
  C31_value_confined _ _ (by intro c r' h; injection h with h1 _; subst h1; decide)

/-- the JSON *string* "NULL" is imported as SQL NULL, not as the four letters -/
theorem C31_json_null_text_counterexample :
    importJsonObj ['t'] [(['a'], "NULL".toList)] = "INSERT INTO t (a) VALUES (NULL);".toList := by
  decide

/-- column names are copied into the statement verbatim: a key that passes no validation puts
its own VALUES list first and comments out the real one (the reason every object's keys are now
validated against the table's columns) -/
theorem C31_unvalidated_key_injects :
    scan (importJsonObj ['s'] [("a) VALUES ('INJECTED'); --".toList, ['2'])]) =
      scan "INSERT INTO s (a) VALUES ('INJECTED');".toList := by decide

/-- a validated name (one of the table's columns, hence free of quotes, parentheses and
semicolons) contains none of the characters that delimit the column list -/
theorem C31_validated_name_inert (name : Str) (h : nameCharsOk name = true) :
    ∀ c ∈ name, c ≠ ';' ∧ c ≠ '\'' ∧ c ≠ '"' ∧ c ≠ '(' ∧ c ≠ ')' := by
  intro c hc
  simp only [nameCharsOk, List.all_eq_true, Bool.and_eq_true, decide_eq_true_eq] at h
  obtain ⟨⟨⟨⟨a, b⟩, c'⟩, d⟩, e⟩ := h c hc
  exact ⟨a, b, c', d, e⟩

/-! ## T4 -/

/-- the full statement: what export writes for a table imports back as the INSERTs of its rows
(`header` = the table's column names, `txt` = the plain text of a value) -/
def C31_full : Prop :=
  ∀ (α : Type) (dbg txt : α → Str) (table : Str) (header : List Str) (rows : List (List α)),
    rows ≠ [] → (∀ r ∈ rows, r.length = header.length) →
    importCsv table (writeCsv (exportTable dbg rows)) =
      .ok (insertsOf table header (rows.map (fun r => r.map txt)))

/-- **T4.** Export then import does not reproduce even a one-cell table: the exported header is
`Column` and the cell is the Debug form of the value. -/
theorem C31_export_import_counterexample : ¬ C31_full := by
  intro h
  have := h Unit (fun _ => "Integer(1)".toList) (fun _ => ['1']) ['t'] [['a']] [[()]] (by simp)
    (by intro r hr; simp at hr; subst hr; rfl)
  revert this
  decide

end VibeProof.C31
