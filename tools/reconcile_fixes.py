#!/usr/bin/env python3
"""Lists 'fix:' / 'hook:' commits of /repo (since the pinned base) that known_findings.json / claims.json do not record."""
import json, subprocess
base = "b65a993d"
log = subprocess.run(["git", "-C", "/repo", "log", "--format=%h %s", base + "..HEAD"], capture_output=True, text=True).stdout.strip().splitlines()
k = json.load(open("/verif/known_findings.json"))
fixed = {f["commit"][:8] for f in k["fixed"]}
for l in log:
    h, msg = l.split(" ", 1)
    tag = "fix" if msg.startswith("fix:") else ("hook" if msg.startswith("hook:") else "OTHER")
    rec = any(h.startswith(x) or x.startswith(h) for x in fixed)
    if tag == "fix" and not rec:
        print("UNRECORDED fix ", h, msg)
    if tag == "OTHER":
        print("NOT fix/hook   ", h, msg)
    if tag == "hook":
        print("hook           ", h, msg)
