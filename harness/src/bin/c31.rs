//! C31 — CLI import/export transfers data faithfully and safely.
//!
//! Tie: the CLI crate is not a dependency of the harness; its source files are compiled into this
//! binary with `#[path]`: `data_io.rs` (DataIO), `executor/mod.rs` (SqlExecutor::execute and the
//! QueryResult it builds) which pulls in `executor/copy_handler.rs` (handle_copy) and
//! `executor/validation.rs` unchanged.  Only `commands.rs` is replaced by a shim with the two
//! enums `handle_copy` takes (the REPL's `\copy` line parser is not under test).
//!
//! Streams:
//!  writer  model `writeCsv` vs `DataIO::export_csv`; oracle: an independent RFC 4180 reader gets the cells back
//!  reader  model `importCsv` (= `parseCsv` + statement building) vs `DataIO::import_csv` on adversarial file texts (statement texts / error kind)
//!  json    model `importJsonObj` vs `DataIO::import_json`
//!  import  direct oracle through `handle_copy`: an RFC 4180 CSV / a JSON file imported into an empty
//!          table gives exactly the file's records; nothing but values from the file reaches the table
//!  header  model `validateHeader` vs `validate_csv_columns`; direct oracle: with a second table present, `\copy FROM` inserts
//!          exactly the file's records or refuses the file; never a value that is not a data cell, never another table
//!  copy    direct oracle: `handle_copy` export then import into an empty table of the same schema
#![allow(dead_code)]
mod commands {
    #[derive(Debug, Clone, Copy)]
    pub enum CopyDirection {
        Export,
        Import,
    }
    #[derive(Debug, Clone, Copy)]
    pub enum CopyFormat {
        Csv,
        Json,
    }
}
#[path = "/repo/crates/vibesql-cli/src/data_io.rs"]
mod data_io;
#[path = "/repo/crates/vibesql-cli/src/executor/mod.rs"]
mod executor;

use commands::*;
use data_io::DataIO;
use executor::{QueryResult, SqlExecutor};
use serde_json::json;
use vharness::sx::{hex_str, unhex_str};
use vharness::*;
use vibesql_parser::{Lexer, Token};
use vibesql_types::SqlValue;

// ---------------------------------------------------------------- quiet: the CLI code prints progress lines

struct Quiet {
    saved: i32,
}
impl Quiet {
    fn new() -> Quiet {
        use std::io::Write;
        let _ = std::io::stdout().flush();
        unsafe {
            let saved = libc::dup(1);
            let devnull = libc::open(b"/dev/null\0".as_ptr() as *const libc::c_char, libc::O_WRONLY);
            libc::dup2(devnull, 1);
            libc::dup2(devnull, 2);
            libc::close(devnull);
            Quiet { saved }
        }
    }
}
impl Drop for Quiet {
    fn drop(&mut self) {
        use std::io::Write;
        let _ = std::io::stdout().flush();
        unsafe {
            libc::dup2(self.saved, 1);
            libc::dup2(self.saved, 2); // stderr follows stdout in the check driver (2>&1)
            libc::close(self.saved);
        }
    }
}

fn quiet<T>(f: impl FnOnce() -> T) -> T {
    let _q = Quiet::new();
    f()
}

// ---------------------------------------------------------------- helpers

const NASTY: &[&str] = &[
    ",", "\"", "\"\"", "\n", "\r\n", "\r", " ", "\t", "'", "''", ";", "--", "a", "b", "1", "NULL", "x,y", "q\"r", "'); DROP TABLE s; --", "é", "漢", "😀", "(", ")", "\\", " pad ",
];

fn nasty(r: &mut Rng, max: u64) -> String {
    let n = r.below(max + 1);
    (0..n).map(|_| *r.pick(NASTY)).collect()
}

fn naive_safe(v: &str) -> bool {
    !v.chars().any(|c| matches!(c, ',' | '"' | '\n' | '\r')) && v.trim() == v
}

fn rows_sx(rows: &[Vec<String>]) -> String {
    format!("({})", rows.iter().map(|r| format!("({})", r.iter().map(|c| hex_str(c)).collect::<Vec<_>>().join(" "))).collect::<Vec<_>>().join(" "))
}

/// independent RFC 4180 reader (records end with LF, as the writer emits them)
fn rfc_read(text: &str) -> Result<Vec<Vec<String>>, String> {
    let cs: Vec<char> = text.chars().collect();
    let mut rows = vec![];
    let mut row: Vec<String> = vec![];
    let mut i = 0;
    while i < cs.len() {
        // one field
        let mut cell = String::new();
        if cs[i] == '"' {
            i += 1;
            loop {
                if i >= cs.len() {
                    return Err("unterminated".into());
                }
                if cs[i] == '"' {
                    if i + 1 < cs.len() && cs[i + 1] == '"' {
                        cell.push('"');
                        i += 2;
                    } else {
                        i += 1;
                        break;
                    }
                } else {
                    cell.push(cs[i]);
                    i += 1;
                }
            }
            if i < cs.len() && cs[i] != ',' && cs[i] != '\n' {
                return Err("text after closing quote".into());
            }
        } else {
            while i < cs.len() && cs[i] != ',' && cs[i] != '\n' {
                if cs[i] == '"' {
                    return Err("quote in unquoted field".into());
                }
                cell.push(cs[i]);
                i += 1;
            }
        }
        row.push(cell);
        if i >= cs.len() {
            rows.push(std::mem::take(&mut row));
        } else if cs[i] == '\n' {
            rows.push(std::mem::take(&mut row));
            i += 1;
        } else {
            i += 1; // comma
            if i >= cs.len() {
                row.push(String::new());
                rows.push(std::mem::take(&mut row));
            }
        }
    }
    Ok(rows)
}

/// RFC 4180 writer of the harness (always quotes what needs quoting; CR too)
fn rfc_write(rows: &[Vec<String>]) -> String {
    let mut s = String::new();
    for r in rows {
        let cells: Vec<String> = r
            .iter()
            .map(|c| if c.chars().any(|ch| matches!(ch, ',' | '"' | '\n' | '\r')) || c.is_empty() && r.len() == 1 { format!("\"{}\"", c.replace('"', "\"\"")) } else { c.clone() })
            .collect();
        s.push_str(&cells.join(","));
        s.push('\n');
    }
    s
}

fn dbg_val(v: &Option<String>) -> String {
    match v {
        None => format!("{:?}", SqlValue::Null),
        Some(s) => format!("{:?}", SqlValue::Varchar(s.clone())),
    }
}

fn select_all(ex: &mut SqlExecutor, table: &str) -> Result<Vec<Vec<String>>, String> {
    quiet(|| ex.execute(&format!("SELECT * FROM {}", table))).map(|r| r.rows).map_err(|e| e.to_string())
}

fn bag(mut rows: Vec<Vec<String>>) -> Vec<Vec<String>> {
    rows.sort();
    rows
}

fn tokens_of(s: &str) -> Result<Vec<Token>, String> {
    Lexer::new(s).tokenize().map_err(|e| e.message)
}

/// direct oracle on one generated statement: its tokens are exactly
/// INSERT INTO table ( col , … ) VALUES ( 'v' | NULL , … ) ;   with the expected column names and values
fn statement_is_plain_insert(stmt: &str, table: &str, cols: &[String], vals: &[Option<String>]) -> Result<(), String> {
    let toks = tokens_of(stmt)?;
    let mut want: Vec<Token> = vec![];
    let kw = |s: &str| tokens_of(s).unwrap()[0].clone();
    want.push(kw("INSERT"));
    want.push(kw("INTO"));
    want.push(kw(table));
    want.push(Token::LParen);
    for (i, c) in cols.iter().enumerate() {
        if i > 0 {
            want.push(Token::Comma);
        }
        let t = tokens_of(c).map_err(|e| format!("column name does not lex: {}", e))?;
        if t.len() != 2 {
            return Err(format!("column name {:?} is not one token", c));
        }
        want.push(t[0].clone());
    }
    want.push(Token::RParen);
    want.push(kw("VALUES"));
    want.push(Token::LParen);
    for (i, v) in vals.iter().enumerate() {
        if i > 0 {
            want.push(Token::Comma);
        }
        match v {
            Some(s) => want.push(Token::String(s.clone())),
            None => want.push(kw("NULL")),
        }
    }
    want.push(Token::RParen);
    want.push(Token::Semicolon);
    want.push(Token::Eof);
    if toks == want {
        Ok(())
    } else {
        Err(format!("tokens {:?}\nexpected {:?}", toks, want))
    }
}

// ---------------------------------------------------------------- streams

fn writer_case(rows: &[Vec<String>], path: &str, model: &mut model::Model, rep: &mut Report) {
    let special = rows.iter().flatten().any(|c| !naive_safe(c));
    rep.case(&format!("writer {}", rows_sx(rows)), special);
    rep.count(if special { "writer_cells_needing_quotes" } else { "writer_plain" });
    let qr = QueryResult { columns: rows[0].clone(), rows: rows[1..].to_vec(), row_count: rows.len() - 1, execution_time_ms: None };
    let res = quiet(|| DataIO::export_csv(&qr, path));
    if let Err(e) = res {
        rep.fail(FailKind::Oracle, None, "export_csv failed", &format!("rows: {:?}\nerror: {}", rows, e));
        return;
    }
    let text = std::fs::read_to_string(path).unwrap_or_default();
    let reply = model.ask(&format!("writecsv {}", rows_sx(rows)));
    rep.traces_validated += 1;
    if unhex_str(&reply).as_deref() != Some(text.as_str()) {
        rep.fail(FailKind::ModelDiff, None, "CSV writer: model and export_csv differ", &format!("rows: {:?}\ncode: {:?}\nmodel: {:?}", rows, text, unhex_str(&reply)));
    }
    // direct oracle: a correct reader gets the cells back
    match rfc_read(&text) {
        Ok(back) if back == rows => {}
        other => rep.fail(FailKind::Oracle, None, "an RFC 4180 reader does not get back the exported cells", &format!("rows: {:?}\nfile: {:?}\nread back: {:?}", rows, text, other)),
    }
    // the model's reference reader agrees with the harness's (validates the reference reader of T1)
    let r2 = model.ask(&format!("parsecsv {}", hex_str(&text)));
    if r2 != format!("(ok {})", rows_sx(rows)) {
        rep.fail(FailKind::ModelDiff, None, "model reference reader does not invert the real writer", &format!("file: {:?}\nmodel: {}", text, r2));
    }
}

fn reader_case(text: &str, path: &str, model: &mut model::Model, rep: &mut Report) {
    std::fs::write(path, text).unwrap();
    let real = quiet(|| DataIO::import_csv(path, "t"));
    let reply = model.ask(&format!("importcsv {} {}", hex_str("t"), hex_str(text)));
    let want = match &real {
        Ok(stmts) => format!("(ok{})", stmts.iter().map(|s| format!(" {}", hex_str(s))).collect::<String>()),
        Err(e) => {
            let m = e.to_string();
            if m.contains("CSV file is empty") {
                "(err empty)".to_string()
            } else if m.starts_with("Malformed CSV") {
                "(err malformed)".to_string()
            } else if let Some(rest) = m.strip_prefix("Row ") {
                format!("(err count {})", rest.split(' ').next().unwrap_or("?"))
            } else {
                format!("(err other {})", hex_str(&m))
            }
        }
    };
    rep.case(&format!("reader {}", hex_str(text)), matches!(&real, Ok(s) if !s.is_empty()) && text.contains('"') | text.contains('\''));
    rep.count(match &real {
        Ok(_) => "reader_ok",
        Err(_) => "reader_err",
    });
    rep.traces_validated += 1;
    if reply != want {
        rep.fail(FailKind::ModelDiff, None, "CSV reader: model and import_csv differ", &format!("file: {:?}\nfile (hex): {}\ncode: {}\nmodel: {}", text, hex_str(text), want, reply));
    }
}

fn json_value_text(v: &serde_json::Value) -> String {
    match v {
        serde_json::Value::String(s) => s.clone(),
        serde_json::Value::Number(n) => n.to_string(),
        serde_json::Value::Bool(b) => b.to_string(),
        serde_json::Value::Null => "NULL".to_string(),
        other => other.to_string(),
    }
}

fn json_case(objs: &[Vec<(String, serde_json::Value)>], path: &str, model: &mut model::Model, rep: &mut Report) {
    let arr: Vec<serde_json::Value> = objs.iter().map(|o| serde_json::Value::Object(o.iter().cloned().collect())).collect();
    let text = serde_json::to_string(&arr).unwrap();
    std::fs::write(path, &text).unwrap();
    let real = quiet(|| DataIO::import_json(path, "t"));
    rep.case(&format!("json {}", text), objs.iter().flatten().any(|(k, v)| !naive_safe(k) || !naive_safe(&json_value_text(v))));
    let parsed: Vec<serde_json::Map<String, serde_json::Value>> = serde_json::from_str(&text).unwrap();
    match real {
        Ok(stmts) => {
            rep.count("json_ok");
            if stmts.len() != parsed.len() {
                rep.fail(FailKind::Oracle, None, "import_json does not produce one statement per object", &format!("file: {}\nstatements: {:?}", text, stmts));
                return;
            }
            for (o, st) in parsed.iter().zip(stmts.iter()) {
                let pairs = format!("({})", o.iter().map(|(k, v)| if v.is_null() { format!("({} null)", hex_str(k)) } else { format!("({} {})", hex_str(k), hex_str(&json_value_text(v))) }).collect::<Vec<_>>().join(" "));
                let reply = model.ask(&format!("importjson {} {}", hex_str("t"), pairs));
                rep.traces_validated += 1;
                if unhex_str(&reply).as_deref() != Some(st.as_str()) {
                    rep.fail(FailKind::ModelDiff, None, "JSON import: model and import_json differ", &format!("object: {:?}\ncode: {:?}\nmodel: {:?}", o, st, unhex_str(&reply)));
                }
                // direct oracle on the statement text (only when the keys are column-like: that is
                // what validation guarantees before these statements are run)
                if o.keys().all(|k| k.chars().all(|c| c.is_ascii_alphanumeric() || c == '_') && k.chars().next().map(|c| c.is_ascii_alphabetic()).unwrap_or(false)) {
                    let cols: Vec<String> = o.keys().cloned().collect();
                    let vals: Vec<Option<String>> = o.values().map(|v| {
                        let t = json_value_text(v);
                        if matches!(v, serde_json::Value::Null) { None } else { Some(t) }
                    }).collect();
                    if let Err(why) = statement_is_plain_insert(st, "t", &cols, &vals) {
                        rep.fail(FailKind::Oracle, None, "generated INSERT is not a plain insert of the object's values", &format!("object: {:?}\nstatement: {}\n{}", o, st, why));
                    }
                }
            }
        }
        Err(e) => {
            rep.count("json_err");
            if !parsed.is_empty() && parsed.iter().all(|o| !o.is_empty()) {
                rep.fail(FailKind::Oracle, None, "import_json rejects a well-formed array of non-empty objects", &format!("file: {}\nerror: {}", text, e));
            }
        }
    }
}

struct ImportCase {
    cols: Vec<(String, String)>, // name, SQL type
    header: Vec<String>,
    records: Vec<Vec<Option<String>>>,
}

fn new_table(cols: &[(String, String)]) -> SqlExecutor {
    let mut ex = SqlExecutor::new(None).unwrap();
    let ddl = format!("CREATE TABLE s ({})", cols.iter().map(|(n, t)| format!("{} {}", n, t)).collect::<Vec<_>>().join(", "));
    quiet(|| ex.execute(&ddl)).unwrap();
    ex
}

/// expected rows (Debug text as `execute` reports them) when the records are inserted as data
fn expected_rows(c: &ImportCase) -> Vec<Vec<String>> {
    c.records
        .iter()
        .map(|rec| {
            c.cols
                .iter()
                .map(|(name, _)| match c.header.iter().position(|h| h.eq_ignore_ascii_case(name)) {
                    Some(i) => dbg_val(&rec[i]),
                    None => dbg_val(&None),
                })
                .collect()
        })
        .collect()
}

fn import_csv_case(c: &ImportCase, path: &str, rep: &mut Report) {
    let mut rows: Vec<Vec<String>> = vec![c.header.clone()];
    rows.extend(c.records.iter().map(|r| r.iter().map(|v| v.clone().unwrap_or_default()).collect()));
    let text = rfc_write(&rows);
    std::fs::write(path, &text).unwrap();
    let mut ex = new_table(&c.cols);
    let res = quiet(|| ex.handle_copy("s", path, CopyDirection::Import, CopyFormat::Csv));
    let got = select_all(&mut ex, "s").unwrap_or_default();
    let want = expected_rows(c);
    let cells_safe = rows.iter().flatten().all(|v| naive_safe(v)) && !text.contains('"');
    rep.case(&format!("import-csv {}", hex_str(&text)), !c.records.is_empty() && !cells_safe);
    rep.count(if cells_safe { "import_csv_plain_cells" } else { "import_csv_cells_needing_rfc4180" });
    if bag(got.clone()) != bag(want.clone()) {
        rep.fail(FailKind::Oracle, None, "an RFC 4180 CSV file is not imported as its records", &format!("table columns: {:?}\nfile:\n{}\nhandle_copy: {:?}\ntable after import: {:?}\nexpected: {:?}", c.cols, text, res.map_err(|e| e.to_string()), got, want));
    }
    // safety: whatever happened, only values from the file are in the table
    let allowed: std::collections::HashSet<String> = rows.iter().flatten().map(|v| dbg_val(&Some(v.clone()))).chain(std::iter::once(dbg_val(&None))).collect();
    let foreign: Vec<&String> = got.iter().flatten().filter(|v| !allowed.contains(*v)).collect();
    if !foreign.is_empty() {
        rep.fail(FailKind::Oracle, None, "import put a value into the table that is not in the file", &format!("file:\n{}\nforeign values: {:?}", text, foreign));
    }
}

fn import_json_case(c: &ImportCase, hostile_key: Option<&str>, path: &str, rep: &mut Report) {
    let mut arr = vec![];
    for (i, rec) in c.records.iter().enumerate() {
        let mut o = serde_json::Map::new();
        for (h, v) in c.header.iter().zip(rec.iter()) {
            o.insert(h.clone(), match v {
                Some(s) => serde_json::Value::String(s.clone()),
                None => serde_json::Value::Null,
            });
        }
        if let (Some(k), true) = (hostile_key, i == c.records.len() - 1 && i > 0) {
            o.insert(k.to_string(), serde_json::Value::String("payload".into()));
        }
        arr.push(serde_json::Value::Object(o));
    }
    let text = serde_json::to_string(&arr).unwrap();
    std::fs::write(path, &text).unwrap();
    let mut ex = new_table(&c.cols);
    let res = quiet(|| ex.handle_copy("s", path, CopyDirection::Import, CopyFormat::Json));
    let got = select_all(&mut ex, "s").unwrap_or_default();
    let want = expected_rows(c);
    rep.case(&format!("import-json {}", text), !c.records.is_empty());
    rep.count(if hostile_key.is_some() { "import_json_hostile_key" } else { "import_json" });
    if hostile_key.is_some() && c.records.len() > 1 {
        // the file does not fit the table: nothing but the file's values may reach the table
        let allowed: std::collections::HashSet<String> = c.records.iter().flatten().map(dbg_val).chain(vec![dbg_val(&None), dbg_val(&Some("payload".into()))]).collect();
        let foreign: Vec<&String> = got.iter().flatten().filter(|v| !allowed.contains(*v)).collect();
        if !foreign.is_empty() {
            rep.fail(FailKind::Oracle, None, "JSON import put text from an object key into the table", &format!("file: {}\nhandle_copy: {:?}\ntable after import: {:?}\nforeign values: {:?}", text, res.map_err(|e| e.to_string()), got, foreign));
        }
        return;
    }
    if bag(got.clone()) != bag(want.clone()) {
        rep.fail(FailKind::Oracle, None, "a JSON file is not imported as its records", &format!("table columns: {:?}\nfile: {}\nhandle_copy: {:?}\ntable after import: {:?}\nexpected: {:?}", c.cols, text, res.map_err(|e| e.to_string()), got, want));
    }
}

/// export with `\copy t TO file`, import into an empty table of the same schema, compare
fn copy_case(cols: &[(String, String)], inserts: &[String], format: CopyFormat, path: &str, rep: &mut Report) {
    let mut ex = new_table(cols);
    for i in inserts {
        if let Err(e) = quiet(|| ex.execute(i)) {
            panic!("harness precondition: {} => {}", i, e);
        }
    }
    let before = select_all(&mut ex, "s").unwrap_or_default();
    let exp = quiet(|| ex.handle_copy("s", path, CopyDirection::Export, format));
    let file = std::fs::read_to_string(path).unwrap_or_default();
    let mut ex2 = new_table(cols);
    let imp = quiet(|| ex2.handle_copy("s", path, CopyDirection::Import, format));
    let after = select_all(&mut ex2, "s").unwrap_or_default();
    rep.case(&format!("copy {:?} {:?} {:?}", format, cols, inserts), !before.is_empty());
    rep.count(&format!("copy_{:?}_{}", format, if before.is_empty() { "empty_table" } else { "rows" }));
    if bag(before.clone()) != bag(after.clone()) {
        // the recorded defect: export writes the header `Column` and Debug text of the values
        let debug_format = !before.is_empty() && (file.starts_with("Column") || file.contains("\"Column\""));
        let sig = if debug_format { Some("C31/export-debug-format") } else { None };
        rep.fail(
            FailKind::Oracle,
            sig,
            "export then import into an empty table of the same schema does not reproduce the rows",
            &format!("CREATE TABLE s {:?}\n{}\nexport: {:?}\nfile:\n{}\nimport: {:?}\nrows before: {:?}\nrows after: {:?}", cols, inserts.join(";\n"), exp.map_err(|e| e.to_string()), file, imp.map_err(|e| e.to_string()), before, after),
        );
    }
}


// ---------------------------------------------------------------- header validation vs import (C31 T5)

fn storage_db(cols: &[&str]) -> vibesql_storage::Database {
    let mut db = vibesql_storage::Database::new();
    let schema = vibesql_catalog::TableSchema::new(
        "S".to_string(),
        cols.iter().map(|c| vibesql_catalog::ColumnSchema::new(c.to_uppercase(), vibesql_types::DataType::Varchar { max_length: Some(200) }, true)).collect(),
    );
    db.create_table(schema).unwrap();
    db
}

/// model `validateHeader` vs the real `validate_csv_columns` (accept / reject)
fn validate_case(text: &str, path: &str, model: &mut model::Model, rep: &mut Report) {
    std::fs::write(path, text).unwrap();
    let db = storage_db(&["a", "b"]);
    let real = quiet(|| executor::validation::validate_csv_columns(&db, path, "S")).is_ok();
    let reply = model.ask(&format!("validate ({} {}) {}", hex_str("A"), hex_str("B"), hex_str(text)));
    rep.case(&format!("validate {}", hex_str(text)), real);
    rep.count(if real { "validate_accepts" } else { "validate_rejects" });
    rep.traces_validated += 1;
    if reply != (if real { "1" } else { "0" }) {
        rep.fail(FailKind::ModelDiff, None, "header validation: model and validate_csv_columns disagree", &format!("file: {:?}\nfile (hex): {}\ncode accepts: {}\nmodel: {}", text, hex_str(text), real, reply));
    }
}

/// `\copy s FROM file` with a second table present: afterwards `s` holds the file's records or the
/// import was refused and `s` is unchanged; no value that is not a data cell of the file reaches
/// `s`; no other table changes
fn header_case(text: &str, path: &str, model: &mut model::Model, rep: &mut Report) {
    std::fs::write(path, text).unwrap();
    let cols = vec![("a".to_string(), "VARCHAR(200)".to_string()), ("b".to_string(), "VARCHAR(200)".to_string())];
    let mut ex = new_table(&cols);
    quiet(|| ex.execute("CREATE TABLE secrets (k VARCHAR(50), v VARCHAR(50))")).unwrap();
    quiet(|| ex.execute("INSERT INTO secrets VALUES ('key', 'hunter2')")).unwrap();
    quiet(|| ex.execute("INSERT INTO s VALUES ('old', 'row')")).unwrap();
    let before_s = bag(select_all(&mut ex, "s").unwrap_or_default());
    let before_x = bag(select_all(&mut ex, "secrets").unwrap_or_default());
    let res = quiet(|| ex.handle_copy("s", path, CopyDirection::Import, CopyFormat::Csv)).map_err(|e| e.to_string());
    let after_s = bag(select_all(&mut ex, "s").unwrap_or_default());
    let after_x = bag(select_all(&mut ex, "secrets").unwrap_or_default());
    // the definitional reading of the file (the model's RFC 4180 reader)
    let parsed: Option<Vec<Vec<String>>> = match Sx::parse(&model.ask(&format!("parsecsv {}", hex_str(text)))) {
        Some(Sx::List(l)) if l.first().and_then(|x| x.as_atom()) == Some("ok") => l[1].as_list().map(|rows| {
            rows.iter().map(|r| r.as_list().unwrap_or(&[]).iter().map(|c| unhex_str(c.as_atom().unwrap_or("-")).unwrap_or_default()).collect()).collect()
        }),
        _ => None,
    };
    let quoted_header = text.lines().next().map(|l| l.contains('"')).unwrap_or(false);
    rep.case(&format!("header {}", hex_str(text)), quoted_header || res.is_ok());
    rep.count(if res.is_ok() { "header_import_accepted" } else { "header_import_refused" });
    if quoted_header {
        rep.count("header_with_quotes");
    }
    let show = |why: &str| format!("{}\nfile:\n{}\nfile (hex): {}\nhandle_copy: {:?}\ns before: {:?}\ns after: {:?}\nsecrets after: {:?}", why, text, hex_str(text), res, before_s, after_s, after_x);
    if after_x != before_x {
        rep.fail(FailKind::Oracle, None, "CSV import changed another table", &show("table secrets changed"));
    }
    let mut added = after_s.clone();
    for r in &before_s {
        if let Some(i) = added.iter().position(|x| x == r) {
            added.remove(i);
        } else {
            rep.fail(FailKind::Oracle, None, "CSV import removed or changed an existing row", &show("a row of s disappeared"));
            return;
        }
    }
    let (header, records): (Vec<String>, Vec<Vec<String>>) = match &parsed {
        Some(rows) if !rows.is_empty() => (rows[0].clone(), rows[1..].to_vec()),
        _ => {
            if !added.is_empty() {
                rep.fail(FailKind::Oracle, None, "a malformed or empty CSV file inserted rows", &show("the file has no header record"));
            }
            return;
        }
    };
    // nothing but data cells of the file (or NULL) may reach the table
    let allowed: std::collections::HashSet<String> = records.iter().flatten().map(|v| dbg_val(&Some(v.clone()))).chain(std::iter::once(dbg_val(&None))).collect();
    let foreign: Vec<&String> = added.iter().flatten().filter(|v| !allowed.contains(*v)).collect();
    if !foreign.is_empty() {
        rep.fail(FailKind::Oracle, None, "CSV import inserted a value that is not a data cell of the file", &show(&format!("foreign values: {:?}", foreign)));
        return;
    }
    // a header that names columns of the table: exactly the records, or refused and unchanged
    let names: Vec<String> = header.iter().map(|h| h.trim().to_lowercase()).collect();
    let fits = !names.is_empty()
        && names.iter().all(|n| n == "a" || n == "b")
        && names.iter().collect::<std::collections::HashSet<_>>().len() == names.len()
        && header.iter().all(|h| !h.chars().any(|c| matches!(c, ';' | '\'' | '"' | '(' | ')')))
        && records.iter().all(|r| r.len() == header.len());
    if fits {
        let want: Vec<Vec<String>> = bag(records.iter().map(|rec| ["a", "b"].iter().map(|c| match names.iter().position(|n| n == c) { Some(i) => dbg_val(&Some(rec[i].clone())), None => dbg_val(&None) }).collect()).collect());
        let refused_unchanged = res.is_err() && added.is_empty();
        if !(refused_unchanged || bag(added.clone()) == want) {
            rep.fail(FailKind::Oracle, None, "CSV import neither inserted exactly the file's records nor refused the file", &show(&format!("records: {:?}", records)));
        }
    }
}

fn gen_header_file(r: &mut Rng) -> String {
    // header fields in every quoting shape; half of the files have a header the validator accepts
    let valid = r.chance(1, 2);
    let n = if valid { r.range(1, 2) as usize } else { r.range(0, 3) as usize };
    let mut fields: Vec<String> = vec![];
    for i in 0..n {
        let base = match if valid { 9 } else { r.below(10) } {
            0 => "A".to_string(),
            1 => "B".to_string(),
            2 => "nosuch".to_string(),
            3 => "a b".to_string(),
            4 => "a) VALUES ('evil','row') --".to_string(),
            5 => "".to_string(),
            _ => ["a", "b"][i % 2].to_string(),
        };
        let f = match if valid { [1u64, 7, 8][r.below(3) as usize] } else { r.below(9) } {
            0 => format!("\"{}\"", base),
            1 => format!(" {} ", base),
            2 => format!("\" {}\"", base),
            3 => format!("\"{}\n) VALUES ('evil','row') --\"", base),
            4 => format!("\"{}\n) SELECT k, v FROM secrets --\"", base),
            5 => format!("\"{}\"\"\"", base),
            6 => format!("\"{}", base),
            _ => base,
        };
        fields.push(f);
    }
    let mut s = fields.join(",");
    s.push_str(*r.pick(&["\n", "\r\n", "\n", ""]));
    let nrec = r.range(0, 3);
    let width = if !valid && r.chance(1, 5) { r.range(0, 3) as usize } else { n.max(1) };
    for _ in 0..nrec {
        let cells: Vec<String> = (0..width).map(|_| nasty(r, 3)).collect();
        s.push_str(&rfc_write(&[cells]));
    }
    s
}

fn gen_import_case(r: &mut Rng, plain: bool) -> ImportCase {
    let ncols = r.range(1, 3) as usize;
    let cols: Vec<(String, String)> = (0..ncols).map(|i| (format!("c{}", i), "VARCHAR(200)".to_string())).collect();
    // header: a permutation of a non-empty subset of the columns, case varied
    let mut idx: Vec<usize> = (0..ncols).collect();
    r.shuffle(&mut idx);
    let keep = r.range(1, ncols as i64) as usize;
    let header: Vec<String> = idx[..keep].iter().map(|i| if r.chance(1, 3) { format!("C{}", i) } else { format!("c{}", i) }).collect();
    let nrec = r.range(0, 4) as usize;
    let records = (0..nrec)
        .map(|_| {
            header
                .iter()
                .map(|_| {
                    let s = if plain { (0..r.below(4)).map(|_| *r.pick(&["a", "b", "1", "it's", "x y", ";", "--", "é", "(", "NULL"])).collect::<String>() } else { nasty(r, 4) };
                    Some(s)
                })
                .collect()
        })
        .collect();
    ImportCase { cols, header, records }
}

fn main() {
    std::panic::set_hook(Box::new(|info| {
        if std::env::var("VERIF_SHOW_PANICS").is_ok() || info.location().map(|l| !l.file().starts_with('/') || l.file().contains("/verif/")).unwrap_or(false) {
            eprintln!("harness panic: {}", info);
        }
    }));
    let args = Args::parse("C31");
    let mut rep = Report::new(
        &args,
        "cases: writer = table of cells; reader = CSV file text; json = array of objects; import-csv / import-json = (table, file); \
         copy = (table contents, format). Non-trivial: some cell needs RFC 4180 quoting or has outer blanks / the file yields statements and \
         contains quotes / the table has rows. Distinct by hash of the case.",
    );
    rep.assumptions.push("tie = CLI source files compiled into the harness with #[path] (data_io.rs, executor/mod.rs, executor/copy_handler.rs, executor/validation.rs); commands.rs replaced by a two-enum shim; the REPL's \\copy line parsing is not exercised".into());
    rep.assumptions.push("reference CSV dialect: RFC 4180 quoting, records end with LF (what export_csv writes)".into());
    rep.assumptions.push("import oracles use VARCHAR columns: every imported value is a quoted string literal (see notes for typed columns)".into());
    let mut model = args.model();
    let mut rng = Rng::new(args.seed);
    let path = args.scratch.join("data.csv").display().to_string();
    let pathj = args.scratch.join("data.json").display().to_string();

    // ---- deterministic probes
    let cells = ["", "a", "x,y", "q\"r", "\"", "\"\"", "x\ny", "x\r\ny", "x\r", " pad ", "it's", "'); DROP TABLE s; --", "NULL", ",", "\n", "é漢😀", "a\"", "\"a", "a,", ",a"];
    for c in cells.iter() {
        writer_case(&[vec!["h".into()], vec![c.to_string()]], &path, &mut model, &mut rep);
        writer_case(&[vec!["h1".into(), "h2".into()], vec![c.to_string(), "z".into()], vec!["z".into(), c.to_string()]], &path, &mut model, &mut rep);
        let ic = ImportCase { cols: vec![("a".into(), "VARCHAR(200)".into()), ("b".into(), "VARCHAR(200)".into())], header: vec!["a".into(), "b".into()], records: vec![vec![Some(c.to_string()), Some("k".into())], vec![Some("k".into()), Some(c.to_string())]] };
        import_csv_case(&ic, &path, &mut rep);
        import_json_case(&ic, None, &pathj, &mut rep);
    }
    for t in ["", "\n", "a\n", "a,b\n1,2\n", "a,b\n1\n", "a\n\"x\"\n", "a\r\n1\r\n", "a\n1\r", "a,b\n\"x,y\",2\n", "a\n\n1\n", "a\n1", " a , b \n 1 , 2 \n", "a\n'\n", "a,b\n1,2,3\n", "\n1\n"] {
        reader_case(t, &path, &mut model, &mut rep);
    }
    for k in ["a) VALUES ('INJECTED'); DROP TABLE s; --", "a, b) VALUES ('INJ', 'ECTED') --", "nosuchcolumn", "a\"", "b) SELECT ('x"] {
        let ic = ImportCase { cols: vec![("a".into(), "VARCHAR(200)".into()), ("b".into(), "VARCHAR(200)".into())], header: vec!["a".into(), "b".into()], records: vec![vec![Some("1".into()), Some("ok".into())], vec![Some("2".into()), Some("z".into())]] };
        import_json_case(&ic, Some(k), &pathj, &mut rep);
    }
    // a JSON null is NULL; the JSON string "NULL" should be the four letters
    json_case(&[vec![("a".into(), json!("NULL")), ("b".into(), json!(null))]], &pathj, &mut model, &mut rep);
    json_case(&[vec![("a".into(), json!(["x'y", "'); DROP TABLE t; --", "a\\b", ") , ("])), ("b".into(), json!({"k'": "v'", "n": ["'"]}))]], &pathj, &mut model, &mut rep);
    json_case(&[vec![("a".into(), json!(1)), ("b".into(), json!(true))], vec![("a".into(), json!([1, 2])), ("b".into(), json!({"k": "v'"}))]], &pathj, &mut model, &mut rep);
    // header shapes: validator and importer must agree on what the header is
    for t in [
        "a,b\n1,2\n", "\"a\",\"b\"\n1,2\n", "\"a\",b\n1,2\n", " a , b \n1,2\n", "A,B\r\n1,2\r\n", "b,a\n1,2\n", "a\n1\n", "a,a\n1,2\n", "a,nosuch\n1,2\n", "\n1,2\n", "", "a,b",
        "\"a\",\"b\n) VALUES ('evil','row') --\"\n1,2\n",
        "\"a\",\"b\n) SELECT k, v FROM secrets --\"\n1,2\n",
        "a,\"b\n) VALUES ('evil','row') --\"\n1,2\n",
        "a,\"b\"\"\n1,2\n", "\"a\nb\"\n1\n", "a,b) VALUES ('x','y') --\n1,2\n", "a,\"b) VALUES ('x','y') --\"\n1,2\n", "a,b\n\"x\ny\",\"q\"\"r\"\n", "a,b\n1\n", "a,\"b\n1,2\n",
    ] {
        validate_case(t, &path, &mut model, &mut rep);
        header_case(t, &path, &mut model, &mut rep);
    }
    // export then import
    let vc = vec![("a".to_string(), "INTEGER".to_string()), ("b".to_string(), "VARCHAR(50)".to_string())];
    for fmt in [CopyFormat::Csv, CopyFormat::Json] {
        copy_case(&vc, &[], fmt, &path, &mut rep);
        copy_case(&vc, &["INSERT INTO s VALUES (1, 'x')".to_string()], fmt, &path, &mut rep);
        copy_case(&vc, &["INSERT INTO s VALUES (1, 'x,y')".to_string(), "INSERT INTO s VALUES (2, 'q\"r')".to_string()], fmt, &path, &mut rep);
        copy_case(&[("a".to_string(), "VARCHAR(20)".to_string())], &["INSERT INTO s VALUES ('plain')".to_string()], fmt, &path, &mut rep);
    }

    // ---- generated
    for i in 0..args.n(1500, 40000) {
        let mut r = rng.fork();
        let ncols = r.range(1, 4) as usize;
        let nrows = r.range(1, 4) as usize;
        let rows: Vec<Vec<String>> = (0..nrows).map(|_| (0..ncols).map(|_| nasty(&mut r, 4)).collect()).collect();
        if i < 2 {
            rep.sample(json!({"stream": "writer", "rows": rows}));
        }
        writer_case(&rows, &path, &mut model, &mut rep);
    }
    let csv_alphabet = [",", "\"", "\n", "\r\n", "\r", " ", "a", "b", "1", "'", "''", "x y", "\"q\"", ";", "é", "\n\n", "\t"];
    for i in 0..args.n(4000, 100000) {
        let mut r = rng.fork();
        let k = r.range(0, 12);
        let text: String = (0..k).map(|_| *r.pick(&csv_alphabet)).collect();
        if i < 2 {
            rep.sample(json!({"stream": "reader", "file": text}));
        }
        reader_case(&text, &path, &mut model, &mut rep);
    }
    for i in 0..args.n(1200, 30000) {
        let mut r = rng.fork();
        let nobj = r.range(1, 3) as usize;
        let objs: Vec<Vec<(String, serde_json::Value)>> = (0..nobj)
            .map(|_| {
                let nk = r.range(1, 3) as usize;
                (0..nk)
                    .map(|j| {
                        let key = if r.chance(1, 5) { nasty(&mut r, 2) + "k" } else { format!("k{}", j) };
                        let v = match r.below(10) {
                            7 => json!([nasty(&mut r, 3), r.range(-5, 5), nasty(&mut r, 3)]),
                            8 => json!({ "k": nasty(&mut r, 3), "n": [nasty(&mut r, 2)] }),
                            9 => json!([{ "q": "it's", "b": "a\\b", "c": "-- ) , '" }]),
                            0 => json!(null),
                            1 => json!(r.range(-1000, 1000)),
                            2 => json!(r.chance(1, 2)),
                            3 => json!([1, "x'"]),
                            4 => json!("NULL"),
                            _ => json!(nasty(&mut r, 4)),
                        };
                        (key, v)
                    })
                    .collect()
            })
            .collect();
        if i < 2 {
            rep.sample(json!({"stream": "json", "objects": format!("{:?}", objs)}));
        }
        json_case(&objs, &pathj, &mut model, &mut rep);
    }
    for i in 0..args.n(600, 15000) {
        let mut r = rng.fork();
        let plain = r.chance(1, 2);
        let c = gen_import_case(&mut r, plain);
        if i < 2 {
            rep.sample(json!({"stream": "import", "header": c.header, "records": format!("{:?}", c.records)}));
        }
        import_csv_case(&c, &path, &mut rep);
        import_json_case(&c, None, &pathj, &mut rep);
        if r.chance(1, 4) {
            let k = nasty(&mut r, 3) + ") VALUES ('X'); --";
            import_json_case(&c, Some(&k), &pathj, &mut rep);
        }
    }
    let hdr_alphabet = ["a", "b", "A", "\"", "\"\"", ",", " ", "\n", "\r\n", "nosuch", "(", ")", "'", ";", "--", "a b", "\t"];
    for i in 0..args.n(1500, 40000) {
        let mut r = rng.fork();
        let text = if r.chance(1, 2) {
            gen_header_file(&mut r)
        } else {
            let k = r.range(0, 9);
            (0..k).map(|_| *r.pick(&hdr_alphabet)).collect::<String>()
        };
        if i < 2 {
            rep.sample(json!({"stream": "header", "file": text}));
        }
        validate_case(&text, &path, &mut model, &mut rep);
        if i % 3 == 0 || text.contains('"') {
            header_case(&text, &path, &mut model, &mut rep);
        }
    }
    for _ in 0..args.n(150, 4000) {
        let mut r = rng.fork();
        let nrows = r.range(0, 3) as usize;
        let inserts: Vec<String> = (0..nrows).map(|_| format!("INSERT INTO s VALUES ({}, '{}')", r.range(-50, 50), nasty(&mut r, 3).replace('\'', "''"))).collect();
        let fmt = if r.chance(1, 2) { CopyFormat::Csv } else { CopyFormat::Json };
        copy_case(&vc, &inserts, fmt, &path, &mut rep);
    }
    rep.extra.insert("model_requests".into(), json!(model.requests));
    rep.extra.insert("tie".into(), json!("#[path] include of the CLI sources (see assumptions)"));
    std::process::exit(rep.finish());
}
