# C18/C20: the binary format's constant tables, re-read from the source on every run.
# Tags are emitted by *index* in the model's fixed constructor order (Model/BinCodec.lean
# `Tag`), so that the Lean theorems are `decide` over small Nat tables.  A name the source
# no longer has is simply missing from the table and the totality theorem stops building.
import re

ORDER = ["Null", "Smallint", "Integer", "Bigint", "Unsigned", "Numeric", "Float", "Real",
         "Double", "Character", "Varchar", "Boolean", "Date", "Time", "Timestamp", "Interval"]


def extract(read):
    fmt = read("crates/vibesql-storage/src/persistence/binary/format.rs")
    out = []
    m = re.search(r"enum\s+TypeTag\s*\{(.*?)\}", fmt, re.S)
    enum = re.findall(r"(\w+)\s*=\s*(0x[0-9a-fA-F]+|\d+)", m.group(1)) if m else []
    to_byte = [(ORDER.index(n), int(v, 0)) for n, v in enum if n in ORDER]
    extra = [n for n, _ in enum if n not in ORDER]
    m = re.search(r"fn\s+from_u8\s*\(.*?match\s+tag\s*\{(.*?)\n\s*_\s*=>", fmt, re.S)
    arms = re.findall(r"(0x[0-9a-fA-F]+|\d+)\s*=>\s*Ok\(TypeTag::(\w+)\)", m.group(1)) if m else []
    from_byte = [(int(v, 0), ORDER.index(n)) for v, n in arms if n in ORDER]
    out.append("/-- format.rs `enum TypeTag`: (index of the tag in the model's order, discriminant) -/")
    out.append("def binTagToByte : List (Nat × Nat) := [%s]" % ", ".join("(%d, %d)" % p for p in to_byte))
    out.append("/-- format.rs `TypeTag::from_u8` arms: (byte, index of the tag in the model's order) -/")
    out.append("def binTagFromByte : List (Nat × Nat) := [%s]" % ", ".join("(%d, %d)" % p for p in from_byte))
    out.append("/-- number of `TypeTag` variants the model does not know (must be 0) -/")
    out.append("def binTagUnknownVariants : Nat := %d" % len(extra))
    magic = re.search(r'MAGIC\s*:\s*&\[u8;\s*(\d+)\]\s*=\s*b"([^"]*)"', fmt)
    if magic:
        out.append("/-- format.rs `MAGIC` -/")
        out.append("def binMagic : List Nat := [%s]" % ", ".join(str(b) for b in magic.group(2).encode()))
    ver = re.search(r"VERSION\s*:\s*u8\s*=\s*(\d+)", fmt)
    if ver:
        out.append("/-- format.rs `VERSION` -/")
        out.append("def binVersion : Nat := %s" % ver.group(1))
    res = re.search(r"let mut reserved = \[0u8;\s*(\d+)\]", fmt)
    if res:
        out.append("/-- format.rs `read_header`: reserved bytes after magic, version, flags -/")
        out.append("def binReservedLen : Nat := %s" % res.group(1))
    return "\n".join(out) + "\n"
