#!/bin/bash
# Runs checks against ANOTHER source root (a scratch worktree of /repo with a seeded change
# applied) without touching /repo or /verif: copies /verif to /tmp/vv/<name>/verif, rewrites
# every "/repo" path in the copy to the worktree, and runs ./check there.
# usage: tools/shadow_check.sh <worktree> <Cnn> [<Cnn> ...]     (keeps the shadow; rm -rf /tmp/vv/<name> when done)
set -e
WT=$(realpath "$1"); shift
NAME=$(basename "$WT")
S=/tmp/vv/$NAME
mkdir -p "$S"
rsync -a --delete --exclude '.run' --exclude '.git' --exclude 'replays' --exclude '.locks' --exclude 'seeded' /verif/ "$S/verif/" || true
grep -rlI '/repo' "$S/verif" --include='*.rs' --include='*.toml' --include='*.py' --include='check' --include='*.sh' 2>/dev/null | xargs -r sed -i "s#/repo#$WT#g"
cd "$S/verif"
rc=0
for c in "$@"; do
  ./check "$c" > "$S/$c.log" 2>&1 || rc=1
  grep -E "^VIOLATION|^KNOWN-FINDING|tier=" "$S/$c.log" | cut -c1-220
done
exit $rc
