import VibeProof.Props.C03
#print axioms VibeProof.C03.C03_columnar_eq_row
#print axioms VibeProof.C03.C03_execute_eq_row
#print axioms VibeProof.C03.C03_where
#print axioms VibeProof.C03.C03_gate_declines
#print axioms VibeProof.C03.C03_one_row_count_not_null
#print axioms VibeProof.C03.C03_counterexample
#print axioms VibeProof.C03.simd_eq
#print axioms VibeProof.C03.scalar_eq
#print axioms VibeProof.C03.colItem_eq
#print axioms VibeProof.C03.C03_probe_const
#print axioms VibeProof.C03.C03_gate_const
#print axioms VibeProof.C03.C03_simd_batches_sum
#print axioms VibeProof.C03.C03_simd_batches_min
#print axioms VibeProof.C03.C03_simd_batches_max
#print axioms VibeProof.C03.C03_batch_const
