//! Shared by the C18 and C20 binaries: value <-> model s-expression, bit-exact comparison,
//! generators of values and of small databases, save/load by format.
#![allow(dead_code)]
use std::path::Path;
use vharness::*;
use vibesql_storage::{Database, Row};
use vibesql_types::{DataType, SqlValue as V};

pub fn hex(b: &[u8]) -> String {
    if b.is_empty() {
        return "-".into();
    }
    let mut s = String::with_capacity(b.len() * 2);
    for x in b {
        s.push_str(&format!("{:02x}", x));
    }
    s
}
pub fn unhex(s: &str) -> Option<Vec<u8>> {
    if s == "-" {
        return Some(vec![]);
    }
    if s.len() % 2 != 0 {
        return None;
    }
    (0..s.len()).step_by(2).map(|i| u8::from_str_radix(&s[i..i + 2], 16).ok()).collect()
}

/// the model's s-expression of a value (floats as bit patterns, temporal values as Display text)
pub fn val_sx(v: &V) -> String {
    match v {
        V::Null => "(null)".into(),
        V::Smallint(n) => format!("(smallint {})", n),
        V::Integer(n) => format!("(integer {})", n),
        V::Bigint(n) => format!("(bigint {})", n),
        V::Unsigned(n) => format!("(unsigned {})", n),
        V::Numeric(f) => format!("(numeric {})", f.to_bits()),
        V::Float(f) => format!("(float {})", f.to_bits()),
        V::Real(f) => format!("(real {})", f.to_bits()),
        V::Double(f) => format!("(double {})", f.to_bits()),
        V::Character(s) => format!("(character {})", hex(s.as_bytes())),
        V::Varchar(s) => format!("(varchar {})", hex(s.as_bytes())),
        V::Boolean(b) => format!("(boolean {})", if *b { 1 } else { 0 }),
        V::Date(d) => format!("(date {})", hex(d.to_string().as_bytes())),
        V::Time(t) => format!("(time {})", hex(t.to_string().as_bytes())),
        V::Timestamp(t) => format!("(timestamp {})", hex(t.to_string().as_bytes())),
        V::Interval(i) => format!("(interval {})", hex(i.to_string().as_bytes())),
    }
}

pub fn is_temporal(v: &V) -> bool {
    matches!(v, V::Date(_) | V::Time(_) | V::Timestamp(_) | V::Interval(_))
}

/// identical values, STRUCTURALLY: same variant; floats by bit pattern; DATE/TIME/TIMESTAMP by their
/// fields and INTERVAL by text and components (Debug of the structs) — never through `Display`, which
/// both sides of a round trip share
pub fn same_val(a: &V, b: &V) -> bool {
    if is_temporal(a) || is_temporal(b) {
        return format!("{:?}", a) == format!("{:?}", b);
    }
    val_sx(a) == val_sx(b)
}
/// text of a value for reports and bags: `val_sx`, temporal values by their fields
pub fn val_struct(v: &V) -> String {
    if is_temporal(v) {
        format!("{:?}", v).replace(' ', "")
    } else {
        val_sx(v)
    }
}
/// SQL text of a TIME from its fields (not through `Display`)
pub fn time_text(t: &vibesql_types::Time) -> String {
    let mut s = format!("{:02}:{:02}:{:02}", t.hour, t.minute, t.second);
    if t.nanosecond != 0 {
        let mut f = format!("{:09}", t.nanosecond);
        while f.ends_with('0') {
            f.pop();
        }
        s.push('.');
        s.push_str(&f);
    }
    s
}
pub fn date_text(d: &vibesql_types::Date) -> String {
    format!("{:04}-{:02}-{:02}", d.year, d.month, d.day)
}
pub fn same_row(a: &[V], b: &[V]) -> bool {
    a.len() == b.len() && a.iter().zip(b).all(|(x, y)| same_val(x, y))
}
pub fn is_nonfinite(v: &V) -> bool {
    match v {
        V::Numeric(f) | V::Double(f) => !f.is_finite(),
        V::Float(f) | V::Real(f) => !f.is_finite(),
        _ => false,
    }
}

const STRS: &[&str] = &[
    "", "a", "it's", "\"q\"", "a'b''c", "é", "漢字", "😀 emoji", "semi;colon", "line\nbreak", "back\\slash",
    "-- dash", "NULL", "007", "0.050", "00", "1e-5", " lead", "trail ", "tab\tx", "\u{0}nul", "ÿ\u{7ff}\u{800}\u{ffff}\u{10000}\u{10ffff}",
];

pub fn gen_string(r: &mut Rng, max: usize) -> String {
    let mut s = if r.chance(2, 3) {
        r.pick(STRS).to_string()
    } else {
        let n = r.below(12) as usize;
        (0..n)
            .map(|_| match r.below(6) {
                0 => '\'',
                1 => char::from_u32(0x80 + r.below(0x700) as u32).unwrap_or('x'),
                2 => char::from_u32(0x4e00 + r.below(0x100) as u32).unwrap_or('y'),
                _ => (b'a' + r.below(26) as u8) as char,
            })
            .collect()
    };
    while s.chars().count() > max {
        s.pop();
    }
    s
}

fn gen_f64(r: &mut Rng) -> f64 {
    match r.below(12) {
        0 => f64::NAN,
        1 => f64::INFINITY,
        2 => f64::NEG_INFINITY,
        3 => -0.0,
        4 => 0.0,
        5 => f64::from_bits(0x7ff8_0000_0000_0001 | (r.next() & 0x7_ffff_ffff_ffff)), // NaN payload
        6 => f64::MAX,
        7 => f64::MIN_POSITIVE,
        8 => f64::from_bits(1 + r.below(1000)), // subnormal
        9 => f64::from_bits(r.next()),
        10 => *r.pick(&[0.05, 0.001, -0.0625, 1e-5, 5e-300, -2.5e-310, 1.0000000000000002, 0.1 + 0.2, 123456789.000001]),
        _ => (r.range(-1_000_000, 1_000_000) as f64) * 0.001,
    }
}
fn gen_f32(r: &mut Rng) -> f32 {
    match r.below(11) {
        0 => f32::NAN,
        1 => f32::INFINITY,
        2 => f32::NEG_INFINITY,
        3 => -0.0,
        4 => f32::from_bits(0x7fc0_0001 | (r.next() as u32 & 0x3f_ffff)),
        5 => f32::MAX,
        6 => f32::from_bits(1 + r.below(100) as u32),
        7 => f32::from_bits(r.next() as u32),
        8 => *r.pick(&[0.05f32, 0.001, 1e-30, -7.5e-40]),
        _ => r.range(-1000, 1000) as f32 / 4.0,
    }
}
fn gen_i64(r: &mut Rng) -> i64 {
    match r.below(8) {
        0 => i64::MAX,
        1 => i64::MIN,
        2 => 0,
        3 => -1,
        4 => r.next() as i64,
        _ => r.range(-50, 50),
    }
}
pub fn gen_date(r: &mut Rng) -> vibesql_types::Date {
    let (y, m, d) = match r.below(8) {
        0 => (1, 1, 1),
        1 => (9999, 12, 31),
        2 => (2024, 2, 29),
        3 => (0, 1, 1),
        4 => (1000, 10, 10),
        5 => (999, 9, 9),
        _ => (r.range(1900, 2100) as i32, r.range(1, 12) as u8, r.range(1, 28) as u8),
    };
    vibesql_types::Date::new(y, m, d).unwrap()
}
pub fn gen_time(r: &mut Rng) -> vibesql_types::Time {
    // fractions with leading zeros (1 ..= 99_999_999 ns) and trailing zeros, both ends, and random
    let ns = match r.below(4) {
        0 => 0,
        1 | 2 => *r.pick(&[1u32, 10, 999, 1_000, 50_000_000, 99_999_999, 100_000_000, 999_999_999, 5_000, 120_000_000, 1_001_000]),
        _ => r.below(1_000_000_000) as u32,
    };
    vibesql_types::Time::new(r.below(24) as u8, r.below(60) as u8, r.below(60) as u8, ns).unwrap()
}

/// a value of exactly the variant the engine stores for a column of this type
pub fn gen_value(r: &mut Rng, t: &DataType, nullable: bool) -> V {
    if nullable && r.chance(1, 6) {
        return V::Null;
    }
    match t {
        DataType::Integer => V::Integer(gen_i64(r)),
        DataType::Smallint => V::Smallint(match r.below(4) {
            0 => i16::MIN,
            1 => i16::MAX,
            _ => r.range(-100, 100) as i16,
        }),
        DataType::Bigint => V::Bigint(gen_i64(r)),
        DataType::Unsigned => V::Unsigned(match r.below(3) {
            0 => u64::MAX,
            1 => 0,
            _ => r.next(),
        }),
        DataType::Numeric { .. } | DataType::Decimal { .. } => V::Numeric(gen_f64(r)),
        DataType::Float { .. } => V::Float(gen_f32(r)),
        DataType::Real => V::Real(gen_f32(r)),
        DataType::DoublePrecision => V::Double(gen_f64(r)),
        DataType::Character { length } => V::Character(gen_string(r, *length)),
        DataType::Varchar { max_length } => V::Varchar(gen_string(r, max_length.unwrap_or(64))),
        DataType::Name => V::Varchar(gen_string(r, 20)),
        DataType::Boolean => V::Boolean(r.chance(1, 2)),
        DataType::Date => V::Date(gen_date(r)),
        DataType::Time { .. } => V::Time(gen_time(r)),
        DataType::Timestamp { .. } => V::Timestamp(vibesql_types::Timestamp::new(gen_date(r), gen_time(r))),
        DataType::Interval { .. } => V::Interval(vibesql_types::Interval::new(match r.below(6) {
            0 => format!("{}", r.range(0, 99)),
            1 => format!("{}-{}", r.range(0, 20), r.range(0, 11)),
            2 => format!("{} {:02}:{:02}:{:02}.{:03}", r.range(0, 30), r.range(0, 23), r.range(0, 59), r.range(0, 59), r.range(0, 999)),
            3 => format!("{} YEAR", r.range(1, 9)),
            4 => format!("{:02}:{:02}", r.range(0, 23), r.range(0, 59)),
            _ => "0".into(),
        })),
        _ => V::Null,
    }
}

/// any SqlValue (for the codec tie)
pub fn gen_any_value(r: &mut Rng) -> V {
    let types = [
        DataType::Integer,
        DataType::Smallint,
        DataType::Bigint,
        DataType::Unsigned,
        DataType::Numeric { precision: 10, scale: 2 },
        DataType::Float { precision: 24 },
        DataType::Real,
        DataType::DoublePrecision,
        DataType::Character { length: 8 },
        DataType::Varchar { max_length: None },
        DataType::Boolean,
        DataType::Date,
        DataType::Time { with_timezone: false },
        DataType::Timestamp { with_timezone: false },
        DataType::Interval { start_field: vibesql_types::IntervalField::Day, end_field: None },
    ];
    let t = r.pick(&types).clone();
    gen_value(r, &t, true)
}

#[derive(Clone, Copy, Debug, PartialEq, Eq)]
pub enum Fmt {
    Binary,
    Compressed,
    Json,
}
impl Fmt {
    pub fn name(self) -> &'static str {
        match self {
            Fmt::Binary => "binary",
            Fmt::Compressed => "compressed",
            Fmt::Json => "json",
        }
    }
    pub fn ext(self) -> &'static str {
        match self {
            Fmt::Binary => "vbsql",
            Fmt::Compressed => "vbsqlz",
            Fmt::Json => "json",
        }
    }
    pub fn save(self, db: &Database, p: &Path) -> Result<(), String> {
        let r = std::panic::catch_unwind(std::panic::AssertUnwindSafe(|| match self {
            Fmt::Binary => db.save_binary(p),
            Fmt::Compressed => db.save_compressed(p),
            Fmt::Json => db.save_json(p),
        }));
        match r {
            Ok(Ok(())) => Ok(()),
            Ok(Err(e)) => Err(format!("{:?}", e)),
            Err(p) => Err(format!("PANIC {}", engine::panic_text(p))),
        }
    }
    pub fn load(self, p: &Path) -> Result<Database, String> {
        let r = std::panic::catch_unwind(|| match self {
            Fmt::Binary => Database::load_binary(p),
            Fmt::Compressed => Database::load_compressed(p),
            Fmt::Json => Database::load_json(p),
        });
        match r {
            Ok(Ok(d)) => Ok(d),
            Ok(Err(e)) => Err(format!("{:?}", e)),
            Err(p) => Err(format!("PANIC {}", engine::panic_text(p))),
        }
    }
}

pub struct ColSpec {
    pub name: String,
    pub sql: String,
    pub not_null: bool,
}
pub struct GenDb {
    pub db: Db,
    /// every step that built the database, replayable by a human (SQL, or `-- insert_row T [...]`)
    pub script: Vec<String>,
    pub tables: Vec<String>,
}

const TYPE_SQL: &[&str] = &[
    "INTEGER", "INTEGER", "SMALLINT", "BIGINT", "FLOAT", "FLOAT(24)", "REAL", "DOUBLE PRECISION", "VARCHAR",
    "VARCHAR(40)", "CHAR(6)", "BOOLEAN", "DATE", "TIME", "TIMESTAMP", "TIMESTAMP WITH TIME ZONE", "NUMERIC(10,2)",
    "DECIMAL(8,3)", "NUMERIC", "TEXT",
];

pub fn insert_row(g: &mut GenDb, table: &str, vals: Vec<V>) -> bool {
    g.script.push(format!("-- insert_row {} {}", table, vals.iter().map(val_sx).collect::<Vec<_>>().join(" ")));
    let db = &mut g.db.db;
    matches!(std::panic::catch_unwind(std::panic::AssertUnwindSafe(|| db.insert_row(table, Row::new(vals)).is_ok())), Ok(true))
}

/// A small database reached by DDL + typed row inserts + a short SQL DML history.
/// `extra_types`: column types appended to the pool (the probes for the lossy types use this).
pub fn gen_db(r: &mut Rng, max_rows: u64, extra_types: &[&str]) -> GenDb {
    let mut g = GenDb { db: Db::new(), script: vec![], tables: vec![] };
    g.db.keep_log = false;
    let ntab = 1 + r.below(3);
    for ti in 0..ntab {
        let tname = format!("T{}", ti);
        let ncols = 1 + r.below(6) as usize;
        let has_pk = r.chance(1, 2);
        let mut cols = vec![];
        for ci in 0..ncols {
            let ty = if ci == 0 && has_pk {
                "INTEGER".to_string()
            } else if !extra_types.is_empty() && r.chance(1, 3) {
                r.pick(extra_types).to_string()
            } else {
                r.pick(TYPE_SQL).to_string()
            };
            let not_null = (ci == 0 && has_pk) || r.chance(1, 5);
            cols.push(ColSpec { name: format!("C{}", ci), sql: ty, not_null });
        }
        let ddl = format!(
            "CREATE TABLE {} ({})",
            tname,
            cols.iter()
                .enumerate()
                .map(|(i, c)| format!(
                    "{} {}{}",
                    c.name,
                    c.sql,
                    if i == 0 && has_pk { " PRIMARY KEY" } else if c.not_null { " NOT NULL" } else { "" }
                ))
                .collect::<Vec<_>>()
                .join(", ")
        );
        g.script.push(format!("{};", ddl));
        if !g.db.exec(&ddl).is_ok() {
            continue;
        }
        g.tables.push(tname.clone());
        let schema = g.db.db.get_table(&tname).unwrap().schema.clone();
        // rows
        let nrows = match r.below(8) {
            0 => 0,
            1 => 1,
            7 => max_rows,
            _ => 2 + r.below(12),
        };
        for ri in 0..nrows {
            let vals: Vec<V> = schema
                .columns
                .iter()
                .enumerate()
                .map(|(ci, c)| {
                    if ci == 0 && has_pk {
                        V::Integer(ri as i64 * 3 - 7)
                    } else {
                        gen_value(r, &c.data_type, c.nullable)
                    }
                })
                .collect();
            insert_row(&mut g, &tname, vals);
        }
        // indexes on integer / string / double columns
        let idxable: Vec<usize> = schema
            .columns
            .iter()
            .enumerate()
            .filter(|(_, c)| {
                matches!(
                    c.data_type,
                    DataType::Integer | DataType::Bigint | DataType::Varchar { .. } | DataType::DoublePrecision | DataType::Smallint | DataType::Time { .. } | DataType::Date | DataType::Timestamp { .. }
                )
            })
            .map(|(i, _)| i)
            .collect();
        let nidx = if idxable.is_empty() { 0 } else { r.below(3) };
        for k in 0..nidx {
            let c1 = *r.pick(&idxable);
            let is_str = matches!(schema.columns[c1].data_type, DataType::Varchar { .. });
            let mut colsql = if is_str && r.chance(1, 3) { format!("C{}({})", c1, 1 + r.below(4)) } else { format!("C{}{}", c1, if r.chance(1, 4) { " DESC" } else { "" }) };
            if r.chance(1, 4) {
                let c2 = *r.pick(&idxable);
                if c2 != c1 {
                    colsql.push_str(&format!(", C{}", c2));
                }
            }
            let unique = has_pk && c1 == 0 && !colsql.contains(',');
            let sql = format!("CREATE {}INDEX IX{}_{} ON {} ({})", if unique { "UNIQUE " } else { "" }, ti, k, tname, colsql);
            g.script.push(format!("{};", sql));
            g.db.exec(&sql);
        }
        // a short DML history through SQL (integer columns only, literals only)
        let intcols: Vec<usize> = schema
            .columns
            .iter()
            .enumerate()
            .filter(|(i, c)| matches!(c.data_type, DataType::Integer) && !(*i == 0 && has_pk))
            .map(|(i, _)| i)
            .collect();
        let nops = r.below(4);
        for _ in 0..nops {
            let sql = if let (Some(&c), true) = (intcols.first(), r.chance(2, 3)) {
                let v = r.range(0, 50);
                match r.below(3) {
                    0 => format!("DELETE FROM {} WHERE C{} = {}", tname, c, v),
                    1 => format!("UPDATE {} SET C{} = {} WHERE C{} < {}", tname, c, r.range(0, 50), c, v),
                    _ => format!("DELETE FROM {} WHERE C{} > {}", tname, c, v),
                }
            } else if has_pk {
                format!("DELETE FROM {} WHERE C0 = {}", tname, r.range(0, 10) * 3 + 2)
            } else {
                continue;
            };
            g.script.push(format!("{};", sql));
            g.db.exec(&sql);
        }
        // schema history: nullability changed after creation (ALTER edits the stored table's schema;
        // the saved file must describe the table as it is now, not as it was created). ADD / DROP
        // COLUMN are left to C33 (recorded finding C33/alter-column-catalog-not-updated).
        if r.chance(1, 3) {
            let cands: Vec<usize> = (0..schema.columns.len()).filter(|i| !(*i == 0 && has_pk)).collect();
            if !cands.is_empty() {
                let c = *r.pick(&cands);
                let all_non_null = g.db.db.get_table(&tname).map(|t| t.scan().iter().all(|row| !row.values[c].is_null())).unwrap_or(false);
                let sql = if schema.columns[c].nullable && all_non_null {
                    format!("ALTER TABLE {} ALTER COLUMN C{} SET NOT NULL", tname, c)
                } else if !schema.columns[c].nullable {
                    format!("ALTER TABLE {} ALTER COLUMN C{} DROP NOT NULL", tname, c)
                } else {
                    String::new()
                };
                if !sql.is_empty() {
                    g.script.push(format!("{};", sql));
                    g.db.exec(&sql);
                }
            }
        }
    }
    g
}
