import VibeProof.Model.Value
/-
C33 — the registries a schema change touches, as the DDL executors update them.

  catalog   table name → declared columns          (`Catalog::create_table / drop_table`)
  stored    table name → (the stored table's OWN schema copy, rows)   (`Database::tables`)
  reg       user-defined indexes: name, table, key columns  (`Operations::index_manager` and the
            catalog's index list, which `CreateIndexExecutor` / `DropIndexExecutor` /
            `DropTableExecutor` update together)

Names are the normalised ones (the parser upper-cases unquoted identifiers; a quoted name is a
different name).  ALTER TABLE ADD / DROP COLUMN (`alter/columns.rs` + `propagate_column_change` in
`alter/mod.rs`, fix ecda3d9a): the stored table's schema copy and rows are rewritten, the
catalog entry is replaced by the stored schema, and indexes naming a dropped column are dropped
(before the fix only the stored table changed).  INSERT validates the column count against the
catalog and then `Table::insert` validates it against the stored schema.
-/
namespace VibeProof.Ddl
open VibeProof

structure STable where
  cols : List String
  rows : List Row
  deriving Repr, DecidableEq

structure DIndex where
  name : String
  table : String
  cols : List String
  deriving Repr, DecidableEq

structure DState where
  catalog : List (String × List String)
  stored : List (String × STable)
  reg : List DIndex
  deriving Repr, DecidableEq

inductive DErr where
  | tableExists | tableMissing | indexExists | indexMissing | columnMissing | columnExists
  | columnCount | lastColumn
  deriving Repr, DecidableEq

inductive DOp where
  | createTable (n : String) (cols : List String)
  | dropTable (n : String)
  | createIndex (i n : String) (cols : List String)
  | dropIndex (i : String)
  | insert (n : String) (r : Row)
  | clear (n : String)
  | addColumn (n c : String)
  | dropColumn (n c : String)
  deriving Repr, DecidableEq

def init : DState := { catalog := [], stored := [], reg := [] }

def catCols (s : DState) (n : String) : Option (List String) :=
  (s.catalog.find? (fun e => e.1 == n)).map (fun e => e.2)

def stTable (s : DState) (n : String) : Option STable :=
  (s.stored.find? (fun e => e.1 == n)).map (fun e => e.2)

/-- apply `f` to the stored table called `n` -/
def updStored (s : DState) (n : String) (f : STable → STable) : DState :=
  { s with stored := s.stored.map (fun e => if e.1 = n then (e.1, f e.2) else e) }

def pushRow (r : Row) (t : STable) : STable :=
  if r.length = t.cols.length then { t with rows := t.rows ++ [r] } else t

def colsAdd (c : String) (cols : List String) : List String := cols ++ [c]

def colsDrop (c : String) (cols : List String) : List String :=
  match cols.idxOf? c with
  | some k => cols.eraseIdx k
  | none => cols

def addCol (c : String) (t : STable) : STable :=
  { cols := colsAdd c t.cols, rows := t.rows.map (fun r => r ++ [Value.null]) }

def dropCol (c : String) (t : STable) : STable :=
  { cols := colsDrop c t.cols
    rows := match t.cols.idxOf? c with
      | some k => t.rows.map (fun r => r.eraseIdx k)
      | none => t.rows }

/-- `Catalog::update_table_schema`: the catalog entry of `n` follows the stored schema -/
def updCatalog (s : DState) (n : String) (g : List String → List String) : DState :=
  { s with catalog := s.catalog.map (fun e => if e.1 = n then (e.1, g e.2) else e) }

def step (s : DState) : DOp → DState × Option DErr
  | .createTable n cols =>
    if (catCols s n).isSome then (s, some .tableExists)
    else ({ s with catalog := s.catalog ++ [(n, cols)], stored := s.stored ++ [(n, { cols := cols, rows := [] })] }, none)
  | .dropTable n =>
    if (catCols s n).isSome then
      ({ catalog := s.catalog.filter (fun e => decide (e.1 ≠ n))
         stored := s.stored.filter (fun e => decide (e.1 ≠ n))
         reg := s.reg.filter (fun ix => decide (ix.table ≠ n)) }, none)
    else (s, some .tableMissing)
  | .createIndex i n cols =>
    match catCols s n with
    | none => (s, some .tableMissing)
    | some tc =>
      if cols.all (fun c => tc.contains c) then
        if s.reg.any (fun ix => ix.name == i) then (s, some .indexExists)
        else ({ s with reg := s.reg ++ [{ name := i, table := n, cols := cols }] }, none)
      else (s, some .columnMissing)
  | .dropIndex i =>
    if s.reg.any (fun ix => ix.name == i) then
      ({ s with reg := s.reg.filter (fun ix => !(ix.name == i)) }, none)
    else (s, some .indexMissing)
  | .insert n r =>
    match catCols s n, stTable s n with
    | some tc, some t =>
      if r.length ≠ tc.length then (s, some .columnCount)
      else if r.length ≠ t.cols.length then (s, some .columnCount)
      else (updStored s n (pushRow r), none)
    | _, _ => (s, some .tableMissing)
  | .clear n =>
    match stTable s n with
    | some _ => (updStored s n (fun t => { t with rows := [] }), none)
    | none => (s, some .tableMissing)
  | .addColumn n c =>
    match stTable s n with
    | none => (s, some .tableMissing)
    | some t =>
      if t.cols.contains c then (s, some .columnExists)
      else (updCatalog (updStored s n (addCol c)) n (colsAdd c), none)
  | .dropColumn n c =>
    match stTable s n with
    | none => (s, some .tableMissing)
    | some t =>
      if t.cols.length ≤ 1 then (s, some .lastColumn)
      else if t.cols.contains c then
        let s1 := updCatalog (updStored s n (dropCol c)) n (colsDrop c)
        ({ s1 with reg := s1.reg.filter (fun ix => !(ix.table == n && ix.cols.contains c)) }, none)
      else (s, some .columnMissing)

/-- the stored table a name resolves to (`Database::get_table`: as written first, then normalised) -/
def resolve (norm : String → String) (s : DState) (x : String) : Option String :=
  if x ∈ s.stored.map (fun e => e.1) then some x
  else if norm x ∈ s.stored.map (fun e => e.1) then some (norm x)
  else none

/-- `Database::list_indexes_for_table` (fix 2e2a3d24): the registry compares the names after
normalising both with `norm` (`to_uppercase`); an index whose table name is spelled differently
is kept only when both spellings resolve to the same stored table -/
def indexesFor (norm : String → String) (s : DState) (n : String) : List DIndex :=
  s.reg.filter (fun ix => norm ix.table == norm n &&
    (ix.table == n ||
      match resolve norm s n, resolve norm s ix.table with
      | some a, some b => a == b
      | _, _ => true))

def run (s : DState) : List DOp → DState
  | [] => s
  | op :: ops => run (step s op).1 ops

end VibeProof.Ddl
