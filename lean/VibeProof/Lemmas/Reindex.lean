import VibeProof.Model.View
/-
Re-indexing lemma for the reference evaluator: a query evaluated on database `d1` equals the
query with every table index mapped through `σ` evaluated on `d2`, whenever table `j` of `d1`
is table `σ j` of `d2`.  Used for "a derived table / view that is `SELECT * FROM t` may be
replaced by `t`" (C05, C32).
-/
namespace VibeProof.Sql
open VibeProof

def From.reindex (σ : Nat → Nat) : From → From
  | .table i => .table (σ i)
  | .cross l r => .cross (l.reindex σ) (r.reindex σ)
  | .inner l r on => .inner (l.reindex σ) (r.reindex σ) on
  | .left l r on => .left (l.reindex σ) (r.reindex σ) on
  | .right l r on => .right (l.reindex σ) (r.reindex σ) on
  | .full l r on => .full (l.reindex σ) (r.reindex σ) on

def SubQ.reindex (σ : Nat → Nat) (s : SubQ) : SubQ := { s with tbl := σ s.tbl }

def Pred.reindex (σ : Nat → Nat) : Pred → Pred
  | .ex e => .ex e
  | .inSub a s neg => .inSub a (s.reindex σ) neg
  | .exists_ s neg => .exists_ (s.reindex σ) neg
  | .cmpSub op a s => .cmpSub op a (s.reindex σ)
  | .and a b => .and (a.reindex σ) (b.reindex σ)
  | .or a b => .or (a.reindex σ) (b.reindex σ)
  | .not a => .not (a.reindex σ)

def Core.reindex (σ : Nat → Nat) (c : Core) : Core :=
  { c with from_ := c.from_.reindex σ, where_ := c.where_.map (Pred.reindex σ) }

variable {d1 d2 : Db} {σ : Nat → Nat}

theorem tableRows_reindex (h : ∀ j, d1.tables[j]? = d2.tables[σ j]?) (i : Nat) :
    tableRows d1 i = tableRows d2 (σ i) := by
  unfold tableRows; rw [h i]

theorem tableWidth_reindex (h : ∀ j, d1.tables[j]? = d2.tables[σ j]?) (i : Nat) :
    tableWidth d1 i = tableWidth d2 (σ i) := by
  unfold tableWidth; rw [h i]

theorem From.width_reindex (h : ∀ j, d1.tables[j]? = d2.tables[σ j]?) (f : From) :
    f.width d1 = (f.reindex σ).width d2 := by
  induction f with
  | table i => exact tableWidth_reindex h i
  | cross l r ihl ihr => simp [From.width, From.reindex, ihl, ihr]
  | inner l r on ihl ihr => simp [From.width, From.reindex, ihl, ihr]
  | left l r on ihl ihr => simp [From.width, From.reindex, ihl, ihr]
  | right l r on ihl ihr => simp [From.width, From.reindex, ihl, ihr]
  | full l r on ihl ihr => simp [From.width, From.reindex, ihl, ihr]

theorem From.eval_reindex (h : ∀ j, d1.tables[j]? = d2.tables[σ j]?) (f : From) :
    f.eval d1 = (f.reindex σ).eval d2 := by
  induction f with
  | table i => exact tableRows_reindex h i
  | cross l r ihl ihr => simp only [From.eval, From.reindex, ihl, ihr]
  | inner l r on ihl ihr => simp only [From.eval, From.reindex, ihl, ihr]
  | left l r on ihl ihr => simp only [From.eval, From.reindex, ihl, ihr, From.width_reindex h r]
  | right l r on ihl ihr => simp only [From.eval, From.reindex, ihl, ihr, From.width_reindex h l]
  | full l r on ihl ihr =>
    simp only [From.eval, From.reindex, ihl, ihr, From.width_reindex h l, From.width_reindex h r]

theorem SubQ.rows_reindex (h : ∀ j, d1.tables[j]? = d2.tables[σ j]?) (outer : Row) (s : SubQ) :
    s.rows d1 outer = (s.reindex σ).rows d2 outer := by
  simp only [SubQ.rows, SubQ.reindex, tableRows_reindex h]

theorem SubQ.values_reindex (h : ∀ j, d1.tables[j]? = d2.tables[σ j]?) (outer : Row) (s : SubQ) :
    s.values d1 outer = (s.reindex σ).values d2 outer := by
  simp only [SubQ.values, SubQ.rows_reindex h]
  rfl

theorem Pred.eval_reindex (h : ∀ j, d1.tables[j]? = d2.tables[σ j]?) (row : Row) (p : Pred) :
    p.eval d1 row = (p.reindex σ).eval d2 row := by
  induction p with
  | ex e => rfl
  | inSub a s neg => simp only [Pred.eval, Pred.reindex, SubQ.values_reindex h]
  | exists_ s neg => simp only [Pred.eval, Pred.reindex, SubQ.rows_reindex h]
  | cmpSub op a s => simp only [Pred.eval, Pred.reindex, SubQ.values_reindex h]
  | and a b iha ihb => simp only [Pred.eval, Pred.reindex, iha, ihb]
  | or a b iha ihb => simp only [Pred.eval, Pred.reindex, iha, ihb]
  | not a iha => simp only [Pred.eval, Pred.reindex, iha]

theorem Core.eval_reindex (h : ∀ j, d1.tables[j]? = d2.tables[σ j]?) (c : Core) :
    c.eval d1 = (c.reindex σ).eval d2 := by
  unfold Core.eval Core.reindex
  simp only [From.eval_reindex h]
  cases hw : c.where_ with
  | none => rfl
  | some p =>
    have : (fun r => do isTrue (← p.eval d1 r)) = (fun r => do isTrue (← (p.reindex σ).eval d2 r)) := by
      funext r; rw [Pred.eval_reindex h]
    simp only [Option.map, this]

/-! ### `SELECT * FROM t` as a derived table -/

/-- `SELECT * FROM t` for a table of width `w` -/
def selectStar (i w : Nat) : Core :=
  { from_ := .table i, where_ := none, group := none, select := (List.range w).map Expr.col,
    distinct := false, orderBy := [], limit := none, offset := 0 }

theorem mapM'_cols (r : Row) (n s : Nat) (h : s + n ≤ r.length) :
    mapM' (fun e => Expr.eval r e) ((List.range' s n).map Expr.col) = .ok ((r.drop s).take n) := by
  induction n generalizing s with
  | zero => simp [mapM']
  | succ n ih =>
    have hs : s < r.length := by omega
    have ih' := ih (s + 1) (by omega)
    simp only [List.range'_succ, List.map_cons, mapM', Expr.eval, List.getElem?_eq_getElem hs, ih',
      bind, Except.bind, pure, Except.pure]
    rw [List.drop_eq_getElem_cons hs, List.take_succ_cons]

theorem mapM'_id_rows (rows : List Row) (w : Nat) (hw : ∀ r ∈ rows, r.length = w) :
    mapM' (fun r => mapM' (fun e => Expr.eval r e) ((List.range w).map Expr.col)) rows = .ok rows := by
  induction rows with
  | nil => rfl
  | cons r rs ih =>
    have hr := hw r List.mem_cons_self
    have h1 := mapM'_cols r w 0 (by omega)
    rw [← List.range_eq_range'] at h1
    have : (r.drop 0).take w = r := by simp [← hr]
    simp only [mapM', h1, this, ih (fun y hy => hw y (List.mem_cons_of_mem _ hy)), bind, Except.bind, pure, Except.pure]

theorem selectStar_eval (db : Db) (i w : Nat) (rows : List Row) (ht : db.tables[i]? = some (w, rows))
    (hw : ∀ r ∈ rows, r.length = w) : (selectStar i w).eval db = .ok rows := by
  simp only [Core.eval, selectStar, From.eval, tableRows, ht, bind, Except.bind, pure, Except.pure,
    mapM'_id_rows rows w hw, orderRows, limitOffset]
  simp

/-- `FROM (SELECT * FROM t) AS d` may be replaced by `FROM t`: evaluating any outer query over
the derived table equals evaluating it with the derived table's index redirected to `t` -/
theorem derived_wrap_identity (db : Db) (i w : Nat) (rows : List Row) (outer : Core)
    (ht : db.tables[i]? = some (w, rows)) (hw : ∀ r ∈ rows, r.length = w) :
    View.evalDerived db (selectStar i w) outer
      = (outer.reindex (fun j => if j = db.tables.length then i else j)).eval db := by
  unfold View.evalDerived
  rw [selectStar_eval db i w rows ht hw]
  simp only [bind, Except.bind]
  apply Core.eval_reindex
  intro j
  have hlen : (selectStar i w).select.length = w := by simp [selectStar]
  simp only [hlen]
  by_cases hj : j = db.tables.length
  · subst hj; simp [ht]
  · simp only [hj, if_false]
    by_cases hlt : j < db.tables.length
    · exact List.getElem?_append_left hlt
    · have h1 : db.tables[j]? = none := List.getElem?_eq_none (by omega)
      have h2 : (db.tables ++ [(w, rows)])[j]? = none := List.getElem?_eq_none (by simp; omega)
      rw [h1, h2]

end VibeProof.Sql
