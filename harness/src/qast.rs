//! Mini expression AST shared with the Lean model (lean/VibeProof/Model/Expr.lean), with a
//! type-directed generator, SQL rendering and protocol rendering.
use crate::rng::Rng;
use crate::sx::Sx;
use vibesql_types::SqlValue;

#[derive(Clone, Copy, Debug, PartialEq, Eq)]
pub enum Ty {
    Int,
    Str,
}

#[derive(Clone, Debug)]
pub struct Schema {
    pub table: String,
    pub cols: Vec<(String, Ty)>,
}

impl Schema {
    pub fn create_sql(&self) -> String {
        let cols: Vec<String> = self
            .cols
            .iter()
            .map(|(n, t)| format!("{} {}", n, if *t == Ty::Int { "INTEGER" } else { "VARCHAR(20)" }))
            .collect();
        format!("CREATE TABLE {} ({})", self.table, cols.join(", "))
    }
    pub fn cols_of(&self, ty: Ty) -> Vec<usize> {
        (0..self.cols.len()).filter(|i| self.cols[*i].1 == ty).collect()
    }
}

#[derive(Clone, Debug, PartialEq)]
pub enum Lit {
    Null,
    I(i64),
    S(String),
}

impl Lit {
    pub fn sql(&self) -> String {
        match self {
            Lit::Null => "NULL".into(),
            Lit::I(i) => {
                if *i < 0 {
                    format!("({})", i)
                } else {
                    i.to_string()
                }
            }
            Lit::S(s) => format!("'{}'", s.replace('\'', "''")),
        }
    }
    /// form accepted by INSERT ... VALUES (literals only: negatives are not literals there)
    pub fn proto(&self) -> String {
        match self {
            Lit::Null => "N".into(),
            Lit::I(i) => format!("I{}", i),
            Lit::S(s) => format!("S{}", crate::sx::hex_str(s)),
        }
    }
    pub fn to_value(&self) -> SqlValue {
        match self {
            Lit::Null => SqlValue::Null,
            Lit::I(i) => SqlValue::Integer(*i),
            Lit::S(s) => SqlValue::Varchar(s.clone()),
        }
    }
}

#[derive(Clone, Copy, Debug, PartialEq, Eq)]
pub enum Op {
    Add,
    Sub,
    Mul,
    Eq,
    Ne,
    Lt,
    Le,
    Gt,
    Ge,
    And,
    Or,
}

impl Op {
    pub fn sql(self) -> &'static str {
        match self {
            Op::Add => "+",
            Op::Sub => "-",
            Op::Mul => "*",
            Op::Eq => "=",
            Op::Ne => "<>",
            Op::Lt => "<",
            Op::Le => "<=",
            Op::Gt => ">",
            Op::Ge => ">=",
            Op::And => "AND",
            Op::Or => "OR",
        }
    }
    pub fn proto(self) -> &'static str {
        match self {
            Op::Add => "add",
            Op::Sub => "sub",
            Op::Mul => "mul",
            Op::Eq => "eq",
            Op::Ne => "ne",
            Op::Lt => "lt",
            Op::Le => "le",
            Op::Gt => "gt",
            Op::Ge => "ge",
            Op::And => "and",
            Op::Or => "or",
        }
    }
}

#[derive(Clone, Debug)]
pub enum E {
    Col(usize),
    Lit(Lit),
    Bin(Op, Box<E>, Box<E>),
    Not(Box<E>),
    IsNull(Box<E>, bool),
    Between(Box<E>, Box<E>, Box<E>, bool),
    InList(Box<E>, Vec<Lit>, bool),
    Like(Box<E>, Box<E>, bool),
    Ite(Box<E>, Box<E>, Box<E>),
    Coalesce(Box<E>, Box<E>),
}

impl E {
    /// SQL text; `names[i]` is the (possibly qualified) name of column i
    pub fn sql(&self, names: &[String]) -> String {
        match self {
            E::Col(i) => names[*i].clone(),
            E::Lit(l) => l.sql(),
            E::Bin(op, a, b) => format!("({} {} {})", a.sql(names), op.sql(), b.sql(names)),
            E::Not(a) => format!("(NOT {})", a.sql(names)),
            E::IsNull(a, neg) => format!("({} IS {}NULL)", a.sql(names), if *neg { "NOT " } else { "" }),
            E::Between(a, lo, hi, neg) => format!(
                "({} {}BETWEEN {} AND {})",
                a.sql(names),
                if *neg { "NOT " } else { "" },
                lo.sql(names),
                hi.sql(names)
            ),
            E::InList(a, vs, neg) => format!(
                "({} {}IN ({}))",
                a.sql(names),
                if *neg { "NOT " } else { "" },
                vs.iter().map(|v| v.sql()).collect::<Vec<_>>().join(", ")
            ),
            E::Like(a, p, neg) => {
                format!("({} {}LIKE {})", a.sql(names), if *neg { "NOT " } else { "" }, p.sql(names))
            }
            E::Ite(c, r, e) => {
                format!("(CASE WHEN {} THEN {} ELSE {} END)", c.sql(names), r.sql(names), e.sql(names))
            }
            E::Coalesce(a, b) => format!("COALESCE({}, {})", a.sql(names), b.sql(names)),
        }
    }

    pub fn sx(&self) -> Sx {
        let l = |v: Vec<Sx>| Sx::List(v);
        let a = |s: &str| Sx::a(s);
        match self {
            E::Col(i) => l(vec![a("col"), Sx::int(*i as i128)]),
            E::Lit(x) => l(vec![a("lit"), Sx::a(x.proto())]),
            E::Bin(op, x, y) => l(vec![a(op.proto()), x.sx(), y.sx()]),
            E::Not(x) => l(vec![a("not"), x.sx()]),
            E::IsNull(x, neg) => l(vec![a(if *neg { "notnull" } else { "isnull" }), x.sx()]),
            E::Between(x, lo, hi, neg) => {
                l(vec![a(if *neg { "nbetween" } else { "between" }), x.sx(), lo.sx(), hi.sx()])
            }
            E::InList(x, vs, neg) => {
                let mut v = vec![a(if *neg { "nin" } else { "in" }), x.sx()];
                v.extend(vs.iter().map(|q| Sx::a(q.proto())));
                l(v)
            }
            E::Like(x, p, neg) => l(vec![a(if *neg { "nlike" } else { "like" }), x.sx(), p.sx()]),
            E::Ite(c, r, e) => l(vec![a("ite"), c.sx(), r.sx(), e.sx()]),
            E::Coalesce(x, y) => l(vec![a("coalesce"), x.sx(), y.sx()]),
        }
    }

    pub fn size(&self) -> usize {
        match self {
            E::Col(_) | E::Lit(_) => 1,
            E::Bin(_, a, b) | E::Like(a, b, _) | E::Coalesce(a, b) => 1 + a.size() + b.size(),
            E::Not(a) | E::IsNull(a, _) | E::InList(a, _, _) => 1 + a.size(),
            E::Between(a, b, c, _) | E::Ite(a, b, c) => 1 + a.size() + b.size() + c.size(),
        }
    }

    /// operator names used (for the measured input distribution)
    pub fn ops(&self, out: &mut Vec<&'static str>) {
        match self {
            E::Col(_) => out.push("col"),
            E::Lit(Lit::Null) => out.push("null-literal"),
            E::Lit(_) => out.push("literal"),
            E::Bin(op, a, b) => {
                out.push(op.proto());
                a.ops(out);
                b.ops(out);
            }
            E::Not(a) => {
                out.push("not");
                a.ops(out)
            }
            E::IsNull(a, _) => {
                out.push("isnull");
                a.ops(out)
            }
            E::Between(a, b, c, _) => {
                out.push("between");
                a.ops(out);
                b.ops(out);
                c.ops(out)
            }
            E::InList(a, _, _) => {
                out.push("inlist");
                a.ops(out)
            }
            E::Like(a, b, _) => {
                out.push("like");
                a.ops(out);
                b.ops(out)
            }
            E::Ite(a, b, c) => {
                out.push("case");
                a.ops(out);
                b.ops(out);
                c.ops(out)
            }
            E::Coalesce(a, b) => {
                out.push("coalesce");
                a.ops(out);
                b.ops(out)
            }
        }
    }
}

pub const STR_POOL: &[&str] = &["", "a", "b", "ab", "abc", "ba", "B", "a%", "x_y", "zz"];
pub const LIKE_POOL: &[&str] = &["%", "a%", "%b", "_", "a_", "%a%", "ab", "", "_b%", "%_"];

/// Generator of well-typed expressions over a schema (the shared SQL subset of C01/C06).
pub struct Gen<'a> {
    pub schema: &'a Schema,
    pub int_lo: i64,
    pub int_hi: i64,
}

impl<'a> Gen<'a> {
    pub fn new(schema: &'a Schema) -> Self {
        Gen { schema, int_lo: -3, int_hi: 6 }
    }
    pub fn lit_int(&self, r: &mut Rng) -> Lit {
        Lit::I(r.range(self.int_lo, self.int_hi))
    }
    pub fn lit_str(&self, r: &mut Rng) -> Lit {
        Lit::S((*r.pick(STR_POOL)).to_string())
    }
    pub fn int(&self, r: &mut Rng, depth: u32) -> E {
        let cols = self.schema.cols_of(Ty::Int);
        let leaf = depth == 0 || r.chance(2, 5);
        if leaf {
            if !cols.is_empty() && r.chance(7, 10) {
                return E::Col(*r.pick(&cols));
            }
            if r.chance(1, 12) {
                return E::Lit(Lit::Null);
            }
            return E::Lit(self.lit_int(r));
        }
        match r.below(6) {
            0 | 1 | 2 => {
                let op = *r.pick(&[Op::Add, Op::Sub, Op::Mul]);
                E::Bin(op, Box::new(self.int(r, depth - 1)), Box::new(self.int(r, depth - 1)))
            }
            3 => E::Ite(
                Box::new(self.boolean(r, depth - 1)),
                Box::new(self.int(r, depth - 1)),
                Box::new(self.int(r, depth - 1)),
            ),
            _ => E::Coalesce(Box::new(self.int(r, depth - 1)), Box::new(self.int(r, depth - 1))),
        }
    }
    pub fn string(&self, r: &mut Rng, depth: u32) -> E {
        let cols = self.schema.cols_of(Ty::Str);
        let leaf = depth == 0 || r.chance(3, 5);
        if leaf {
            if !cols.is_empty() && r.chance(7, 10) {
                return E::Col(*r.pick(&cols));
            }
            if r.chance(1, 12) {
                return E::Lit(Lit::Null);
            }
            return E::Lit(self.lit_str(r));
        }
        match r.below(2) {
            0 => E::Ite(
                Box::new(self.boolean(r, depth - 1)),
                Box::new(self.string(r, depth - 1)),
                Box::new(self.string(r, depth - 1)),
            ),
            _ => E::Coalesce(Box::new(self.string(r, depth - 1)), Box::new(self.string(r, depth - 1))),
        }
    }
    /// boolean-typed predicate
    pub fn boolean(&self, r: &mut Rng, depth: u32) -> E {
        let has_str = !self.schema.cols_of(Ty::Str).is_empty();
        let d = depth.saturating_sub(1);
        let k = if depth == 0 { r.below(5) } else { r.below(12) };
        let cmp = [Op::Eq, Op::Ne, Op::Lt, Op::Le, Op::Gt, Op::Ge];
        match k {
            0 | 1 => E::Bin(*r.pick(&cmp), Box::new(self.int(r, d)), Box::new(self.int(r, d))),
            2 if has_str => {
                E::Bin(*r.pick(&cmp), Box::new(self.string(r, d)), Box::new(self.string(r, d)))
            }
            2 => E::Bin(*r.pick(&cmp), Box::new(self.int(r, d)), Box::new(self.int(r, d))),
            3 => {
                let a = if has_str && r.chance(1, 2) { self.string(r, d) } else { self.int(r, d) };
                E::IsNull(Box::new(a), r.chance(1, 2))
            }
            4 => {
                if has_str && r.chance(1, 2) {
                    let n = r.range(1, 6) as usize;
                    let mut vs: Vec<Lit> = (0..n).map(|_| self.lit_str(r)).collect();
                    if r.chance(1, 4) {
                        vs.push(Lit::Null);
                    }
                    E::InList(Box::new(self.string(r, d)), vs, r.chance(1, 3))
                } else {
                    // list lengths on both sides of the engine's small-list / hash-set threshold
                    let n = r.range(1, 9) as usize;
                    let mut vs: Vec<Lit> = (0..n).map(|_| self.lit_int(r)).collect();
                    if r.chance(1, 4) {
                        vs.push(Lit::Null);
                    }
                    E::InList(Box::new(self.int(r, d)), vs, r.chance(1, 3))
                }
            }
            5 => E::Between(
                Box::new(self.int(r, d)),
                Box::new(self.int(r, d)),
                Box::new(self.int(r, d)),
                r.chance(1, 3),
            ),
            6 if has_str => E::Like(
                Box::new(self.string(r, d)),
                Box::new(E::Lit(Lit::S((*r.pick(LIKE_POOL)).to_string()))),
                r.chance(1, 3),
            ),
            6 | 7 => E::Bin(Op::And, Box::new(self.boolean(r, d)), Box::new(self.boolean(r, d))),
            8 | 9 => E::Bin(Op::Or, Box::new(self.boolean(r, d)), Box::new(self.boolean(r, d))),
            10 => E::Not(Box::new(self.boolean(r, d))),
            _ => E::Ite(
                Box::new(self.boolean(r, d)),
                Box::new(self.boolean(r, d)),
                Box::new(self.boolean(r, d)),
            ),
        }
    }
}

/// Random table contents: NULL density, duplicates, small domains.
pub fn gen_rows(r: &mut Rng, schema: &Schema, n: usize) -> Vec<Vec<Lit>> {
    let null_pct = *r.pick(&[0u64, 10, 30, 50]);
    let dom = *r.pick(&[2i64, 4, 8]);
    (0..n)
        .map(|_| {
            schema
                .cols
                .iter()
                .map(|(_, t)| {
                    if r.below(100) < null_pct {
                        Lit::Null
                    } else if *t == Ty::Int {
                        Lit::I(r.range(-2, dom - 2))
                    } else {
                        Lit::S((*r.pick(&STR_POOL[..(dom as usize).min(STR_POOL.len())])).to_string())
                    }
                })
                .collect()
        })
        .collect()
}

pub fn rows_sx(rows: &[Vec<Lit>]) -> Sx {
    Sx::List(rows.iter().map(|r| Sx::List(r.iter().map(|v| Sx::a(v.proto())).collect())).collect())
}

/// load rows through SQL: INSERT ... VALUES for literal-only rows, INSERT ... SELECT for rows
/// holding a negative number (INSERT VALUES accepts literals only, see DESIGN.md §10)
pub fn load(db: &mut crate::engine::Db, schema: &Schema, rows: &[Vec<Lit>]) {
    db.must(&schema.create_sql());
    let mut batch: Vec<String> = vec![];
    let flush = |db: &mut crate::engine::Db, batch: &mut Vec<String>| {
        if !batch.is_empty() {
            db.must(&format!("INSERT INTO {} VALUES {}", schema.table, batch.join(", ")));
            batch.clear();
        }
    };
    for row in rows {
        let neg = row.iter().any(|v| matches!(v, Lit::I(i) if *i < 0));
        if neg {
            flush(db, &mut batch);
            let items: Vec<String> = row
                .iter()
                .map(|v| match v {
                    Lit::I(i) if *i < 0 => format!("0 - {}", -(*i as i128)),
                    other => other.sql(),
                })
                .collect();
            db.must(&format!("INSERT INTO {} SELECT {}", schema.table, items.join(", ")));
        } else {
            batch.push(format!("({})", row.iter().map(|v| v.sql()).collect::<Vec<_>>().join(", ")));
            if batch.len() >= 50 {
                flush(db, &mut batch);
            }
        }
    }
    flush(db, &mut batch);
}

pub fn lit_row_canon(row: &[Lit]) -> String {
    let vals: Vec<SqlValue> = row.iter().map(|l| l.to_value()).collect();
    crate::canon::row(&vals)
}
