//! Shared by c10 / c11: one constrained table T(C0..Cn-1 INT), statements, SQL and model
//! renderings, real-state extraction, direct constraint oracle.
#![allow(dead_code)]
use vharness::qast::{Lit, Op, E};
use vharness::*;
use vibesql_types::SqlValue;

#[derive(Clone, Debug)]
pub struct TSchema {
    pub ncols: usize,
    pub not_null: Vec<usize>,
    pub pk: Option<Vec<usize>>,
    pub uniq: Vec<Vec<usize>>,
    pub checks: Vec<E>,
}

#[derive(Clone, Debug)]
pub enum St {
    Ins { rows: Vec<Vec<Lit>>, replace: bool },
    InsDup { rows: Vec<Vec<Lit>>, asg: Vec<(usize, E)> },
    Bulk { rows: Vec<Vec<Lit>> },
    Upd { w: Option<E>, asg: Vec<(usize, E)> },
    Del { w: Option<E> },
    Trunc,
    AddPk(Vec<usize>),
    AddUniq(Vec<usize>),
    AddCheck(E),
    /// INSERT naming a column that does not exist (C11)
    InsBadColumn { row: Vec<Lit> },
}

pub fn names(n: usize) -> Vec<String> {
    (0..n).map(|i| format!("C{}", i)).collect()
}
fn cols(c: &[usize]) -> String {
    c.iter().map(|i| format!("C{}", i)).collect::<Vec<_>>().join(", ")
}
fn nats(tag: &str, c: &[usize]) -> Sx {
    let mut v = vec![Sx::a(tag)];
    v.extend(c.iter().map(|i| Sx::int(*i as i128)));
    Sx::List(v)
}
fn rows_sql(rows: &[Vec<Lit>]) -> String {
    rows.iter().map(|r| format!("({})", r.iter().map(|v| v.sql()).collect::<Vec<_>>().join(", "))).collect::<Vec<_>>().join(", ")
}
fn rows_sx(rows: &[Vec<Lit>]) -> Sx {
    let mut v = vec![Sx::a("rows")];
    v.extend(rows.iter().map(|r| Sx::List(r.iter().map(|x| Sx::a(x.proto())).collect())));
    Sx::List(v)
}
fn asg_sx(asg: &[(usize, E)]) -> Sx {
    let mut v = vec![Sx::a("asg")];
    v.extend(asg.iter().map(|(c, e)| Sx::List(vec![Sx::int(*c as i128), e.sx()])));
    Sx::List(v)
}

impl TSchema {
    pub fn create_sql(&self, table: &str, with_constraints: bool) -> String {
        let mut parts: Vec<String> = (0..self.ncols)
            .map(|i| format!("C{} INT{}", i, if self.not_null.contains(&i) { " NOT NULL" } else { "" }))
            .collect();
        if with_constraints {
            if let Some(pk) = &self.pk {
                parts.push(format!("PRIMARY KEY ({})", cols(pk)));
            }
            for u in &self.uniq {
                parts.push(format!("UNIQUE ({})", cols(u)));
            }
            for c in &self.checks {
                parts.push(format!("CHECK ({})", c.sql(&names(self.ncols))));
            }
        }
        format!("CREATE TABLE {} ({})", table, parts.join(", "))
    }
    pub fn sx(&self) -> Sx {
        let mut uq = vec![Sx::a("uniq")];
        uq.extend(self.uniq.iter().map(|u| Sx::List(u.iter().map(|i| Sx::int(*i as i128)).collect())));
        let mut ck = vec![Sx::a("checks")];
        ck.extend(self.checks.iter().map(|c| c.sx()));
        Sx::List(vec![
            Sx::a("schema"),
            Sx::int(self.ncols as i128),
            nats("nn", &self.not_null),
            match &self.pk {
                Some(p) => nats("pk", p),
                None => Sx::List(vec![Sx::a("nopk")]),
            },
            Sx::List(uq),
            Sx::List(ck),
        ])
    }
}

impl St {
    /// SQL statements to run (the last one is the statement itself; earlier ones are setup)
    pub fn sql(&self, n: usize) -> Vec<String> {
        let nm = names(n);
        let mut nm2 = nm.clone();
        nm2.extend((0..n).map(|i| format!("VALUES(C{})", i)));
        let w = |w: &Option<E>| w.as_ref().map(|e| format!(" WHERE {}", e.sql(&nm))).unwrap_or_default();
        match self {
            St::Ins { rows, replace } => {
                vec![format!("{} INTO T VALUES {}", if *replace { "REPLACE" } else { "INSERT" }, rows_sql(rows))]
            }
            St::InsDup { rows, asg } => vec![format!(
                "INSERT INTO T VALUES {} ON DUPLICATE KEY UPDATE {}",
                rows_sql(rows),
                asg.iter().map(|(c, e)| format!("C{} = {}", c, e.sql(&nm2))).collect::<Vec<_>>().join(", ")
            )],
            St::Bulk { rows } => {
                let mut v = vec!["DELETE FROM S".to_string()];
                if !rows.is_empty() {
                    v.push(format!("INSERT INTO S VALUES {}", rows_sql(rows)));
                }
                v.push("INSERT INTO T SELECT * FROM S".into());
                v
            }
            St::Upd { w: wh, asg } => vec![format!(
                "UPDATE T SET {}{}",
                asg.iter().map(|(c, e)| format!("C{} = {}", c, e.sql(&nm))).collect::<Vec<_>>().join(", "),
                w(wh)
            )],
            St::Del { w: wh } => vec![format!("DELETE FROM T{}", w(wh))],
            St::Trunc => vec!["TRUNCATE TABLE T".into()],
            St::AddPk(c) => vec![format!("ALTER TABLE T ADD CONSTRAINT APK PRIMARY KEY ({})", cols(c))],
            St::AddUniq(c) => vec![format!("ALTER TABLE T ADD CONSTRAINT AUQ{} UNIQUE ({})", c.iter().map(|i| i.to_string()).collect::<String>(), cols(c))],
            St::AddCheck(e) => {
                use std::sync::atomic::{AtomicUsize, Ordering};
                static K: AtomicUsize = AtomicUsize::new(0);
                vec![format!("ALTER TABLE T ADD CONSTRAINT ACK{} CHECK ({})", K.fetch_add(1, Ordering::Relaxed), e.sql(&nm))]
            }
            St::InsBadColumn { row } => vec![format!(
                "INSERT INTO T ({}, ZZ) VALUES ({})",
                nm[..row.len() - 1].join(", "),
                row.iter().map(|v| v.sql()).collect::<Vec<_>>().join(", ")
            )],
        }
    }
    pub fn sx(&self) -> Sx {
        let l = Sx::List;
        let wsx = |w: &Option<E>| w.as_ref().map(|e| e.sx()).unwrap_or(Sx::a("all"));
        match self {
            St::Ins { rows, replace } => l(vec![Sx::a("ins"), Sx::a(if *replace { "replace" } else { "plain" }), rows_sx(rows)]),
            St::InsDup { rows, asg } => l(vec![Sx::a("insdup"), rows_sx(rows), asg_sx(asg)]),
            St::Bulk { rows } => l(vec![Sx::a("bulk"), rows_sx(rows)]),
            St::Upd { w, asg } => l(vec![Sx::a("upd"), wsx(w), asg_sx(asg)]),
            St::Del { w } => l(vec![Sx::a("del"), wsx(w)]),
            St::Trunc => l(vec![Sx::a("trunc")]),
            St::AddPk(c) => nats("addpk", c),
            St::AddUniq(c) => nats("adduniq", c),
            St::AddCheck(e) => l(vec![Sx::a("addcheck"), e.sx()]),
            St::InsBadColumn { .. } => l(vec![Sx::a("badcolumn")]),
        }
    }
    pub fn kind(&self) -> &'static str {
        match self {
            St::Ins { replace: false, rows } => if rows.len() > 1 { "insert_multi" } else { "insert_single" },
            St::Ins { replace: true, .. } => "replace",
            St::InsDup { .. } => "on_duplicate_key",
            St::Bulk { .. } => "bulk_insert_select",
            St::Upd { .. } => "update",
            St::Del { .. } => "delete",
            St::Trunc => "truncate",
            St::AddPk(_) => "alter_add_pk",
            St::AddUniq(_) => "alter_add_unique",
            St::AddCheck(_) => "alter_add_check",
            St::InsBadColumn { .. } => "insert_bad_column",
        }
    }
}

/// `ok <n>` / `err <class>` at the granularity the model uses
pub fn out_class(o: &Out) -> String {
    match o {
        Out::Count(n) => format!("ok {}", n),
        Out::Rows(_) => "ok rows".into(),
        Out::Panic(m) => format!("panic {}", m),
        Out::Err { class, msg } => {
            let c = if class == "ConstraintViolation" || msg.contains("NOT NULL constraint") || msg.contains("UNIQUE constraint") {
                "constraint"
            } else if msg.contains("Type mismatch") {
                "type"
            } else if msg.contains("column count mismatch") {
                "arity"
            } else if class == "ColumnNotFound" {
                "column"
            } else {
                "other"
            };
            format!("err {}", c)
        }
    }
}

fn keyset(m: &std::collections::HashMap<Vec<SqlValue>, usize>) -> Vec<String> {
    let mut v: Vec<String> = m.keys().map(|k| canon::row(k)).collect();
    v.sort();
    v.dedup();
    v
}

/// (rows in storage order, key sets of pk index + unique indexes, append mode)
pub fn real_state(db: &Db, table: &str) -> (Vec<Vec<SqlValue>>, Vec<Vec<String>>, bool) {
    let rows = db.scan(table).unwrap_or_default();
    let t = db.db.get_table(table);
    let mut idx = vec![];
    let mut am = false;
    if let Some(t) = t {
        if let Some(p) = t.primary_key_index() {
            idx.push(keyset(p));
        }
        for u in t.unique_indexes() {
            idx.push(keyset(u));
        }
        am = t.is_in_append_mode();
    }
    (rows, idx, am)
}

/// parse one `R` of the model reply → (class, rows canon seq, key sets, active)
pub fn model_state(r: &Sx) -> Option<(String, String, Vec<Vec<String>>, bool)> {
    let v = r.as_list()?;
    let o = v.first()?.as_list()?;
    let class = format!("{} {}", o.first()?.as_atom()?, o.get(1)?.as_atom()?);
    let rows = v.get(1)?.as_list()?;
    let rows_s = format!("({})", rows[1..].iter().map(|x| x.to_string()).collect::<Vec<_>>().join(" "));
    let mut idx = vec![];
    for u in &v.get(2)?.as_list()?[1..] {
        let keys = u.as_list()?.get(2)?.as_list()?;
        let mut ks: Vec<String> = keys.iter().map(|k| k.to_string()).collect();
        ks.sort();
        ks.dedup();
        idx.push(ks);
    }
    let active = v.get(3)?.as_atom()? == "1";
    Some((class, rows_s, idx, active))
}

fn ival(v: &SqlValue) -> Option<Option<i64>> {
    match v {
        SqlValue::Null => Some(None),
        SqlValue::Integer(i) | SqlValue::Bigint(i) => Some(Some(*i)),
        SqlValue::Smallint(i) => Some(Some(*i as i64)),
        _ => None,
    }
}

/// three-valued evaluation of the small CHECK language (independent of engine and model):
/// Some(Some(b)) = boolean, Some(None) = NULL, None = not evaluable here
pub fn eval_check(e: &E, row: &[SqlValue]) -> Option<Option<bool>> {
    fn num(e: &E, row: &[SqlValue]) -> Option<Option<i64>> {
        match e {
            E::Col(i) => ival(row.get(*i)?),
            E::Lit(Lit::I(i)) => Some(Some(*i)),
            E::Lit(Lit::Null) => Some(None),
            E::Bin(Op::Add, a, b) => Some(match (num(a, row)?, num(b, row)?) {
                (Some(x), Some(y)) => Some(x + y),
                _ => None,
            }),
            _ => None,
        }
    }
    match e {
        E::Bin(op, a, b) => {
            let (x, y) = (num(a, row)?, num(b, row)?);
            Some(match (x, y) {
                (Some(x), Some(y)) => Some(match op {
                    Op::Eq => x == y,
                    Op::Ne => x != y,
                    Op::Lt => x < y,
                    Op::Le => x <= y,
                    Op::Gt => x > y,
                    Op::Ge => x >= y,
                    _ => return None,
                }),
                _ => None,
            })
        }
        _ => None,
    }
}

/// Direct oracle: every declared constraint checked on the stored rows, and the hash indexes
/// against the rows.  Returns the list of violated constraints (empty = fine).
pub fn check_constraints(
    rows: &[Vec<SqlValue>],
    idx: &[Vec<String>],
    not_null: &[usize],
    pk: &Option<Vec<usize>>,
    uniq: &[Vec<usize>],
    checks: &[E],
) -> Vec<String> {
    let mut bad = vec![];
    let key = |r: &Vec<SqlValue>, c: &Vec<usize>| -> Vec<SqlValue> { c.iter().map(|i| r[*i].clone()).collect() };
    for c in not_null {
        if rows.iter().any(|r| r[*c] == SqlValue::Null) {
            bad.push(format!("NOT NULL C{} holds a NULL", c));
        }
    }
    let mut expected_idx: Vec<Vec<String>> = vec![];
    if let Some(p) = pk {
        let mut ks: Vec<String> = rows.iter().map(|r| canon::row(&key(r, p))).collect();
        ks.sort();
        let n = ks.len();
        ks.dedup();
        if ks.len() != n {
            bad.push(format!("PRIMARY KEY ({:?}) has duplicate keys", p));
        }
        expected_idx.push(ks);
    }
    for u in uniq {
        let mut ks: Vec<String> =
            rows.iter().map(|r| key(r, u)).filter(|k| !k.contains(&SqlValue::Null)).map(|k| canon::row(&k)).collect();
        ks.sort();
        let n = ks.len();
        ks.dedup();
        if ks.len() != n {
            bad.push(format!("UNIQUE ({:?}) has duplicate non-NULL keys", u));
        }
        expected_idx.push(ks);
    }
    for c in checks {
        for r in rows {
            if eval_check(c, r) == Some(Some(false)) {
                bad.push(format!("CHECK {:?} is FALSE on row {}", c, canon::row(r)));
                break;
            }
        }
    }
    if bad.is_empty() && idx != expected_idx.as_slice() {
        bad.push(format!("hash indexes do not mirror the rows: have {:?}, rows give {:?}", idx, expected_idx));
    }
    bad
}

// ---------------------------------------------------------------------------------------------
// Tables with several user-defined unique indexes (CREATE UNIQUE INDEX) on nullable columns
// ---------------------------------------------------------------------------------------------

/// one scenario / generated history on T(C0 INT PRIMARY KEY, C1, C2, C3) with unique indexes on
/// `idx_cols` (created in that order), optionally an INSERT trigger (forces the row-by-row path)
#[derive(Clone, Debug)]
pub struct UCase {
    pub name: String,
    pub idx_cols: Vec<usize>,
    /// `Some(n)`: the string-column variant T(C0 INT PRIMARY KEY, C1 INT, S VARCHAR(20), U VARCHAR(20)) with
    /// `CREATE UNIQUE INDEX UXS ON T (S(n))` and the non-unique prefix index `CREATE INDEX IXU ON T (U(2))`
    pub prefix_len: Option<usize>,
    pub trigger: bool,
    /// statements that must succeed (content of T before the statements under test)
    pub setup: Vec<String>,
    /// statements under test: (prelude statements that must succeed, the statement, must it be rejected)
    pub stmts: Vec<(Vec<String>, String, bool)>,
}

pub fn uidx_db(c: &UCase) -> Db {
    let mut db = Db::new();
    if let Some(n) = c.prefix_len {
        db.must("CREATE TABLE T (C0 INT PRIMARY KEY, C1 INT, S VARCHAR(20), U VARCHAR(20))");
        db.must("CREATE TABLE S (C0 INT PRIMARY KEY, C1 INT, S VARCHAR(20), U VARCHAR(20))");
        db.must(&format!("CREATE UNIQUE INDEX UXS ON T (S({}))", n));
        db.must("CREATE INDEX IXU ON T (U(2))");
    } else {
        db.must("CREATE TABLE T (C0 INT PRIMARY KEY, C1 INT, C2 INT, C3 INT)");
        db.must("CREATE TABLE S (C0 INT PRIMARY KEY, C1 INT, C2 INT, C3 INT)");
        for col in &c.idx_cols {
            db.must(&format!("CREATE UNIQUE INDEX UX{} ON T (C{})", col, col));
        }
    }
    if c.trigger {
        db.must("CREATE TABLE TLOG (K INT)");
        let stmt = vibesql_ast::CreateTriggerStmt {
            trigger_name: "TINS".into(),
            timing: vibesql_ast::TriggerTiming::After,
            event: vibesql_ast::TriggerEvent::Insert,
            table_name: "T".into(),
            granularity: vibesql_ast::TriggerGranularity::Row,
            when_condition: None,
            triggered_action: vibesql_ast::TriggerAction::RawSql("SELECT 1".into()),
        };
        vibesql_executor::TriggerExecutor::create_trigger(&mut db.db, &stmt).expect("create trigger");
        db.log.push("-- AFTER INSERT ROW trigger TINS on T registered through TriggerExecutor::create_trigger: SELECT 1".into());
    }
    for q in &c.setup {
        db.must(q);
    }
    db
}

/// unique-index columns of T holding a duplicate non-NULL value
pub fn uidx_dups(db: &Db, idx_cols: &[usize]) -> Vec<String> {
    let rows = db.scan("T").unwrap_or_default();
    let mut bad = vec![];
    // string variant: the unique prefix index UXS is unique on the first n characters (MySQL semantics,
    // which is also what the storage layer enforces for single-row INSERTs)
    if let Some(n) = prefix_len_of(db) {
        let mut ks: Vec<String> = rows
            .iter()
            .filter_map(|r| match &r[2] {
                SqlValue::Varchar(s) | SqlValue::Character(s) => Some(s.chars().take(n).collect::<String>()),
                _ => None,
            })
            .collect();
        ks.sort();
        let m = ks.len();
        ks.dedup();
        if m != ks.len() {
            bad.push(format!("UXS (S({}))", n));
        }
        return bad;
    }
    for c in idx_cols {
        let mut ks: Vec<String> = rows.iter().filter(|r| r[*c] != SqlValue::Null).map(|r| canon::val(&r[*c])).collect();
        ks.sort();
        let n = ks.len();
        ks.dedup();
        if n != ks.len() {
            bad.push(format!("UX{} (C{})", c, c));
        }
    }
    bad
}

/// prefix length of UXS when T is the string variant
pub fn prefix_len_of(db: &Db) -> Option<usize> {
    db.db.get_index("UXS").and_then(|m| m.columns.first().and_then(|c| c.prefix_length)).map(|n| n as usize)
}

fn urow(id: i64, over: &[(usize, Option<i64>)]) -> String {
    let mut v: Vec<String> = vec![id.to_string(), (100 + id * 10 + 1).to_string(), (100 + id * 10 + 2).to_string(), (100 + id * 10 + 3).to_string()];
    for (c, x) in over {
        v[*c] = x.map(|i| i.to_string()).unwrap_or_else(|| "NULL".into());
    }
    format!("({})", v.join(", "))
}

/// deterministic scenarios: an EARLIER row of the statement has NULL in the key of index `a`, a
/// LATER row duplicates a non-NULL key of index `b` (of an earlier row of the statement / of a
/// stored row); every scenario with the roles of the indexes swapped, 2- and 3-index tables,
/// through multi-row VALUES, the bulk INSERT … SELECT transfer, and the trigger (row-by-row) path
pub fn uidx_scenarios() -> Vec<UCase> {
    let mut out = vec![];
    let layouts: Vec<(Vec<usize>, usize, usize)> = vec![
        (vec![1, 2], 1, 2),
        (vec![1, 2], 2, 1),
        (vec![2, 1], 1, 2),
        (vec![2, 1], 2, 1),
        (vec![1, 2, 3], 1, 3),
        (vec![1, 2, 3], 3, 1),
        (vec![3, 2, 1], 2, 3),
        (vec![3, 1, 2], 3, 2),
    ];
    for (idx_cols, a, b) in layouts {
        for via in ["values", "bulk", "trigger"] {
            for dup_of in ["batch", "stored", "stored_same_row", "batch_same_row"] {
                let (setup, rows) = if dup_of == "stored_same_row" {
                    // the row with the NULL key is itself the duplicate (of a stored row)
                    (
                        vec![format!("INSERT INTO T VALUES {}", urow(9, &[(a, Some(1)), (b, Some(5))]))],
                        vec![urow(1, &[]), urow(2, &[(a, None), (b, Some(5))]), urow(3, &[])],
                    )
                } else if dup_of == "batch_same_row" {
                    // … or of an earlier row of the statement
                    (
                        vec![format!("INSERT INTO T VALUES {}", urow(9, &[]))],
                        vec![urow(1, &[(b, Some(5))]), urow(2, &[(a, None), (b, Some(5))]), urow(3, &[])],
                    )
                } else if dup_of == "batch" {
                    (
                        vec![format!("INSERT INTO T VALUES {}", urow(9, &[]))],
                        vec![urow(1, &[]), urow(2, &[(a, None), (b, Some(5))]), urow(3, &[(a, Some(7)), (b, Some(5))])],
                    )
                } else {
                    (
                        vec![format!("INSERT INTO T VALUES {}", urow(9, &[(a, Some(1)), (b, Some(5))]))],
                        vec![urow(1, &[]), urow(2, &[(a, None), (b, Some(6))]), urow(3, &[(a, Some(3)), (b, Some(5))])],
                    )
                };
                let (prelude, stmt) = if via == "bulk" {
                    (vec!["DELETE FROM S".to_string(), format!("INSERT INTO S VALUES {}", rows.join(", "))], "INSERT INTO T SELECT * FROM S".to_string())
                } else {
                    (vec![], format!("INSERT INTO T VALUES {}", rows.join(", ")))
                };
                // a clean statement afterwards must still be accepted (NULL keys never collide)
                let ok_stmt = format!("INSERT INTO T VALUES {}, {}", urow(20, &[(a, None), (b, None)]), urow(21, &[(a, None), (b, Some(77))]));
                out.push(UCase {
                    name: format!("uidx {:?} nullkey=C{} dupkey=C{} via={} dup_of={}", idx_cols, a, b, via, dup_of),
                    idx_cols: idx_cols.clone(),
                    prefix_len: None,
                    trigger: via == "trigger",
                    setup,
                    stmts: vec![(prelude, stmt, true), (vec![], ok_stmt, false)],
                });
            }
        }
    }
    out
}

/// generated history: 1–3 unique indexes in random creation order, NULL-rich multi-row INSERTs
/// (VALUES / bulk transfer), UPDATEs and DELETEs; `must reject` is unknown (false)
pub fn gen_uidx(r: &mut Rng, k: u64) -> UCase {
    let mut cols = vec![1usize, 2, 3];
    r.shuffle(&mut cols);
    cols.truncate(1 + r.below(3) as usize);
    let trigger = r.chance(1, 4);
    let mut next_id = 0i64;
    let mut val = |r: &mut Rng| -> Option<i64> { if r.chance(1, 3) { None } else { Some(r.range(0, 4)) } };
    let mut stmts = vec![];
    for _ in 0..(6 + r.below(5)) {
        let kind = r.below(10);
        if kind < 6 {
            let n = 1 + r.below(4);
            let rows: Vec<String> = (0..n)
                .map(|_| {
                    next_id += 1;
                    let id = if r.chance(1, 10) { r.range(1, next_id.max(1)) } else { next_id };
                    urow(id, &[(1, val(r)), (2, val(r)), (3, val(r))])
                })
                .collect();
            if kind < 2 {
                stmts.push((vec!["DELETE FROM S".to_string(), format!("INSERT INTO S VALUES {}", rows.join(", "))], "INSERT INTO T SELECT * FROM S".to_string(), false));
            } else {
                stmts.push((vec![], format!("INSERT INTO T VALUES {}", rows.join(", ")), false));
            }
        } else if kind < 9 {
            let c = 1 + r.below(3);
            let v = val(r).map(|i| i.to_string()).unwrap_or_else(|| "NULL".into());
            stmts.push((vec![], format!("UPDATE T SET C{} = {} WHERE C0 {} {}", c, v, if r.chance(1, 2) { "=" } else { ">=" }, r.range(1, next_id.max(1))), false));
        } else {
            stmts.push((vec![], format!("DELETE FROM T WHERE C0 <= {}", r.range(1, next_id.max(1))), false));
        }
    }
    UCase { name: format!("uidx-gen{} {:?} trigger={}", k, cols, trigger), idx_cols: cols, prefix_len: None, trigger, setup: vec![], stmts }
}

// ---------------------------------------------------------------------------------------------
// prefix indexes on string columns: the layer that detects a violation differs (the storage layer
// compares prefixes on its own; the executor has to apply the same truncation)
// ---------------------------------------------------------------------------------------------

fn prow(id: i64, s: Option<&str>, u: Option<&str>) -> String {
    let q = |x: Option<&str>| x.map(|v| format!("'{}'", v)).unwrap_or_else(|| "NULL".into());
    format!("({}, {}, {}, {})", id, id % 5, q(s), q(u))
}

fn via_stmt(via: &str, rows: &[String]) -> (Vec<String>, String) {
    if via == "bulk" {
        (vec!["DELETE FROM S".to_string(), format!("INSERT INTO S VALUES {}", rows.join(", "))], "INSERT INTO T SELECT * FROM S".to_string())
    } else {
        (vec![], format!("INSERT INTO T VALUES {}", rows.join(", ")))
    }
}

/// multi-row INSERTs of 1..4 rows with the violating row at every position: a new full value whose
/// prefix is already stored / used by an earlier row of the batch; UPDATEs to an existing prefix
pub fn prefix_scenarios() -> Vec<UCase> {
    let mut out = vec![];
    for n in [3usize, 1] {
        for via in ["values", "bulk", "trigger"] {
            for k in 1..=4usize {
                for pos in 0..k {
                    for dup_of in ["stored", "batch"] {
                        if dup_of == "batch" && pos == 0 {
                            continue;
                        }
                        let good = ["gaa1", "hbb1", "icc1", "jdd1"];
                        let rows: Vec<String> = (0..k)
                            .map(|j| {
                                let s = if j == pos {
                                    if dup_of == "stored" { "abcY".to_string() } else { format!("{}Z", &good[0][..n.max(1)]) }
                                } else {
                                    good[j].to_string()
                                };
                                prow(100 + j as i64, Some(&s), Some(if j % 2 == 0 { "uu1" } else { "uu2" }))
                            })
                            .collect();
                        let (prelude, stmt) = via_stmt(via, &rows);
                        let ok_rows = vec![prow(200, None, None), prow(201, Some("zzz9"), Some("uu3")), prow(202, None, Some("uu3"))];
                        let (p2, s2) = via_stmt(via, &ok_rows);
                        out.push(UCase {
                            name: format!("prefix({}) via={} rows={} failing_pos={} dup_of={}", n, via, k, pos, dup_of),
                            idx_cols: vec![],
                            prefix_len: Some(n),
                            trigger: via == "trigger",
                            setup: vec![format!("INSERT INTO T VALUES {}, {}", prow(9, Some("abcX"), Some("uu1")), prow(8, Some("xyzX"), Some("uu1")))],
                            stmts: vec![(prelude, stmt, true), (p2, s2, false)],
                        });
                    }
                }
            }
        }
        out.push(UCase {
            name: format!("prefix({}) updates", n),
            idx_cols: vec![],
            prefix_len: Some(n),
            trigger: false,
            setup: vec![format!("INSERT INTO T VALUES {}, {}, {}", prow(9, Some("abcX"), Some("uu1")), prow(8, Some("xyzX"), Some("uu1")), prow(7, None, None))],
            stmts: vec![
                (vec![], "UPDATE T SET S = 'abcW' WHERE C0 = 8".into(), true),
                (vec![], "UPDATE T SET S = 'abcX2' WHERE C0 = 9".into(), false),
                (vec![], "UPDATE T SET S = 'zzz' || S".into(), true),
                (vec![], "UPDATE T SET S = 'abcQ' WHERE C0 >= 7".into(), true),
                (vec![], "UPDATE T SET S = NULL WHERE C0 = 8".into(), false),
                (vec![], "UPDATE T SET S = 'abcW' WHERE C0 = 8".into(), true),
                (vec![], "UPDATE T SET U = 'uu' || U".into(), false),
            ],
        });
    }
    out
}

pub fn gen_prefix(r: &mut Rng, k: u64) -> UCase {
    let pool = ["abc1", "abc2", "abd1", "ab", "xyz1", "xyz2", "x", "qqq1", "qq", "mno"];
    let n = 1 + r.below(3) as usize;
    let trigger = r.chance(1, 4);
    let mut next_id = 0i64;
    let mut stmts = vec![];
    for _ in 0..(6 + r.below(5)) {
        let kind = r.below(10);
        if kind < 6 {
            let cnt = 1 + r.below(4);
            let rows: Vec<String> = (0..cnt)
                .map(|_| {
                    next_id += 1;
                    let s = if r.chance(1, 5) { None } else { Some(*r.pick(&pool)) };
                    let u = if r.chance(1, 5) { None } else { Some(*r.pick(&pool)) };
                    prow(next_id, s, u)
                })
                .collect();
            let (p, s) = via_stmt(if kind < 2 { "bulk" } else { "values" }, &rows);
            stmts.push((p, s, false));
        } else if kind < 9 {
            let v = if r.chance(1, 5) { "NULL".to_string() } else { format!("'{}'", r.pick(&pool)) };
            stmts.push((vec![], format!("UPDATE T SET {} = {} WHERE C0 {} {}", if r.chance(2, 3) { "S" } else { "U" }, v, if r.chance(1, 2) { "=" } else { ">=" }, r.range(1, next_id.max(1))), false));
        } else {
            stmts.push((vec![], format!("DELETE FROM T WHERE C0 <= {}", r.range(1, next_id.max(1))), false));
        }
    }
    UCase { name: format!("prefix-gen{} n={} trigger={}", k, n, trigger), idx_cols: vec![], prefix_len: Some(n), trigger, setup: vec![], stmts }
}

/// Direct storage-API probe: `Database::insert_rows_batch` checks user-defined unique indexes for all
/// rows before it inserts any — a refused row at any position leaves table and indexes untouched.
/// Returns (name, replay) of every failing sub-case.
pub fn storage_batch_probe() -> Vec<(String, String)> {
    let mut failures = vec![];
    for prefix in [None, Some(3usize)] {
        for k in 2..=4usize {
            for pos in 0..k {
                let c = UCase {
                    name: String::new(),
                    idx_cols: if prefix.is_none() { vec![2] } else { vec![] },
                    prefix_len: prefix,
                    trigger: false,
                    setup: vec![if prefix.is_some() { format!("INSERT INTO T VALUES {}", prow(9, Some("abcX"), Some("uu1"))) } else { "INSERT INTO T VALUES (9, 0, 5, 0)".to_string() }],
                    stmts: vec![],
                };
                let mut db = uidx_db(&c);
                let rows: Vec<vibesql_storage::Row> = (0..k)
                    .map(|j| {
                        let id = SqlValue::Integer(100 + j as i64);
                        if prefix.is_some() {
                            let s = if j == pos { "abcY".to_string() } else { format!("g{}a1", j) };
                            vibesql_storage::Row::new(vec![id, SqlValue::Integer(1), SqlValue::Varchar(s), SqlValue::Varchar("uu1".into())])
                        } else {
                            vibesql_storage::Row::new(vec![id, SqlValue::Integer(1), SqlValue::Integer(if j == pos { 5 } else { 50 + j as i64 }), SqlValue::Integer(1)])
                        }
                    })
                    .collect();
                let before = canon::rows_seq(&db.scan("T").unwrap_or_default());
                let res = db.db.insert_rows_batch("T", rows);
                let after = canon::rows_seq(&db.scan("T").unwrap_or_default());
                if res.is_ok() || before != after {
                    failures.push((
                        format!("storage insert_rows_batch, {} unique index, {} rows, refused row at position {}", if prefix.is_some() { "prefix" } else { "plain" }, k, pos),
                        format!("{}\n-- Database::insert_rows_batch(\"T\", {} rows, row {} duplicates the stored key) => {:?}\nbefore {}\nafter  {}", db.log.join(";\n"), k, pos, res.map(|_| ()).map_err(|e| e.to_string()), before, after),
                    ));
                }
            }
        }
    }
    failures
}
