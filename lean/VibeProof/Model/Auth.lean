import VibeProof.Model.Bytes
/-
Password authentication of crates/vibesql-server/src/auth/password.rs (C29).

* MD5 (RFC 1321) implemented here on `UInt32`; `computeMd5Password` = `compute_md5_password`.
  The table lookups use `getD` with indices that are always in range; no theorem depends on the
  internals of `md5` (it is validated against the `md-5` crate by the correspondence run).
* The store is an association list user → stored string (`HashMap<String,String>`), strings are
  UTF-8 byte lists; `verifyCleartext`, `verifyMd5` are transliterations of `verify_cleartext`,
  `verify_md5` (prefix tests `$argon2`, `{MD5}`, `strip_prefix("md5").unwrap_or(..)`).
* Argon2 is a parameter: `CryptoOps` (what the code calls: `PasswordHash::new`,
  `verify_password`) and `Crypto` (adds hashing and the laws the property relies on).
-/
namespace VibeProof.Auth
open VibeProof.Wire

/-! ### MD5 -/

def md5S : List UInt32 := [7, 12, 17, 22, 7, 12, 17, 22, 7, 12, 17, 22, 7, 12, 17, 22, 5, 9, 14, 20, 5, 9, 14, 20, 5, 9, 14, 20, 5, 9, 14, 20, 4, 11, 16, 23, 4, 11, 16, 23, 4, 11, 16, 23, 4, 11, 16, 23, 6, 10, 15, 21, 6, 10, 15, 21, 6, 10, 15, 21, 6, 10, 15, 21]

def md5K : List UInt32 := [0xd76aa478, 0xe8c7b756, 0x242070db, 0xc1bdceee, 0xf57c0faf, 0x4787c62a, 0xa8304613, 0xfd469501, 0x698098d8, 0x8b44f7af, 0xffff5bb1, 0x895cd7be, 0x6b901122, 0xfd987193, 0xa679438e, 0x49b40821, 0xf61e2562, 0xc040b340, 0x265e5a51, 0xe9b6c7aa, 0xd62f105d, 0x02441453, 0xd8a1e681, 0xe7d3fbc8, 0x21e1cde6, 0xc33707d6, 0xf4d50d87, 0x455a14ed, 0xa9e3e905, 0xfcefa3f8, 0x676f02d9, 0x8d2a4c8a, 0xfffa3942, 0x8771f681, 0x6d9d6122, 0xfde5380c, 0xa4beea44, 0x4bdecfa9, 0xf6bb4b60, 0xbebfbc70, 0x289b7ec6, 0xeaa127fa, 0xd4ef3085, 0x04881d05, 0xd9d4d039, 0xe6db99e5, 0x1fa27cf8, 0xc4ac5665, 0xf4292244, 0x432aff97, 0xab9423a7, 0xfc93a039, 0x655b59c3, 0x8f0ccc92, 0xffeff47d, 0x85845dd1, 0x6fa87e4f, 0xfe2ce6e0, 0xa3014314, 0x4e0811a1, 0xf7537e82, 0xbd3af235, 0x2ad7d2bb, 0xeb86d391]

def rotl (x n : UInt32) : UInt32 := (x <<< n) ||| (x >>> (32 - n))

/-- little-endian 32-bit word of four bytes -/
def leWord (a b c d : UInt8) : UInt32 :=
  a.toUInt32 ||| (b.toUInt32 <<< 8) ||| (c.toUInt32 <<< 16) ||| (d.toUInt32 <<< 24)

def wordsOf : Bytes → List UInt32
  | a :: b :: c :: d :: rest => leWord a b c d :: wordsOf rest
  | _ => []

def le32 (w : UInt32) : Bytes :=
  [w.toUInt8, (w >>> 8).toUInt8, (w >>> 16).toUInt8, (w >>> 24).toUInt8]

structure Md5State where
  a : UInt32
  b : UInt32
  c : UInt32
  d : UInt32

def md5Init : Md5State := ⟨0x67452301, 0xefcdab89, 0x98badcfe, 0x10325476⟩

def md5Round (m : List UInt32) (s : Md5State) (i : Nat) : Md5State :=
  let fg : UInt32 × Nat :=
    if i < 16 then ((s.b &&& s.c) ||| (~~~ s.b &&& s.d), i)
    else if i < 32 then ((s.d &&& s.b) ||| (~~~ s.d &&& s.c), (5 * i + 1) % 16)
    else if i < 48 then (s.b ^^^ s.c ^^^ s.d, (3 * i + 5) % 16)
    else (s.c ^^^ (s.b ||| ~~~ s.d), (7 * i) % 16)
  let f := fg.1 + s.a + md5K.getD i 0 + m.getD fg.2 0
  ⟨s.d, s.b + rotl f (md5S.getD i 0), s.b, s.c⟩

def md5Compress (s : Md5State) (chunk : Bytes) : Md5State :=
  let m := wordsOf chunk
  let r := (List.range 64).foldl (md5Round m) s
  ⟨s.a + r.a, s.b + r.b, s.c + r.c, s.d + r.d⟩

def md5Blocks : Nat → Bytes → Md5State → Md5State
  | 0, _, s => s
  | fuel + 1, b, s => if b.length < 64 then s else md5Blocks fuel (b.drop 64) (md5Compress s (b.take 64))

def le64 (n : Nat) : Bytes :=
  (List.range 8).map (fun i => UInt8.ofNat (n / 256 ^ i % 256))

def md5Pad (msg : Bytes) : Bytes :=
  msg ++ (0x80 :: List.replicate ((119 - msg.length % 64) % 64) 0) ++ le64 (8 * msg.length)

def md5Digest (s : Md5State) : Bytes := le32 s.a ++ (le32 s.b ++ (le32 s.c ++ le32 s.d))

/-- the 16-byte MD5 digest -/
def md5 (msg : Bytes) : Bytes :=
  let p := md5Pad msg
  md5Digest (md5Blocks (p.length / 64 + 1) p md5Init)

/-- ASCII code of a lower-case hex digit -/
def hexDigit (n : Nat) : UInt8 := if n < 10 then UInt8.ofNat (48 + n) else UInt8.ofNat (87 + n)

/-- `format!("{:x}", digest)` -/
def hexLower : Bytes → Bytes
  | [] => []
  | b :: bs => hexDigit (b.toNat / 16) :: hexDigit (b.toNat % 16) :: hexLower bs

/-- `compute_md5_password`: hex(md5(hex(md5(password ++ username)) ++ salt)) — no `md5` prefix -/
def computeMd5Password (password username salt : Bytes) : Bytes :=
  hexLower (md5 (hexLower (md5 (password ++ username)) ++ salt))

/-! ### the store and the two verifiers -/

abbrev Store := List (Bytes × Bytes)

/-- `"$argon2"` -/
def argon2Tag : Bytes := [0x24, 0x61, 0x72, 0x67, 0x6f, 0x6e, 0x32]
/-- `"{MD5}"` -/
def md5Tag : Bytes := [0x7b, 0x4d, 0x44, 0x35, 0x7d]
/-- `"md5"` -/
def md5RespPrefix : Bytes := [0x6d, 0x64, 0x35]

/-- `str::starts_with` -/
def startsWith (p b : Bytes) : Bool := p.isPrefixOf b

/-- `str::strip_prefix` -/
def stripPrefix (p b : Bytes) : Option Bytes :=
  if startsWith p b then some (b.drop p.length) else none

/-- `get_password` -/
def getPassword (st : Store) (u : Bytes) : Option Bytes := st.lookup u

/-- what `verify_cleartext` calls from the argon2 / password-hash crates -/
structure CryptoOps where
  Hash : Type
  /-- `PasswordHash::new(stored).ok()` -/
  parse : Bytes → Option Hash
  /-- `Argon2::default().verify_password(password, &parsed).is_ok()` -/
  verify : Hash → Bytes → Bool

/-- `PasswordStore::verify_cleartext` -/
def verifyCleartext (C : CryptoOps) (st : Store) (u pw : Bytes) : Bool :=
  match getPassword st u with
  | none => false
  | some stored =>
    if startsWith argon2Tag stored then
      match C.parse stored with
      | some h => C.verify h pw
      | none => false
    else if startsWith md5Tag stored then false
    else false

/-- `PasswordStore::verify_md5` -/
def verifyMd5 (st : Store) (u resp salt : Bytes) : Bool :=
  match getPassword st u with
  | none => false
  | some stored =>
    match stripPrefix md5Tag stored with
    | some md5Password =>
      let expected := computeMd5Password md5Password u salt
      let hashToCompare := match stripPrefix md5RespPrefix resp with
        | some rest => rest
        | none => resp
      expected == hashToCompare
    | none => false

/-- `auth.method` of the server configuration (the methods that check a secret) -/
inductive AuthMethod where
  | password
  | md5
  deriving Repr, DecidableEq

/-- the login step of `ConnectionHandler::handle_startup` / `authenticate`: the account that is
    checked is the one named by the startup parameter `user` — the requested `database` plays no
    part — with the verifier of the configured method (`secret` is the content of the client's
    PasswordMessage: the password, resp. the MD5 response to `salt`) -/
def login (C : CryptoOps) (method : AuthMethod) (st : Store) (user _database secret salt : Bytes) : Bool :=
  match method with
  | .password => verifyCleartext C st user secret
  | .md5 => verifyMd5 st user secret salt

/-- Argon2 with the laws the property needs: hashes are rendered with the `$argon2` tag, a
    rendered hash parses, and it verifies exactly the password it was created from -/
structure Crypto extends CryptoOps where
  /-- `hash_password_argon2(password)` with the random salt made explicit -/
  hash : Bytes → Bytes → Bytes
  hash_tag : ∀ p s, startsWith argon2Tag (hash p s) = true
  hash_parses : ∀ p s, ∃ h, parse (hash p s) = some h ∧ ∀ q, verify h q = true ↔ q = p

end VibeProof.Auth
