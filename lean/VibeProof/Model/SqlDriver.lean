import VibeProof.Model.SqlCodec
/- Shared request handler `query DB Q` for the drivers that use the reference evaluator
   (C01, C04).  Protocol glue, not part of any theorem. -/
namespace VibeProof.SqlDriver
open VibeProof VibeProof.Proto VibeProof.Codec VibeProof.Sql VibeProof.SqlCodec

/-- `query DB Q` → `(rows DET (R …))`: result sequence of the reference evaluator and whether
    ORDER BY fully determines it; or `(err kind)`. -/
def handleQuery : List Sx → Sx
  | [.atom "query", db, q] =>
    match decDb db, decQuery q with
    | some d, some qq =>
      match qq.eval d with
      | .ok rows =>
        let det := match qq with
          | .core c => orderDetermined c.orderBy rows || (c.limit.isNone && c.offset == 0 && false)
          | _ => false
        -- with LIMIT/OFFSET the determinism must be judged on the full sorted sequence
        let det := match qq with
          | .core c =>
            if c.limit.isSome || c.offset > 0 then
              match (Query.core { c with limit := none, offset := 0 }).eval d with
              | .ok full => orderDetermined c.orderBy full
              | .error _ => false
            else det
          | _ => det
        -- the result without LIMIT/OFFSET (for tie-robust comparison of limited queries)
        let full := match qq with
          | .core c =>
            match (Query.core { c with limit := none, offset := 0 }).eval d with
            | .ok f => f
            | .error _ => rows
          | _ => rows
        .list [.atom "rows", .atom (if det then "1" else "0"), encRows rows, encRows full]
      | .error e => encErr e
    | _, _ => .atom "bad-request"
  | _ => .atom "bad-request"


end VibeProof.SqlDriver
