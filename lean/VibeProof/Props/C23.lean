import VibeProof.Model.Lexer
/-
C23 — the SQL parser is total (partial level: the lexer is modelled completely, of the parser only
the nesting skeleton with its depth budget; the 25k-line grammar is not modelled).
-/
namespace VibeProof.C23
open VibeProof VibeProof.Lexer

/-- **T1 (progress).** Every successful branch of `next_token` consumes at least one character:
    the unread rest is strictly shorter than the input it was called on.  (`tokenizeFrom` is
    defined by well-founded recursion on exactly this measure, so the lexer terminates on every
    input, for every Unicode classification.) -/
theorem C23_next_token_advances (k : Cls) (pos : Nat) (c : Char) (cs : List Char) (t : Tok)
    (r : RestLe cs.length) (_h : nextToken k pos c cs = .ok (t, r)) :
    r.1.length < (c :: cs).length := by
  have := r.2
  simp only [List.length_cons]
  omega

/-- trivia skipping never goes backwards -/
theorem C23_skip_trivia_suffix_length (k : Cls) (b : Bool) (cs : List Char) :
    (skipTrivia k b cs).1.length ≤ cs.length := (skipTrivia k b cs).2

/-- **T1 (outcome).** `tokenize` returns a lexer error or a token list whose last element is `Eof`
    placed at the end of the input. -/
theorem C23_tokenize_ends_in_eof (k : Cls) (total : Nat) (cs : List Char) (ts : List Spanned)
    (h : tokenizeFrom k total cs = .ok ts) : ts.getLast? = some ⟨.eof, total, total⟩ := by
  induction hn : cs.length using Nat.strongRecOn generalizing cs ts with
  | _ n ih =>
    unfold tokenizeFrom at h
    split at h
    · cases h; rfl
    · next c cs' hsk =>
      simp only at h
      split at h
      · cases h
      · next t r hnt =>
        split at h
        · cases h
        · next ts' hrec =>
          cases h
          have hlen : r.1.length < n := by
            have h1 := (skipTrivia k false cs).2
            rw [hsk] at h1
            simp only [List.length_cons] at h1
            have h2 := r.2
            omega
          have := ih r.1.length hlen r.1 ts' hrec rfl
          rw [List.getLast?_cons_of_ne_nil]
          · exact this
          · intro hnil; rw [hnil] at this; cases this

/-- spans of a token list: every token has a non-empty span, spans do not overlap, are in input
    order, and lie inside the input; `lo` is the first index not yet accounted for -/
def SpansFrom (total : Nat) : Nat → List Spanned → Prop
  | _, [] => True
  | lo, s :: rest =>
    lo ≤ s.start ∧ s.stop ≤ total ∧ (s.tok = .eof ∨ s.start < s.stop) ∧ SpansFrom total s.stop rest

/-- **T2 (span accounting).** No character is read twice and none outside the input: the tokens'
    character ranges are non-empty, pairwise disjoint, increasing and inside `[0, total)`. -/
theorem C23_spans_ordered (k : Cls) (total : Nat) (cs : List Char) (ts : List Spanned)
    (hle : cs.length ≤ total) (h : tokenizeFrom k total cs = .ok ts) :
    SpansFrom total (total - cs.length) ts := by
  induction hn : cs.length using Nat.strongRecOn generalizing cs ts with
  | _ n ih =>
    unfold tokenizeFrom at h
    split at h
    · cases h
      simp only [SpansFrom]
      refine ⟨by omega, Nat.le_refl _, ?_, trivial⟩
      simp
    · next c cs' hsk =>
      simp only at h
      split at h
      · cases h
      · next t r hnt =>
        split at h
        · cases h
        · next ts' hrec =>
          cases h
          have h1 := (skipTrivia k false cs).2
          rw [hsk] at h1
          simp only [List.length_cons] at h1
          have h2 := r.2
          have hlen : r.1.length < n := by omega
          have := ih r.1.length hlen r.1 ts' (by omega) hrec rfl
          simp only [SpansFrom]
          refine ⟨by omega, by omega, Or.inr (by omega), this⟩

/-! ### nesting skeleton -/

/-- `(`ⁿ atom `)`ⁿ -/
def parens (n : Nat) : List SkTok := List.replicate n .lp ++ [.atom] ++ List.replicate n .rp

theorem replicate_cons_comm {α : Type} (n : Nat) (a : α) (l : List α) :
    a :: (List.replicate n a ++ l) = List.replicate n a ++ a :: l := by
  induction n with
  | zero => rfl
  | succ m ih => simp only [List.replicate_succ, List.cons_append]; rw [ih]

/-- helper: with enough fuel and levels, `(`ⁿ atom `)`ⁿ followed by `rest` (not starting with a binary
    operator) parses and leaves `rest`; a parenthesis costs two levels (expression + primary) -/
theorem sk_parens_ok (n : Nat) : ∀ (f left : Nat) (rest : List SkTok),
    2 * n + 2 ≤ left → 5 * n + 5 ≤ f → (∀ r, rest ≠ .binop :: r) →
    sk f .expr left (List.replicate n .lp ++ [.atom] ++ List.replicate n .rp ++ rest) = .ok rest := by
  induction n with
  | zero =>
    intro f left rest hl hf hr
    obtain ⟨f', rfl⟩ : ∃ f', f = f' + 5 := ⟨f - 5, by omega⟩
    obtain ⟨l', rfl⟩ : ∃ l', left = l' + 2 := ⟨left - 2, by omega⟩
    simp only [List.replicate_zero, List.nil_append, List.append_nil, List.cons_append, sk]
    all_goals (split <;> first | rfl | exact absurd rfl (hr _))
  | succ n ih =>
    intro f left rest hl hf hr
    obtain ⟨f', rfl⟩ : ∃ f', f = f' + 5 := ⟨f - 5, by omega⟩
    obtain ⟨l', rfl⟩ : ∃ l', left = l' + 2 := ⟨left - 2, by omega⟩
    have hin := ih f' l' (.rp :: rest) (by omega) (by omega) (by intro r h; cases h)
    have e : List.replicate (n + 1) SkTok.lp ++ [SkTok.atom] ++ List.replicate (n + 1) SkTok.rp ++ rest
        = SkTok.lp :: (List.replicate n .lp ++ [.atom] ++ List.replicate n .rp ++ (.rp :: rest)) := by
      rw [List.replicate_succ (n := n) (a := SkTok.lp), List.replicate_succ' (n := n) (a := SkTok.rp)]
      simp only [List.cons_append, List.append_assoc, List.nil_append]
    rw [e]
    simp only [sk, hin]
    all_goals (split <;> first | rfl | exact absurd rfl (hr _))

/-- helper: with fewer than `2n + 2` levels the skeleton answers `tooDeep` -/
theorem sk_parens_deep (n : Nat) : ∀ (f left : Nat) (t : List SkTok),
    left < 2 * n + 2 → 5 * n + 5 ≤ f →
    sk f .expr left (List.replicate n .lp ++ .atom :: t) = .error .tooDeep := by
  induction n with
  | zero =>
    intro f left t hl hf
    obtain ⟨f', rfl⟩ : ∃ f', f = f' + 5 := ⟨f - 5, by omega⟩
    match left, hl with
    | 0, _ => simp [sk]
    | 1, _ => simp [sk]
  | succ n ih =>
    intro f left t hl hf
    obtain ⟨f', rfl⟩ : ∃ f', f = f' + 5 := ⟨f - 5, by omega⟩
    match left, hl with
    | 0, _ => simp [sk]
    | 1, _ => simp [sk, List.replicate_succ]
    | l' + 2, hl =>
      have hin := ih f' l' t (by omega) (by omega)
      simp only [List.replicate_succ, List.cons_append, sk, hin]

/-- **T3 (depth budget).** For the family `(`ⁿ x `)`ⁿ and every number `D` of available levels:
    accepted iff `2n + 2 ≤ D`, otherwise `tooDeep` — the skeleton never goes deeper than `D`, for
    arbitrarily large `n` (fuel `5n + 5` is enough in both cases). -/
theorem C23_skeleton_depth_budget (D n : Nat) :
    sk (5 * n + 5) .expr D (parens n) = (if 2 * n + 2 ≤ D then .ok [] else .error .tooDeep) := by
  unfold parens
  by_cases h : 2 * n + 2 ≤ D
  · rw [if_pos h]
    have := sk_parens_ok n (5 * n + 5) D [] h (Nat.le_refl _) (by intro r hr; cases hr)
    simpa using this
  · rw [if_neg h]
    have := sk_parens_deep n (5 * n + 5) D (List.replicate n .rp) (by omega) (Nat.le_refl _)
    simpa [List.append_assoc] using this

/-- the budget instantiated with the parser's constant, re-read from `parser/mod.rs` on every run
    (one level belongs to the enclosing SELECT): 98 nested parentheses are accepted, 99 and
    100 000 are rejected without deeper recursion -/
theorem C23_skeleton_at_parser_limit :
    sk (5 * 98 + 5) .expr (VibeProof.Generated.parserMaxNestingDepth - 1) (parens 98) = .ok [] ∧
    sk (5 * 99 + 5) .expr (VibeProof.Generated.parserMaxNestingDepth - 1) (parens 99) = .error .tooDeep ∧
    sk (5 * 100000 + 5) .expr (VibeProof.Generated.parserMaxNestingDepth - 1) (parens 100000) = .error .tooDeep := by
  refine ⟨?_, ?_, ?_⟩ <;> rw [C23_skeleton_depth_budget] <;> simp [VibeProof.Generated.parserMaxNestingDepth]

/-! ### every recursion of the parser passes the depth guard -/

theorem wellRanked_sound (l : List (String × List Nat)) : ∀ (i : Nat), wellRanked i l = true →
    ∀ (j : Nat) (e : String × List Nat), l[j]? = some e → ∀ v ∈ e.2, v < i + j := by
  induction l with
  | nil => intro i _ j e he; simp at he
  | cons hd tl ih =>
    intro i h j e he v hv
    simp only [wellRanked, Bool.and_eq_true, List.all_eq_true, decide_eq_true_eq] at h
    cases j with
    | zero =>
      simp only [List.getElem?_cons_zero, Option.some.injEq] at he
      subst he
      have := h.1 v hv
      omega
    | succ j' =>
      simp only [List.getElem?_cons_succ] at he
      have := ih (i + 1) h.2 j' e he v hv
      omega

theorem callPath_decreases (g : List (String × List Nat)) (h : wellRanked 0 g = true) :
    ∀ u v, CallPath g u v → v < u := by
  intro u v p
  induction p with
  | one c =>
    obtain ⟨e, he, hv⟩ := c
    have := wellRanked_sound g 0 h _ e he _ hv
    omega
  | step c _ ih =>
    obtain ⟨e, he, hv⟩ := c
    have := wellRanked_sound g 0 h _ e he _ hv
    omega

/-- a call table in which every function only calls earlier entries has no cycle -/
theorem C23_ranked_graph_acyclic (g : List (String × List Nat)) (h : wellRanked 0 g = true) (u : Nat) :
    ¬ CallPath g u u := by
  intro p
  have := callPath_decreases g h u u p
  omega

set_option maxRecDepth 100000 in
/-- **T3b (guard coverage).** In the call table extracted from `parser/**/*.rs` on this run, the
    functions that do not call `enter_nesting` only call earlier entries … -/
theorem C23_parser_unguarded_calls_ranked :
    wellRanked 0 VibeProof.Generated.parserUnguardedCalls = true := by decide +kernel

/-- … hence no chain of calls among unguarded parser functions returns to where it started: every
    recursion of the parser passes a function that takes a nesting level (and fails beyond
    `MAX_NESTING_DEPTH`).  A new recursive production without the guard breaks this theorem. -/
theorem C23_parser_recursion_guarded (u : Nat) :
    ¬ CallPath VibeProof.Generated.parserUnguardedCalls u u :=
  C23_ranked_graph_acyclic _ C23_parser_unguarded_calls_ranked u


/-! ### left-deep chains are length-limited -/

theorem chainLoop_spec (maxLinks : Nat) : ∀ (n links : Nat),
    chainLoop maxLinks links n = (if links + n ≤ maxLinks ∨ n = 0 then .ok (links + n) else .error .tooLong) := by
  intro n
  induction n with
  | zero => intro links; simp [chainLoop]
  | succ m ih =>
    intro links
    unfold chainLoop
    by_cases h : links + 1 > maxLinks
    · simp only [h, if_true]
      rw [if_neg (by omega)]
    · simp only [h, if_false]
      rw [ih (links + 1)]
      by_cases h2 : links + 1 + m ≤ maxLinks
      · rw [if_pos (Or.inl h2), if_pos (Or.inl (by omega))]
        congr 1; omega
      · by_cases hm : m = 0
        · subst hm
          rw [if_pos (Or.inr rfl), if_pos (Or.inl (by omega))]
        · rw [if_neg (by omega), if_neg (by omega)]

/-- **T3c (chain budget).** A left-associative chain of `n` links is parsed into a tree of depth
    exactly `n` when `n ≤ MAX_CHAIN_LENGTH`, and is rejected otherwise — for every `n`; the tree the
    parser hands out is never deeper than the limit. -/
theorem C23_chain_depth_bounded (maxLinks n : Nat) :
    chainLoop maxLinks 0 n = (if n ≤ maxLinks then .ok n else .error .tooLong) := by
  rw [chainLoop_spec]
  by_cases h : n ≤ maxLinks
  · simp [h]
  · have : n ≠ 0 := by omega
    simp [h, this]

/-- every link is counted: each loop of the parser that wraps its previous result into a new boxed
    node (table extracted from `parser/**/*.rs` on this run; there is at least one) calls
    `check_chain_length` at the top level of its body before the wrap.  Moving the call into one
    branch of the loop body (so that another kind of link goes uncounted) breaks this theorem. -/
theorem C23_tree_building_loops_count_every_link :
    VibeProof.Generated.parserTreeLoops ≠ [] ∧
    VibeProof.Generated.parserTreeLoops.all (fun e => e.2 == 1) = true := by decide


/-! ### token-consuming loops end at the end of the input -/

/-- every `while` / `loop` of the parser that consumes tokens (table extracted from
    `parser/**/*.rs` on this run; not empty) is left when the current token is `Eof`: its condition is
    false there, or its body has a default / explicit exit.  No loop is unclassified.  Replacing the
    `&&` of a not-Eof test by `||` (a loop that spins at the end of a truncated statement) breaks
    this theorem. -/
theorem C23_token_loops_exit_at_eof :
    VibeProof.Generated.parserTokenLoops ≠ [] ∧
    VibeProof.Generated.parserTokenLoops.all (fun e => e.2.2 == 1) = true := by decide

end VibeProof.C23
