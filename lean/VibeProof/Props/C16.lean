import VibeProof.Model.IndexBackend
import VibeProof.Props.C17
/-
C16 — query results do not depend on the index storage backend.

Both backends are related to one abstract ordered multimap (`List Entry`, key-sorted):
the in-memory backend *is* that association list, the disk-backed one is the B+ tree of C17 under
`toAssoc`.  The theorems say: every maintenance call keeps the two backends' abstractions equal
and related states answer every lookup / range scan identically.
-/
namespace VibeProof.C16
open VibeProof.BTree VibeProof.IndexBackend VibeProof.C17
local notation "Key" => Int

/-- the states of the two backends that hold the same index -/
def Related (d : Nat) (m : List Entry) (t : BTree) : Prop := t.WF d ∧ t.toAssoc = m

/-- every row id occurs at most once under a key (a row index is added once per row) -/
def RowsDistinct (m : List Entry) : Prop := ∀ e ∈ m, e.2.Nodup

theorem filter_ne_eq_erase (rs : List Nat) (r : Nat) (h : rs.Nodup) : rs.filter (· != r) = rs.erase r := by
  induction rs with
  | nil => rfl
  | cons a rs ih =>
    rw [List.nodup_cons] at h
    by_cases ha : a = r
    · subst ha
      simp only [List.filter_cons, bne_self_eq_false, Bool.false_eq_true, if_false, List.erase_cons_head]
      apply List.filter_eq_self.mpr
      intro x hx
      have : x ≠ a := fun hxa => h.1 (hxa ▸ hx)
      simpa using this
    · have hne : (a != r) = true := by simpa using ha
      simp only [List.filter_cons, hne, if_true]
      rw [List.erase_cons_tail (by simpa using ha), ih h.2]

theorem filterMap_congr' {α β : Type} (f g : α → Option β) (l : List α) (h : ∀ a ∈ l, f a = g a) :
    l.filterMap f = l.filterMap g := by
  induction l with
  | nil => rfl
  | cons a l ih =>
    rw [List.filterMap_cons, List.filterMap_cons, h a (by simp), ih (fun b hb => h b (by simp [hb]))]

/-- the in-memory `retain(|idx| idx != row_index)` is the multimap's "erase one row id" as long as
    row ids are distinct under a key -/
theorem C16_mem_remove_eq (m : List Entry) (k : Key) (r : RowId) (h : RowsDistinct m) :
    memRemove m k r = amEraseOne m k r := by
  unfold memRemove amEraseOne
  apply filterMap_congr'
  intro e he
  rw [filter_ne_eq_erase e.2 r (h e he)]

/-- the in-memory backend performs the abstract maintenance step -/
theorem C16_mem_step (m : List Entry) (op : MOp) (h : RowsDistinct m) : memStep m op = IndexBackend.specStep m op := by
  cases op with
  | ins k r => rfl
  | upd a b r =>
    simp only [memStep, memUpdate, IndexBackend.specStep, memInsert, C16_mem_remove_eq m a r h]
  | del k r => exact C16_mem_remove_eq m k r h

/-- **insert keeps the backends related** (any tree size, any key) -/
theorem C16_insert_simulation (d : Nat) (hd : 5 ≤ d) (m : List Entry) (t : BTree) (k : Key) (r : RowId)
    (hr : Related d m t) :
    ∃ t', diskStep d t (.ins k r) = .ok t' ∧ Related d (memStep m (.ins k r)) t' := by
  obtain ⟨t', h1, h2, h3⟩ := C17_insert d hd t k r hr.1
  exact ⟨t', h1, h2, by rw [h3, hr.2]; rfl⟩

/-- **related states answer point lookups, multi-key lookups and range scans identically**:
    the disk-backed answer is the answer computed from the in-memory association list -/
theorem C16_queries_agree (d : Nat) (m : List Entry) (t : BTree) (hr : Related d m t) :
    (∀ k, BTree.lookup t k = .ok (amLookup m k)) ∧
    (∀ ks, BTree.multiLookup t ks = .ok (amMulti m ks)) ∧
    (∀ s e a b, BTree.rangeScan t s e a b = .ok (amRange m s e a b)) := by
  obtain ⟨hw, rfl⟩ := hr
  exact ⟨fun k => C17_lookup d t k hw, fun ks => C17_multi_lookup d t ks hw,
    fun s e a b => C17_range_scan d t s e a b hw⟩

/-- **delete / update of one row keeps the backends related** — repaired code (`delete_specific`).
    The version restricted to deletions that do not underflow a B+ tree leaf; the unrestricted
    statement is `C16_simulation` below. -/
theorem C16_delete_simulation_partial (d : Nat) (m : List Entry) (t : BTree) (k : Key) (r : RowId)
    (hr : Related d m t) (hdist : RowsDistinct m)
    (hn : NoUnderflow d (leafDeleteOne · k r) t k) :
    ∃ t', diskStep d t (.del k r) = .ok t' ∧ Related d (memStep m (.del k r)) t' := by
  obtain ⟨t', b, h1, h2, h3⟩ := C17_delete_specific_partial d t k r hr.1 hn
  refine ⟨t', by simp [diskStep, diskRemove, h1, Except.map], h2, ?_⟩
  rw [h3, hr.2, C16_mem_step m (.del k r) hdist]
  rfl

/-- the full statement: every maintenance step keeps the backends related -/
def C16_full : Prop :=
  ∀ (d : Nat), 5 ≤ d → ∀ (m : List Entry) (t : BTree) (op : MOp), Related d m t → RowsDistinct m →
    ∃ t', diskStep d t op = .ok t' ∧ Related d (memStep m op) t'

/-- C16 in full follows from the full deletion theorem of C17 (and from nothing else) -/
theorem C16_full_of_C17_delete (h : C17_delete_specific_full) : C16_full := by
  intro d hd m t op hr hdist
  cases op with
  | ins k r => exact C16_insert_simulation d hd m t k r hr
  | del k r =>
    obtain ⟨t', b, h1, h2, h3, _⟩ := h d hd t k r hr.1
    refine ⟨t', by simp [diskStep, diskRemove, h1, Except.map], h2, ?_⟩
    rw [h3, hr.2, C16_mem_step m (.del k r) hdist]; rfl
  | upd a b r =>
    by_cases hab : a = b
    · exact ⟨t, by simp [diskStep, diskUpdate, hab], by simpa [memStep, memUpdate, hab] using hr⟩
    · obtain ⟨t1, b1, h1, h2, h3, _⟩ := h d hd t a r hr.1
      obtain ⟨t2, g1, g2, g3⟩ := C17_insert d hd t1 b r h2
      refine ⟨t2, by simp [diskStep, diskUpdate, hab, diskRemove, h1, Except.map, diskInsert, g1], g2, ?_⟩
      rw [g3, h3, hr.2]
      simp only [memStep, memUpdate, hab, if_false, memInsert, C16_mem_remove_eq m a r hdist]

/-- **the defect that was repaired**: with `BTreeIndex::delete(key)` (all row ids) in the disk-backed
    branch, two related states diverge as soon as the key holds two row ids -/
theorem C16_delete_all_counterexample :
    ∃ (m : List Entry) (t t' : BTree) (k : Key) (r : RowId), Related 5 m t ∧ RowsDistinct m ∧
      diskRemoveAll 5 t k = .ok t' ∧ t'.toAssoc ≠ memStep m (.del k r) := by
  refine ⟨[(7, [0, 1])], ⟨0, .leaf [(7, [0, 1])]⟩, ⟨0, .leaf []⟩, 7, 0, ⟨⟨?_, ?_, ?_, trivial⟩, rfl⟩, ?_, rfl, ?_⟩
  · simp
  · simp
  · simp
  · intro e he; simp at he; subst he; simp
  · decide

/-- non-vacuity: a related pair with duplicate row ids under one key, reached by the operations
    themselves -/
example : Related 5 [(3, [4]), (7, [0, 1])] ⟨0, .leaf [(3, [4]), (7, [0, 1])]⟩ :=
  ⟨⟨by simp, by simp, by simp, trivial⟩, rfl⟩

/-- **the second defect that was repaired** (inclusive end on a multi-column index): with keys
    `[5] < [5,1] < [6]` (ranks 10, 11, 20) a scan ending at `[5]` inclusive does not reach `[5,1]`,
    while "first column ≤ 5" holds for it; the repaired code scans up to `[next 5)` = rank 20 exclusive -/
theorem C16_inclusive_end_counterexample :
    amRange [(11, [0]), (20, [1])] none (some 10) true true = [] ∧
    amRange [(11, [0]), (20, [1])] none (some 20) true false = [0] := by decide

/-- **C16 in full**: every maintenance call (insert / update / delete of a row's key) keeps the
    in-memory backend and the disk-backed B+ tree related, for every tree and every key —
    through every split, borrow, merge and root collapse of the B+ tree (`C17_delete_specific`) -/
theorem C16_simulation : C16_full := C16_full_of_C17_delete C17_delete_specific

/-! ## whole maintenance histories -/

/-- a maintenance call as the executor issues it: a row index is added under a key only when it
    is not already there (each row has one key per index) -/
def opOK (m : List Entry) : MOp → Prop
  | .ins k r => r ∉ amLookup m k
  | .upd a b r => a = b ∨ r ∉ amLookup (amEraseOne m a r) b
  | .del _ _ => True

def memRun : List Entry → List MOp → List Entry
  | m, [] => m
  | m, op :: ops => memRun (memStep m op) ops

def diskRun (d : Nat) : BTree → List MOp → Except Err BTree
  | t, [] => .ok t
  | t, op :: ops =>
    match diskStep d t op with
    | .error e => .error e
    | .ok t' => diskRun d t' ops

def opsOK : List Entry → List MOp → Prop
  | _, [] => True
  | m, op :: ops => opOK m op ∧ opsOK (memStep m op) ops

theorem rowsDistinct_insert (m : List Entry) (k : Key) (r : RowId) (h : RowsDistinct m)
    (hr : r ∉ amLookup m k) : RowsDistinct (amInsert m k r) := by
  induction m with
  | nil => intro e he; simp [amInsert] at he; subst he; simp
  | cons a m ih =>
    obtain ⟨k', rs⟩ := a
    have ha : rs.Nodup := h (k', rs) (by simp)
    have hm : RowsDistinct m := fun e he => h e (by simp [he])
    simp only [amLookup] at hr
    intro e he
    simp only [amInsert] at he
    split at he
    · rename_i hlt
      have hne : ¬ k' = k := by omega
      simp only [hne, if_false] at hr
      simp only [List.mem_cons] at he
      rcases he with rfl | he
      · exact ha
      · exact ih hm hr e he
    · split at he
      · rename_i heq
        simp only [heq, if_true] at hr
        simp only [List.mem_cons] at he
        rcases he with rfl | he
        · simp only []
          rw [List.nodup_append]
          exact ⟨ha, by simp, by intro a ha' b hb; simp at hb; subst hb; intro hab; subst hab; exact hr ha'⟩
        · exact hm e he
      · simp only [List.mem_cons] at he
        rcases he with rfl | rfl | he
        · simp
        · exact ha
        · exact hm e he

theorem rowsDistinct_eraseOne (m : List Entry) (k : Key) (r : RowId) (h : RowsDistinct m) :
    RowsDistinct (amEraseOne m k r) := by
  intro e he
  simp only [amEraseOne, List.mem_filterMap] at he
  obtain ⟨e', he', hf⟩ := he
  split at hf
  · split at hf
    · simp at hf
    · simp at hf; subst hf; exact (h e' he').erase r
  · simp at hf; subst hf; exact h e' he'

theorem rowsDistinct_step (m : List Entry) (op : MOp) (h : RowsDistinct m) (hop : opOK m op) :
    RowsDistinct (memStep m op) := by
  rw [C16_mem_step m op h]
  cases op with
  | ins k r => exact rowsDistinct_insert m k r h hop
  | del k r => exact rowsDistinct_eraseOne m k r h
  | upd a b r =>
    simp only [IndexBackend.specStep]
    split
    · exact h
    · rename_i hab
      rcases hop with hop | hop
      · exact absurd hop hab
      · exact rowsDistinct_insert _ b r (rowsDistinct_eraseOne m a r h) hop

/-- **every history of index maintenance calls keeps the two backends related** (by induction on
    the history, any length): whatever is then asked of them is answered identically
    (`C16_queries_agree`) -/
theorem C16_history (d : Nat) (hd : 5 ≤ d) : ∀ (ops : List MOp) (m : List Entry) (t : BTree),
    Related d m t → RowsDistinct m → opsOK m ops →
    ∃ t', diskRun d t ops = .ok t' ∧ Related d (memRun m ops) t' ∧ RowsDistinct (memRun m ops) := by
  intro ops
  induction ops with
  | nil => intro m t hr hd' _; exact ⟨t, rfl, hr, hd'⟩
  | cons op ops ih =>
    intro m t hr hdist hok
    obtain ⟨t1, h1, h2⟩ := C16_simulation d hd m t op hr hdist
    obtain ⟨t2, g1, g2, g3⟩ := ih (memStep m op) t1 h2 (rowsDistinct_step m op hdist hok.1) hok.2
    exact ⟨t2, by simp only [diskRun, h1, g1], g2, g3⟩

/-! ## the spill -/

def flatten (m : List Entry) : List (Key × RowId) := m.flatMap (fun e => e.2.map (fun r => (e.1, r)))

theorem group_block (k : Key) : ∀ (rs : List RowId) (L : List (Key × RowId)), rs ≠ [] →
    (∀ e ∈ group L, e.1 ≠ k) → group (rs.map (fun r => (k, r)) ++ L) = (k, rs) :: group L := by
  intro rs
  induction rs with
  | nil => intro L h; exact absurd rfl h
  | cons r rs ih =>
    intro L _ hL
    cases rs with
    | nil =>
      simp only [List.map_cons, List.map_nil, List.cons_append, List.nil_append, group]
      split
      · rename_i k' rs' g hg
        have : ¬ k = k' := fun h => hL (k', rs') (by rw [hg]; simp) h.symm
        simp [this, hg]
      · rename_i hg; simp [hg]
    | cons r2 rs' =>
      have := ih L (by simp) hL
      simp only [List.map_cons, List.cons_append] at this ⊢
      rw [group, this]
      simp

theorem flatten_group (m : List Entry) (hs : m.Pairwise (fun a b => a.1 < b.1)) (hne : ∀ e ∈ m, e.2 ≠ []) :
    group (flatten m) = m ∧ (flatten m).Pairwise (fun a b => a.1 ≤ b.1) ∧
      ∀ p ∈ flatten m, ∃ e ∈ m, e.1 = p.1 := by
  induction m with
  | nil => simp [flatten, group]
  | cons a m ih =>
    obtain ⟨k, rs⟩ := a
    rw [List.pairwise_cons] at hs
    obtain ⟨i1, i2, i3⟩ := ih hs.2 (fun e he => hne e (by simp [he]))
    have hfl : flatten ((k, rs) :: m) = rs.map (fun r => (k, r)) ++ flatten m := by simp [flatten]
    have hgt : ∀ p ∈ flatten m, k < p.1 := by
      intro p hp
      obtain ⟨e, he, hk⟩ := i3 p hp
      have := hs.1 e he
      simp at this; omega
    refine ⟨?_, ?_, ?_⟩
    · rw [hfl, group_block k rs (flatten m) (hne (k, rs) (by simp)) ?_, i1]
      intro e he
      obtain ⟨p, hp, hpk⟩ := VibeProof.BTree.group_keys (flatten m) e he
      have := hgt p hp
      omega
    · rw [hfl, List.pairwise_append]
      refine ⟨?_, i2, ?_⟩
      · rw [List.pairwise_map]
        exact List.pairwise_of_forall (by intro a b; simp)
      · intro a ha b hb
        simp only [List.mem_map] at ha
        obtain ⟨r, _, rfl⟩ := ha
        have := hgt b hb
        simp; omega
    · intro p hp
      rw [hfl, List.mem_append] at hp
      rcases hp with hp | hp
      · simp only [List.mem_map] at hp
        obtain ⟨r, _, rfl⟩ := hp
        exact ⟨(k, rs), by simp, rfl⟩
      · obtain ⟨e, he, hk⟩ := i3 p hp
        exact ⟨e, by simp [he], hk⟩

/-- **spilling an in-memory index to disk yields a related disk-backed index** (the spill is a bulk
    load of the flattened entries): the switch of backend is invisible to every later query -/
theorem C16_spill (d : Nat) (hd : 5 ≤ d) (m : List Entry) (hs : m.Pairwise (fun a b => a.1 < b.1))
    (hne : ∀ e ∈ m, e.2 ≠ []) : ∃ t, spill d m = .ok t ∧ Related d m t := by
  obtain ⟨f1, f2, _⟩ := flatten_group m hs hne
  obtain ⟨t, h1, h2, h3⟩ := C17_bulk_load d hd (flatten m) f2
  exact ⟨t, h1, h2, by rw [h3, f1]⟩

/-! ## strict lower bounds on the disk-backed backend, for any ordered key type -/

section ExclusiveStart
variable {α : Type} [DecidableEq α] (lt : α → α → Prop) [DecidableRel lt]

theorem filter_congr' {β : Type} (p q : β → Bool) (l : List β) (h : ∀ a ∈ l, p a = q a) :
    l.filter p = l.filter q := by
  induction l with
  | nil => rfl
  | cons a l ih =>
    simp only [List.filter_cons, h a (by simp)]
    rw [ih (fun b hb => h b (by simp [hb]))]

/-- **`col > v` on the disk-backed backend returns exactly the rows whose first key column is
    greater than `v`**, for every ordered key type (no successor assumed), provided the "next
    value" `w` the code starts the scan from is *tight*: greater than `v` with no stored first column
    strictly between `v` and `w`.  (`smart_increment_value` = next representable value is tight;
    `v + 1.0` is tight only on integer-valued keys — see the counterexample.) -/
theorem C16_exclusive_start (d : Nat) (m : List Entry) (t : BTree) (hr : Related d m t)
    (first : Int → α) (v w : α) (rw rv : Int)
    (hirr : ∀ a, ¬ lt a a) (htr : ∀ a b c, lt a b → lt b c → lt a c) (hvw : lt v w)
    (hrw : ∀ e ∈ m, rw ≤ e.1 ↔ (lt w (first e.1) ∨ w = first e.1))
    (htight : ∀ e ∈ m, lt v (first e.1) → (lt w (first e.1) ∨ w = first e.1)) :
    diskExclStart t first v (some rw) rv =
      .ok ((m.filter (fun e => decide (lt v (first e.1)))).flatMap (·.2)) := by
  obtain ⟨hw, rfl⟩ := hr
  simp only [diskExclStart, C17_range_scan_entries d t (some rw) none true true hw, Except.map, postStart,
    List.filter_filter]
  congr 2
  apply filter_congr'
  intro e he
  have h1 := hrw e he
  have h2 := htight e he
  by_cases hv : lt v (first e.1)
  · have hne : first e.1 ≠ v := fun h => hirr v (h ▸ hv)
    have : rw ≤ e.1 := h1.mpr (h2 hv)
    simp [inRange, hv, hne, this]
  · have : ¬ (rw ≤ e.1 ∧ first e.1 ≠ v) := by
      rintro ⟨h3, _⟩
      rcases h1.mp h3 with h4 | h4
      · exact hv (htr _ _ _ hvw h4)
      · exact hv (h4 ▸ hvw)
    simp only [inRange, Bool.and_true, hv, decide_false]
    by_cases h3 : rw ≤ e.1
    · have : first e.1 = v := Classical.byContradiction (fun h => this ⟨h3, h⟩)
      simp [h3, this]
    · simp [h3]

/-- the same when the start value has no next value (0.0, strings, …): the scan starts strictly
    above the whole key `[v]`, which on multi-column keys still admits `[v, x]`; the re-check of the
    first column removes those -/
theorem C16_exclusive_start_no_successor (d : Nat) (m : List Entry) (t : BTree) (hr : Related d m t)
    (first : Int → α) (v : α) (rv : Int) (hirr : ∀ a, ¬ lt a a)
    (hrv1 : ∀ e ∈ m, lt v (first e.1) → rv < e.1)
    (hrv2 : ∀ e ∈ m, rv < e.1 → (lt v (first e.1) ∨ v = first e.1)) :
    diskExclStart t first v none rv =
      .ok ((m.filter (fun e => decide (lt v (first e.1)))).flatMap (·.2)) := by
  obtain ⟨hw, rfl⟩ := hr
  simp only [diskExclStart, C17_range_scan_entries d t (some rv) none false true hw, Except.map, postStart,
    List.filter_filter]
  congr 2
  apply filter_congr'
  intro e he
  by_cases hv : lt v (first e.1)
  · have hne : first e.1 ≠ v := fun h => hirr v (h ▸ hv)
    have := hrv1 e he hv
    simp [inRange, hv, hne, this]
  · simp only [inRange, Bool.and_true, hv, decide_false]
    by_cases h3 : rv < e.1
    · rcases hrv2 e he h3 with h4 | h4
      · exact absurd h4 hv
      · simp [h3, ← h4]
    · simp [h3]

end ExclusiveStart

/-- **`v + 1.0` is not a next value on fractional keys**: keys 1.0, 1.25, 1.5, 2.0 (in quarters:
    4, 5, 6, 8), `col > 1.0` scanned from `[2.0]` returns only the row of 2.0, while the rows of 1.25
    and 1.5 satisfy the predicate (this is the seeded change the harness must catch) -/
theorem C16_plus_one_counterexample :
    (diskExclStart (α := Int) ⟨0, .leaf [(4, [0]), (5, [1]), (6, [2]), (8, [3])]⟩ id 4 (some 8) 4).toOption = some [3] ∧
    ([(4, [0]), (5, [1]), (6, [2]), (8, [3])].filter (fun e : Entry => decide (4 < e.1))).flatMap (·.2) = [1, 2, 3] := by
  decide

/-- non-vacuity of `C16_exclusive_start`: the same index with the tight next value 5 (= 1.25) -/
example : (diskExclStart (α := Int) ⟨0, .leaf [(4, [0]), (5, [1]), (6, [2]), (8, [3])]⟩ id 4 (some 5) 4).toOption = some [1, 2, 3] := by
  decide

end VibeProof.C16
