use vharness::*;
fn main() {
    let mut db = Db::new();
    for q in std::env::args().skip(1) {
        let o = db.exec(&q);
        println!("{} => {}", q, o.brief().chars().take(140).collect::<String>());
    }
}
