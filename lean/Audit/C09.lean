import VibeProof.Props.C09
#print axioms VibeProof.C09.C09_delete
#print axioms VibeProof.C09.C09_update
#print axioms VibeProof.C09.C09_update_unselected_unchanged
#print axioms VibeProof.C09.C09_single_assignment
#print axioms VibeProof.C09.C09_set_uses_old_values
#print axioms VibeProof.C09.C09_pk_fastpath
#print axioms VibeProof.C09.C09_insert
#print axioms VibeProof.C09.C09_delete_idempotent
#print axioms VibeProof.C09.C09_delete_sizes
#print axioms VibeProof.C09.C09_assignments_general
#print axioms VibeProof.C09.C09_update_sizes
