#!/bin/bash
# usage: tools/seeded_finish.sh <name e.g. C17-1> <prop> : records the shadow-check outcome in seeded/<name>/meta.json,
# removes the scratch worktree (with its build output) and the shadow copy.
N=$1; P=$2
LOG=/tmp/vv/$N/$P.log
python3 - "$N" "$P" "$LOG" <<'PY'
import json, sys, re, os
n, p, log = sys.argv[1:4]
mp = '/verif/seeded/%s/meta.json' % n
try: m = json.load(open(mp))
except Exception: m = {"property": p}
txt = open(log).read() if os.path.exists(log) else ''
viol = [l for l in txt.splitlines() if l.startswith('VIOLATION')]
summ = [l for l in txt.splitlines() if ' tier=' in l]
m.setdefault('verif_runs', []).append({
  "command": "tools/shadow_check.sh /tmp/mut/%s %s   (copy of /verif pointed at the scratch worktree with the patch applied; quick tier, seed 1)" % (n, p),
  "detected": bool(viol), "violation_lines": [re.sub(r'replay=\S*/replays/', 'replay=replays/', v) for v in viol][:4], "summary": summ[-1] if summ else "",
})
# keep the first replay as evidence of what the check reported
for v in viol[:1]:
    mm = re.search(r'replay=(\S+)', v)
    if mm and os.path.exists(mm.group(1)):
        open('/verif/seeded/%s/detected_replay.txt' % n, 'w').write(open(mm.group(1)).read()[:20000])
json.dump(m, open(mp, 'w'), indent=1)
only_broken = bool(viol) and all('no-failing-input-found' in v for v in viol)
if only_broken:
    # a broken build/proof with no failing input: keep what broke so that a work-in-progress artefact is not mistaken for a detection
    m['verif_runs'][-1]['broken_detail'] = [l for l in txt.splitlines() if 'error' in l.lower()][:8]
    json.dump(m, open(mp, 'w'), indent=1)
print(n, p, ('BROKEN-ONLY (inspect: proof obligation or build artefact?)' if only_broken else 'detected') if viol else 'MISSED')
PY
if [ "$3" != "keep" ]; then
  git -C /repo worktree remove --force /tmp/mut/$N 2>/dev/null
  rm -rf /tmp/mut/$N /tmp/vv/$N
fi
