// probe (temporary)
use vibesql_catalog::{ColumnSchema, TableSchema};
use vibesql_storage::{Database, Row};
use vibesql_types::{DataType, Date, Interval, SqlValue, Time, Timestamp};

fn try_one(name: &str, dt: DataType, v: SqlValue) {
    let dir = "/tmp/agent-c19";
    std::fs::create_dir_all(dir).unwrap();
    let path = format!("{}/probe.sql", dir);
    let mut db = Database::new();
    let schema = TableSchema::new("T".to_string(), vec![ColumnSchema::new("A".to_string(), dt, true)]);
    db.create_table(schema).unwrap();
    db.insert_row("T", Row::new(vec![v.clone()])).unwrap();
    db.save_sql_dump(&path).unwrap();
    let text = std::fs::read_to_string(&path).unwrap();
    let line: Vec<&str> = text.lines().filter(|l| l.starts_with("INSERT") || l.starts_with("CREATE")).collect();
    let r = std::panic::catch_unwind(|| vibesql_executor::load_sql_dump(&path));
    match r {
        Ok(Ok(db2)) => {
            let rows: Vec<Vec<SqlValue>> = db2.get_table("T").map(|t| t.scan().iter().map(|r| r.values.clone()).collect()).unwrap_or_default();
            let cols = db2.get_table("T").map(|t| format!("{:?}", t.schema.columns.iter().map(|c| (c.name.clone(), c.data_type.clone(), c.nullable)).collect::<Vec<_>>()));
            let same = rows.len() == 1 && format!("{:?}", rows[0][0]) == format!("{:?}", v);
            println!("{} {:<14} {:?} -> {:?}  cols={:?} | {:?}", if same { "OK  " } else { "DIFF" }, name, v, rows, cols, line);
        }
        Ok(Err(e)) => println!("ERR  {:<14} {:?} -> {}  | {:?}", name, v, e.to_string().replace('\n', " "), line),
        Err(_) => println!("PANIC {:<14} {:?} | {:?}", name, v, line),
    }
}

fn main() {
    use DataType as D;
    use SqlValue as V;
    try_one("int", D::Integer, V::Integer(5));
    try_one("int-neg", D::Integer, V::Integer(-5));
    try_one("int-min", D::Integer, V::Integer(i64::MIN));
    try_one("int-max", D::Integer, V::Integer(i64::MAX));
    try_one("small", D::Smallint, V::Smallint(-32768));
    try_one("small", D::Smallint, V::Smallint(7));
    try_one("big", D::Bigint, V::Bigint(i64::MIN));
    try_one("big", D::Bigint, V::Bigint(i64::MAX));
    try_one("big", D::Bigint, V::Bigint(-9223372036854775807));
    try_one("uns", D::Unsigned, V::Unsigned(u64::MAX));
    try_one("uns", D::Unsigned, V::Unsigned(u64::MAX - 1));
    try_one("uns", D::Unsigned, V::Unsigned(7));
    try_one("num", D::Numeric { precision: 10, scale: 2 }, V::Numeric(1.5));
    try_one("num", D::Numeric { precision: 10, scale: 2 }, V::Numeric(3.0));
    try_one("num", D::Numeric { precision: 10, scale: 2 }, V::Numeric(-1.5));
    try_one("num-nan", D::Numeric { precision: 10, scale: 2 }, V::Numeric(f64::NAN));
    try_one("num-inf", D::Numeric { precision: 10, scale: 2 }, V::Numeric(f64::INFINITY));
    try_one("dec", D::Decimal { precision: 10, scale: 2 }, V::Numeric(1.25));
    try_one("float", D::Float { precision: 24 }, V::Float(1.5));
    try_one("float", D::Float { precision: 53 }, V::Float(0.1));
    try_one("real", D::Real, V::Real(0.1));
    try_one("real", D::Real, V::Real(3.0));
    try_one("real", D::Real, V::Real(f32::MAX));
    try_one("real", D::Real, V::Real(f32::MIN_POSITIVE));
    try_one("real-nan", D::Real, V::Real(f32::NAN));
    try_one("dbl", D::DoublePrecision, V::Double(0.1));
    try_one("dbl", D::DoublePrecision, V::Double(3.0));
    try_one("dbl", D::DoublePrecision, V::Double(-0.0));
    try_one("dbl", D::DoublePrecision, V::Double(0.0));
    try_one("dbl", D::DoublePrecision, V::Double(1e300));
    try_one("dbl", D::DoublePrecision, V::Double(f64::MAX));
    try_one("dbl", D::DoublePrecision, V::Double(5e-324));
    try_one("dbl", D::DoublePrecision, V::Double(1e-7));
    try_one("dbl", D::DoublePrecision, V::Double(-2.5));
    try_one("dbl", D::DoublePrecision, V::Double(9007199254740993.0));
    try_one("dbl", D::DoublePrecision, V::Double(1e19));
    try_one("dbl-nan", D::DoublePrecision, V::Double(f64::NAN));
    try_one("dbl-inf", D::DoublePrecision, V::Double(f64::INFINITY));
    try_one("dbl-ninf", D::DoublePrecision, V::Double(f64::NEG_INFINITY));
    for s in ["plain", "O'Brien", "a;b", "a\\b", "a\\", "a\\'b", "x\ny", "x\n-- y", "x\r\ny", "", "'", "''", "\"", "a\"b;c", "-- c", "é漢😀", " lead", "trail ", "a\n\nb", "\n", "a\\\\", "\\n"] {
        try_one("varchar", D::Varchar { max_length: Some(50) }, V::Varchar(s.to_string()));
    }
    try_one("varchar-none", D::Varchar { max_length: None }, V::Varchar("abc".to_string()));
    try_one("char", D::Character { length: 5 }, V::Character("ab   ".to_string()));
    try_one("char", D::Character { length: 5 }, V::Character("ab".to_string()));
    try_one("clob", D::CharacterLargeObject, V::Varchar("abc".to_string()));
    try_one("name", D::Name, V::Varchar("abc".to_string()));
    try_one("bool", D::Boolean, V::Boolean(true));
    try_one("bool", D::Boolean, V::Boolean(false));
    try_one("null", D::Integer, V::Null);
    try_one("date", D::Date, V::Date(Date::new(2024, 2, 29).unwrap()));
    try_one("date", D::Date, V::Date(Date::new(1, 1, 1).unwrap()));
    try_one("time", D::Time { with_timezone: false }, V::Time(Time::new(23, 59, 59, 0).unwrap()));
    try_one("time", D::Time { with_timezone: false }, V::Time(Time::new(1, 2, 3, 123456789).unwrap()));
    try_one("time-tz", D::Time { with_timezone: true }, V::Time(Time::new(1, 2, 3, 0).unwrap()));
    try_one("ts", D::Timestamp { with_timezone: false }, V::Timestamp(Timestamp::new(Date::new(2024, 2, 29).unwrap(), Time::new(1, 2, 3, 5000).unwrap())));
    try_one("ts-tz", D::Timestamp { with_timezone: true }, V::Timestamp(Timestamp::new(Date::new(2024, 2, 29).unwrap(), Time::new(1, 2, 3, 0).unwrap())));
    try_one("interval", D::Interval { start_field: vibesql_types::IntervalField::Year, end_field: None }, V::Interval(Interval::new("5".to_string())));
    try_one("interval", D::Interval { start_field: vibesql_types::IntervalField::Day, end_field: Some(vibesql_types::IntervalField::Second) }, V::Interval(Interval::new("1 02:03:04".to_string())));
    try_one("blob", D::BinaryLargeObject, V::Varchar("abc".to_string()));
    try_one("bit", D::Bit { length: Some(4) }, V::Integer(5));
}
