#!/usr/bin/env python3
"""Rebuilds the 'as built' tail of DESIGN.md: everything after the marker line is regenerated from
notes/_asbuilt.md (hand-written overview), the seeded-mutation table (seeded/*/meta.json) and the
per-property notes notes/Cnn.md."""
import json, os, glob, re
V = os.path.dirname(os.path.dirname(os.path.abspath(__file__)))
MARK = "<!-- ===== AS BUILT (generated below this line by tools/build_design.py) ===== -->"
d = open(os.path.join(V, "DESIGN.md")).read()
head = d.split(MARK)[0].rstrip() + "\n\n" + MARK + "\n\n"
out = [head, open(os.path.join(V, "notes", "_asbuilt.md")).read().rstrip() + "\n\n"]
# status table
kf = json.load(open(os.path.join(V, "known_findings.json")))
claims = {}
for f in glob.glob(os.path.join(V, "tools", "claims.d", "C*.json")):
    claims[os.path.basename(f)[:-5]] = json.load(open(f))
cj = json.load(open(os.path.join(V, "tools", "claims.json")))
claims.update(cj.get("claimed", {}))
props = [json.loads(l) for l in open(os.path.join(V, "properties.jsonl")) if l.strip()]
trows = []
for p in props:
    pid = p["id"]
    af = os.path.join(V, "lean", "Audit", pid + ".lean")
    nth = len(re.findall(r"^#print axioms", open(af).read(), flags=re.M)) if os.path.exists(af) else 0
    nf = [f["signature"] for f in kf["findings"] if f["property"] == pid]
    nx = [f["commit"][:8] for f in kf["fixed"] if f["property"] == pid]
    trows.append("| %s | %s | %d | %s | %s | %s |" % (pid, p["title"][:60], nth, "claimed" if pid in claims else "not claimed",
                 ", ".join(nf) or "—", ", ".join(nx) or "—"))
out.append("## 12. Status per property (generated)\n\n| id | title | audited theorems | status | known findings (signatures) | fix commits in /repo |\n|---|---|---|---|---|---|\n" + "\n".join(trows) + "\n\n")
out.append("### Known findings (from known_findings.json)\n\n" + "\n".join("* `%s` — %s" % (f["signature"], f["what"]) for f in kf["findings"]) + "\n\n")
out.append("### Repaired defects (`fix:` commits, from known_findings.json)\n\n" + "\n".join("* %s" % f["what"] for f in kf["fixed"]) + "\n\n")
# seeded mutations
rows = []
for mp in sorted(glob.glob(os.path.join(V, "seeded", "*", "meta.json"))):
    name = os.path.basename(os.path.dirname(mp))
    m = json.load(open(mp))
    runs = m.get("verif_runs", [])
    det = [r for r in runs if r.get("detected")]
    by = ", ".join(sorted({re.search(r"(C\d\d)\s*(\(|$)", r["command"].split("#")[0].strip()).group(1) if re.search(r"(C\d\d)\s*(\(|$)", r["command"]) else "?" for r in det})) if det else "—"
    rows.append("| %s | %s | %s | %s | %s |" % (name, m.get("property", "?"), (m.get("summary", "") or "").replace("|", "/")[:150], (m.get("needs", "") or "").replace("|", "/")[:150], ("detected by " + by) if det else ("MISSED" if runs else "not run")))
out.append("## 13. Seeded changes (independent sub-agents) and which checks catch them\n\n"
           "Each change was written by a fresh sub-agent that saw only the property text and a scratch worktree; I confirmed "
           "(compiles, demo fails with / passes without, existing tests of the touched crates pass) and then ran the quick tier "
           "against the patched worktree through `tools/shadow_check.sh` (a copy of /verif pointed at the worktree; /repo is never patched).\n\n"
           "| seeded | property | change | needs | result |\n|---|---|---|---|---|\n" + "\n".join(rows) + "\n\n")
out.append("## 14. Per-property build notes\n\n")
for f in sorted(glob.glob(os.path.join(V, "notes", "C*.md"))):
    out.append(open(f).read().rstrip() + "\n\n")
open(os.path.join(V, "DESIGN.md"), "w").write("".join(out))
print("DESIGN.md rebuilt:", sum(len(x) for x in out), "bytes")
