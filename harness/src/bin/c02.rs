//! C02 — query results do not depend on which secondary indexes exist.
//!
//! (a) API-level correspondence: `Database::get_index_data(name)` → `range_scan` / `multi_lookup` /
//!     `iter` of the real index against the Lean model (`Model/SecIndex.lean`) on the same rows and
//!     bounds, every operator × inclusive flag × boundary literal; plus a direct check of
//!     `range_scan` against a brute-force evaluation of the range predicate over the rows.
//! (b) Direct oracle: twin databases fed the same DML history, one with generated
//!     CREATE [UNIQUE] INDEX statements; the same queries must return equal multisets, and both
//!     sequences must satisfy the ORDER BY.
use std::collections::BTreeMap;
use vharness::*;
use vibesql_types::SqlValue;

fn bag(rows: &[Vec<SqlValue>]) -> BTreeMap<String, i64> {
    let mut m = BTreeMap::new();
    for r in rows {
        *m.entry(canon::row(r)).or_insert(0) += 1;
    }
    m
}

// ------------------------------------------------------------------------------------------------
// (a) API level
// ------------------------------------------------------------------------------------------------

const P53: i64 = 1 << 53;

fn int_pool(big: bool) -> Vec<i64> {
    let mut v = vec![-3, -1, 0, 1, 2, 3, 5, 7];
    if big {
        v.extend([P53 - 1, P53, P53 + 1, P53 + 2, -P53, -P53 - 1, i64::MAX, i64::MAX - 1, i64::MIN + 1]);
    }
    v
}

const STRS: &[&str] = &["", "a", "ab", "abc", "b", "B", "ba"];

fn venc(v: &SqlValue) -> String {
    match v {
        SqlValue::Double(f) | SqlValue::Numeric(f) => format!("I{}", *f as i128),
        other => canon::val(other),
    }
}

fn parse_pos(reply: &str) -> Option<Vec<usize>> {
    let sx = Sx::parse(reply)?;
    let l = sx.as_list()?;
    if l.first()?.as_atom()? != "pos" {
        return None;
    }
    l[1..].iter().map(|a| a.as_atom().and_then(|s| s.parse().ok())).collect()
}

fn opt_enc(v: &Option<SqlValue>) -> String {
    v.as_ref().map(|x| venc(x)).unwrap_or("-".into())
}

/// SQL truth of the range predicate on a key (independent of index code)
fn in_range(x: &SqlValue, lo: &Option<SqlValue>, hi: &Option<SqlValue>, il: bool, ih: bool) -> bool {
    fn cmp(a: &SqlValue, b: &SqlValue) -> Option<std::cmp::Ordering> {
        let num = |v: &SqlValue| -> Option<f64> {
            match v {
                SqlValue::Integer(i) | SqlValue::Bigint(i) => Some(*i as f64),
                SqlValue::Double(f) | SqlValue::Numeric(f) => Some(*f),
                _ => None,
            }
        };
        match (a, b) {
            (SqlValue::Varchar(x), SqlValue::Varchar(y)) => Some(x.as_bytes().cmp(y.as_bytes())),
            _ => num(a)?.partial_cmp(&num(b)?),
        }
    }
    if matches!(x, SqlValue::Null) {
        return false;
    }
    if let Some(l) = lo {
        match cmp(x, l) {
            Some(std::cmp::Ordering::Greater) => {}
            Some(std::cmp::Ordering::Equal) if il => {}
            _ => return false,
        }
    }
    if let Some(h) = hi {
        match cmp(x, h) {
            Some(std::cmp::Ordering::Less) => {}
            Some(std::cmp::Ordering::Equal) if ih => {}
            _ => return false,
        }
    }
    true
}

fn api_case(model: &mut model::Model, rep: &mut Report, rng: &mut Rng, big: bool, n: usize, quota: usize) {
    let mut db = Db::new();
    db.must("CREATE TABLE t (a BIGINT, b INTEGER, s VARCHAR(10))");
    let pool = int_pool(big);
    let mut rows: Vec<(Option<i64>, Option<i64>, Option<String>)> = vec![];
    for _ in 0..n {
        let a = if rng.chance(1, 6) { None } else { Some(*rng.pick(&pool)) };
        let b = if rng.chance(1, 6) { None } else { Some(rng.range(0, 3)) };
        let s = if rng.chance(1, 6) { None } else { Some((*rng.pick(STRS)).to_string()) };
        rows.push((a, b, s));
    }
    for (a, b, s) in &rows {
        db.must(&format!(
            "INSERT INTO t VALUES ({}, {}, {})",
            a.map(|x| x.to_string()).unwrap_or("NULL".into()),
            b.map(|x| x.to_string()).unwrap_or("NULL".into()),
            s.as_ref().map(|x| format!("'{}'", x)).unwrap_or("NULL".into())
        ));
    }
    // half of the rows are inserted after the index exists (add_to_indexes_for_insert), half before (create_index)
    let split = n / 2;
    let mut db2 = Db::new();
    db2.must("CREATE TABLE t (a BIGINT, b INTEGER, s VARCHAR(10))");
    let ins = |db: &mut Db, r: &(Option<i64>, Option<i64>, Option<String>)| {
        db.must(&format!(
            "INSERT INTO t VALUES ({}, {}, {})",
            r.0.map(|x| x.to_string()).unwrap_or("NULL".into()),
            r.1.map(|x| x.to_string()).unwrap_or("NULL".into()),
            r.2.as_ref().map(|x| format!("'{}'", x)).unwrap_or("NULL".into())
        ));
    };
    for r in &rows[..split] {
        ins(&mut db2, r);
    }
    for ddl in ["CREATE INDEX ia ON t (a)", "CREATE INDEX isx ON t (s)", "CREATE INDEX iab ON t (a, b)", "CREATE INDEX isb ON t (s, b)"] {
        db2.must(ddl);
    }
    for r in &rows[split..] {
        ins(&mut db2, r);
    }
    let script: String = db2.log.iter().map(|l| format!("{};\n", l)).collect();
    let aval = |r: &(Option<i64>, Option<i64>, Option<String>)| r.0.map(SqlValue::Bigint).unwrap_or(SqlValue::Null);
    let bval = |r: &(Option<i64>, Option<i64>, Option<String>)| r.1.map(SqlValue::Integer).unwrap_or(SqlValue::Null);
    let sval = |r: &(Option<i64>, Option<i64>, Option<String>)| r.2.clone().map(SqlValue::Varchar).unwrap_or(SqlValue::Null);
    let specs: [(&str, bool, bool); 4] = [("ia", false, false), ("isx", true, false), ("iab", false, true), ("isb", true, true)];
    for (name, is_str, multi) in specs {
        let keys: Vec<Vec<SqlValue>> = rows
            .iter()
            .map(|r| {
                let first = if is_str { sval(r) } else { aval(r) };
                if multi {
                    vec![first, bval(r)]
                } else {
                    vec![first]
                }
            })
            .collect();
        let keys_sx = format!("(keys ({}))", keys.iter().map(|k| format!("({})", k.iter().map(|v| canon::val(v)).collect::<Vec<_>>().join(" "))).collect::<Vec<_>>().join(" "));
        let data = match db2.db.get_index_data(name) {
            Some(d) => d.clone(),
            None => {
                rep.fail(FailKind::Oracle, None, "index data missing after CREATE INDEX", &script);
                continue;
            }
        };
        // dump
        {
            let mut eng: Vec<String> = vec![];
            for (k, ps) in data.iter() {
                eng.push(format!("(({}) ({}))", k.iter().map(|v| venc(v)).collect::<Vec<_>>().join(" "), ps.iter().map(|p| p.to_string()).collect::<Vec<_>>().join(" ")));
            }
            let reply = model.ask(&format!("dump {}", keys_sx));
            let want = format!("(idx {})", eng.join(" "));
            let want = if eng.is_empty() { "(idx)".to_string() } else { want };
            rep.traces_validated += 1;
            rep.count("api_dump");
            if reply != want {
                rep.fail(FailKind::ModelDiff, None, &format!("index contents differ from the model's build ({})", name), &format!("{}-- index {}\nmodel:  {}\nengine: {}", script, name, reply, want));
            }
        }
        // bounds: literals of the column type, incl. values between / outside the keys
        let lits: Vec<SqlValue> = if is_str {
            ["", "a", "aa", "ab", "abc", "b", "c", "B"].iter().map(|s| SqlValue::Varchar(s.to_string())).collect()
        } else {
            let mut v: Vec<SqlValue> = vec![];
            for i in [-4i64, -3, -1, 0, 1, 2, 4, 7, 8] {
                v.push(if rng.chance(1, 3) { SqlValue::Double(i as f64) } else if rng.chance(1, 2) { SqlValue::Bigint(i) } else { SqlValue::Integer(i) });
            }
            if big {
                for i in [P53 - 1, P53, P53 + 1, P53 + 2, -P53, -P53 - 1, i64::MAX] {
                    v.push(SqlValue::Bigint(i));
                }
            }
            v
        };
        let mut combos: Vec<(Option<SqlValue>, Option<SqlValue>, bool, bool)> = vec![];
        let mut opts: Vec<Option<SqlValue>> = vec![None];
        opts.extend(lits.iter().cloned().map(Some));
        for lo in &opts {
            for hi in &opts {
                if lo.is_none() && hi.is_none() {
                    continue;
                }
                for (il, ih) in [(true, true), (true, false), (false, true), (false, false)] {
                    combos.push((lo.clone(), hi.clone(), il, ih));
                }
            }
        }
        rng.shuffle(&mut combos);
        // always keep the equal-bound and open-bound shapes
        combos.sort_by_key(|c| match (&c.0, &c.1) {
            (Some(a), Some(b)) if a == b => 0,
            (None, _) | (_, None) => 1,
            _ => 2,
        });
        let keep = quota.min(combos.len());
        let head = keep / 2;
        let mut chosen: Vec<_> = combos[..head].to_vec();
        let mut tail = combos[head..].to_vec();
        rng.shuffle(&mut tail);
        chosen.extend(tail.into_iter().take(keep - head));
        for (lo, hi, il, ih) in chosen {
            let got = std::panic::catch_unwind(std::panic::AssertUnwindSafe(|| data.range_scan(lo.as_ref(), hi.as_ref(), il, ih)));
            let case_id = format!("scan {} {} {} {} {} {}", keys_sx, name, opt_enc(&lo), opt_enc(&hi), il, ih);
            let got = match got {
                Ok(g) => g,
                Err(p) => {
                    rep.case(&case_id, true);
                    rep.fail(FailKind::Oracle, None, "range_scan panicked", &format!("{}-- index {} range_scan({:?}, {:?}, {}, {}) panicked: {}", script, name, lo, hi, il, ih, engine::panic_text(p)));
                    continue;
                }
            };
            rep.count(&format!("api_scan_{}{}", if is_str { "str" } else { "int" }, if multi { "_multi" } else { "" }));
            // direct oracle: brute force over the rows (within the f64-exact region only)
            let exact = keys.iter().all(|k| match &k[0] { SqlValue::Bigint(i) => i.abs() < P53, _ => true })
                && [&lo, &hi].iter().all(|b| match b { Some(SqlValue::Bigint(i)) => i.abs() < P53, _ => true });
            let mut want: Vec<usize> = (0..keys.len()).filter(|i| in_range(&keys[*i][0], &lo, &hi, il, ih)).collect();
            let mut gs = got.clone();
            gs.sort();
            want.sort();
            rep.case(&case_id, !want.is_empty() && want.len() < keys.len());
            if exact && gs != want {
                rep.fail(
                    FailKind::Oracle,
                    None,
                    &format!("range_scan returns other positions than the rows whose key satisfies the range ({})", if multi { "multi-column" } else { "single-column" }),
                    &format!("{}-- index {} range_scan({:?}, {:?}, incl_start={}, incl_end={})\nreturned: {:?}\nrows satisfying the predicate: {:?}", script, name, lo, hi, il, ih, got, want),
                );
            }
            let req = format!("scan {} {} {} {} {}", keys_sx, opt_enc(&lo), opt_enc(&hi), il as u8, ih as u8);
            let reply = model.ask(&req);
            rep.traces_validated += 1;
            if parse_pos(&reply) != Some(got.clone()) {
                rep.fail(FailKind::ModelDiff, None, &format!("range_scan: model and engine return different position sequences ({})", name), &format!("{}-- model request: {}\nmodel:  {}\nengine: {:?}", script, req, reply, got));
            }
        }
        // multi_lookup on single-column indexes
        if !multi {
            for round in 0..8 {
                // value lists in arbitrary (often descending) order, with duplicates and absent values
                let k = rng.range(1, 6) as usize;
                let mut vals: Vec<SqlValue> = (0..k).map(|_| rng.pick(&lits).clone()).collect();
                if round % 2 == 0 {
                    vals.sort_by(|a, b| venc(b).cmp(&venc(a)));
                    let d = vals[0].clone();
                    vals.push(d);
                }
                let got = data.multi_lookup(&vals);
                let req = format!("lookup {} (vals {})", keys_sx, vals.iter().map(|v| venc(v)).collect::<Vec<_>>().join(" "));
                let reply = model.ask(&req);
                rep.traces_validated += 1;
                rep.count("api_multi_lookup");
                // exact sequences: the row ids come back in index-key order (the executor relies
                // on it when the same index serves ORDER BY), whatever the order of the IN list
                let a = parse_pos(&reply).unwrap_or_default();
                let b = got.clone();
                // direct oracle: keys of the returned positions are non-decreasing in key order, no repeats
                let ks: Vec<String> = b.iter().map(|p| venc(&keys[*p][0])).collect();
                let mut uniq = b.clone();
                uniq.sort();
                uniq.dedup();
                let key_of = |p: &usize| data.iter().position(|(_, ps)| ps.contains(p));
                let in_key_order = b.windows(2).all(|w| key_of(&w[0]) <= key_of(&w[1]));
                if uniq.len() != b.len() || !in_key_order {
                    rep.fail(FailKind::Oracle, None, "multi_lookup: positions repeated or not in index-key order", &format!("{}-- index {} multi_lookup({:?})\nreturned: {:?} (keys {:?})", script, name, vals, got, ks));
                }
                if a != b {
                    rep.fail(FailKind::ModelDiff, None, "multi_lookup: model and engine return different position sequences", &format!("{}-- model request: {}\nmodel:  {}\nengine: {:?}", script, req, reply, got));
                }
            }
        }
    }
    // numeric normalisation at the boundary
    for i in [0i64, 1, -1, P53 - 1, P53, P53 + 1, P53 + 2, P53 + 3, -P53 - 1, -P53 - 3, i64::MAX, i64::MIN + 1, (1 << 60) + 129, (1 << 62) + 511] {
        let f = i as f64;
        let reply = model.ask(&format!("norm I{}", i));
        rep.count("api_norm");
        if reply != format!("I{}", f as i128) {
            rep.fail(FailKind::ModelDiff, None, "i64 → f64 normalisation differs from the model's roundF64", &format!("value {}\nmodel: {}\nengine: I{}", i, reply, f as i128));
        }
    }
}

// ------------------------------------------------------------------------------------------------
// (b) twin databases
// ------------------------------------------------------------------------------------------------

struct Twin {
    plain: Db,
    indexed: Db,
}

impl Twin {
    fn both(&mut self, sql: &str) -> (Out, Out) {
        (self.plain.exec(sql), self.indexed.exec(sql))
    }
}

fn lit_for(rng: &mut Rng, col: &str) -> String {
    match col {
        "s" => format!("'{}'", rng.pick(&["", "a", "aa", "ab", "abc", "b", "c"])),
        _ => match rng.below(12) {
            0 => "NULL".into(),
            1 => "1.5".into(),
            2 => "2.0".into(),
            3 => "0".into(),
            4 => format!("{}", P53 + 1),
            5 => "0.0".into(),
            _ => rng.range(-2, 6).to_string(),
        },
    }
}

/// one bound on `col`, lower or upper, strict or inclusive, in either operand orientation
fn bound_sql(col: &str, lower: bool, inclusive: bool, flipped: bool, lit: &str) -> String {
    // col >(=) lit  /  lit <(=) col   for a lower bound;  col <(=) lit  /  lit >(=) col  for an upper bound
    let op = match (lower != flipped, inclusive) {
        (true, true) => ">=",
        (true, false) => ">",
        (false, true) => "<=",
        (false, false) => "<",
    };
    if flipped {
        format!("{} {} {}", lit, op, col)
    } else {
        format!("{} {} {}", col, op, lit)
    }
}

/// conjunctions of lower and upper bounds on one column: both conjunct orders, both orientations,
/// strict / inclusive on each side, two or three bounds, duplicated / contradictory / equal bounds
fn gen_bounds(rng: &mut Rng, col: &str) -> String {
    let lo = lit_for(rng, col);
    let hi = if rng.chance(1, 4) { lo.clone() } else { lit_for(rng, col) };
    let mut parts = vec![
        bound_sql(col, true, rng.chance(1, 2), rng.chance(1, 3), &lo),
        bound_sql(col, false, rng.chance(1, 2), rng.chance(1, 3), &hi),
    ];
    match rng.below(4) {
        0 => parts.push(bound_sql(col, rng.chance(1, 2), rng.chance(1, 2), rng.chance(1, 3), &lit_for(rng, col))),
        1 => {
            let d = parts[rng.below(2) as usize].clone();
            parts.push(d);
        }
        _ => {}
    }
    rng.shuffle(&mut parts);
    parts.join(" AND ")
}

fn gen_pred(rng: &mut Rng, col: &str) -> String {
    let ops = ["=", "<", "<=", ">", ">="];
    match rng.below(10) {
        0 | 1 | 2 => format!("{} {} {}", col, rng.pick(&ops), lit_for(rng, col)),
        3 => format!("{} {} {}", lit_for(rng, col), rng.pick(&ops), col),
        4 => format!("{} BETWEEN {} AND {}", col, lit_for(rng, col), lit_for(rng, col)),
        5 => {
            let k = rng.range(1, 4);
            let vs: Vec<String> = (0..k).map(|_| lit_for(rng, col)).collect();
            format!("{} IN ({})", col, vs.join(", "))
        }
        6 | 7 => gen_bounds(rng, col),
        8 => format!("{} {} {} AND b {} {}", col, rng.pick(&ops), lit_for(rng, col), rng.pick(&ops), rng.range(0, 3)),
        _ => format!("{} {} {} OR b = {}", col, rng.pick(&ops), lit_for(rng, col), rng.range(0, 3)),
    }
}

fn sorted_by(rows: &[Vec<SqlValue>], idx: usize, desc: bool) -> bool {
    // integers: by f64 first (comparable with floats), then exactly
    let key = |v: &SqlValue| -> (u8, f64, Vec<u8>) {
        match v {
            SqlValue::Null => (1, 0.0, vec![]),
            SqlValue::Varchar(s) | SqlValue::Character(s) => (0, 0.0, s.as_bytes().to_vec()),
            SqlValue::Integer(i) | SqlValue::Bigint(i) => (0, *i as f64, ((*i as i128) + (1i128 << 64)).to_be_bytes().to_vec()),
            SqlValue::Double(f) | SqlValue::Numeric(f) => (0, *f, vec![]),
            _ => (0, 0.0, vec![]),
        }
    };
    rows.windows(2).all(|w| {
        let (a, b) = (key(&w[0][idx]), key(&w[1][idx]));
        if a.0 != b.0 {
            return a.0 < b.0; // NULLs last in both directions
        }
        if a.0 == 1 {
            return true;
        }
        let o = a.1.partial_cmp(&b.1).unwrap_or(std::cmp::Ordering::Equal).then(a.2.cmp(&b.2));
        if desc {
            o != std::cmp::Ordering::Less
        } else {
            o != std::cmp::Ordering::Greater
        }
    })
}

/// regression probe for d4974317 (keys and bounds at 2^53 and beyond)
fn probe_f64_collapse(rep: &mut Report) {
    let mut tw = Twin { plain: Db::new(), indexed: Db::new() };
    for sql in [
        "CREATE TABLE t (id INTEGER PRIMARY KEY, a BIGINT NOT NULL, b INTEGER, s VARCHAR(10))",
        "INSERT INTO t VALUES (1, 9007199254740993, 1, 'x')",
        "INSERT INTO t VALUES (2, 9007199254740992, 2, 'y')",
        "INSERT INTO t VALUES (4, 9007199254740994, 4, 'w')",
        "INSERT INTO t VALUES (3, 5, 3, 'z')",
    ] {
        tw.both(sql);
    }
    tw.indexed.exec("CREATE INDEX ia ON t (a)");
    for q in [
        "SELECT id, a, b, s FROM t WHERE a = 9007199254740993 ORDER BY b",
        "SELECT id, a, b, s FROM t WHERE a > 9007199254740992 ORDER BY b",
        "SELECT id, a, b, s FROM t WHERE a < 9007199254740993 ORDER BY b",
        "SELECT DISTINCT a FROM t WHERE a IN (5, 9007199254740993)",
        "SELECT id, a, b, s FROM t WHERE a BETWEEN 9007199254740992 AND 9007199254740993 ORDER BY b",
    ] {
    let (p, i) = (tw.plain.query(q), tw.indexed.query(q));
    rep.case(&format!("probe f64 collapse {}", q), true);
    rep.count("deterministic_probes");
    if let (Some(pr), Some(ir)) = (p.rows(), i.rows()) {
        if bag(pr) != bag(ir) {
            rep.fail(FailKind::Oracle, None, "result multiset depends on the existence of an index [CREATE INDEX ia ON t (a)] (probe)", &format!("{}
-- query: {}
without: {}
with:    {}", tw.indexed.log.join(";\n"), q, p.brief(), i.brief()));
        }
    }
    }
    // index-served ORDER BY over collapsed keys
    for q in ["SELECT id, a FROM t ORDER BY a", "SELECT id, a FROM t ORDER BY a DESC"] {
        let (p, i) = (tw.plain.query(q), tw.indexed.query(q));
        rep.count("deterministic_probes");
        if let (Some(pr), Some(ir)) = (p.rows(), i.rows()) {
            let seq = |r: &Vec<Vec<SqlValue>>| r.iter().map(|x| canon::val(&x[1])).collect::<Vec<_>>();
            if seq(pr) != seq(ir) {
                rep.fail(FailKind::Oracle, None, "ORDER BY key sequence depends on the index (keys >= 2^53)", &format!("{}; -- query: {} without: {} with: {}", tw.indexed.log.join("; "), q, p.brief(), i.brief()));
            }
        }
    }
}

/// one bound as SQL text and as model expression (column 0 of the key)
fn bound_both(col: &str, lower: bool, inclusive: bool, flipped: bool, lit: &vharness::qast::Lit) -> (String, vharness::qast::E) {
    use vharness::qast::{Op, E};
    let sql = bound_sql(col, lower, inclusive, flipped, &lit.sql());
    let op = match (lower != flipped, inclusive) {
        (true, true) => Op::Ge,
        (true, false) => Op::Gt,
        (false, true) => Op::Le,
        (false, false) => Op::Lt,
    };
    let (c, l) = (Box::new(E::Col(0)), Box::new(E::Lit(lit.clone())));
    (sql, if flipped { E::Bin(op, l, c) } else { E::Bin(op, c, l) })
}

/// deterministic: every conjunction shape of a lower and an upper bound (both conjunct orders × both
/// operand orientations × strict/inclusive on each side), three-bound and duplicated-bound
/// conjunctions, contradictory and point ranges, literals taken from the data, on single- and
/// two-column indexes, ASC and DESC; against the index-free twin (oracle) and the model's
/// extractRange → rangeScan → (re-check unless fullySatisfied) (correspondence)
fn probe_bound_shapes(model: &mut model::Model, rep: &mut Report) {
    use vharness::qast::{Lit, Op, E};
    let ints: [Option<i64>; 12] = [Some(1), Some(3), Some(2), None, Some(0), Some(5), Some(2), Some(3), Some(1), Some(-1), Some(5), Some(0)];
    let strs: [Option<&str>; 12] = [Some("a"), Some("c"), Some("b"), None, Some(""), Some("ab"), Some("b"), Some("c"), Some("a"), Some("B"), Some("bb"), Some("")];
    let specs: [(&str, &str, bool); 6] = [
        ("CREATE INDEX ia ON t (a)", "a", false),
        ("CREATE INDEX ia ON t (a DESC)", "a", false),
        ("CREATE INDEX iab ON t (a, b)", "a", true),
        ("CREATE INDEX isx ON t (s)", "s", false),
        ("CREATE INDEX isb ON t (s DESC, b)", "s", true),
        ("CREATE UNIQUE INDEX iu ON t (a, id)", "a", true),
    ];
    for (ddl, col, multi) in specs {
        let mut tw = Twin { plain: Db::new(), indexed: Db::new() };
        tw.both("CREATE TABLE t (id INTEGER PRIMARY KEY, a INTEGER, b INTEGER, s VARCHAR(10))");
        for i in 0..12 {
            tw.both(&format!(
                "INSERT INTO t VALUES ({}, {}, {}, {})",
                i,
                ints[i].map(|v| v.to_string()).unwrap_or("NULL".into()),
                i % 3,
                strs[i].map(|v| format!("'{}'", v)).unwrap_or("NULL".into())
            ));
        }
        tw.indexed.exec(ddl);
        let key_of = |i: usize| -> String {
            let first = if col == "a" { ints[i].map(|v| format!("I{}", v)).unwrap_or("N".into()) } else { strs[i].map(|v| format!("S{}", sx::hex_str(v))).unwrap_or("N".into()) };
            if multi {
                if ddl.contains("(a, id)") { format!("({} I{})", first, i) } else { format!("({} I{})", first, i % 3) }
            } else {
                format!("({})", first)
            }
        };
        let keys_sx = format!("(keys ({}))", (0..12).map(key_of).collect::<Vec<_>>().join(" "));
        let pairs: Vec<(Lit, Lit)> = if col == "a" {
            [(1, 3), (2, 2), (3, 1), (0, 5), (1, 4), (-1, 0)].iter().map(|(l, h)| (Lit::I(*l), Lit::I(*h))).collect()
        } else {
            [("a", "c"), ("b", "b"), ("c", "a"), ("", "bb"), ("ab", "bz")].iter().map(|(l, h)| (Lit::S(l.to_string()), Lit::S(h.to_string()))).collect()
        };
        let mut preds: Vec<(String, E)> = vec![];
        let and = |x: &(String, E), y: &(String, E)| (format!("{} AND {}", x.0, y.0), E::Bin(Op::And, Box::new(x.1.clone()), Box::new(y.1.clone())));
        for (lo, hi) in &pairs {
            for il in [true, false] {
                for ih in [true, false] {
                    for fl in [false, true] {
                        for fh in [false, true] {
                            let l = bound_both(col, true, il, fl, lo);
                            let h = bound_both(col, false, ih, fh, hi);
                            preds.push(and(&l, &h));
                            preds.push(and(&h, &l));
                        }
                    }
                }
            }
        }
        // three bounds: two on one side (the tighter must win wherever it stands), duplicates
        let (l0, h0) = pairs[3].clone();
        let (l1, h1) = pairs[0].clone();
        for inc in [true, false] {
            let trip_lower = [bound_both(col, true, inc, false, &l0), bound_both(col, true, !inc, false, &l1), bound_both(col, false, inc, false, &h1)];
            let trip_upper = [bound_both(col, true, inc, false, &l1), bound_both(col, false, !inc, true, &h0), bound_both(col, false, inc, false, &h1)];
            let dup = [bound_both(col, true, inc, false, &l1), bound_both(col, true, inc, false, &l1), bound_both(col, false, inc, false, &h1)];
            for t in [trip_lower, trip_upper, dup] {
                for perm in [[0, 1, 2], [0, 2, 1], [1, 0, 2], [1, 2, 0], [2, 0, 1], [2, 1, 0]] {
                    let xy = and(&t[perm[0]], &t[perm[1]]);
                    preds.push(and(&xy, &t[perm[2]]));
                }
            }
        }
        for (sql, e) in preds {
            let q = format!("SELECT id FROM t WHERE {} ORDER BY id", sql);
            let (p, i) = (tw.plain.query(&q), tw.indexed.query(&q));
            rep.count("bound_shape_probes");
            let ids = |o: &Out| o.rows().map(|r| r.iter().map(|x| canon::val(&x[0])).collect::<Vec<_>>());
            let (pi, ii) = (ids(&p), ids(&i));
            rep.case(&format!("bounds {} {}", ddl, sql), pi.as_ref().map(|v| !v.is_empty() && v.len() < 12).unwrap_or(false));
            if pi != ii {
                rep.fail(
                    FailKind::Oracle,
                    None,
                    &format!("conjunction of bounds: result depends on the index [{}]", ddl),
                    &format!("{};\n{};\n-- query: {}\nwithout: {}\nwith:    {}", tw.plain.log.join(";\n"), ddl, q, p.brief(), i.brief()),
                );
            }
            let req = format!("wherescan {} {}", keys_sx, e.sx());
            let reply = model.ask(&req);
            rep.traces_validated += 1;
            let want = ii.map(|v| format!("(pos{}{})", if v.is_empty() { "" } else { " " }, v.iter().map(|x| x.trim_start_matches('I').to_string()).collect::<Vec<_>>().join(" ")));
            if Some(reply.clone()) != want {
                rep.fail(
                    FailKind::ModelDiff,
                    None,
                    &format!("conjunction of bounds: model (extractRange → rangeScan → re-check) and engine select different rows [{}]", ddl),
                    &format!("{};\n{};\n-- query: {}\n-- model request: {}\nmodel:  {}\nengine: {}", tw.plain.log.join(";\n"), ddl, q, req, reply, i.brief()),
                );
            }
        }
    }
}

/// deterministic: ROLLBACK TO SAVEPOINT over an UPDATE-only span (and a mixed one) must leave the
/// user-defined index in step with the table
fn probe_savepoint(rep: &mut Report) {
    for span in [vec!["UPDATE t SET b = 9 WHERE id = 1"], vec!["UPDATE t SET a = 7 WHERE id = 0", "UPDATE t SET s = 'zz' WHERE a = 2"], vec!["UPDATE t SET a = 7 WHERE id = 0", "DELETE FROM t WHERE id = 2", "INSERT INTO t VALUES (9, 2, 2, 'n')"]] {
        let mut tw = Twin { plain: Db::new(), indexed: Db::new() };
        tw.both("CREATE TABLE t (id INTEGER PRIMARY KEY, a INTEGER, b INTEGER, s VARCHAR(10))");
        tw.both("INSERT INTO t VALUES (0, 1, 0, 'a'), (1, 2, 1, 'b'), (2, 3, 2, 'c'), (3, 2, 0, 'b'), (4, 5, 1, 'e')");
        tw.indexed.exec("CREATE INDEX ia ON t (a)");
        tw.indexed.exec("CREATE INDEX isx ON t (s)");
        tw.both("BEGIN TRANSACTION");
        tw.both("UPDATE t SET b = 5 WHERE id = 4");
        tw.both("SAVEPOINT s1");
        for st in &span {
            tw.both(st);
        }
        tw.both("ROLLBACK TO SAVEPOINT s1");
        tw.both("COMMIT");
        for q in ["SELECT id, a, b, s FROM t WHERE a = 2 ORDER BY id", "SELECT id, a, b, s FROM t WHERE a >= 2 AND a <= 3 ORDER BY id", "SELECT DISTINCT a FROM t WHERE a IN (1, 2, 7)", "SELECT id, a, b, s FROM t WHERE s = 'b' ORDER BY id", "SELECT id, a, b, s FROM t WHERE a > 0 ORDER BY b"] {
            let (p, i) = (tw.plain.query(q), tw.indexed.query(q));
            rep.count("deterministic_probes");
            rep.case(&format!("probe savepoint {:?} {}", span, q), true);
            if p.rows().map(|r| bag(r)) != i.rows().map(|r| bag(r)) {
                rep.fail(FailKind::Oracle, None, "after ROLLBACK TO SAVEPOINT the index-driven result differs from the index-free twin", &format!("{}\n-- query: {}\nwithout: {}\nwith:    {}", tw.indexed.log.join(";\n"), q, p.brief(), i.brief()));
            }
        }
    }
}

/// lexicographic sortedness over several key columns (NULLs last in both directions)
fn sorted_by_keys(rows: &[Vec<SqlValue>], keys: &[(usize, bool)]) -> bool {
    let cmp1 = |a: &SqlValue, b: &SqlValue, desc: bool| -> std::cmp::Ordering {
        use std::cmp::Ordering::*;
        match (a, b) {
            (SqlValue::Null, SqlValue::Null) => Equal,
            (SqlValue::Null, _) => Greater,
            (_, SqlValue::Null) => Less,
            (SqlValue::Varchar(x), SqlValue::Varchar(y)) => if desc { y.as_bytes().cmp(x.as_bytes()) } else { x.as_bytes().cmp(y.as_bytes()) },
            (SqlValue::Integer(x), SqlValue::Integer(y)) | (SqlValue::Bigint(x), SqlValue::Bigint(y)) => if desc { y.cmp(x) } else { x.cmp(y) },
            _ => Equal,
        }
    };
    rows.windows(2).all(|w| {
        for (i, d) in keys {
            let o = cmp1(&w[0][*i], &w[1][*i], *d);
            if o != std::cmp::Ordering::Equal {
                return o == std::cmp::Ordering::Less;
            }
        }
        true
    })
}

const S_POOL: &[&str] = &["abz", "abc", "aba", "ab", "abd", "b", "ba", "a", "abcz", "abca"];

/// composite index (2–3 columns, NOT NULL / nullable mix with NULLs inside leading-key groups,
/// prefix length on the string column, ASC/DESC per column) and ORDER BY on its leading columns:
/// the index-driven sequence must be the sequence of the index-free twin (rows when the keys are
/// unique, keys otherwise), sorted, and LIMIT/OFFSET must cut the same slice
#[allow(clippy::too_many_arguments)]
fn composite_order_case(rep: &mut Report, not_null: [bool; 3], rows: &[(Option<i64>, Option<String>, Option<i64>)], index_cols: &[(usize, bool, Option<u32>)], order: &[(usize, bool)], qualified: bool, where_sql: &str, los: &[(Option<usize>, Option<usize>)]) {
    let names = ["a", "s", "c"];
    let mut tw = Twin { plain: Db::new(), indexed: Db::new() };
    tw.both(&format!(
        "CREATE TABLE t (a INTEGER{}, s VARCHAR(10){}, c INTEGER{}, id INTEGER NOT NULL)",
        if not_null[0] { " NOT NULL" } else { "" },
        if not_null[1] { " NOT NULL" } else { "" },
        if not_null[2] { " NOT NULL" } else { "" }
    ));
    // half of the rows before CREATE INDEX, half after (create_index vs add_to_indexes_for_insert)
    let ins = |tw: &mut Twin, i: usize, r: &(Option<i64>, Option<String>, Option<i64>)| {
        tw.both(&format!(
            "INSERT INTO t VALUES ({}, {}, {}, {})",
            r.0.map(|x| x.to_string()).unwrap_or("NULL".into()),
            r.1.as_ref().map(|x| format!("'{}'", x)).unwrap_or("NULL".into()),
            r.2.map(|x| x.to_string()).unwrap_or("NULL".into()),
            i
        ));
    };
    let half = rows.len() / 2;
    for (i, r) in rows.iter().enumerate().take(half) {
        ins(&mut tw, i, r);
    }
    let ddl = format!(
        "CREATE INDEX ix ON t ({})",
        index_cols.iter().map(|(c, d, pl)| format!("{}{}{}", names[*c], pl.map(|n| format!("({})", n)).unwrap_or_default(), if *d { " DESC" } else { " ASC" })).collect::<Vec<_>>().join(", ")
    );
    if !tw.indexed.exec(&ddl).is_ok() {
        rep.count("composite_index_rejected");
    }
    for (i, r) in rows.iter().enumerate().skip(half) {
        ins(&mut tw, i, r);
    }
    let order_sql = order.iter().map(|(c, d)| format!("{}{}{}", if qualified { "t." } else { "" }, names[*c], if *d { " DESC" } else { "" })).collect::<Vec<_>>().join(", ");
    let keyseq = |r: &Vec<Vec<SqlValue>>| r.iter().map(|x| order.iter().map(|(c, _)| canon::val(&x[*c])).collect::<Vec<_>>().join(" ")).collect::<Vec<_>>();
    let full_q = format!("SELECT a, s, c, id FROM t{} ORDER BY {}", where_sql, order_sql);
    let full_plain = tw.plain.query(&full_q);
    let unique = full_plain.rows().map(|r| { let k = keyseq(r); let mut d = k.clone(); d.sort(); d.dedup(); d.len() == k.len() }).unwrap_or(false);
    let mut variants: Vec<(Option<usize>, Option<usize>)> = vec![(None, None)];
    variants.extend(los.iter().cloned());
    for l in variants {
        let q = format!("{}{}{}", full_q, l.0.map(|n| format!(" LIMIT {}", n)).unwrap_or_default(), l.1.map(|m| format!(" OFFSET {}", m)).unwrap_or_default());
        let (p, i) = (tw.plain.query(&q), tw.indexed.query(&q));
        rep.count("composite_order_queries");
        let case_id = format!("composite {:?} {}", tw.indexed.log, q);
        match (p.rows(), i.rows()) {
            (Some(pr), Some(ir)) => {
                rep.case(&case_id, pr.len() >= 2);
                let rowseq = |r: &Vec<Vec<SqlValue>>| r.iter().map(|x| canon::row(x)).collect::<Vec<_>>();
                let keys_idx: Vec<(usize, bool)> = order.to_vec();
                let bad = keyseq(pr) != keyseq(ir) || (unique && rowseq(pr) != rowseq(ir)) || !sorted_by_keys(ir, &keys_idx) || (l == (None, None) && bag(pr) != bag(ir));
                if bad {
                    rep.fail(
                        FailKind::Oracle,
                        None,
                        &format!("composite index: ORDER BY sequence with the index differs from the index-free twin or is not sorted [{}]", ddl),
                        &format!("{}\n-- query: {}\nwithout: {}\nwith:    {}", tw.indexed.log.join(";\n"), q, p.brief(), i.brief()),
                    );
                }
            }
            (None, None) => rep.case(&case_id, false),
            _ => {
                rep.case(&case_id, true);
                rep.fail(FailKind::Oracle, None, &format!("composite index: query succeeds on one twin only [{}]", ddl), &format!("{}\n-- query: {}\nwithout: {}\nwith:    {}", tw.indexed.log.join(";\n"), q, p.brief(), i.brief()));
            }
        }
    }
}

fn gen_composite(rep: &mut Report, rng: &mut Rng) {
    let not_null = [rng.chance(1, 2), rng.chance(1, 2), rng.chance(1, 2)];
    let n = *rng.pick(&[3usize, 6, 10, 14]);
    let unique = rng.chance(1, 2);
    let mut cols = vec![0usize, 1, 2];
    rng.shuffle(&mut cols);
    cols.truncate(if rng.chance(1, 2) { 2 } else { 3 });
    let all_desc = rng.chance(1, 3);
    let all_asc = !all_desc && rng.chance(1, 2);
    let index_cols: Vec<(usize, bool, Option<u32>)> =
        cols.iter().map(|c| (*c, if all_desc { true } else if all_asc { false } else { rng.chance(1, 2) }, if *c == 1 && rng.chance(1, 2) { Some(rng.range(1, 3) as u32) } else { None })).collect();
    let k = rng.range(1, index_cols.len() as i64) as usize;
    let mode = rng.below(4);
    let order: Vec<(usize, bool)> = index_cols[..k].iter().map(|(c, d, _)| (*c, match mode { 0 | 1 => *d, 2 => !*d, _ => rng.chance(1, 2) })).collect();
    let mut rows: Vec<(Option<i64>, Option<String>, Option<i64>)> = vec![];
    let mut seen: Vec<String> = vec![];
    for _ in 0..n * 3 {
        if rows.len() >= n {
            break;
        }
        let a = if !not_null[0] && rng.chance(1, 4) { None } else { Some(rng.range(1, 3)) };
        let sv = if !not_null[1] && rng.chance(1, 4) { None } else { Some((*rng.pick(S_POOL)).to_string()) };
        let c = if !not_null[2] && rng.chance(1, 4) { None } else { Some(rng.range(0, 3)) };
        let key: String = order.iter().map(|(col, _)| match col { 0 => format!("{:?}", a), 1 => format!("{:?}", sv), _ => format!("{:?}", c) }).collect::<Vec<_>>().join("|");
        if unique && seen.contains(&key) {
            continue;
        }
        seen.push(key);
        rows.push((a, sv, c));
    }
    let where_sql = if rng.chance(1, 3) { format!(" WHERE {} >= {}", ["a", "c"][rng.below(2) as usize], rng.range(0, 2)) } else { String::new() };
    let los = [(Some(3), Some(1)), (Some(rng.range(0, 4) as usize), Some(rng.range(0, 5) as usize)), (None, Some(rng.range(0, 4) as usize))];
    let qualified = rng.chance(1, 5);
    composite_order_case(rep, not_null, &rows, &index_cols, &order, qualified, &where_sql, &los);
}

fn probe_composite(rep: &mut Report) {
    let s = |x: &str| Some(x.to_string());
    let los = [(Some(3), Some(1)), (Some(2), Some(0)), (None, Some(2)), (Some(10), Some(5))];
    let rows1 = vec![(Some(2), s("x"), None), (Some(1), s("x"), Some(2)), (Some(1), s("y"), None), (Some(2), s("y"), Some(1)), (Some(1), s("z"), Some(1)), (Some(2), s("z"), None), (Some(1), s("w"), None)];
    composite_order_case(rep, [true, true, false], &rows1, &[(0, false, None), (2, false, None)], &[(0, false), (2, false)], false, "", &los);
    composite_order_case(rep, [true, true, false], &rows1, &[(0, true, None), (2, true, None)], &[(0, true), (2, true)], false, "", &los);
    composite_order_case(rep, [true, true, false], &rows1, &[(0, false, None), (2, false, None)], &[(0, false), (2, false)], false, " WHERE a >= 1", &los);
    let rows2 = vec![(Some(1), s("abz"), Some(0)), (Some(1), s("abc"), Some(1)), (Some(2), s("abd"), Some(2)), (Some(1), s("aba"), Some(3)), (Some(2), s("aba"), Some(4)), (Some(1), s("ab"), Some(5)), (Some(2), s("abcz"), Some(6)), (Some(2), s("abca"), Some(7))];
    for pl in [1u32, 2, 3] {
        composite_order_case(rep, [true, true, true], &rows2, &[(0, false, None), (1, false, Some(pl))], &[(0, false), (1, false)], false, "", &los);
        composite_order_case(rep, [true, true, true], &rows2, &[(0, true, None), (1, true, Some(pl))], &[(0, true), (1, true)], false, "", &los);
        composite_order_case(rep, [true, true, true], &rows2, &[(1, false, Some(pl)), (0, false, None)], &[(1, false), (0, false)], false, "", &los);
    }
    composite_order_case(rep, [true, true, true], &rows2, &[(0, false, None), (1, false, Some(2)), (2, false, None)], &[(0, false), (1, false), (2, false)], false, "", &los);
    composite_order_case(rep, [true, true, true], &rows2, &[(0, false, None), (1, false, None)], &[(0, false), (1, false)], true, "", &los);
    composite_order_case(rep, [true, true, true], &rows2, &[(0, false, None), (1, true, None)], &[(0, false), (1, true)], false, "", &los);
}

/// deterministic: unsorted IN lists with duplicates while the same single-column index serves ORDER BY
fn probe_in_list_order(rep: &mut Report) {
    for (decl, idx, dir) in [("a INTEGER NOT NULL", "CREATE INDEX ia ON t (a)", ""), ("a INTEGER", "CREATE INDEX ia ON t (a DESC)", " DESC")] {
        let mut tw = Twin { plain: Db::new(), indexed: Db::new() };
        tw.both(&format!("CREATE TABLE t (id INTEGER PRIMARY KEY, {}, b INTEGER, s VARCHAR(10))", decl));
        tw.both("INSERT INTO t VALUES (1, 3, 1, 'x'), (2, 1, 2, 'y'), (3, 4, 3, 'z'), (4, 2, 4, 'w'), (5, 2, 5, 'v'), (6, 5, 6, 'u'), (7, 1, 7, 't'), (8, 6, 8, 'r')");
        tw.indexed.exec(idx);
        for w in ["a IN (4, 1, 3, 2, 2)", "a IN (5, 2, 4, 1, 1) AND b >= 3", "a IN (6, 6, 2.0, 1)"] {
            for lim in ["", " LIMIT 3", " LIMIT 2 OFFSET 1", " LIMIT 10 OFFSET 4"] {
                let q = format!("SELECT id, a, b, s FROM t WHERE {} ORDER BY a{}{}", w, dir, lim);
                let (p, i) = (tw.plain.query(&q), tw.indexed.query(&q));
                rep.count("deterministic_probes");
                rep.case(&format!("probe in-list {} {}", idx, q), true);
                let seq = |o: &Out| o.rows().map(|r| r.iter().map(|x| canon::val(&x[1])).collect::<Vec<_>>());
                let sorted = i.rows().map(|r| sorted_by(r, 1, !dir.is_empty())).unwrap_or(false);
                if seq(&p) != seq(&i) || !sorted || (lim.is_empty() && p.rows().map(|r| bag(r)) != i.rows().map(|r| bag(r))) {
                    rep.fail(FailKind::Oracle, None, "IN list + index-served ORDER BY: sequence differs from the twin without index or is not sorted", &format!("{}; {}\n-- query: {}\nwithout: {}\nwith:    {}", tw.indexed.log.join("; "), idx, q, p.brief(), i.brief()));
                }
            }
        }
    }
}

fn twin_case(rep: &mut Report, rng: &mut Rng, n: usize, nq: usize) {
    let mut tw = Twin { plain: Db::new(), indexed: Db::new() };
    let a_not_null = rng.chance(1, 3);
    let create = format!("CREATE TABLE t (id INTEGER PRIMARY KEY, a {}{}, b INTEGER, s VARCHAR(10))", if rng.chance(1, 3) { "BIGINT" } else { "INTEGER" }, if a_not_null { " NOT NULL" } else { "" });
    tw.both(&create);
    let mut next_id = 1;
    let insert = |tw: &mut Twin, rng: &mut Rng, next_id: &mut i64| {
        let a = if !a_not_null && rng.chance(1, 6) { "NULL".to_string() } else if rng.chance(1, 25) { (P53 + rng.range(0, 2)).to_string() } else { rng.range(-2, 6).to_string() };
        let b = if rng.chance(1, 6) { "NULL".to_string() } else { rng.range(0, 3).to_string() };
        let s = if rng.chance(1, 6) { "NULL".to_string() } else { format!("'{}'", rng.pick(STRS)) };
        let sql = format!("INSERT INTO t VALUES ({}, {}, {}, {})", *next_id, a, b, s);
        *next_id += 1;
        tw.both(&sql);
    };
    let n0 = rng.below(n as u64 + 1) as usize;
    for _ in 0..n0 {
        insert(&mut tw, rng, &mut next_id);
    }
    // index definitions (only on the indexed twin); at most one index per leading column so that
    // the choice among applicable indexes does not depend on HashMap iteration order
    let mut ddl: Vec<String> = vec![];
    let dir = |rng: &mut Rng| *rng.pick(&["", " ASC", " DESC"]);
    match rng.below(5) {
        0 => ddl.push(format!("CREATE INDEX ia ON t (a{})", dir(rng))),
        1 => ddl.push(format!("CREATE INDEX iab ON t (a{}, b{})", dir(rng), dir(rng))),
        2 => ddl.push(format!("CREATE INDEX isx ON t (s{})", dir(rng))),
        3 => ddl.push(format!("CREATE INDEX isb ON t (s{}, b{})", dir(rng), dir(rng))),
        _ => ddl.push(format!("CREATE INDEX isp ON t (s({}))", rng.range(1, 2))),
    }
    if rng.chance(1, 2) {
        let second = if ddl[0].contains("(a") { format!("CREATE INDEX i2 ON t (s{})", dir(rng)) } else { format!("CREATE INDEX i2 ON t (a{})", dir(rng)) };
        ddl.push(second);
    }
    if rng.chance(1, 6) {
        ddl.push("CREATE UNIQUE INDEX iu ON t (id, b)".into());
    }
    for d in &ddl {
        let o = tw.indexed.exec(d);
        if !o.is_ok() {
            rep.count("create_index_rejected");
        }
    }
    // more DML after the indexes exist; some histories run it inside a transaction with a
    // savepoint whose span (UPDATE-only or mixed) is rolled back
    let mut steps = rng.below(n as u64 + 1) as usize;
    let txn = rng.chance(1, 3);
    let update_only_span = rng.chance(2, 3);
    let (mut sp_at, mut rb_at) = (usize::MAX, usize::MAX);
    if txn {
        steps = steps.max(3);
        sp_at = rng.below(steps as u64 - 1) as usize;
        rb_at = sp_at + 1 + rng.below((steps - sp_at - 1) as u64 + 1) as usize;
        let (p, i) = tw.both("BEGIN TRANSACTION");
        if !(p.is_ok() && i.is_ok()) {
            rep.count("begin_rejected");
        }
        rep.count(if update_only_span { "twin_savepoint_update_only_span" } else { "twin_savepoint_mixed_span" });
    }
    for step in 0..=steps {
        if step == rb_at {
            let (p, i) = tw.both("ROLLBACK TO SAVEPOINT s");
            if !(p.is_ok() && i.is_ok()) {
                rep.count("rollback_to_savepoint_rejected");
            }
        }
        if step == steps {
            break;
        }
        if step == sp_at {
            tw.both("SAVEPOINT s");
        }
        let in_span = txn && step >= sp_at && step < rb_at;
        let kind = if in_span && update_only_span { 5 } else { rng.below(10) };
        match kind {
            0..=4 => insert(&mut tw, rng, &mut next_id),
            5 | 6 => {
                let col = *rng.pick(&["a", "b", "s"]);
                let val = if col == "s" { format!("'{}'", rng.pick(STRS)) } else if col == "a" && a_not_null { rng.range(-2, 6).to_string() } else if rng.chance(1, 6) { "NULL".into() } else { rng.range(-2, 6).to_string() };
                let w = match rng.below(3) {
                    0 => format!("id = {}", rng.range(1, next_id.max(2) - 1)),
                    1 => format!("b = {}", rng.range(0, 3)),
                    _ => format!("id >= {}", rng.range(1, next_id.max(2) - 1)),
                };
                let sql = format!("UPDATE t SET {} = {} WHERE {}", col, val, w);
                let (p, i) = tw.both(&sql);
                if p.is_ok() != i.is_ok() {
                    rep.count("update_outcome_differs_unique_index");
                }
            }
            _ => {
                let w = match rng.below(3) {
                    0 => format!("id = {}", rng.range(1, next_id.max(2) - 1)),
                    1 => format!("b = {}", rng.range(0, 3)),
                    _ => format!("id < {}", rng.range(1, 4)),
                };
                tw.both(&format!("DELETE FROM t WHERE {}", w));
            }
        }
    }
    if txn {
        tw.both(if rng.chance(1, 5) { "ROLLBACK" } else { "COMMIT" });
    }
    if rng.chance(1, 8) {
        tw.both("ANALYZE t");
        rep.count("twin_with_analyze");
    }
    let total = tw.plain.query("SELECT id FROM t").rows().map(|r| r.len()).unwrap_or(0);
    let replay = |tw: &Twin, q: &str, p: &Out, i: &Out| {
        format!(
            "-- twin without indexes:\n{}\n-- twin with indexes:\n{}\n-- query: {}\nwithout: {}\nwith:    {}",
            tw.plain.log.iter().map(|l| format!("{};", l)).collect::<Vec<_>>().join("\n"),
            tw.indexed.log.iter().map(|l| format!("{};", l)).collect::<Vec<_>>().join("\n"),
            q,
            p.brief(),
            i.brief()
        )
    };
    tw.plain.keep_log = false;
    tw.indexed.keep_log = false;
    // the first index serves ORDER BY a when it is a single-column index on a and its order is the
    // sort order (DESC, or ASC over a NOT NULL column)
    let served: Option<bool> = if ddl[0].starts_with("CREATE INDEX ia ON t (a") {
        if ddl[0].contains("DESC") {
            Some(true)
        } else if a_not_null {
            Some(false)
        } else {
            None
        }
    } else {
        None
    };
    for _ in 0..nq {
        let col = *rng.pick(&["a", "a", "s"]);
        let pred = gen_pred(rng, col);
        let mut keys_only = false;
        let (q, ord): (String, Option<(usize, bool)>) = match rng.below(9) {
            _ if served.is_some() && rng.chance(1, 3) => {
                // unsorted IN list with duplicates + ORDER BY served by the same index
                let d = served.unwrap();
                let mut list: Vec<String> = (0..rng.range(2, 6)).map(|_| rng.range(-2, 7).to_string()).collect();
                list.sort_by(|x, y| y.parse::<i64>().unwrap().cmp(&x.parse::<i64>().unwrap()));
                if rng.chance(1, 2) {
                    let k = rng.below(list.len() as u64) as usize;
                    list.swap(0, k);
                }
                let dup = list[list.len() - 1].clone();
                list.insert(0, dup);
                let extra = if rng.chance(1, 3) { format!(" AND b >= {}", rng.range(0, 2)) } else { String::new() };
                let lim = if rng.chance(1, 2) {
                    keys_only = true;
                    format!(" LIMIT {} OFFSET {}", rng.range(0, 4), rng.range(0, 3))
                } else {
                    String::new()
                };
                rep.count("twin_in_list_index_served_order");
                (format!("SELECT id, a, b, s FROM t WHERE a IN ({}){} ORDER BY a{}{}", list.join(", "), extra, if d { " DESC" } else { "" }, lim), Some((1, d)))
            }
            0 => (format!("SELECT id, a, b, s FROM t WHERE {}", pred), None),
            1 => (format!("SELECT id, a, b, s FROM t WHERE {} ORDER BY b", pred), Some((2, false))),
            2 => (format!("SELECT DISTINCT {} FROM t WHERE {}", col, pred), None),
            3 => {
                let d = rng.chance(1, 2);
                (format!("SELECT id, a, b, s FROM t WHERE {} ORDER BY {}{}", pred, col, if d { " DESC" } else { "" }), Some((if col == "a" { 1 } else { 3 }, d)))
            }
            4 => {
                let d = rng.chance(1, 2);
                (format!("SELECT id, a, b, s FROM t ORDER BY {}{}", col, if d { " DESC" } else { "" }), Some((if col == "a" { 1 } else { 3 }, d)))
            }
            5 => (format!("SELECT COUNT(*), COUNT({}) FROM t WHERE {}", col, pred), None),
            6 => (format!("SELECT {}, COUNT(*) FROM t WHERE {} GROUP BY {}", col, pred, col), None),
            7 => {
                let d = rng.chance(1, 2);
                (format!("SELECT id, a, b, s FROM t WHERE {} ORDER BY {}{} LIMIT 1000", pred, col, if d { " DESC" } else { "" }), Some((if col == "a" { 1 } else { 3 }, d)))
            }
            _ => (format!("SELECT id FROM t WHERE id IN (SELECT id FROM t WHERE {})", pred), None),
        };
        let p = tw.plain.query(&q);
        let i = tw.indexed.query(&q);
        let case_id = format!("{:?} {}", tw.indexed.log, q);
        rep.count(&format!("twin_query_form_{}", if q.contains("DISTINCT") { "distinct" } else if q.contains("GROUP BY") { "group" } else if q.contains("COUNT") { "count" } else if q.contains("ORDER BY") { "order" } else if q.contains("IN (SELECT") { "subquery" } else { "plain" }));
        if p.is_panic() || i.is_panic() {
            rep.case(&case_id, true);
            rep.fail(FailKind::Oracle, None, "engine panicked on a twin query", &replay(&tw, &q, &p, &i));
            continue;
        }
        match (p.rows(), i.rows()) {
            (Some(pr), Some(ir)) => {
                let nontrivial = !pr.is_empty() && pr.len() < total.max(1);
                rep.case(&case_id, nontrivial);
                let differs = if keys_only {
                    // LIMIT/OFFSET over ties: compare the key sequences
                    let seq = |r: &Vec<Vec<SqlValue>>| r.iter().map(|x| canon::val(&x[1])).collect::<Vec<_>>();
                    seq(pr) != seq(ir)
                } else {
                    bag(pr) != bag(ir)
                };
                if differs {
                    rep.fail(FailKind::Oracle, None, &format!("result multiset depends on the existence of an index [{}]", ddl.join("; ")), &replay(&tw, &q, &p, &i));
                }
                if let Some((k, d)) = ord {
                    if !sorted_by(ir, k, d) || !sorted_by(pr, k, d) {
                        rep.fail(FailKind::Oracle, None, &format!("ORDER BY sequence not sorted ({} index) [{}]", if !sorted_by(ir, k, d) { "with" } else { "without" }, ddl.join("; ")), &replay(&tw, &q, &p, &i));
                    }
                }
            }
            (None, None) => {
                rep.count("twin_query_rejected_by_both");
                rep.case(&case_id, false);
            }
            _ => {
                rep.case(&case_id, true);
                rep.fail(FailKind::Oracle, None, &format!("query succeeds on one twin and fails on the other [{}]", ddl.join("; ")), &replay(&tw, &q, &p, &i));
            }
        }
    }
}

fn main() {
    engine::silence_panics();
    let args = Args::parse("C02");
    let mut rep = Report::new(
        &args,
        "API cases = (rows, index, bounds, inclusive flags) through IndexData::range_scan / multi_lookup / iter and the model; non-trivial = the scan \
         selects some but not all rows. Twin cases = (DML history, index definitions, query) on two databases; non-trivial = the result is non-empty and not the whole table. \
         Distinct by hash of (data, index, bounds) resp. (history, query).",
    );
    rep.assumptions.push("T1 and the brute-force oracle cover integer keys and bounds below 2^53 in magnitude (f64 normalisation is the identity there); larger values are compared with the model only".into());
    rep.assumptions.push("INTEGER/BIGINT and VARCHAR(ASCII) key columns; in-memory index backend (tables below DISK_BACKED_THRESHOLD = 100000 rows)".into());
    rep.assumptions.push("at most one index per leading column, so the choice among applicable indexes does not depend on HashMap iteration order".into());
    let mut model = args.model();
    let mut rng = Rng::new(args.seed);
    // deterministic shapes first: empty table, one row, small table with big values
    let mut r0 = rng.fork();
    api_case(&mut model, &mut rep, &mut r0, false, 0, 40);
    api_case(&mut model, &mut rep, &mut r0, false, 1, 60);
    api_case(&mut model, &mut rep, &mut r0, true, 14, 400);
    let na = args.n(10, 150);
    for i in 0..na {
        let mut r = rng.fork();
        let n = if i % 5 == 4 { r.range(100, 130) as usize } else { r.range(2, 16) as usize };
        api_case(&mut model, &mut rep, &mut r, i % 3 == 0, n, if n > 50 { 60 } else { 150 });
    }
    probe_f64_collapse(&mut rep);
    probe_in_list_order(&mut rep);
    probe_bound_shapes(&mut model, &mut rep);
    probe_savepoint(&mut rep);
    probe_composite(&mut rep);
    let nt = args.n(500, 6000);
    for i in 0..nt {
        let mut r = rng.fork();
        let n = match i % 25 {
            0 => 0,
            1 => 1,
            24 => r.range(100, 130) as usize,
            _ => r.range(2, 14) as usize,
        };
        twin_case(&mut rep, &mut r, n, 8);
        if i % 2 == 0 {
            gen_composite(&mut rep, &mut r);
        }
    }
    std::process::exit(rep.finish());
}
