import VibeProof.Model.Text
import VibeProof.Lemmas.Text
import VibeProof.Lemmas.Bind
/-
C30 — Python DB-API parameter binding is faithful.

 T1  quoting: a bound string is read back by the lexer as exactly that string;
 T2  structure preservation: if every `?` stands in code position (outside string literals,
     delimited identifiers and comments) and no value's text merges with its surroundings, the
     pieces of the bound text are the pieces of the SQL text with each placeholder replaced by the
     pieces of its value — values never alter the statement's structure.  Counterexamples for each
     excluded situation (`?` inside a literal, a negative number after `-`, a string next to a quote);
 T3  history independence: false as coded — the statement cache is keyed by the SQL text before
     binding, so a second call with other values runs the first call's statement; proved for the
     design that keys the cache by the bound text.
-/
namespace VibeProof.C30
open VibeProof.Text VibeProof.Text.Bind

/-! ## T1 -/

theorem C30_quote_roundtrip (s r : Str) (hr : ∀ c r', r = c :: r' → c ≠ '\'') :
    lexString (renderVal (.str s) ++ r) = .ok (s, r) :=
  lexString_renderStr s r hr

example : lexString (renderVal (.str "x' OR '1'='1".toList) ++ " AND b = 2".toList)
    = .ok ("x' OR '1'='1".toList, " AND b = 2".toList) :=
  C30_quote_roundtrip _ _ (by intro c r' h; injection h with h1 _; subst h1; decide)

/-! ## T2 -/

/-- the full statement: binding never changes the structure of the statement -/
def C30_structure_full : Prop :=
  ∀ (sql : Str) (vs : List PVal), countQ sql = vs.length → (∀ v ∈ vs, v.wf = true) →
    scan (substitute sql vs) = (scanQ sql).map (fill · vs)

theorem scanQ_hole (m : Mode) (cs : Str) (hm : codeMode m = true) :
    scanGo true m ('?' :: cs) =
      (flush m).bind (fun f => (scanGo true .norm cs).map (fun rest => f ++ Piece.hole :: rest)) := by
  have hl : leaves m '?' = true := by
    cases m with
    | qq q acc =>
      simp only [codeMode, decide_eq_true_eq] at hm
      simp only [leaves, decide_eq_true_eq]
      exact fun h => hm h.symm
    | norm => rfl
    | dash => decide
    | comment => rfl
    | inq q acc => rfl
  rw [scanGo_leave true m '?' cs hm hl, scanGo_cons]
  simp only [stepMode, normStep, show isQuote '?' = false by decide, show ('?' = '-') = False by decide,
    show isWs '?' = false by decide, Bool.false_eq_true, if_false, Bool.true_and, decide_true, if_true,
    Except.bind]
  cases flush m with
  | error e => rfl
  | ok f => cases scanGo true .norm cs <;> simp [Except.bind, Except.map]

theorem structure_gen (sql : Str) : ∀ (m : Mode) (vs : List PVal), bindSafe m sql vs = true →
    scanGo false m (substitute sql vs) = (scanGo true m sql).map (fill · vs) := by
  induction sql with
  | nil =>
    intro m vs h
    simp only [bindSafe, List.isEmpty_iff] at h
    subst h
    simp only [substitute, scanGo]
    cases hf : finishMode m with
    | error e => rfl
    | ok ps => simp [Except.map, fill_noHoles ps [] (finishMode_noHoles m ps hf)]
  | cons c cs ih =>
    intro m vs h
    by_cases hc : c = '?'
    · subst hc
      cases vs with
      | nil => simp [bindSafe] at h
      | cons v vs' =>
        simp only [bindSafe, if_true, Bool.and_eq_true] at h
        obtain ⟨⟨⟨⟨hm, hwf⟩, hh⟩, ht⟩, hrest⟩ := h
        have ih' := ih .norm vs' hrest
        simp only [substitute, if_true]
        -- the value's text is not empty, and its first character leaves mode m
        cases hr : renderVal v with
        | nil => simp [headOk, hr] at hh
        | cons c0 t =>
          have hl : leaves m c0 = true := by simpa [headOk, hr] using hh
          have hT : isStrVal v = true → ∀ c T', substitute cs vs' = c :: T' → c ≠ '\'' := by
            intro hs c T' e
            simp only [tailOk, hs, Bool.not_true, Bool.false_or, e, decide_eq_true_eq] at ht
            exact ht
          have hval := scanGo_val false v hwf (substitute cs vs') hT
          rw [hr] at hval
          rw [List.cons_append, scanGo_leave false m c0 _ hm hl, ← List.cons_append, hval, ih',
            scanQ_hole m cs hm]
          cases hf : flush m with
          | error e => rfl
          | ok f =>
            have hnf := flush_noHoles m f hf
            cases scanGo true .norm cs with
            | error e => rfl
            | ok rest =>
              simp only [Except.bind, Except.map]
              rw [fill_noHoles_append f _ _ hnf]
              simp [fill]
    · have hstep := stepMode_noQ m c hc
      simp only [bindSafe, hc, if_false] at h
      simp only [substitute, hc, if_false]
      rw [scanGo_cons, scanGo_cons, hstep]
      cases hs : stepMode false m c with
      | error e => rfl
      | ok pm =>
        obtain ⟨ps, m'⟩ := pm
        simp only [hs] at h
        have hn := stepMode_false_noHoles m c ps m' hs
        simp only [Except.bind]
        rw [ih m' vs h]
        cases scanGo true m' cs with
        | error e => rfl
        | ok rest => simp [Except.map, fill_noHoles_append ps rest vs hn]

/-- **T2 (partial).** Under `bindSafe`, the pieces of the bound text are the pieces of the SQL
text with every placeholder replaced by the pieces of its value: a value can neither end a
literal, nor start a comment, nor add or remove a token boundary. -/
theorem C30_structure_partial (sql : Str) (vs : List PVal) (h : bindSafe .norm sql vs = true) :
    scan (substitute sql vs) = (scanQ sql).map (fill · vs) :=
  structure_gen sql .norm vs h

/-- non-vacuity: a hostile string and a negative number bound into an INSERT -/
example : bindSafe .norm "INSERT INTO t VALUES (?, ?)".toList
    [.str "x'); DROP TABLE t; --".toList, .num true ['5']] = true := by decide +kernel

example : scan (substitute "INSERT INTO t VALUES (?, ?)".toList
      [.str "x'); DROP TABLE t; --".toList, .num true ['5']])
    = (scanQ "INSERT INTO t VALUES (?, ?)".toList).map
        (fill · [.str "x'); DROP TABLE t; --".toList, .num true ['5']]) :=
  C30_structure_partial _ _ (by decide +kernel)

/-- a `?` inside a string literal is substituted too: the value becomes part of the literal
(`SELECT '?', ?` with 1 and 2 binds `SELECT '1', 2`; both placeholders are counted) -/
theorem C30_placeholder_in_literal_counterexample :
    scan (substitute "SELECT '?', ?".toList [.num false ['1'], .num false ['2']]) ≠
      (scanQ "SELECT '?', ?".toList).map (fill · [.num false ['1'], .num false ['2']]) := by
  decide +kernel

/-- a negative number bound right after a minus sign starts a comment: `SELECT 7-?` with -5 is
`SELECT 7--5`, i.e. `SELECT 7` -/
theorem C30_negative_after_minus_counterexample :
    scan (substitute "SELECT 7-?".toList [.num true ['5']]) = scan "SELECT 7".toList := by
  decide +kernel

/-- a string bound right before a quote merges with the following literal -/
theorem C30_string_before_quote_counterexample :
    scan (substitute "SELECT ?'b'".toList [.str ['a']]) = scan "SELECT 'a''b'".toList := by
  decide +kernel

theorem C30_structure_counterexample : ¬ C30_structure_full := by
  intro h
  have := h "SELECT '?', ?".toList [.num false ['1'], .num false ['2']] (by decide +kernel)
    (by decide +kernel)
  exact C30_placeholder_in_literal_counterexample this

/-! ## T3 -/

/-- what a call is meant to run: the parse of its own bound text -/
def intended {σ : Type} (parse : Str → Option σ) (sql : Str) (ps : Option (List PVal)) : Except BErr σ :=
  match bind sql ps with
  | .ok text => (match parse text with | some s => .ok s | none => .error .parse)
  | .error e => .error e

/-- the full statement: what `execute` runs depends only on this call's SQL text and values,
whatever the earlier calls on the cursor were (the cache holds statements of earlier calls) -/
def C30_full : Prop :=
  ∀ (σ : Type) (parse : Str → Option σ) (cur : Cursor σ) (sql : Str) (ps : Option (List PVal)),
    (∀ k s, (k, s) ∈ cur.cache → ∃ ps', (intended parse k ps') = .ok s) →
    (prepare parse cur sql ps).map (·.1) = intended parse sql ps

def sqlIns : Str := "INSERT INTO t VALUES (?)".toList
def cacheAfterFirst : Cursor Str := ⟨[(sqlIns, "INSERT INTO t VALUES (1)".toList)]⟩

/-- **T3 counterexample.** Two calls with the same text and different values: the second call
runs the statement of the first (the parser is the identity here, so a statement is its text). -/
theorem C30_history_counterexample :
    prepare some ⟨[]⟩ sqlIns (some [.num false ['1']]) = .ok ("INSERT INTO t VALUES (1)".toList, cacheAfterFirst) ∧
    (prepare some cacheAfterFirst sqlIns (some [.num false ['2']])).map (·.1) = .ok "INSERT INTO t VALUES (1)".toList ∧
    intended some sqlIns (some [.num false ['2']]) = .ok "INSERT INTO t VALUES (2)".toList := by
  refine ⟨?_, ?_, ?_⟩ <;> decide +kernel

/-- as coded, a wrong number of parameters is not even noticed on a cache hit -/
theorem C30_count_unchecked_on_hit :
    (prepare (σ := Str) some ⟨[("SELECT ?".toList, "SELECT 1".toList)]⟩ "SELECT ?".toList (some [])).map (·.1)
      = .ok "SELECT 1".toList := by decide +kernel

/-- invariant of the bound-key design: every cached statement is the parse of its key -/
def CacheOk {σ : Type} (parse : Str → Option σ) (cur : Cursor σ) : Prop :=
  ∀ k s, lookup k cur.cache = some s → parse k = some s

theorem cacheOk_empty {σ : Type} (parse : Str → Option σ) : CacheOk parse ⟨[]⟩ := by
  intro k s h; simp [lookup] at h

/-- **T3 for the bound-key design.** With the cache keyed by the text that is parsed, every call
runs exactly the parse of *its own* bound text whatever was executed before, and the invariant is
kept (so the statement holds along every history of calls and cache clears). -/
theorem C30_history_independent_boundKey {σ : Type} (parse : Str → Option σ) (cur : Cursor σ)
    (hc : CacheOk parse cur) (sql : Str) (ps : Option (List PVal)) :
    (∀ text, bind sql ps = .ok text →
      (∀ s, parse text = some s → ∃ cur', prepareBoundKey parse cur sql ps = .ok (s, cur') ∧ CacheOk parse cur') ∧
      (parse text = none → prepareBoundKey parse cur sql ps = .error .parse)) ∧
    (∀ e, bind sql ps = .error e → prepareBoundKey parse cur sql ps = .error e) := by
  refine ⟨?_, ?_⟩
  · intro text hb
    refine ⟨?_, ?_⟩
    · intro s hp
      cases hl : lookup text cur.cache with
      | some s' =>
        have : s' = s := by
          have := hc text s' hl
          rw [hp] at this
          exact (Option.some.inj this).symm
        subst this
        exact ⟨cur, by simp [prepareBoundKey, hb, hl], hc⟩
      | none =>
        refine ⟨⟨(text, s) :: cur.cache⟩, by simp [prepareBoundKey, hb, hl, hp], ?_⟩
        intro k s' hk
        simp only [lookup] at hk
        split at hk
        · rename_i heq
          injection hk with hk
          subst hk; subst heq; exact hp
        · exact hc k s' hk
    · intro hp
      cases hl : lookup text cur.cache with
      | some s' =>
        have := hc text s' hl
        rw [hp] at this
        cases this
      | none => simp [prepareBoundKey, hb, hl, hp]
  · intro e hb
    simp [prepareBoundKey, hb]

/-- the full statement is false of the code as it is -/
theorem C30_full_counterexample : ¬ C30_full := by
  intro h
  have h2 := h Str some cacheAfterFirst sqlIns (some [.num false ['2']])
    (by
      intro k s hk
      simp only [cacheAfterFirst, List.mem_singleton, Prod.mk.injEq] at hk
      obtain ⟨h1, h2⟩ := hk
      subst h1; subst h2
      exact ⟨some [.num false ['1']], by decide +kernel⟩)
  rw [C30_history_counterexample.2.1, C30_history_counterexample.2.2] at h2
  revert h2
  decide +kernel

/-! ## values -/

/-- `py_to_sqlvalue` tries int before bool and a Python bool is an int: `True` binds as `1` -/
theorem C30_bool_binds_as_int : renderVal (pyToSql (.bool true)) = ['1'] ∧
    renderVal (pyToSql (.bool false)) = ['0'] := by decide

end VibeProof.C30
