import VibeProof.Props.C27
#print axioms VibeProof.C27.C27_decode_no_panic
#print axioms VibeProof.C27.C27_startup_no_panic
#print axioms VibeProof.C27.C27_decode_frame_bound
#print axioms VibeProof.C27.C27_decode_error_bound
#print axioms VibeProof.C27.C27_startup_frame_bound
#print axioms VibeProof.C27.C27_startup_error_bound
#print axioms VibeProof.C27.C27_decode_need_more_iff
#print axioms VibeProof.C27.C27_decode_roundtrip
#print axioms VibeProof.C27.C27_startup_roundtrip
#print axioms VibeProof.C27.C27_decode_prefix_need_more
#print axioms VibeProof.C27.C27_stream
#print axioms VibeProof.C27.C27_full_holds
#print axioms VibeProof.C27.C27_regress_negative_length
#print axioms VibeProof.C27.C27_regress_zero_length
#print axioms VibeProof.C27.C27_regress_startup_len4
#print axioms VibeProof.C27.C27_regress_startup_len8
#print axioms VibeProof.C27.C27_constants_match_source
