import VibeProof.Model.Index
/-
State machine of ONE stored table with its constraint hash indexes, the user-defined indexes
of the registry that name it, and the transaction / savepoint machinery
(C15, C13, C14).  Every step is written as the executors sequence the storage calls
(after the `fix:` commits d0a53f8a, b9e81ca0, b0911378, a2743cd5, ee88b7d7, e4da8cb8, 650ff828, d69656ff):

  INSERT            Database::insert_row / insert_rows_batch: Table::insert (push,
                    update_for_insert), add_to_indexes_for_insert, record_change(Insert)
  UPDATE            per row Table::update_row_selective (row replaced, affected hash indexes
                    patched), afterwards per row update_indexes_for_update (old row = row
                    before the statement); record_change(Update) per row
  ON DUP KEY UPDATE Table::update_row (all hash indexes patched) + update_indexes_for_update
  DELETE .. WHERE   Table::delete_where (rows removed, hash indexes rebuilt) +
                    Database::rebuild_indexes; record_change(Delete) per removed row
  DELETE / TRUNCATE Table::clear + Database::rebuild_indexes; record_change(Delete) per row
  REPLACE           delete_where of the conflicting rows (+ rebuild_indexes if any), insert_row
  CREATE/DROP INDEX registry only
  BEGIN             snapshot of rows and hash indexes (tables.clone()) and of the index registry
  ROLLBACK          tables and registry restored from the snapshot, registry index data
                    rebuilt from the restored rows
  SAVEPOINT n       push (n, changes.len())
  ROLLBACK TO n     most recent savepoint named n; changes.drain(idx..) undone newest first with
                    Table::remove_row (first equal row; hash rebuild); later savepoints dropped;
                    user-defined indexes rebuilt if anything was undone
  RELEASE n         most recent savepoint named n removed
-/
namespace VibeProof.TSM
open VibeProof VibeProof.Idx

structure UIdx where
  name : String
  cols : List Nat
  unique : Bool
  data : UData
  deriving Repr, DecidableEq

/-- a recorded change (`TransactionChange`) -/
inductive Change where
  | ins (r : Row)
  | del (r : Row)
  | upd (old new : Row)
  deriving Repr, DecidableEq

structure Txn where
  snapRows : List Row
  snapH : List HIdx
  /-- the registry's user-defined indexes as they were at BEGIN (fix 650ff828) -/
  snapU : List UIdx
  /-- savepoint stack, newest at the end: (name, length of the change log at creation) -/
  saves : List (String × Nat)
  /-- change log: every row inserted, removed or rewritten since BEGIN (fix d69656ff; before it
  only inserts were recorded) -/
  log : List Change
  deriving Repr, DecidableEq

structure TState where
  rows : List Row
  hidx : List HIdx
  uidx : List UIdx
  txn : Option Txn
  deriving Repr, DecidableEq

inductive TErr where
  | txnActive | noTxn | noSavepoint | indexExists | indexMissing | outOfRange | rowNotFound
  deriving Repr, DecidableEq

inductive Op where
  | insert (rows : List Row)
  /-- (position, new row, changed columns) per updated row -/
  | update (ups : List (Nat × Row × List Nat))
  | upsert (i : Nat) (new : Row)
  | delete (ps : List Nat)
  | truncate
  | replace (r : Row)
  | createIndex (name : String) (cols : List Nat) (unique : Bool)
  | dropIndex (name : String)
  | begin | commit | rollback
  | savepoint (n : String) | rollbackTo (n : String) | release (n : String)
  deriving Repr, DecidableEq

def init (hs : List (List Nat × Bool)) : TState :=
  { rows := [], hidx := hs.map (fun h => { cols := h.1, skipNull := h.2, data := [] }), uidx := [],
    txn := none }

def hRebuildAll (hs : List HIdx) (rows : List Row) : List HIdx :=
  hs.map (fun h => { h with data := hBuild h.cols h.skipNull rows })

def uRebuildAll (us : List UIdx) (rows : List Row) : List UIdx :=
  us.map (fun u => { u with data := uBuild u.cols rows })

/-- `record_change` for a list of changes (no-op outside a transaction) -/
def logAdd (t : Option Txn) (cs : List Change) : Option Txn :=
  t.map (fun x => { x with log := x.log ++ cs })

def logIns (t : Option Txn) (r : Row) : Option Txn := logAdd t [.ins r]

/-- `Database::insert_row` -/
def insert1 (s : TState) (r : Row) : TState :=
  { s with
    rows := s.rows ++ [r]
    hidx := s.hidx.map (fun h => { h with data := hIns h.cols h.skipNull h.data r s.rows.length })
    uidx := s.uidx.map (fun u => { u with data := uAdd u.data (proj u.cols r) s.rows.length })
    txn := logIns s.txn r }

def insertMany (s : TState) : List Row → TState
  | [] => s
  | r :: rs => insertMany (insert1 s r) rs

/-- `get_affected_indexes`: an index is touched iff one of its columns was assigned -/
def affected (h : HIdx) (ch : List Nat) : Bool := h.cols.any (fun c => ch.contains c)

/-- phase 1 of UPDATE: `update_row_selective` row by row (old row = the row now stored) -/
def updRows : List Row → List HIdx → List (Nat × Row × List Nat) → Option (List Row × List HIdx)
  | rows, hs, [] => some (rows, hs)
  | rows, hs, (i, new, ch) :: rest =>
    match rows[i]? with
    | none => none
    | some old =>
      updRows (rows.set i new)
        (hs.map (fun h => if affected h ch then { h with data := hUpd h.cols h.skipNull h.data old new i } else h))
        rest

/-- phase 2 of UPDATE: `update_indexes_for_update(old, new, i)` row by row, `old` taken from the
rows as they were before the statement (`rows0`) -/
def updUser (us : List UIdx) (rows0 : List Row) : List (Nat × Row × List Nat) → List UIdx
  | [] => us
  | (i, new, _) :: rest =>
    match rows0[i]? with
    | none => updUser us rows0 rest
    | some old =>
      updUser (us.map (fun u => { u with data := uPatch u.data (proj u.cols old) (proj u.cols new) i }))
        rows0 rest

/-- `Table::delete_where` on the rows: positions in `ps` removed, order kept -/
def removeAt (rows : List Row) (ps : List Nat) : List Row :=
  (rows.zipIdx.filter (fun e => !ps.contains e.2)).map (fun e => e.1)

/-- the rows `delete_where` removes, in table order -/
def removedAt (rows : List Row) (ps : List Nat) : List Row :=
  (rows.zipIdx.filter (fun e => ps.contains e.2)).map (fun e => e.1)

/-- the `Update` records of an UPDATE statement: (row before the statement, row now stored) -/
def updChanges (rows0 : List Row) : List (Nat × Row × List Nat) → List Change
  | [] => []
  | (i, new, _) :: rest =>
    match rows0[i]? with
    | some old => .upd old new :: updChanges rows0 rest
    | none => updChanges rows0 rest

/-- rows REPLACE deletes: same PRIMARY KEY values, or same values of a UNIQUE constraint whose
new values contain no NULL -/
def conflictPos (hs : List HIdx) (rows : List Row) (r : Row) : List Nat :=
  (rows.zipIdx.filter (fun e => hs.any (fun h =>
    match hKey h.cols h.skipNull r with
    | some k => decide (hKey h.cols h.skipNull e.1 = some k)
    | none => false))).map (fun e => e.2)

/-- `Table::insert` of a row put back by an undo: appended, hash indexes patched -/
def putBack (hs : List HIdx) (rows : List Row) (r : Row) : List Row × List HIdx :=
  (rows ++ [r], hs.map (fun h => { h with data := hIns h.cols h.skipNull h.data r rows.length }))

/-- `undo_change`, newest change first; stops at the first row that is not found.
Insert: `remove_row` (FIRST equal row, hash rebuild).  Delete: the row is inserted again.
Update: the updated row is removed and the old row inserted again. -/
def undoAll (hs : List HIdx) (rows : List Row) : List Change → List Row × List HIdx × Bool
  | [] => (rows, hs, true)
  | .ins r :: rest =>
    if r ∈ rows then
      let rows' := rows.erase r
      undoAll (hRebuildAll hs rows') rows' rest
    else (rows, hs, false)
  | .del r :: rest =>
    let p := putBack hs rows r
    undoAll p.2 p.1 rest
  | .upd old new :: rest =>
    if new ∈ rows then
      let rows' := rows.erase new
      let p := putBack (hRebuildAll hs rows') rows' old
      undoAll p.2 p.1 rest
    else (rows, hs, false)

/-- `savepoints.iter().rposition(|sp| sp.name == name)`: the most recent savepoint of that name
(fix e4da8cb8; before it the first one was taken) -/
def findSave : List (String × Nat) → String → Option Nat
  | [], _ => none
  | sp :: rest, n =>
    match findSave rest n with
    | some j => some (j + 1)
    | none => if sp.1 = n then some 0 else none

def step (s : TState) : Op → TState × Option TErr
  | .insert rs => (insertMany s rs, none)
  | .update ups =>
    match updRows s.rows s.hidx ups with
    | none => (s, some .outOfRange)
    | some (rows', hs') =>
      ({ s with rows := rows', hidx := hs', uidx := updUser s.uidx s.rows ups,
                txn := logAdd s.txn (updChanges s.rows ups) }, none)
  | .upsert i new =>
    match s.rows[i]? with
    | none => (s, some .outOfRange)
    | some old =>
      ({ s with
         rows := s.rows.set i new
         hidx := s.hidx.map (fun h => { h with data := hUpd h.cols h.skipNull h.data old new i })
         uidx := s.uidx.map (fun u => { u with data := uPatch u.data (proj u.cols old) (proj u.cols new) i })
         txn := logAdd s.txn [.upd old new] },
       none)
  | .delete ps =>
    let rows' := removeAt s.rows ps
    ({ s with rows := rows', hidx := hRebuildAll s.hidx rows', uidx := uRebuildAll s.uidx rows',
              txn := logAdd s.txn ((removedAt s.rows ps).map .del) }, none)
  | .truncate =>
    ({ s with rows := [], hidx := s.hidx.map (fun h => { h with data := [] }), uidx := uRebuildAll s.uidx [],
              txn := logAdd s.txn (s.rows.map .del) },
     none)
  | .replace r =>
    let ps := conflictPos s.hidx s.rows r
    let rows' := if ps.isEmpty then s.rows else removeAt s.rows ps
    let s1 : TState :=
      { s with rows := rows', hidx := hRebuildAll s.hidx rows'
               uidx := if ps.isEmpty then s.uidx else uRebuildAll s.uidx rows'
               txn := logAdd s.txn ((removedAt s.rows ps).map .del) }
    (insert1 s1 r, none)
  | .createIndex name cols unique =>
    if s.uidx.any (fun u => u.name == name) then (s, some .indexExists)
    else ({ s with uidx := s.uidx ++ [{ name := name, cols := cols, unique := unique, data := uBuild cols s.rows }] },
          none)
  | .dropIndex name =>
    if s.uidx.any (fun u => u.name == name) then
      ({ s with uidx := s.uidx.filter (fun u => !(u.name == name)) }, none)
    else (s, some .indexMissing)
  | .begin =>
    match s.txn with
    | some _ => (s, some .txnActive)
    | none => ({ s with txn := some { snapRows := s.rows, snapH := s.hidx, snapU := s.uidx, saves := [], log := [] } }, none)
  | .commit =>
    match s.txn with
    | none => (s, some .noTxn)
    | some _ => ({ s with txn := none }, none)
  | .rollback =>
    match s.txn with
    | none => (s, some .noTxn)
    | some t =>
      ({ s with rows := t.snapRows, hidx := t.snapH, uidx := uRebuildAll t.snapU t.snapRows, txn := none }, none)
  | .savepoint n =>
    match s.txn with
    | none => (s, some .noTxn)
    | some t => ({ s with txn := some { t with saves := t.saves ++ [(n, t.log.length)] } }, none)
  | .rollbackTo n =>
    match s.txn with
    | none => (s, some .noTxn)
    | some t =>
      match findSave t.saves n with
      | none => (s, some .noSavepoint)
      | some j =>
        match t.saves[j]? with
        | none => (s, some .noSavepoint)
        | some sp =>
          let toUndo := (t.log.drop sp.2).reverse
          let t' : Txn := { t with saves := t.saves.take (j + 1), log := t.log.take sp.2 }
          let (rows', hs', ok) := undoAll s.hidx s.rows toUndo
          let us' := if toUndo.isEmpty then s.uidx else uRebuildAll s.uidx rows'
          ({ s with rows := rows', hidx := hs', uidx := us', txn := some t' },
           if ok then none else some .rowNotFound)
  | .release n =>
    match s.txn with
    | none => (s, some .noTxn)
    | some t =>
      match findSave t.saves n with
      | none => (s, some .noSavepoint)
      | some j => ({ s with txn := some { t with saves := t.saves.eraseIdx j } }, none)

def run (s : TState) : List Op → TState
  | [] => s
  | op :: ops => run (step s op).1 ops

end VibeProof.TSM
