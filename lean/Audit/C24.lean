import VibeProof.Props.C24
#print axioms VibeProof.C24.C24_binop_exact
#print axioms VibeProof.C24.C24_neg_exact
#print axioms VibeProof.C24.C24_abs_exact
#print axioms VibeProof.C24.C24_eval_exact
#print axioms VibeProof.C24.C24_eval_error_not_spurious
#print axioms VibeProof.C24.C24_sum_exact
#print axioms VibeProof.C24.C24_range_never_panics
#print axioms VibeProof.C24.C24_range_guard_needed
#print axioms VibeProof.C24.C24_range_guard_needed_null
#print axioms VibeProof.C24.C24_limit_offset
#print axioms VibeProof.C24.C24_substring_in_bounds
#print axioms VibeProof.C24.C24_assign_no_wrap
#print axioms VibeProof.C24.C24_assign_rejects_out_of_range
