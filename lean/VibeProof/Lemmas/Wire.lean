import VibeProof.Model.Wire
/-
Helper lemmas for C27 (and the byte-level ones reused by C28): integer codecs, cursor
operations, `position0`, `readCString`, `readParams`.
-/
namespace VibeProof.Wire

/-! integers -/

theorem u32OfBytes_lt (a b c d : UInt8) : u32OfBytes a b c d < 4294967296 := by
  have := UInt8.toNat_lt a; have := UInt8.toNat_lt b
  have := UInt8.toNat_lt c; have := UInt8.toNat_lt d
  unfold u32OfBytes; omega

theorem i32OfBytes_range (a b c d : UInt8) :
    -2147483648 ≤ i32OfBytes a b c d ∧ i32OfBytes a b c d < 2147483648 := by
  have := u32OfBytes_lt a b c d
  unfold i32OfBytes i32OfU32
  split <;> omega

theorem be32_eq (n : Nat) : be32 n =
    [UInt8.ofNat (n / 16777216 % 256), UInt8.ofNat (n / 65536 % 256),
     UInt8.ofNat (n / 256 % 256), UInt8.ofNat (n % 256)] := rfl

theorem be32_length (n : Nat) : (be32 n).length = 4 := rfl

theorem be32i_length (i : Int) : (be32i i).length = 4 := rfl

theorem u32OfBytes_ofNat (n : Nat) (h : n < 4294967296) :
    u32OfBytes (UInt8.ofNat (n / 16777216 % 256)) (UInt8.ofNat (n / 65536 % 256))
      (UInt8.ofNat (n / 256 % 256)) (UInt8.ofNat (n % 256)) = n := by
  unfold u32OfBytes
  simp only [UInt8.toNat_ofNat']
  omega

theorem i32OfBytes_ofNat (n : Nat) (h : n < 2147483648) :
    i32OfBytes (UInt8.ofNat (n / 16777216 % 256)) (UInt8.ofNat (n / 65536 % 256))
      (UInt8.ofNat (n / 256 % 256)) (UInt8.ofNat (n % 256)) = (n : Int) := by
  unfold i32OfBytes
  rw [u32OfBytes_ofNat n (by omega)]
  unfold i32OfU32
  simp [h]

/-- the four bytes written by `put_i32 v` read back as `v` -/
theorem i32OfBytes_be32i (v : Int) (h1 : -2147483648 ≤ v) (h2 : v < 2147483648) :
    ∃ a b c d, be32i v = [a, b, c, d] ∧ i32OfBytes a b c d = v := by
  refine ⟨_, _, _, _, rfl, ?_⟩
  unfold i32OfBytes
  have hlt : (v % 4294967296).toNat < 4294967296 := by omega
  rw [u32OfBytes_ofNat _ hlt]
  unfold i32OfU32
  split <;> omega

theorem usizeOfI32_nonneg (i : Int) (h : 0 ≤ i) : usizeOfI32 i = i.toNat := by
  unfold usizeOfI32
  split
  · omega
  · rfl

/-! `position0` -/

theorem position0_some {b : Bytes} {p : Nat} (h : position0 b = some p) :
    ∃ s r, b = s ++ 0 :: r ∧ s.length = p ∧ nulFree s = true := by
  induction b generalizing p with
  | nil => simp [position0] at h
  | cons x xs ih =>
    unfold position0 at h
    by_cases hx : x = 0
    · simp [hx] at h
      subst h
      exact ⟨[], xs, by simp [hx], rfl, rfl⟩
    · simp [hx] at h
      obtain ⟨q, hq, rfl⟩ := h
      obtain ⟨s, r, hb, hl, hn⟩ := ih hq
      refine ⟨x :: s, r, by simp [hb], by simp [hl], ?_⟩
      simp [nulFree] at hn ⊢
      exact ⟨hx, hn⟩

theorem position0_append {s : Bytes} (r : Bytes) (h : nulFree s = true) :
    position0 (s ++ 0 :: r) = some s.length := by
  induction s with
  | nil => simp [position0]
  | cons x xs ih =>
    simp [nulFree] at h
    have ih' := ih (by simp [nulFree]; exact h.2)
    simp [position0, h.1, ih']

/-! `readCString` -/

/-- `read_cstring` in closed form: it never panics (the split and the advance are always in
    bounds), it fails exactly when there is no NUL or the bytes before it are not UTF-8 -/
theorem readCString_eq (b : Bytes) :
    readCString b =
      match position0 b with
      | none => .error (.err .invalidString)
      | some p =>
        if utf8Valid (b.take p) then .ok (b.take p, b.drop (p + 1))
        else .error (.err .invalidString) := by
  unfold readCString
  cases hp : position0 b with
  | none => rfl
  | some p =>
    obtain ⟨s, r, hb, hl, _⟩ := position0_some hp
    have hple : p ≤ b.length := by subst hb; simp; omega
    have hdrop : b.drop p = 0 :: r := by subst hb; exact List.drop_left' hl
    have h1 : 1 ≤ (b.drop p).length := by rw [hdrop]; simp
    simp only [splitTo, advance, hple, h1, if_true, List.drop_drop]

theorem readCString_no_panic (b : Bytes) (k : PanicKind) :
    readCString b ≠ .error (.panic k) := by
  rw [readCString_eq]
  cases position0 b with
  | none => simp
  | some p => dsimp only; split <;> simp

theorem readCString_ok {b s r : Bytes} (h : readCString b = .ok (s, r)) :
    b = s ++ 0 :: r ∧ utf8Valid s = true ∧ nulFree s = true := by
  rw [readCString_eq] at h
  cases hp : position0 b with
  | none => simp [hp] at h
  | some p =>
    obtain ⟨s', r', hb, hl, hn⟩ := position0_some hp
    simp only [hp] at h
    split at h
    · rename_i hv
      simp only [Except.ok.injEq, Prod.mk.injEq] at h
      have ht : b.take p = s' := by subst hb; exact List.take_left' hl
      have hd : b.drop (p + 1) = r' := by
        subst hb
        rw [show p + 1 = (s' ++ [0]).length by simp [hl]]
        rw [show s' ++ 0 :: r' = (s' ++ [0]) ++ r' by simp]
        exact List.drop_left' rfl
      rw [ht] at h hv
      rw [hd] at h
      obtain ⟨rfl, rfl⟩ := h
      exact ⟨hb, hv, hn⟩
    · simp at h

theorem readCString_append {s : Bytes} (r : Bytes) (h : wfStr s = true) :
    readCString (s ++ 0 :: r) = .ok (s, r) := by
  simp [wfStr] at h
  rw [readCString_eq, position0_append r h.1]
  have ht : (s ++ 0 :: r).take s.length = s := List.take_left' rfl
  have hd : (s ++ 0 :: r).drop (s.length + 1) = r := by
    rw [show s.length + 1 = (s ++ [0]).length by simp]
    rw [show s ++ 0 :: r = (s ++ [0]) ++ r by simp]
    exact List.drop_left' rfl
  simp only [ht, hd, h.2, if_true]

/-! `readParams` -/

theorem readParams_no_panic (fuel : Nat) (frame : Bytes) (acc : List (Bytes × Bytes))
    (hf : frame.length < fuel) (k : PanicKind) :
    readParams fuel frame acc ≠ .error (.panic k) := by
  induction fuel generalizing frame acc with
  | zero => omega
  | succ n ih =>
    unfold readParams
    cases h1 : readCString frame with
    | error s =>
      intro h
      simp only [Except.error.injEq] at h
      subst h
      exact readCString_no_panic frame k h1
    | ok kr =>
      obtain ⟨key, f1⟩ := kr
      obtain ⟨hb1, _, _⟩ := readCString_ok h1
      dsimp only
      split
      · simp
      · cases h2 : readCString f1 with
        | error s =>
          intro h
          simp only [Except.error.injEq] at h
          subst h
          exact readCString_no_panic f1 k h2
        | ok vr =>
          obtain ⟨v, f2⟩ := vr
          obtain ⟨hb2, _, _⟩ := readCString_ok h2
          dsimp only
          apply ih
          subst hb1 hb2
          simp at hf ⊢
          omega

theorem insertParam_fresh (acc : List (Bytes × Bytes)) (k v : Bytes) (h : k ∉ keysOf acc) :
    insertParam acc k v = acc ++ [(k, v)] := by
  induction acc with
  | nil => rfl
  | cons a as ih =>
    obtain ⟨k', v'⟩ := a
    simp [keysOf] at h
    have hne : ¬ k' = k := fun e => h.1 e.symm
    simp only [insertParam, hne, if_false, List.cons_append]
    rw [ih (by simp [keysOf]; exact h.2)]

theorem encodeParams_length_pos (k v : Bytes) (ps : List (Bytes × Bytes)) :
    (encodeParams ((k, v) :: ps)).length = k.length + 1 + (v.length + 1 + (encodeParams ps).length) := by
  simp [encodeParams, cstr]; omega

/-- reading back the parameter block a client wrote -/
theorem readParams_encode (ps : List (Bytes × Bytes)) :
    ∀ (fuel : Nat) (acc : List (Bytes × Bytes)) (r : Bytes),
      wfParams ps → (∀ k, k ∈ keysOf ps → k ∉ keysOf acc) →
      (encodeParams ps).length < fuel →
      readParams fuel (encodeParams ps ++ 0 :: r) acc = .ok (acc ++ ps) := by
  induction ps with
  | nil =>
    intro fuel acc r _ _ hf
    cases fuel with
    | zero => omega
    | succ n =>
      have : readCString (([] : Bytes) ++ 0 :: r) = .ok ([], r) := readCString_append r (by decide)
      simp only [List.nil_append] at this
      simp [readParams, encodeParams, this]
  | cons kv ps ih =>
    obtain ⟨k, v⟩ := kv
    intro fuel acc r hwf hfresh hf
    obtain ⟨hk, hkne, hv, hknot, hrest⟩ := hwf
    cases fuel with
    | zero => omega
    | succ n =>
      unfold readParams
      have e1 : encodeParams ((k, v) :: ps) ++ 0 :: r =
          k ++ 0 :: (v ++ 0 :: (encodeParams ps ++ 0 :: r)) := by
        simp [encodeParams, cstr]
      rw [e1, readCString_append _ hk]
      dsimp only
      have hke : k.isEmpty = false := by
        cases k with
        | nil => exact absurd rfl hkne
        | cons _ _ => rfl
      simp only [hke, Bool.false_eq_true, if_false]
      rw [readCString_append _ hv]
      dsimp only
      have hkacc : k ∉ keysOf acc := hfresh k (by simp [keysOf])
      rw [insertParam_fresh acc k v hkacc]
      rw [ih n (acc ++ [(k, v)]) r hrest]
      · simp
      · intro k' hk' hmem
        simp only [keysOf, List.map_append, List.map_cons, List.map_nil, List.mem_append,
          List.mem_singleton] at hmem
        rcases hmem with hmem | hmem
        · exact hfresh k' (by simp only [keysOf, List.map_cons, List.mem_cons]; exact Or.inr hk') hmem
        · subst hmem; exact hknot hk'
      · rw [encodeParams_length_pos] at hf; omega

/-! closed forms of the two decoders: all cursor operations are in bounds once the length field
    has been validated, so what is left is the length test and the body parser -/

theorem decode_closed (ty b1 b2 b3 b4 : UInt8) (tl : Bytes) :
    decode (ty :: b1 :: b2 :: b3 :: b4 :: tl) =
      if i32OfBytes b1 b2 b3 b4 < 4 then .error .messageTooShort (ty :: b1 :: b2 :: b3 :: b4 :: tl)
      else if tl.length + 4 < (i32OfBytes b1 b2 b3 b4).toNat then .needMore
      else decodeBody ty (tl.take ((i32OfBytes b1 b2 b3 b4).toNat - 4))
             (tl.drop ((i32OfBytes b1 b2 b3 b4).toNat - 4)) := by
  have hr := i32OfBytes_range b1 b2 b3 b4
  unfold decode
  dsimp only
  generalize i32OfBytes b1 b2 b3 b4 = L at hr ⊢
  by_cases h4 : L < 4
  · simp [h4]
  · simp only [h4, if_false]
    rw [usizeOfI32_nonneg L (by omega)]
    obtain ⟨m, hm⟩ : ∃ m, L.toNat = m + 4 := ⟨L.toNat - 4, by omega⟩
    have hadd : checkedAddUsize 1 (m + 4) = some (1 + (m + 4)) := by
      unfold checkedAddUsize; rw [if_pos (by omega)]
    rw [hm, hadd]
    dsimp only
    by_cases hlen : tl.length + 4 < m + 4
    · have : (ty :: b1 :: b2 :: b3 :: b4 :: tl).length < 1 + (m + 4) := by simp; omega
      rw [if_pos this, if_pos (by omega)]
    · have : ¬ (ty :: b1 :: b2 :: b3 :: b4 :: tl).length < 1 + (m + 4) := by simp; omega
      rw [if_neg this, if_neg (by omega)]
      have hsp : m + 4 ≤ (b1 :: b2 :: b3 :: b4 :: tl).length := by simp; omega
      have h1 : 1 ≤ (ty :: b1 :: b2 :: b3 :: b4 :: tl).length := by simp
      simp only [advance, h1, if_true, List.drop_succ_cons, List.drop_zero, splitTo, hsp]
      have ht : List.take (m + 4) (b1 :: b2 :: b3 :: b4 :: tl) = b1 :: b2 :: b3 :: b4 :: List.take m tl := rfl
      rw [ht]
      have h4' : 4 ≤ (b1 :: b2 :: b3 :: b4 :: List.take m tl).length := by simp
      rw [if_pos h4']
      simp

theorem decodeStartup_closed (b0 b1 b2 b3 : UInt8) (tl : Bytes) :
    decodeStartup (b0 :: b1 :: b2 :: b3 :: tl) =
      if i32OfBytes b0 b1 b2 b3 < 8 then .error .messageTooShort (b0 :: b1 :: b2 :: b3 :: tl)
      else if tl.length + 4 < (i32OfBytes b0 b1 b2 b3).toNat then .needMore
      else startupBody (tl.take ((i32OfBytes b0 b1 b2 b3).toNat - 4))
             (tl.drop ((i32OfBytes b0 b1 b2 b3).toNat - 4)) := by
  have hr := i32OfBytes_range b0 b1 b2 b3
  unfold decodeStartup
  dsimp only
  generalize i32OfBytes b0 b1 b2 b3 = L at hr ⊢
  by_cases h8 : L < 8
  · simp [h8]
  · simp only [h8, if_false]
    rw [usizeOfI32_nonneg L (by omega)]
    obtain ⟨m, hm⟩ : ∃ m, L.toNat = m + 4 := ⟨L.toNat - 4, by omega⟩
    rw [hm]
    by_cases hlen : tl.length + 4 < m + 4
    · have : (b0 :: b1 :: b2 :: b3 :: tl).length < m + 4 := by simp; omega
      rw [if_pos this, if_pos (by omega)]
    · have : ¬ (b0 :: b1 :: b2 :: b3 :: tl).length < m + 4 := by simp; omega
      rw [if_neg this, if_neg (by omega)]
      have hsp : m + 4 ≤ (b0 :: b1 :: b2 :: b3 :: tl).length := by simp; omega
      simp only [splitTo, hsp, if_true]
      have ht : List.take (m + 4) (b0 :: b1 :: b2 :: b3 :: tl) = b0 :: b1 :: b2 :: b3 :: List.take m tl := rfl
      rw [ht]
      have h4' : 4 ≤ (b0 :: b1 :: b2 :: b3 :: List.take m tl).length := by simp
      simp only [advance, h4', if_true]
      simp

theorem decode_short (b : Bytes) (h : b.length < 5) : decode b = .needMore := by
  match b, h with
  | [], _ => rfl
  | [_], _ => rfl
  | [_, _], _ => rfl
  | [_, _, _], _ => rfl
  | [_, _, _, _], _ => rfl
  | _ :: _ :: _ :: _ :: _ :: _, h => simp at h; omega

theorem decodeStartup_short (b : Bytes) (h : b.length < 4) : decodeStartup b = .needMore := by
  match b, h with
  | [], _ => rfl
  | [_], _ => rfl
  | [_, _], _ => rfl
  | [_, _, _], _ => rfl
  | _ :: _ :: _ :: _ :: _, h => simp at h; omega

/-- the body parser returns a message or an error, never panics, and leaves `rest` alone -/
theorem decodeBody_cases (ty : UInt8) (body rest : Bytes) :
    (∃ m, decodeBody ty body rest = .msg m rest) ∨ (∃ e, decodeBody ty body rest = .error e rest) := by
  unfold decodeBody
  have hcs : ∀ (f : Bytes → FrontendMsg),
      (∃ m, (match readCString body with
          | .error s => s.toOutcome rest
          | .ok (q, _) => Outcome.msg (f q) rest) = .msg m rest) ∨
      (∃ e, (match readCString body with
          | .error s => s.toOutcome rest
          | .ok (q, _) => Outcome.msg (f q) rest) = .error e rest) := by
    intro f
    cases h : readCString body with
    | error s =>
      cases s with
      | panic k => exact absurd h (readCString_no_panic body k)
      | err e => exact Or.inr ⟨e, rfl⟩
    | ok qr => exact Or.inl ⟨f qr.1, rfl⟩
  split
  · exact hcs .query
  · split
    · exact hcs .password
    · split
      · exact Or.inl ⟨_, rfl⟩
      · exact Or.inr ⟨_, rfl⟩

theorem startupBody_cases (f1 rest : Bytes) (h : 4 ≤ f1.length) :
    (∃ m, startupBody f1 rest = .msg m rest) ∨ (∃ e, startupBody f1 rest = .error e rest) := by
  match f1, h with
  | a :: b :: c :: d :: f2, _ =>
    unfold startupBody
    simp only [getI32]
    split
    · exact Or.inl ⟨_, rfl⟩
    · cases hp : readParams (f2.length + 1) f2 [] with
      | error s =>
        cases s with
        | panic k => exact absurd hp (readParams_no_panic _ _ _ (by omega) k)
        | err e => exact Or.inr ⟨e, rfl⟩
      | ok ps => exact Or.inl ⟨_, rfl⟩
  | [], h => simp at h
  | [_], h => simp at h
  | [_, _], h => simp at h
  | [_, _, _], h => simp at h

/-! small list facts kept as separate lemmas (so that the kernel checks them on small goals) -/

theorem five_cons {α : Type} (b : List α) (h : ¬ b.length < 5) :
    ∃ a0 a1 a2 a3 a4 tl, b = a0 :: a1 :: a2 :: a3 :: a4 :: tl := by
  rcases b with _ | ⟨a0, _ | ⟨a1, _ | ⟨a2, _ | ⟨a3, _ | ⟨a4, tl⟩⟩⟩⟩⟩
  all_goals first | exact ⟨_, _, _, _, _, _, rfl⟩ | (exfalso; apply h; simp)

theorem four_cons {α : Type} (b : List α) (h : ¬ b.length < 4) :
    ∃ a0 a1 a2 a3 tl, b = a0 :: a1 :: a2 :: a3 :: tl := by
  rcases b with _ | ⟨a0, _ | ⟨a1, _ | ⟨a2, _ | ⟨a3, tl⟩⟩⟩⟩
  all_goals first | exact ⟨_, _, _, _, _, rfl⟩ | (exfalso; apply h; simp)

theorem split_eq5 (x0 x1 x2 x3 x4 : UInt8) (tl : Bytes) (n : Nat) :
    x0 :: x1 :: x2 :: x3 :: x4 :: tl =
      (x0 :: x1 :: x2 :: x3 :: x4 :: List.take n tl) ++ List.drop n tl := by
  simp

theorem split_eq4 (x0 x1 x2 x3 : UInt8) (tl : Bytes) (n : Nat) :
    x0 :: x1 :: x2 :: x3 :: tl = (x0 :: x1 :: x2 :: x3 :: List.take n tl) ++ List.drop n tl := by
  simp

theorem frame_len5 (x0 x1 x2 x3 x4 : UInt8) (tl : Bytes) (L : Int) (h4 : 4 ≤ L)
    (hl : ¬ tl.length + 4 < L.toNat) :
    ((x0 :: x1 :: x2 :: x3 :: x4 :: List.take (L.toNat - 4) tl).length : Int) = 1 + L := by
  have : (List.take (L.toNat - 4) tl).length = L.toNat - 4 := by
    rw [List.length_take]; omega
  simp only [List.length_cons, this]
  omega

theorem frame_len4 (x0 x1 x2 x3 : UInt8) (tl : Bytes) (L : Int) (h4 : 4 ≤ L)
    (hl : ¬ tl.length + 4 < L.toNat) :
    ((x0 :: x1 :: x2 :: x3 :: List.take (L.toNat - 4) tl).length : Int) = L := by
  have : (List.take (L.toNat - 4) tl).length = L.toNat - 4 := by
    rw [List.length_take]; omega
  simp only [List.length_cons, this]
  omega

theorem take_len_ge4 (tl : Bytes) (L : Int) (h8 : 8 ≤ L) (hl : ¬ tl.length + 4 < L.toNat) :
    4 ≤ (List.take (L.toNat - 4) tl).length := by
  rw [List.length_take]; omega

theorem declaredLen_cons (ty b1 b2 b3 b4 : UInt8) (tl : Bytes) :
    declaredLen (ty :: b1 :: b2 :: b3 :: b4 :: tl) = some (i32OfBytes b1 b2 b3 b4) := rfl

theorem declaredLenStartup_cons (b0 b1 b2 b3 : UInt8) (tl : Bytes) :
    declaredLenStartup (b0 :: b1 :: b2 :: b3 :: tl) = some (i32OfBytes b0 b1 b2 b3) := rfl

end VibeProof.Wire
