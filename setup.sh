#!/bin/sh
# MANIFEST.setup_cmd: build the framework offline from files on disk.
set -e
cd "$(dirname "$0")"
export CARGO_NET_OFFLINE=true
cp /repo/Cargo.lock harness/Cargo.lock
python3 tools/extract_consts.py
(cd harness && cargo build --offline --quiet --bins)
(cd lean && lake build VibeProof $(grep -o "drv_c[0-9]*" lakefile.toml | sort -u))
echo "setup done"
