import VibeProof.Model.Value
/-
Trigger selection and the firing schedule of the three DML executors (C34), as coded in

  vibesql-catalog   store/advanced/triggers.rs  get_triggers_for_table
  vibesql-executor  trigger_execution.rs        RecursionGuard, find_triggers, should_fire_update_of,
                                                execute_trigger, evaluate_when_condition,
                                                execute_{before,after}[_statement]_triggers
                    insert/execution.rs         execute_insert_internal
                    update/mod.rs               UpdateExecutor::execute_internal
                    delete/executor.rs          DeleteExecutor::execute_internal

(after the repairs recorded in notes/C34.md: an `UPDATE OF` trigger is found by the lookup for an
UPDATE; `INSERT … SELECT * FROM s` is not bulk-transferred into a table with INSERT triggers).

One table `T` carries data and triggers; the audit table `A` has no triggers and one CHECK
constraint (`Cfg.bad`); a trigger body is a list of statements, each either
`INSERT INTO A VALUES (<tid>, OLD.*, NEW.*)` (`Action.audit`) or a DML statement on `T` built
from OLD / NEW (`Action.nested`).  `St.log` is the content of `A` in storage order.

The thread-local depth counter is modelled by fuel: `exec cfg fuel` runs a statement when
`MAX_TRIGGER_RECURSION_DEPTH - TRIGGER_RECURSION_DEPTH = fuel`; `RecursionGuard::new` fails iff
the fuel is 0 and everything under the guard runs with one unit less.  The triggers of the
catalog live in a `HashMap`; `Cfg.trigs` is that map in its iteration order (an input: the
theorems hold for every order, the harness reads the order from the catalog).
-/
namespace VibeProof.Trigger
open VibeProof

inductive Timing where
  | before | after | insteadOf
  deriving DecidableEq, Repr, Inhabited

/-- `TriggerEvent`; columns of `UPDATE OF` are positions in the table schema (a name that is not
a column of the table is a position `≥` the row length: the code skips it the same way) -/
inductive Event where
  | insert
  | update (cols : Option (List Nat))
  | delete
  deriving DecidableEq, Repr, Inhabited

inductive Gran where
  | row | stmt
  deriving DecidableEq, Repr, Inhabited

inductive TErr where
  /-- "Trigger recursion depth limit exceeded" -/
  | recursion
  /-- `ConstraintViolation`: CHECK of `A` (trigger body) or of `T` (the statement's own rows) -/
  | constraint
  /-- "OLD / NEW pseudo-variable not available in this trigger context" -/
  | pseudo
  /-- "WHEN condition requires a row context" (statement-level trigger with WHEN) -/
  | whenNoRow
  /-- "WHEN condition must evaluate to boolean" -/
  | whenType
  /-- `StorageError`: `update_row_selective` on a position that no longer exists -/
  | storage
  | other
  deriving DecidableEq, Repr, Inhabited

inductive Out where
  | ok (n : Nat)
  | err (e : TErr)
  deriving DecidableEq, Repr, Inhabited

/-- one row of the audit table: `(tid, OLD image, NEW image)` -/
structure Entry where
  tid : Nat
  old : Option Row
  new : Option Row
  deriving DecidableEq, Repr, Inhabited

structure St where
  rows : List Row
  log : List Entry
  deriving DecidableEq, Repr, Inhabited

inductive Stmt where
  /-- `INSERT INTO T VALUES …` (rows already evaluated) -/
  | insert (rows : List Row)
  /-- `UPDATE T SET … WHERE …`: selection and assignment as functions of the row -/
  | update (sel : Row → Bool) (f : Row → Row)
  /-- `DELETE FROM T [WHERE …]`; `none` = no WHERE clause -/
  | delete (sel : Option (Row → Bool))
  /-- `INSERT INTO A VALUES (tid, OLD.*, NEW.*)` -/
  | audit (e : Entry)

/-! ### WHEN conditions -/

inductive Src where
  | base | old | new
  deriving DecidableEq, Repr, Inhabited

inductive Cmp where
  | eq | ne | lt | le | gt | ge
  deriving DecidableEq, Repr, Inhabited

/-! ### expressions of trigger bodies and WHEN clauses over OLD / NEW / the base row -/

inductive TBin where
  | add | sub
  | eq | ne | lt | le | gt | ge
  | and | or
  deriving DecidableEq, Repr, Inhabited

/-- `ColumnRef` (`col .base c`), `PseudoVariable` (`col .old c`, `col .new c`), literals, `+ -`,
comparisons, `AND` / `OR`, searched `CASE WHEN c THEN t ELSE e END`, `COALESCE(a, b)` -/
inductive TExpr where
  | lit (v : Value)
  | col (s : Src) (c : Nat)
  | bin (op : TBin) (a b : TExpr)
  | ite (c t e : TExpr)
  | coalesce (a b : TExpr)
  deriving DecidableEq, Repr, Inhabited

/-- how a column reference resolves: by its tag (base row / OLD / NEW) and its position -/
abbrev Env := Src → Nat → Except TErr Value

def tbinV (op : TBin) (a b : Value) : Except TErr Value :=
  match op with
  | .add | .sub =>
    match a, b with
    | .null, _ => .ok .null
    | _, .null => .ok .null
    | .int x, .int y => .ok (.int (if op == .add then x + y else x - y))
    | _, _ => .error .other
  | .and =>
    match a, b with
    | .bool false, _ => .ok (.bool false)
    | _, .bool false => .ok (.bool false)
    | .bool true, .bool true => .ok (.bool true)
    | .null, .bool true => .ok .null
    | .bool true, .null => .ok .null
    | .null, .null => .ok .null
    | _, _ => .error .other
  | .or =>
    match a, b with
    | .bool true, _ => .ok (.bool true)
    | _, .bool true => .ok (.bool true)
    | .bool false, .bool false => .ok (.bool false)
    | .null, .bool false => .ok .null
    | .bool false, .null => .ok .null
    | .null, .null => .ok .null
    | _, _ => .error .other
  | _ =>
    match a, b with
    | .null, _ => .ok .null
    | _, .null => .ok .null
    | .int x, .int y =>
      .ok (.bool (match op with
        | .eq => x == y
        | .ne => x != y
        | .lt => decide (x < y)
        | .le => decide (x ≤ y)
        | .gt => decide (x > y)
        | _ => decide (x ≥ y)))
    | _, _ => .error .other

/-- evaluation: every column reference is resolved through the environment *with its tag* -/
def TExpr.evalWith (ρ : Env) : TExpr → Except TErr Value
  | .lit v => .ok v
  | .col s c => ρ s c
  | .bin op a b =>
    match a.evalWith ρ with
    | .error e => .error e
    | .ok x =>
      match b.evalWith ρ with
      | .error e => .error e
      | .ok y => tbinV op x y
  | .ite c t e =>
    match c.evalWith ρ with
    | .error er => .error er
    | .ok (.bool true) => t.evalWith ρ
    | .ok _ => e.evalWith ρ
  | .coalesce a b =>
    match a.evalWith ρ with
    | .error e => .error e
    | .ok .null => b.evalWith ρ
    | .ok v => .ok v

/-- replace every column reference the environment resolves by its value -/
def TExpr.subst (ρ : Env) : TExpr → TExpr
  | .lit v => .lit v
  | .col s c =>
    match ρ s c with
    | .ok v => .lit v
    | .error _ => .col s c
  | .bin op a b => .bin op (a.subst ρ) (b.subst ρ)
  | .ite c t e => .ite (c.subst ρ) (t.subst ρ) (e.subst ρ)
  | .coalesce a b => .coalesce (a.subst ρ) (b.subst ρ)

/-- the WHEN expressions used: `<src>.Cc <op> k` and the bare column `<src>.Cc` (not boolean) -/
inductive WExpr where
  | cmp (s : Src) (c : Nat) (op : Cmp) (k : Int)
  | raw (s : Src) (c : Nat)
  /-- a general expression over the base row, OLD and NEW -/
  | expr (e : TExpr)
  deriving DecidableEq, Repr, Inhabited

def Cmp.holds (op : Cmp) (a b : Int) : Bool :=
  match op with
  | .eq => a == b
  | .ne => a != b
  | .lt => decide (a < b)
  | .le => decide (a ≤ b)
  | .gt => decide (a > b)
  | .ge => decide (a ≥ b)

/-- a plain column reference reads the base row, `OLD.c` / `NEW.c` go through
`TriggerContext::resolve_pseudo_var` -/
def fetch (s : Src) (c : Nat) (old new : Option Row) (base : Row) : Except TErr Value :=
  let row : Except TErr Row :=
    match s with
    | .base => .ok base
    | .old => match old with
      | some r => .ok r
      | none => .error .pseudo
    | .new => match new with
      | some r => .ok r
      | none => .error .pseudo
  match row with
  | .error e => .error e
  | .ok r =>
    match r[c]? with
    | some v => .ok v
    | none => .error .other

/-- the environment of a trigger firing: OLD and NEW as handed to the trigger; plain column
references read `base` (the NEW-else-OLD row for WHEN, the scanned row inside a body statement,
nothing in an INSERT … VALUES item) -/
def envOf (old new base : Option Row) : Env := fun s c =>
  match s, base with
  | .base, none => .error .other
  | .base, some b => fetch .base c old new b
  | s, _ => fetch s c old new []

/-- `evaluate_when_condition`: base row = NEW, else OLD, else an error; `Boolean(b)` → `b`,
`Null` → false, anything else is an error -/
def evalWhen (w : WExpr) (old new : Option Row) : Except TErr Bool :=
  match (match new with | some r => some r | none => old) with
  | none => .error .whenNoRow
  | some base =>
    match w with
    | .cmp s c op k =>
      match fetch s c old new base with
      | .error e => .error e
      | .ok .null => .ok false
      | .ok (.int i) => .ok (op.holds i k)
      | .ok _ => .error .other
    | .raw s c =>
      match fetch s c old new base with
      | .error e => .error e
      | .ok .null => .ok false
      | .ok (.bool b) => .ok b
      | .ok _ => .error .whenType
    | .expr e =>
      match e.evalWith (envOf old new (some base)) with
      | .error er => .error er
      | .ok .null => .ok false
      | .ok (.bool b) => .ok b
      | .ok _ => .error .whenType

/-! ### triggers -/

/-- one statement of a trigger body -/
inductive Action where
  /-- `INSERT INTO A VALUES (tid, OLD.* | NULLs, NEW.* | NULLs)` -/
  | audit (useOld useNew : Bool)
  /-- a DML statement on `T` built from OLD / NEW (`.error` = it mentions an unavailable image) -/
  | nested (mk : Option Row → Option Row → Except TErr Stmt)

structure Trig where
  tid : Nat
  /-- table the trigger is defined on (0 = `T`) -/
  table : Nat
  timing : Timing
  event : Event
  gran : Gran
  enabled : Bool
  when : Option WExpr
  body : List Action

structure Cfg where
  /-- `catalog.triggers` in iteration order -/
  trigs : List Trig
  /-- CHECK constraint of the audit table, negated -/
  bad : Entry → Bool
  /-- CHECK constraint of `T` -/
  rowOk : Row → Bool

/-- the table every statement of the model targets -/
def tblT : Nat := 0

/-- `get_triggers_for_table`'s event test: an UPDATE asks with `Update(None)` and finds every
UPDATE trigger, with or without column list; otherwise equality -/
def eventMatches (defined requested : Event) : Bool :=
  match defined, requested with
  | .update _, .update none => true
  | d, r => d == r

/-- `get_triggers_for_table(table, Some(event))` (enabled or not, any timing) -/
def triggersFor (cfg : Cfg) (tbl : Nat) (ev : Event) : List Trig :=
  cfg.trigs.filter (fun t => t.table == tbl && eventMatches t.event ev)

/-- `TriggerFirer::find_triggers` -/
def findTriggers (cfg : Cfg) (tbl : Nat) (tm : Timing) (ev : Event) : List Trig :=
  (triggersFor cfg tbl ev).filter (fun t => t.timing == tm && t.enabled)

/-- `has_insert_triggers` / `has_delete_triggers` -/
def hasTriggers (cfg : Cfg) (ev : Event) : Bool := !(triggersFor cfg tblT ev).isEmpty

/-- `should_fire_update_of`: an `UPDATE OF` trigger fires iff one of its columns changed value -/
def shouldFireUpdateOf (t : Trig) (old new : Row) : Bool :=
  match t.event with
  | .update (some cols) =>
    cols.any (fun c =>
      match old[c]?, new[c]? with
      | some a, some b => a != b
      | _, _ => false)
  | _ => true

abbrev Nested := St → Stmt → St × Out

def Action.toStmt (tid : Nat) (old new : Option Row) : Action → Except TErr Stmt
  | .audit uo un =>
    if (uo && old.isNone) || (un && new.isNone) then .error .pseudo
    else .ok (.audit { tid := tid, old := if uo then old else none, new := if un then new else none })
  | .nested mk => mk old new

/-- `execute_trigger_action`: the statements of the body in order, stopping at the first error
(what the earlier ones did stays) -/
def runActions (nested : Nested) (tid : Nat) (old new : Option Row) :
    List Action → St → St × Except TErr Unit
  | [], st => (st, .ok ())
  | a :: as, st =>
    match a.toStmt tid old new with
    | .error e => (st, .error e)
    | .ok s =>
      match nested st s with
      | (st', .err e) => (st', .error e)
      | (st', .ok _) => runActions nested tid old new as st'

/-- `execute_trigger`: WHEN gate, then the body -/
def execTrigger (nested : Nested) (t : Trig) (old new : Option Row) (st : St) :
    St × Except TErr Unit :=
  match t.when with
  | none => runActions nested t.tid old new t.body st
  | some w =>
    match evalWhen w old new with
    | .error e => (st, .error e)
    | .ok false => (st, .ok ())
    | .ok true => runActions nested t.tid old new t.body st

/-- loop of `execute_before_triggers` / `execute_after_triggers` over the found triggers -/
def fireRowLoop (nested : Nested) (old new : Option Row) : List Trig → St → St × Except TErr Unit
  | [], st => (st, .ok ())
  | t :: ts, st =>
    if t.gran == .row then
      let skip :=
        match old, new with
        | some o, some n => !shouldFireUpdateOf t o n
        | _, _ => false
      if skip then fireRowLoop nested old new ts st
      else
        match execTrigger nested t old new st with
        | (st', .error e) => (st', .error e)
        | (st', .ok ()) => fireRowLoop nested old new ts st'
    else fireRowLoop nested old new ts st

/-- loop of `execute_{before,after}_statement_triggers` -/
def fireStmtLoop (nested : Nested) : List Trig → St → St × Except TErr Unit
  | [], st => (st, .ok ())
  | t :: ts, st =>
    if t.gran == .stmt then
      match execTrigger nested t none none st with
      | (st', .error e) => (st', .error e)
      | (st', .ok ()) => fireStmtLoop nested ts st'
    else fireStmtLoop nested ts st

/-- `env = none`: the depth limit is reached, `RecursionGuard::new` fails (before the lookup,
so also when the table has no trigger at all); `some nested`: bodies run statements by `nested` -/
def fireRow (cfg : Cfg) (env : Option Nested) (tm : Timing) (ev : Event) (old new : Option Row)
    (st : St) : St × Except TErr Unit :=
  match env with
  | none => (st, .error .recursion)
  | some nested => fireRowLoop nested old new (findTriggers cfg tblT tm ev) st

def fireStmt (cfg : Cfg) (env : Option Nested) (tm : Timing) (ev : Event) (st : St) :
    St × Except TErr Unit :=
  match env with
  | none => (st, .error .recursion)
  | some nested => fireStmtLoop nested (findTriggers cfg tblT tm ev) st

/-- statement triggers fire only for a statement that is not itself part of a trigger body -/
def fireStmtIfTop (cfg : Cfg) (env : Option Nested) (top : Bool) (tm : Timing) (ev : Event)
    (st : St) : St × Except TErr Unit :=
  if top then fireStmt cfg env tm ev st else (st, .ok ())

/-! ### INSERT -/

/-- slow path of `execute_insert_internal`: per row BEFORE triggers, insert, AFTER triggers; a
failing AFTER trigger removes the row at the position it was inserted at, nothing else -/
def insertLoop (cfg : Cfg) (env : Option Nested) : List Row → St → Nat → St × Out
  | [], st, n => (st, .ok n)
  | r :: rs, st, n =>
    match fireRow cfg env .before .insert none (some r) st with
    | (st1, .error e) => (st1, .err e)
    | (st1, .ok ()) =>
      let before := st1.rows.length
      let st2 : St := { st1 with rows := st1.rows ++ [r] }
      match fireRow cfg env .after .insert none (some r) st2 with
      | (st3, .error e) => ({ st3 with rows := st3.rows.eraseIdx before }, .err e)
      | (st3, .ok ()) => insertLoop cfg env rs st3 (n + 1)

def execInsert (cfg : Cfg) (env : Option Nested) (top : Bool) (st : St) (rows : List Row) :
    St × Out :=
  if !rows.all cfg.rowOk then (st, .err .constraint)
  else
    match fireStmtIfTop cfg env top .before .insert st with
    | (st1, .error e) => (st1, .err e)
    | (st1, .ok ()) =>
      let r : St × Out :=
        if !hasTriggers cfg .insert && decide (rows.length > 1) then
          ({ st1 with rows := st1.rows ++ rows }, .ok rows.length)   -- insert_rows_batch
        else insertLoop cfg env rows st1 0
      match r with
      | (st2, .err e) => (st2, .err e)
      | (st2, .ok n) =>
        match fireStmtIfTop cfg env top .after .insert st2 with
        | (st3, .error e) => (st3, .err e)
        | (st3, .ok ()) => (st3, .ok n)

/-! ### UPDATE -/

/-- candidate rows with their positions (`RowSelector::select_rows`) -/
def selectIdx (sel : Row → Bool) : List Row → Nat → List (Nat × Row)
  | [], _ => []
  | r :: rs, i => if sel r then (i, r) :: selectIdx sel rs (i + 1) else selectIdx sel rs (i + 1)

/-- all BEFORE (or all AFTER) row triggers of an UPDATE, row by row -/
def fireUpdLoop (cfg : Cfg) (env : Option Nested) (tm : Timing) :
    List (Nat × Row × Row) → St → St × Except TErr Unit
  | [], st => (st, .ok ())
  | (_, o, n) :: us, st =>
    match fireRow cfg env tm (.update none) (some o) (some n) st with
    | (st', .error e) => (st', .error e)
    | (st', .ok ()) => fireUpdLoop cfg env tm us st'

/-- step 8: `update_row_selective` at the positions computed before the BEFORE triggers ran; a
position that no longer exists (a trigger body deleted rows) stops the loop with a storage
error, the rows written so far stay written -/
def applyUpdates : List (Nat × Row × Row) → List Row → List Row × Option TErr
  | [], rows => (rows, none)
  | (i, _, n) :: us, rows =>
    if i < rows.length then applyUpdates us (rows.set i n) else (rows, some .storage)

def execUpdate (cfg : Cfg) (env : Option Nested) (top : Bool) (st : St) (sel : Row → Bool)
    (f : Row → Row) : St × Out :=
  match fireStmtIfTop cfg env top .before (.update none) st with
  | (st1, .error e) => (st1, .err e)
  | (st1, .ok ()) =>
    let ups := (selectIdx sel st1.rows 0).map (fun p => (p.1, p.2, f p.2))
    if !ups.all (fun u => cfg.rowOk u.2.2) then (st1, .err .constraint)
    else
      match fireUpdLoop cfg env .before ups st1 with
      | (st2, .error e) => (st2, .err e)
      | (st2, .ok ()) =>
        match applyUpdates ups st2.rows with
        | (rows', some e) => ({ st2 with rows := rows' }, .err e)
        | (rows', none) =>
          match fireUpdLoop cfg env .after ups { st2 with rows := rows' } with
          | (st3, .error e) => (st3, .err e)
          | (st3, .ok ()) =>
            match fireStmtIfTop cfg env top .after (.update none) st3 with
            | (st4, .error e) => (st4, .err e)
            | (st4, .ok ()) => (st4, .ok ups.length)

/-! ### DELETE -/

def fireDelLoop (cfg : Cfg) (env : Option Nested) (tm : Timing) :
    List (Nat × Row) → St → St × Except TErr Unit
  | [], st => (st, .ok ())
  | (_, o) :: ds, st =>
    match fireRow cfg env tm .delete (some o) none st with
    | (st', .error e) => (st', .error e)
    | (st', .ok ()) => fireDelLoop cfg env tm ds st'

/-- `delete_where` by position: rows whose position is in `idx` go -/
def removeIdx (idx : List Nat) : List Row → Nat → List Row
  | [], _ => []
  | r :: rs, i => if idx.contains i then removeIdx idx rs (i + 1) else r :: removeIdx idx rs (i + 1)

/-- no WHERE clause selects every row -/
def selPred (sel : Option (Row → Bool)) : Row → Bool :=
  match sel with
  | some p => p
  | none => fun _ => true

def execDelete (cfg : Cfg) (env : Option Nested) (top : Bool) (st : St)
    (sel : Option (Row → Bool)) : St × Out :=
  if sel.isNone && !hasTriggers cfg .delete then
    ({ st with rows := [] }, .ok st.rows.length)      -- truncate fast path: nothing fires
  else
    let dels := selectIdx (selPred sel) st.rows 0                 -- collected before any trigger runs
    match fireStmtIfTop cfg env top .before .delete st with
    | (st1, .error e) => (st1, .err e)
    | (st1, .ok ()) =>
      match fireDelLoop cfg env .before dels st1 with
      | (st2, .error e) => (st2, .err e)
      | (st2, .ok ()) =>
        let rows' := removeIdx (dels.map (·.1)) st2.rows 0
        let n := st2.rows.length - rows'.length
        match fireDelLoop cfg env .after dels { st2 with rows := rows' } with
        | (st3, .error e) => (st3, .err e)
        | (st3, .ok ()) =>
          match fireStmtIfTop cfg env top .after .delete st3 with
          | (st4, .error e) => (st4, .err e)
          | (st4, .ok ()) => (st4, .ok n)

/-! ### statements -/

/-- `INSERT INTO A VALUES (…)` run from a trigger body or directly: `A` has a CHECK and no
triggers; being a single-row INSERT it goes through the row-trigger calls and their guards -/
def execAudit (cfg : Cfg) (env : Option Nested) (st : St) (e : Entry) : St × Out :=
  if cfg.bad e then (st, .err .constraint)
  else
    match env with
    | none => (st, .err .recursion)
    | some _ => ({ st with log := st.log ++ [e] }, .ok 1)

def execWith (cfg : Cfg) (env : Option Nested) (top : Bool) (st : St) : Stmt → St × Out
  | .insert rows => execInsert cfg env top st rows
  | .update sel f => execUpdate cfg env top st sel f
  | .delete sel => execDelete cfg env top st sel
  | .audit e => execAudit cfg env st e

/-- a statement executed with `fuel` guard levels left; statements inside trigger bodies run
with one level less and `top = false` (`trigger_context.is_some()`) -/
def exec (cfg : Cfg) : Nat → Bool → St → Stmt → St × Out
  | 0, top, st, s => execWith cfg none top st s
  | n + 1, top, st, s => execWith cfg (some (exec cfg n false)) top st s

end VibeProof.Trigger
