import VibeProof.Props.C11
#print axioms VibeProof.C11.C11_failed_statement_unchanged_partial
#print axioms VibeProof.C11.C11_failed_statement_observe_partial
#print axioms VibeProof.C11.C11_successful_insert_applies_all_rows
#print axioms VibeProof.C11.C11_successful_update_count
#print axioms VibeProof.C11.C11_bulk_counterexample
#print axioms VibeProof.C11.C11_on_duplicate_key_counterexample
