#!/bin/sh
# MANIFEST.setup_cmd: build the framework offline from files on disk.
# Claimed properties' binaries/drivers must build; anything else is best effort (each check
# rebuilds what it needs anyway).
cd "$(dirname "$0")"
export CARGO_NET_OFFLINE=true
cp /repo/Cargo.lock harness/Cargo.lock
python3 tools/extract_consts.py
claimed=$(python3 -c "import json;print(' '.join(c['property_id'].lower() for c in json.load(open('MANIFEST.json'))['checks']))")
rc=0
(cd harness && cargo build --offline --quiet --lib) || rc=1
for c in $claimed; do
  (cd harness && cargo build --offline --quiet --bin $c) || rc=1
done
for c in $claimed; do
  C=$(echo $c | tr a-z A-Z)
  (cd lean && lake build VibeProof.Props.$C drv_$c >/dev/null 2>&1) || { echo "lake build failed for $C"; rc=1; }
done
# the C29 wire-level family starts the real server binary: warm its build (best effort)
(RUSTC_WRAPPER= CARGO_TARGET_DIR="$PWD/harness/target-server" cargo build --manifest-path /repo/Cargo.toml -p vibesql-server --offline --quiet) || echo "server warm-up build failed (C29 builds it on demand)"
echo "setup done rc=$rc"
exit $rc
