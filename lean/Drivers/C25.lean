import VibeProof.Model.Proto
import VibeProof.Model.QCache
open VibeProof VibeProof.Proto VibeProof.QCache

/-! Driver for C25 (stateless: one request = one reply).
  `sigeq HEX HEX`  → `1` / `0`          normal forms equal
  `norm HEX`       → HEX                 the normal form
  `oldeq HEX HEX`  → `1` / `0`          normal forms of the pre-repair normaliser equal
  `quoted HEX`     → HEX                 quoted text seen by the scanner
  `tables SEL`     → `(t NAME…)`         sorted, without duplicates
       SEL = `(sel FROM E E E E E (SEL…) (SEL…))`, FROM = `none` `(t NAME)` `(j FROM FROM E)` `(s SEL)`,
       E = `l` `(n E E)` `(s SEL)`
  `trace MAX OP…`  → `(r REPLY…)`        the cache state machine; keys are SQL texts (hex)
       `(get SQL)` → `(hit TAG)` / `miss`;  `(ins SQL TAG (TABLE…) VICTIMSQL|none)` → `ok` / `(evict-mismatch …)`;
       `(inv TABLE)` → `ok`;  `(has SQL)` → `1`/`0`;  `(size)` → n -/

def decText : Sx → Option (List Char)
  | .atom h => hexToChars h
  | _ => none

def decName : Sx → Option String
  | .atom h => hexToStr h
  | _ => none

mutual
  partial def decSel : Sx → Option Sel
    | .list [.atom "sel", f, sl, w, g, h, o, .list ctes, .list so] => do
      pure (.mk (← decFrom f) (← decE sl) (← decE w) (← decE g) (← decE h) (← decE o) (← decSelList ctes) (← decSelList so))
    | _ => none
  partial def decFrom : Sx → Option From
    | .atom "none" => some .none
    | .list [.atom "t", n] => (decName n).map From.table
    | .list [.atom "j", l, r, on] => do pure (.join (← decFrom l) (← decFrom r) (← decE on))
    | .list [.atom "s", q] => (decSel q).map From.sub
    | _ => none
  partial def decE : Sx → Option Expr
    | .atom "l" => some .leaf
    | .list [.atom "n", a, b] => do pure (.node (← decE a) (← decE b))
    | .list [.atom "s", q] => (decSel q).map Expr.sub
    | _ => none
  partial def decSelList : List Sx → Option SelList
    | [] => some .nil
    | x :: xs => do pure (.cons (← decSel x) (← decSelList xs))
end

def insertSorted (s : String) : List String → List String
  | [] => [s]
  | x :: xs => if s < x then s :: x :: xs else if s = x then x :: xs else x :: insertSorted s xs

def sortDedup (xs : List String) : List String := xs.foldl (fun acc s => insertSorted s acc) []

abbrev Cache := List (Entry Int)

def traceOp (max : Nat) (c : Cache) : Sx → Cache × Sx
  | .list [.atom "get", q] =>
    match decText q with
    | some t =>
      match QCache.get c (normalizeQ t) with
      | some r => (c, .list [.atom "hit", sxInt r])
      | none => (c, .atom "miss")
    | none => (c, .atom "bad-request")
  | .list [.atom "ins", q, tag, .list tabs, victim] =>
    match decText q, tag.int?, tabs.mapM decName with
    | some t, some r, some tabs =>
      let e : Entry Int := ⟨normalizeQ t, r, tabs⟩
      let needs := c.length ≥ max && c.length > 0
      match victim with
      | .atom "none" =>
        if needs then (c, .list [.atom "evict-mismatch", .atom "model-evicts"])
        else (QCache.insert max 0 c e, .atom "ok")
      | v =>
        match decText v with
        | some vt =>
          match c.findIdx? (fun x => x.sig == normalizeQ vt) with
          | some i =>
            if needs then (QCache.insert max i c e, .atom "ok")
            else (c, .list [.atom "evict-mismatch", .atom "model-does-not-evict"])
          | none => (c, .list [.atom "evict-mismatch", .atom "victim-not-cached"])
        | none => (c, .atom "bad-request")
    | _, _, _ => (c, .atom "bad-request")
  | .list [.atom "inv", t] =>
    match decName t with
    | some t => (invalidateTable c t, .atom "ok")
    | none => (c, .atom "bad-request")
  | .list [.atom "has", q] =>
    match decText q with
    | some t => (c, sxBool ((QCache.get c (normalizeQ t)).isSome))
    | none => (c, .atom "bad-request")
  | .list [.atom "size"] => (c, sxNat c.length)
  | _ => (c, .atom "bad-request")

def handle : List Sx → Sx
  | [.atom "sigeq", a, b] =>
    match decText a, decText b with
    | some a, some b => sxBool (normalizeQ a == normalizeQ b)
    | _, _ => .atom "bad-request"
  | [.atom "oldeq", a, b] =>
    match decText a, decText b with
    | some a, some b => sxBool (normalizeOld a == normalizeOld b)
    | _, _ => .atom "bad-request"
  | [.atom "norm", a] =>
    match decText a with
    | some a => .atom (charsToHex (normalizeQ a))
    | none => .atom "bad-request"
  | [.atom "quoted", a] =>
    match decText a with
    | some a => .atom (charsToHex (quoted (pieces a)))
    | none => .atom "bad-request"
  | [.atom "tables", s] =>
    match decSel s with
    | some s => .list (.atom "t" :: (sortDedup (extractTables s)).map sxStr)
    | none => .atom "bad-request"
  | .atom "trace" :: mx :: ops =>
    match mx.nat? with
    | some max =>
      let (_, out) := ops.foldl (fun (acc : Cache × List Sx) op =>
        let (c', r) := traceOp max acc.1 op
        (c', r :: acc.2)) ([], [])
      .list (.atom "r" :: out.reverse)
    | none => .atom "bad-request"
  | _ => .atom "bad-request"

def main : IO Unit := runDriver handle
