import VibeProof.Model.Value
/-
Index structures over one row list (C15, shared by C13/C14/C33).

Two families, as in the code:
* constraint hash indexes inside `Table` (`table/indexes.rs`): `HashMap<Vec<SqlValue>, usize>`
  (key → ONE position; `insert` overwrites) — `HData`;
* user-defined indexes of the database-level registry (`database/indexes/index_maintenance.rs`,
  in-memory backend): `BTreeMap<Vec<SqlValue>, Vec<usize>>` (key → positions) — `UData`.

Maps are association lists; the only way anything looks at them is `hGet` / `uGet`, whose
equations (`Lemmas/Index.lean`) are those of a map, so the representation adds nothing.
A key component is `Option Value`: `none` stands for "column position outside the row" (the
Rust code would panic on `row.values[idx]`); no default value is ever substituted.
-/
namespace VibeProof.Idx
open VibeProof

abbrev Key := List (Option Value)

/-- `indices.iter().map(|&i| row.values[i].clone()).collect()` -/
def proj (cols : List Nat) (r : Row) : Key := cols.map (fun c => r[c]?)

/-- `values.contains(&SqlValue::Null)` -/
def hasNull (k : Key) : Bool := k.any (fun v => v == some Value.null)

/-! ### hash index: key → position -/

abbrev HData := List (Key × Nat)

def hGet : HData → Key → Option Nat
  | [], _ => none
  | (k', p) :: d, k => if k' = k then some p else hGet d k

/-- `HashMap::remove` -/
def hErase (d : HData) (k : Key) : HData := d.filter (fun e => decide (e.1 ≠ k))

/-- `HashMap::insert` (overwrites) -/
def hInsert (d : HData) (k : Key) (p : Nat) : HData := (k, p) :: hErase d k

/-- a constraint index: PRIMARY KEY (`skipNull = false`) or UNIQUE (`skipNull = true`: a key
containing NULL is never entered) -/
structure HIdx where
  cols : List Nat
  skipNull : Bool
  data : HData
  deriving Repr, DecidableEq

/-- the key under which a row is (to be) entered, `none` = the row is skipped -/
def hKey (cols : List Nat) (skipNull : Bool) (r : Row) : Option Key :=
  if skipNull && hasNull (proj cols r) then none else some (proj cols r)

/-- `IndexManager::update_for_insert` for one index -/
def hIns (cols : List Nat) (skipNull : Bool) (d : HData) (r : Row) (pos : Nat) : HData :=
  match hKey cols skipNull r with
  | some k => hInsert d k pos
  | none => d

/-- `IndexManager::update_for_update` / `update_selective` for one index, as coded:
PRIMARY KEY: `if old != new { remove(old); insert(new, i) }`;
UNIQUE: `if old != new && !old.has_null { remove(old) }; if !new.has_null { insert(new, i) }` -/
def hUpd (cols : List Nat) (skipNull : Bool) (d : HData) (old new : Row) (i : Nat) : HData :=
  let ko := proj cols old
  let kn := proj cols new
  if skipNull then
    let d1 := if ko ≠ kn ∧ hasNull ko = false then hErase d ko else d
    if hasNull kn then d1 else hInsert d1 kn i
  else if ko ≠ kn then hInsert (hErase d ko) kn i else d

/-- `IndexManager::rebuild`: clear, then `update_for_insert` for every row in order -/
def hBuild (cols : List Nat) (skipNull : Bool) (rows : List Row) : HData :=
  rows.zipIdx.foldl (fun d e => hIns cols skipNull d e.1 e.2) []

/-! ### user-defined index: key → positions -/

abbrev UData := List (Key × List Nat)

def uGet : UData → Key → List Nat
  | [], _ => []
  | (k', v) :: d, k => if k' = k then v else uGet d k

/-- set the entry of `k`; an empty list removes the entry (`if row_indices.is_empty() { remove }`) -/
def uSet (d : UData) (k : Key) (v : List Nat) : UData :=
  let rest := d.filter (fun e => decide (e.1 ≠ k))
  if v.isEmpty then rest else (k, v) :: rest

/-- `data.entry(key).or_default().push(row_index)` -/
def uAdd (d : UData) (k : Key) (p : Nat) : UData := uSet d k (uGet d k ++ [p])

/-- `row_indices.retain(|&idx| idx != row_index)` + removal of an emptied entry -/
def uDel (d : UData) (k : Key) (p : Nat) : UData := uSet d k ((uGet d k).filter (fun q => q != p))

/-- `update_indexes_for_update` for one index: only when the key changes, remove the position
from the old key's list and push it onto the new key's list -/
def uPatch (d : UData) (kOld kNew : Key) (p : Nat) : UData :=
  if kOld = kNew then d else uAdd (uDel d kOld p) kNew p

/-- `create_index` / `rebuild_indexes` (in-memory backend): clear, then push every position in
row order -/
def uBuild (cols : List Nat) (rows : List Row) : UData :=
  rows.zipIdx.foldl (fun d e => uAdd d (proj cols e.1) e.2) []

/-- the rows an index-driven equality lookup fetches: positions of the key, out-of-range
positions skipped (as the scan does) -/
def uLookup (d : UData) (rows : List Row) (k : Key) : List Row :=
  (uGet d k).filterMap (fun p => rows[p]?)

end VibeProof.Idx
