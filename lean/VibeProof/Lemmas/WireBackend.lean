import VibeProof.Model.WireBackend
import VibeProof.Lemmas.Wire
/-
Helper lemmas for C28: each primitive of the independent parser reads back what the matching
primitive of the encoder wrote.
-/
namespace VibeProof.Wire

/-! integers -/

theorem i16OfBytes_ofNat (n : Nat) (h : n < 65536) :
    i16OfBytes (UInt8.ofNat (n / 256 % 256)) (UInt8.ofNat (n % 256)) =
      if n < 32768 then (n : Int) else (n : Int) - 65536 := by
  unfold i16OfBytes
  simp only [UInt8.toNat_ofNat']
  have : n / 256 % 256 % 2 ^ 8 * 256 + n % 256 % 2 ^ 8 = n := by omega
  rw [this]

theorem pI16_be16 (n : Nat) (r : Bytes) (h : n < 32768) : pI16 (be16 n ++ r) = some ((n : Int), r) := by
  have := i16OfBytes_ofNat n (by omega)
  rw [if_pos h] at this
  simp only [be16, List.cons_append, List.nil_append, pI16, this]

theorem pI16_be16i (v : Int) (r : Bytes) (h : isI16 v) : pI16 (be16i v ++ r) = some (v, r) := by
  obtain ⟨h1, h2⟩ := h
  have hlt : (v % 65536).toNat < 65536 := by omega
  have := i16OfBytes_ofNat (v % 65536).toNat hlt
  simp only [be16i, be16, List.cons_append, List.nil_append, pI16, this]
  congr 2
  split <;> omega

theorem pI32_be32 (n : Nat) (r : Bytes) (h : n < 2147483648) : pI32 (be32 n ++ r) = some ((n : Int), r) := by
  simp only [be32, List.cons_append, List.nil_append, pI32, i32OfBytes_ofNat n h]

theorem pI32_be32i (v : Int) (r : Bytes) (h : isI32 v) : pI32 (be32i v ++ r) = some (v, r) := by
  obtain ⟨a, b, c, d, hbe, hi⟩ := i32OfBytes_be32i v h.1 h.2
  simp only [hbe, List.cons_append, List.nil_append, pI32, hi]

theorem be16_length (n : Nat) : (be16 n).length = 2 := rfl
theorem be16i_length (i : Int) : (be16i i).length = 2 := rfl

/-! strings and byte runs -/

theorem pCStr_append (s r : Bytes) (h : nulFree s = true) : pCStr (s ++ 0 :: r) = some (s, r) := by
  unfold pCStr
  rw [position0_append r h]
  have ht : (s ++ 0 :: r).take s.length = s := List.take_left' rfl
  have hd : (s ++ 0 :: r).drop (s.length + 1) = r := by
    rw [show s.length + 1 = (s ++ [0]).length by simp]
    rw [show s ++ 0 :: r = (s ++ [0]) ++ r by simp]
    exact List.drop_left' rfl
  simp only [ht, hd]

theorem pCStr_put (s r : Bytes) (h : nulFree s = true) : pCStr (putCString s ++ r) = some (s, r) := by
  have : putCString s ++ r = s ++ 0 :: r := by simp [putCString]
  rw [this, pCStr_append s r h]

theorem pBytes_append (v r : Bytes) : pBytes v.length (v ++ r) = some (v, r) := by
  unfold pBytes
  have : v.length ≤ (v ++ r).length := by simp
  rw [if_pos this, List.take_left' rfl, List.drop_left' rfl]

/-! row description fields -/

theorem putField_length (f : FieldDesc) : (putField f).length = f.name.length + 1 + 18 := by
  simp [putField, putCString, be32i_length, be16i_length]

theorem pField_put (f : FieldDesc) (r : Bytes) (h : wfField f) : pField (putField f ++ r) = some (f, r) := by
  obtain ⟨hn, h1, h2, h3, h4, h5, h6⟩ := h
  unfold pField putField
  simp only [List.append_assoc]
  rw [pCStr_put _ _ hn]
  simp only [Option.bind_eq_bind, Option.bind_some]
  rw [pI32_be32i _ _ h1]
  simp only [Option.bind_some]
  rw [pI16_be16i _ _ h2]
  simp only [Option.bind_some]
  rw [pI32_be32i _ _ h3]
  simp only [Option.bind_some]
  rw [pI16_be16i _ _ h4]
  simp only [Option.bind_some]
  rw [pI32_be32i _ _ h5]
  simp only [Option.bind_some]
  rw [pI16_be16i _ _ h6]
  rfl

theorem pFields_put (fs : List FieldDesc) (r : Bytes) (h : ∀ f ∈ fs, wfField f) :
    pFields fs.length (putFields fs ++ r) = some (fs, r) := by
  induction fs with
  | nil => rfl
  | cons f fs ih =>
    simp only [List.length_cons, pFields, putFields, List.append_assoc]
    rw [pField_put f _ (h f (by simp))]
    simp only [Option.bind_eq_bind, Option.bind_some]
    rw [ih (fun x hx => h x (by simp [hx]))]
    rfl

theorem putFields_length (fs : List FieldDesc) (acc : Nat) :
    fs.foldl (fun acc f => acc + (f.name.length + 1 + 18)) acc = acc + (putFields fs).length := by
  induction fs generalizing acc with
  | nil => simp [putFields]
  | cons f fs ih =>
    simp only [List.foldl_cons, putFields, List.length_append, putField_length]
    rw [ih]; omega

/-! data row values -/

theorem pValue_put (v : Option Bytes) (r : Bytes) (h : wfValue v) : pValue (putValue v ++ r) = some (v, r) := by
  cases v with
  | none =>
    unfold pValue putValue
    rw [pI32_be32i _ _ (by decide)]
    simp
  | some b =>
    unfold pValue putValue
    simp only [List.append_assoc]
    rw [pI32_be32 _ _ h]
    simp only [Option.bind_eq_bind, Option.bind_some]
    have h1 : ¬ ((b.length : Int) = -1) := by omega
    have h2 : ¬ ((b.length : Int) < 0) := by omega
    simp only [h1, h2, if_false, Int.toNat_natCast]
    rw [pBytes_append]
    rfl

theorem pValues_put (vs : List (Option Bytes)) (r : Bytes) (h : ∀ v ∈ vs, wfValue v) :
    pValues vs.length (putValues vs ++ r) = some (vs, r) := by
  induction vs with
  | nil => rfl
  | cons v vs ih =>
    simp only [List.length_cons, pValues, putValues, List.append_assoc]
    rw [pValue_put v _ (h v (by simp))]
    simp only [Option.bind_eq_bind, Option.bind_some]
    rw [ih (fun x hx => h x (by simp [hx]))]
    rfl

theorem putValues_length (vs : List (Option Bytes)) (acc : Nat) :
    vs.foldl valueLenStep acc = acc + (putValues vs).length := by
  induction vs generalizing acc with
  | nil => simp [putValues]
  | cons v vs ih =>
    cases v with
    | none =>
      simp only [List.foldl_cons, valueLenStep, putValues, putValue, List.length_append, be32i_length]
      rw [ih]; omega
    | some b =>
      simp only [List.foldl_cons, valueLenStep, putValues, putValue, List.length_append, be32_length]
      rw [ih]; omega

/-! error / notice fields -/

theorem putNoticeFields_length (fs : List (UInt8 × Bytes)) (acc : Nat) :
    fs.foldl (fun acc f => acc + (1 + f.2.length + 1)) acc = acc + (putNoticeFields fs).length := by
  induction fs generalizing acc with
  | nil => simp [putNoticeFields]
  | cons f fs ih =>
    obtain ⟨k, v⟩ := f
    simp only [List.foldl_cons, putNoticeFields, List.length_cons, List.length_append, putCString,
      List.length_nil]
    rw [ih]; omega

theorem pNoticeFields_put (fs : List (UInt8 × Bytes)) (r : Bytes) (fuel : Nat)
    (h : ∀ f ∈ fs, wfNoticeField f) (hf : (putNoticeFields fs).length < fuel) :
    pNoticeFields fuel (putNoticeFields fs ++ 0 :: r) = some (fs, r) := by
  induction fs generalizing fuel with
  | nil =>
    cases fuel with
    | zero => omega
    | succ n => simp [putNoticeFields, pNoticeFields]
  | cons f fs ih =>
    obtain ⟨k, v⟩ := f
    obtain ⟨hk, hv⟩ := h (k, v) (by simp)
    cases fuel with
    | zero => omega
    | succ n =>
      simp only [putNoticeFields, List.cons_append, List.append_assoc, pNoticeFields]
      rw [if_neg hk, pCStr_put _ _ hv]
      simp only [Option.bind_eq_bind, Option.bind_some]
      rw [ih n (fun x hx => h x (by simp [hx]))
        (by simp only [putNoticeFields, List.length_cons, List.length_append] at hf; omega)]
      rfl

end VibeProof.Wire
