/-
Line protocol shared by every model driver (DESIGN.md §2.2).

One request per line, one reply per line.  Requests and replies are
s-expressions whose atoms contain no blanks or parentheses; strings travel
hex-encoded.  Nothing in this file is part of a theorem: it is glue (and is
listed as such in the trusted base).
-/
namespace VibeProof.Proto

inductive Sx where
  | atom (s : String)
  | list (xs : List Sx)
  deriving Repr, Inhabited, BEq

partial def Sx.toString : Sx → String
  | .atom s => s
  | .list xs => "(" ++ " ".intercalate (xs.map Sx.toString) ++ ")"

instance : ToString Sx := ⟨Sx.toString⟩

/-- Tokenise into "(" ")" and atoms. -/
def tokens (cs : List Char) : List String :=
  let rec go (cs : List Char) (cur : List Char) (acc : List String) : List String :=
    let flush (cur : List Char) (acc : List String) :=
      if cur.isEmpty then acc else String.ofList cur.reverse :: acc
    match cs with
    | [] => (flush cur acc).reverse
    | c :: rest =>
      if c = '(' then go rest [] ("(" :: flush cur acc)
      else if c = ')' then go rest [] (")" :: flush cur acc)
      else if c = ' ' || c = '\n' || c = '\r' || c = '\t' then go rest [] (flush cur acc)
      else go rest (c :: cur) acc
  go cs [] []

/-- Parse a token list into a sequence of s-expressions (stack machine, total). -/
def parseToks (ts : List String) : Option (List Sx) :=
  let rec go (ts : List String) (stack : List (List Sx)) (cur : List Sx) : Option (List Sx) :=
    match ts with
    | [] => if stack.isEmpty then some cur.reverse else none
    | t :: rest =>
      if t = "(" then go rest (cur :: stack) []
      else if t = ")" then
        match stack with
        | [] => none
        | top :: stack' => go rest stack' (Sx.list cur.reverse :: top)
      else go rest stack (Sx.atom t :: cur)
  go ts [] []

def parseLine (line : String) : Option (List Sx) := parseToks (tokens line.toList)

/-! hex helpers -/

def hexDigit (n : Nat) : Char :=
  if n < 10 then Char.ofNat (48 + n) else Char.ofNat (87 + n)

def hexVal (c : Char) : Option Nat :=
  let n := c.toNat
  if 48 ≤ n ∧ n ≤ 57 then some (n - 48)
  else if 97 ≤ n ∧ n ≤ 102 then some (n - 87)
  else if 65 ≤ n ∧ n ≤ 70 then some (n - 55)
  else none

def bytesToHex (bs : List UInt8) : String :=
  String.ofList (bs.foldr (fun b acc => hexDigit (b.toNat / 16) :: hexDigit (b.toNat % 16) :: acc) [])

def hexToBytes (s : String) : Option (List UInt8) :=
  let rec go : List Char → Option (List UInt8)
    | [] => some []
    | [_] => none
    | a :: b :: rest => do
      let x ← hexVal a
      let y ← hexVal b
      let tl ← go rest
      pure (UInt8.ofNat (x * 16 + y) :: tl)
  go s.toList

/-- Strings travel as the hex of their UTF-8 bytes; `-` denotes the empty string. -/
def strToHex (s : String) : String :=
  if s.isEmpty then "-" else bytesToHex s.toUTF8.toList

def hexToStr (h : String) : Option String :=
  if h = "-" then some "" else do
    let bs ← hexToBytes h
    let ba := ByteArray.mk bs.toArray
    String.fromUTF8? ba

/-- Code points of a string sent as hex of UTF-8. -/
def hexToChars (h : String) : Option (List Char) := (hexToStr h).map String.toList

def charsToHex (cs : List Char) : String := strToHex (String.ofList cs)

def parseInt? (s : String) : Option Int := s.toInt?

def Sx.int? : Sx → Option Int
  | .atom s => s.toInt?
  | _ => none

def Sx.nat? : Sx → Option Nat
  | .atom s => s.toNat?
  | _ => none

def Sx.atom? : Sx → Option String
  | .atom s => some s
  | _ => none

def Sx.list? : Sx → Option (List Sx)
  | .list xs => some xs
  | _ => none

def sxInt (i : Int) : Sx := .atom (toString i)
def sxNat (n : Nat) : Sx := .atom (toString n)
def sxStr (s : String) : Sx := .atom (strToHex s)
def sxBool (b : Bool) : Sx := .atom (if b then "1" else "0")
def sxL (xs : List Sx) : Sx := .list xs
def sxA (s : String) : Sx := .atom s

/-- Generic request loop: `handle` maps the parsed request to a reply. -/
partial def loop (h : IO.FS.Stream) (out : IO.FS.Stream) (handle : List Sx → Sx) : IO Unit := do
  let line ← h.getLine
  if line.isEmpty then return ()
  match parseLine line with
  | none => out.putStrLn "(bad-request)"
  | some req => out.putStrLn (handle req).toString
  out.flush
  loop h out handle

def runDriver (handle : List Sx → Sx) : IO Unit := do
  loop (← IO.getStdin) (← IO.getStdout) handle

end VibeProof.Proto
