//! C20 — loading damaged database files fails cleanly.
//!
//! Valid files are produced by save_binary / save_compressed / save_json / save_sql_dump from
//! small generated databases; then every truncation point, structure-aware byte substitutions at
//! the tag / length / count / flag positions (found by the model's parse of the same file),
//! random bit flips and arbitrary byte strings are loaded in a worker subprocess (10 s time-out,
//! RLIMIT_AS 1 GiB).  Outcomes: ok / err / panic / abort / timeout.  panic, abort and timeout are
//! violations.  For the binary format the Lean model predicts ok / err (and the decoded content)
//! and the two must agree.
#[path = "../c18/common.rs"]
mod common;
use common::*;
use std::io::{BufRead, BufReader, Write};
use std::os::unix::process::CommandExt;
use std::process::{Child, ChildStdin, Command, Stdio};
use std::sync::mpsc::{channel, Receiver};
use std::time::Duration;
use vharness::*;
use vibesql_storage::Database;
use vibesql_types::SqlValue as V;

const SIG_SQL_PREVIEW: &str = "C20/sql-dump-error-preview-slices-inside-character";

// ------------------------------------------------------------------------------------ worker

fn canon_val(v: &V) -> String {
    if is_temporal(v) {
        "T".into()
    } else {
        val_sx(v)
    }
}

/// canonical name of a column type — same spelling as `DataType.canon` in Model/BinTypes.lean
fn type_canon(t: &vibesql_types::DataType) -> String {
    use vibesql_types::DataType as D;
    match t {
        D::Integer => "integer".into(),
        D::Smallint => "smallint".into(),
        D::Bigint => "bigint".into(),
        D::Unsigned => "unsigned".into(),
        D::Numeric { precision, scale } => format!("numeric:{}:{}", precision, scale),
        D::Decimal { precision, scale } => format!("decimal:{}:{}", precision, scale),
        D::Float { precision } => format!("float:{}", precision),
        D::Real => "real".into(),
        D::DoublePrecision => "double".into(),
        D::Character { length } => format!("char:{}", length),
        D::Varchar { max_length: None } => "varchar:none".into(),
        D::Varchar { max_length: Some(n) } => format!("varchar:{}", n),
        D::CharacterLargeObject => "clob".into(),
        D::Name => "name".into(),
        D::Boolean => "boolean".into(),
        D::Date => "date".into(),
        D::Time { with_timezone } => format!("time:{}", *with_timezone as u8),
        D::Timestamp { with_timezone } => format!("timestamp:{}", *with_timezone as u8),
        D::Interval { .. } => "interval".into(),
        D::BinaryLargeObject => "blob".into(),
        D::Bit { .. } => "bit".into(),
        D::UserDefined { .. } => "userdefined".into(),
        D::Null => "null".into(),
    }
}

fn digest(db: &Database) -> String {
    let mut names = db.catalog.list_tables();
    names.sort();
    let mut out = vec![];
    for n in names {
        if let Some(t) = db.get_table(&n) {
            let rows: Vec<String> = t.scan().iter().map(|r| r.values.iter().map(canon_val).collect::<Vec<_>>().join(" ")).collect();
            out.push(format!("{}|{}|{}", n.to_uppercase(), t.schema.columns.iter().map(|c| format!("{}:{}:{}", c.name.to_uppercase(), c.nullable as u8, type_canon(&c.data_type))).collect::<Vec<_>>().join(","), rows.join(";")));
        }
    }
    let mut idx: Vec<String> = db
        .list_indexes()
        .iter()
        .filter_map(|i| db.get_index(i).map(|m| format!("{}@{}:{}:{}", i.to_uppercase(), m.table_name.to_uppercase(), m.unique as u8, m.columns.iter().map(|c| format!("{}{}{}", c.column_name.to_uppercase(), if matches!(c.direction, vibesql_ast::OrderDirection::Desc) { "-" } else { "+" }, c.prefix_length.map(|p| p.to_string()).unwrap_or_else(|| "none".into()))).collect::<Vec<_>>().join(","))))
        .collect();
    idx.sort();
    let mut trg: Vec<String> = db
        .catalog
        .list_triggers()
        .iter()
        .filter_map(|n| db.catalog.get_trigger(n))
        .map(|t| format!("{}@{}:{}", t.name.to_uppercase(), t.table_name.to_uppercase(), t.when_condition.as_ref().map(|e| { let (n, d) = ex_info(e); format!("{}:{}", n, d) }).unwrap_or_else(|| "none".into())))
        .collect();
    trg.sort();
    // string components of every index key (what prefix truncation produces), per index
    let mut keys: Vec<String> = db
        .list_indexes()
        .iter()
        .filter_map(|i| {
            let data = db.get_index_data(i)?;
            let mut ks: Vec<String> = data
                .iter()
                .map(|(k, _)| k.iter().filter_map(|v| match v { V::Varchar(s) | V::Character(s) => Some(hex(s.as_bytes())), _ => None }).collect::<Vec<_>>().join("/"))
                .collect();
            ks.sort();
            ks.dedup();
            Some(format!("{}={}", i.to_uppercase(), ks.join(",")))
        })
        .collect();
    keys.sort();
    format!("{}#{}#{}#{}", out.join("\n").replace('\n', "&"), idx.join("&"), trg.join("&"), keys.join("&"))
}

/// (number of expression nodes, nesting depth) — same counting as `ExInfo` in Model/BinCodec.lean
fn ex_info(e: &vibesql_ast::Expression) -> (u64, u64) {
    use vibesql_ast::{Expression as E, FrameBound, WindowFunctionSpec};
    let mut kids: Vec<&E> = vec![];
    match e {
        E::BinaryOp { left, right, .. } => kids.extend([left.as_ref(), right.as_ref()]),
        E::UnaryOp { expr, .. } | E::IsNull { expr, .. } | E::Cast { expr, .. } => kids.push(expr),
        E::Function { args, .. } | E::AggregateFunction { args, .. } => kids.extend(args.iter()),
        E::Case { operand, when_clauses, else_result } => {
            kids.extend(operand.iter().map(|b| b.as_ref()));
            for w in when_clauses {
                kids.extend(w.conditions.iter());
                kids.push(&w.result);
            }
            kids.extend(else_result.iter().map(|b| b.as_ref()));
        }
        E::InList { expr, values, .. } => {
            kids.push(expr);
            kids.extend(values.iter());
        }
        E::Between { expr, low, high, .. } => kids.extend([expr.as_ref(), low.as_ref(), high.as_ref()]),
        E::Position { substring, string, .. } => kids.extend([substring.as_ref(), string.as_ref()]),
        E::Trim { removal_char, string, .. } => {
            kids.extend(removal_char.iter().map(|b| b.as_ref()));
            kids.push(string);
        }
        E::Like { expr, pattern, .. } => kids.extend([expr.as_ref(), pattern.as_ref()]),
        E::Interval { value, .. } => kids.push(value),
        E::MatchAgainst { search_modifier, .. } => kids.push(search_modifier),
        E::WindowFunction { function, over } => {
            match function {
                WindowFunctionSpec::Aggregate { args, .. } | WindowFunctionSpec::Ranking { args, .. } | WindowFunctionSpec::Value { args, .. } => kids.extend(args.iter()),
            }
            kids.extend(over.partition_by.iter().flatten());
            if let Some(f) = &over.frame {
                for b in std::iter::once(&f.start).chain(f.end.iter()) {
                    if let FrameBound::Preceding(x) | FrameBound::Following(x) = b {
                        kids.push(x);
                    }
                }
            }
        }
        _ => {}
    }
    let mut nodes = 1;
    let mut depth = 0;
    for k in kids {
        let (n, d) = ex_info(k);
        nodes += n;
        depth = depth.max(d);
    }
    (nodes, depth + 1)
}

fn worker() {
    engine::silence_panics();
    let stdin = std::io::stdin();
    let mut line = String::new();
    loop {
        line.clear();
        if stdin.lock().read_line(&mut line).unwrap_or(0) == 0 {
            return;
        }
        let mut it = line.trim_end().splitn(2, ' ');
        let (fmt, path) = (it.next().unwrap_or(""), it.next().unwrap_or(""));
        let p = std::path::PathBuf::from(path);
        let r = std::panic::catch_unwind(|| match fmt {
            "binary" => Database::load_binary(&p).map_err(|e| format!("{:?}", e)),
            "compressed" => Database::load_compressed(&p).map_err(|e| format!("{:?}", e)),
            "json" => Database::load_json(&p).map_err(|e| format!("{:?}", e)),
            "auto" => Database::load(&p).map_err(|e| format!("{:?}", e)),
            _ => vibesql_executor::load_sql_dump(&p).map_err(|e| format!("{:?}", e)),
        });
        let reply = match r {
            Ok(Ok(db)) => format!("ok {}", hex(digest(&db).as_bytes())),
            Ok(Err(e)) => format!("err {}", hex(e.chars().take(160).collect::<String>().as_bytes())),
            Err(p) => format!("panic {}", hex(engine::panic_text(p).chars().take(200).collect::<String>().as_bytes())),
        };
        println!("{}", reply);
        let _ = std::io::stdout().flush();
    }
}

#[derive(Debug, Clone, PartialEq)]
enum Outcome {
    Ok(String),
    Err(String),
    Panic(String),
    Abort(String),
    Timeout,
}
impl Outcome {
    fn class(&self) -> &'static str {
        match self {
            Outcome::Ok(_) => "ok",
            Outcome::Err(_) => "err",
            Outcome::Panic(_) => "panic",
            Outcome::Abort(_) => "abort",
            Outcome::Timeout => "timeout",
        }
    }
    fn clean(&self) -> bool {
        matches!(self, Outcome::Ok(_) | Outcome::Err(_))
    }
}

struct Worker {
    child: Child,
    stdin: ChildStdin,
    rx: Receiver<String>,
    pub spawned: u64,
}
impl Worker {
    fn spawn() -> Worker {
        let exe = std::env::current_exe().unwrap();
        let mut cmd = Command::new(exe);
        cmd.arg("worker").stdin(Stdio::piped()).stdout(Stdio::piped()).stderr(Stdio::null());
        unsafe {
            cmd.pre_exec(|| {
                let lim = libc::rlimit { rlim_cur: 1 << 30, rlim_max: 1 << 30 };
                libc::setrlimit(libc::RLIMIT_AS, &lim);
                let core = libc::rlimit { rlim_cur: 0, rlim_max: 0 };
                libc::setrlimit(libc::RLIMIT_CORE, &core);
                Ok(())
            });
        }
        let mut child = cmd.spawn().expect("cannot spawn worker");
        let stdin = child.stdin.take().unwrap();
        let stdout = child.stdout.take().unwrap();
        let (tx, rx) = channel();
        std::thread::spawn(move || {
            for l in BufReader::new(stdout).lines() {
                match l {
                    Ok(l) => {
                        if tx.send(l).is_err() {
                            break;
                        }
                    }
                    Err(_) => break,
                }
            }
        });
        Worker { child, stdin, rx, spawned: 1 }
    }
    fn restart(&mut self) {
        let _ = self.child.kill();
        let _ = self.child.wait();
        let n = self.spawned;
        *self = Worker::spawn();
        self.spawned = n + 1;
    }
    fn load(&mut self, fmt: &str, path: &std::path::Path) -> Outcome {
        if writeln!(self.stdin, "{} {}", fmt, path.display()).and_then(|_| self.stdin.flush()).is_err() {
            self.restart();
            return Outcome::Abort("worker was not running".into());
        }
        match self.rx.recv_timeout(Duration::from_secs(10)) {
            Ok(l) => {
                let mut it = l.splitn(2, ' ');
                let (k, rest) = (it.next().unwrap_or(""), it.next().unwrap_or("-"));
                let text = String::from_utf8_lossy(&unhex(rest).unwrap_or_default()).to_string();
                match k {
                    "ok" => Outcome::Ok(text),
                    "err" => Outcome::Err(text),
                    _ => Outcome::Panic(text),
                }
            }
            Err(std::sync::mpsc::RecvTimeoutError::Timeout) => {
                self.restart();
                Outcome::Timeout
            }
            Err(_) => {
                let st = self.child.wait().map(|s| format!("{:?}", s)).unwrap_or_default();
                self.restart();
                Outcome::Abort(st)
            }
        }
    }
}

// ------------------------------------------------------------------------------------ model side

/// model's digest of an `(ok rest ledger (schemas..) (roles..) (tables..) (indexes..) (triggers..) (data..))` reply,
/// or None when names are outside the simple ASCII identifier class (then the real lookup rules decide)
fn model_digest(reply: &Sx) -> Option<String> {
    let l = reply.as_list()?;
    let sect = |name: &str| -> Option<&[Sx]> { l.iter().filter_map(|x| x.as_list()).find(|x| x.first().and_then(|a| a.as_atom()) == Some(name)).map(|x| &x[1..]) };
    let s = |x: &Sx| -> Option<String> {
        let b = unhex(x.as_atom()?)?;
        let t = String::from_utf8(b).ok()?;
        if t.is_empty() || !t.chars().all(|c| c.is_ascii_alphanumeric() || c == '_') {
            return None;
        }
        Some(t.to_uppercase())
    };
    let mut tabs: Vec<(String, String)> = vec![];
    for t in sect("tables")? {
        let t = t.as_list()?;
        let name = s(&t[0])?;
        let cols: Option<Vec<String>> = t[1..]
            .iter()
            .map(|c| {
                c.as_list().and_then(|c| {
                    let ty = c.get(3)?.as_atom()?;
                    if ty == "?" {
                        return None; // non-ASCII type text: Unicode upper-casing decides, not modelled
                    }
                    Some(format!("{}:{}:{}", s(&c[0])?, c[2].as_atom()?, ty))
                })
            })
            .collect();
        tabs.push((name, cols?.join(",")));
    }
    let mut out = vec![];
    for (name, cols) in &tabs {
        let mut rows = vec![];
        for d in sect("data")? {
            let d = d.as_list()?;
            if s(&d[0])? != *name {
                continue;
            }
            for r in &d[1..] {
                let vals: Vec<String> = r
                    .as_list()?
                    .iter()
                    .map(|v| {
                        let t = v.to_string();
                        if ["(date", "(time", "(timestamp", "(interval"].iter().any(|p| t.starts_with(p)) {
                            "T".into()
                        } else {
                            t
                        }
                    })
                    .collect();
                rows.push(vals.join(" "));
            }
        }
        out.push(format!("{}|{}|{}", name, cols, rows.join(";")));
    }
    out.sort();
    let mut idx = vec![];
    for i in sect("indexes")? {
        let i = i.as_list()?;
        let cols: Option<Vec<String>> = i[3..].iter().map(|c| c.as_list().and_then(|c| Some(format!("{}{}{}", s(&c[0])?, if c[1].as_atom()? == "1" { "-" } else { "+" }, c.get(2)?.as_atom()?)))).collect();
        idx.push(format!("{}@{}:{}:{}", s(&i[0])?, s(&i[1])?, i[2].as_atom()?, cols?.join(",")));
    }
    idx.sort();
    let mut trg = vec![];
    for t in sect("triggers")? {
        let t = t.as_list()?;
        let when = match t.get(6)? {
            Sx::Atom(a) => a.clone(),
            Sx::List(v) => format!("{}:{}", v.first()?.as_atom()?, v.get(1)?.as_atom()?),
        };
        trg.push(format!("{}@{}:{}", s(&t[0])?, s(&t[1])?, when));
    }
    trg.sort();
    let mut keys = vec![];
    if let Some(built) = sect("built") {
        for b in built {
            let b = b.as_list()?;
            let mut ks: Vec<String> = b[1..].iter().map(|k| k.as_list().map(|k| k.iter().filter_map(|c| c.as_atom()).collect::<Vec<_>>().join("/")).unwrap_or_default()).collect();
            ks.sort();
            ks.dedup();
            keys.push(format!("{}={}", s(&b[0])?, ks.join(",")));
        }
    } else {
        return None; // the model's rebuild failed (table / column lookup): database-level, not compared
    }
    keys.sort();
    Some(format!("{}#{}#{}#{}", out.join("&"), idx.join("&"), trg.join("&"), keys.join("&")))
}

fn byte_level(msg: &str) -> Option<&'static str> {
    // errors raised by the readers themselves (not by the database operations they feed)
    if msg.contains("Read error") || msg.contains("Failed to read") {
        Some("eof")
    } else if msg.contains("Invalid UTF-8") {
        Some("badutf8")
    } else if msg.contains("Invalid date:") || msg.contains("Invalid time:") || msg.contains("Invalid timestamp:") || msg.contains("Invalid interval:") {
        Some("badtemporal")
    } else if msg.contains("Unknown type tag") {
        Some("badtag")
    } else if msg.contains("Unknown expression tag") {
        Some("badexprtag")
    } else if msg.contains("Unknown ") && msg.contains(" tag: ") {
        Some("badenum")
    } else if msg.contains("not yet implemented") || msg.contains("not yet supported") {
        Some("notimplemented")
    } else if msg.contains("Expression nesting exceeds") {
        Some("depthexceeded")
    } else if msg.contains("Invalid table data") {
        Some("zerocolumnrows")
    } else if msg.contains("Invalid sort direction") {
        Some("baddirection")
    } else if msg.contains("Invalid file format") {
        Some("badmagic")
    } else if msg.contains("Unsupported format version") {
        Some("badversion")
    } else if msg.contains("Invalid trigger timing") {
        Some("badtiming")
    } else if msg.contains("Invalid trigger event") {
        Some("badevent")
    } else if msg.contains("Invalid trigger granularity") {
        Some("badgranularity")
    } else if msg.contains("Invalid trigger action") {
        Some("badaction")
    } else {
        None
    }
}

struct Ctx {
    w: Worker,
    m: model::Model,
    dir: std::path::PathBuf,
    n: u64,
}

/// one binary-format case: model prediction vs worker outcome
fn binary_case(cx: &mut Ctx, rep: &mut Report, kind: &str, bytes: &[u8], origin: &str) {
    cx.n += 1;
    let path = cx.dir.join("case.vbsql");
    std::fs::write(&path, bytes).unwrap();
    let out = cx.w.load("binary", &path);
    let reply = cx.m.ask(&format!("load {}", hex(bytes)));
    rep.case(&format!("bin {} {}", kind, hex(bytes)), !matches!(kind, "valid"));
    rep.count(&format!("binary_{}_{}", kind, out.class()));
    let replay = || format!("{}\nfile bytes (hex): {}\nreal load_binary: {:?}\nmodel: {}", origin, hex(bytes), out, reply.chars().take(600).collect::<String>());
    if !out.clean() {
        rep.fail(FailKind::Oracle, None, &format!("load_binary on a damaged file: {}", out.class()), &replay());
        return;
    }
    let msx = Sx::parse(&reply);
    let head = msx.as_ref().and_then(|s| s.as_list()).and_then(|l| l.first()).and_then(|a| a.as_atom()).unwrap_or("?").to_string();
    // allocation ledger of the model: never beyond the file
    let ledger = msx.as_ref().and_then(|s| s.as_list()).and_then(|l| l.get(2)).and_then(|a| a.as_atom()).and_then(|a| a.parse::<u64>().ok());
    if let Some(l) = ledger {
        if l > bytes.len() as u64 {
            rep.fail(FailKind::ModelDiff, None, "model ledger exceeds the file size (theorem C20_load_total_consumes_prefix_alloc_bounded contradicted by the driver)", &replay());
        }
    }
    // the model's parse_data_type verdict on every column type text of the (byte-level readable) file
    let col_types: Vec<String> = msx
        .as_ref()
        .and_then(|s| s.as_list())
        .and_then(|l| l.iter().filter_map(|x| x.as_list()).find(|x| x.first().and_then(|a| a.as_atom()) == Some("tables")))
        .map(|ts| ts[1..].iter().filter_map(|t| t.as_list()).flat_map(|t| t[1..].iter().filter_map(|c| c.as_list().and_then(|c| c.get(3)).and_then(|a| a.as_atom()).map(|a| a.to_string())).collect::<Vec<_>>()).collect())
        .unwrap_or_default();
    let model_type_rejected = head == "ok" && col_types.iter().any(|t| t == "none");
    let model_types_known = !col_types.iter().any(|t| t == "?");
    if model_type_rejected {
        rep.count("binary_model_rejects_type_text");
        match &out {
            Outcome::Ok(_) => rep.fail(FailKind::ModelDiff, None, "load_binary accepts a column type text the model's parse_data_type rejects", &replay()),
            _ => {}
        }
        return;
    }
    if let (Outcome::Err(e), "ok", true) = (&out, head.as_str(), model_types_known) {
        if e.contains("Unsupported data type") {
            rep.fail(FailKind::ModelDiff, None, "load_binary rejects a column type text the model's parse_data_type accepts", &replay());
            return;
        }
    }
    match (&out, head.as_str()) {
        (Outcome::Ok(d), "ok") => {
            if let Some(md) = msx.as_ref().and_then(model_digest) {
                // shape = everything but the cell values (a value whose tag no longer matches the
                // column type is coerced by Table::insert, e.g. a VARCHAR cell in a DATE column)
                let shape = |x: &str| -> String {
                    let (tabs, idx) = x.split_once('#').unwrap_or((x, "")); // idx = indexes#triggers#keys
                    // index keys follow the cell values: a coerced cell changes them too
                    let idx = idx.rsplit_once('#').map(|p| p.0).unwrap_or(idx);
                    let t: Vec<String> = tabs.split('&').map(|t| { let p: Vec<&str> = t.splitn(3, '|').collect(); format!("{}|{}|{}", p.first().unwrap_or(&""), p.get(1).unwrap_or(&""), p.get(2).map(|r| if r.is_empty() { 0 } else { r.split(';').count() }).unwrap_or(0)) }).collect();
                    format!("{}#{}", t.join("&"), idx)
                };
                if &md != d && kind != "valid" && shape(&md) == shape(d) {
                    rep.count("binary_content_same_shape_cells_coerced_by_insert");
                } else if &md != d {
                    rep.fail(FailKind::ModelDiff, None, "load_binary and the model decode different contents from the same bytes", &format!("{}\nreal digest:  {}\nmodel digest: {}", replay(), d, md));
                } else {
                    rep.count("binary_content_compared");
                }
            }
        }
        (Outcome::Ok(_), "err") => {
            rep.fail(FailKind::ModelDiff, None, "load_binary accepts a file the model rejects", &replay());
        }
        (Outcome::Err(e), "ok") => {
            if let Some(c) = byte_level(e) {
                rep.fail(FailKind::ModelDiff, None, &format!("load_binary reports a reader-level error ({}) on a file the model reads", c), &replay());
            } else {
                rep.count("binary_rejected_by_database_level_check");
            }
        }
        (Outcome::Err(e), "err") => {
            if let Some(c) = byte_level(e) {
                let mk = msx.as_ref().and_then(|s| s.as_list()).and_then(|l| l.get(1)).map(|k| match k {
                    Sx::Atom(a) => a.clone(),
                    Sx::List(v) => v.first().and_then(|a| a.as_atom()).unwrap_or("?").to_string(),
                });
                if mk.as_deref() != Some(c) && mk.as_deref() != Some("unsupportedwhen") {
                    rep.fail(FailKind::ModelDiff, None, &format!("reader-level error class differs: real {} vs model {:?}", c, mk), &replay());
                }
            }
        }
        _ => {}
    }
}

fn other_case(cx: &mut Ctx, rep: &mut Report, fmt: &str, ext: &str, kind: &str, bytes: &[u8], origin: &str) {
    cx.n += 1;
    let path = cx.dir.join(format!("case.{}", ext));
    std::fs::write(&path, bytes).unwrap();
    let out = cx.w.load(fmt, &path);
    rep.case(&format!("{} {} {}", fmt, kind, hex(bytes)), kind != "valid");
    rep.count(&format!("{}_{}_{}", fmt, kind, out.class()));
    if !out.clean() {
        // load_sql_dump's error preview `&s[..100]` (executor/persistence.rs truncate_for_error)
        let sig = match &out {
            Outcome::Panic(m) if fmt == "sql" && m.contains("end byte index 100 is not a char boundary") => Some(SIG_SQL_PREVIEW),
            _ => None,
        };
        rep.fail(FailKind::Oracle, sig, &format!("load ({}) on a damaged file: {}", fmt, out.class()), &format!("{}\nformat: {}\nfile bytes (hex): {}\noutcome: {:?}", origin, fmt, hex(bytes), out));
    }
}

fn le32(n: u32) -> Vec<u8> {
    n.to_le_bytes().to_vec()
}
fn wstr(s: &str) -> Vec<u8> {
    let mut v = le32(s.len() as u32);
    v.extend_from_slice(s.as_bytes());
    v
}
fn header() -> Vec<u8> {
    let mut v = b"VBSQL".to_vec();
    v.extend_from_slice(&[1, 0]);
    v.extend_from_slice(&[0; 9]);
    v
}

fn main() {
    if std::env::args().nth(1).as_deref() == Some("worker") {
        worker();
        return;
    }
    let args = Args::parse("C20");
    let mut rep = Report::new(&args, "a damaged file (anything but the unmodified output of save_*); distinct by format, mutation kind and content");
    engine::silence_panics();
    let mut rng = Rng::new(args.seed);
    let mut cx = Ctx { w: Worker::spawn(), m: args.model(), dir: args.scratch.clone(), n: 0 };

    // ---- crafted probes (boundaries first) -----------------------------------------------------
    // P1 a 4 GiB length prefix in every string position class: must be an error, not an abort
    let mut f = header();
    f.extend_from_slice(&le32(1));
    f.extend_from_slice(&[0xff, 0xff, 0xff, 0xff]);
    binary_case(&mut cx, &mut rep, "crafted", &f, "schema name with length prefix ff ff ff ff");
    let mut f = header();
    f.extend_from_slice(&le32(0));
    f.extend_from_slice(&le32(0));
    f.extend_from_slice(&le32(1));
    f.extend_from_slice(&wstr("T"));
    f.extend_from_slice(&le32(1));
    f.extend_from_slice(&wstr("A"));
    f.extend_from_slice(&wstr("VARCHAR"));
    f.push(1);
    f.extend_from_slice(&le32(0));
    f.extend_from_slice(&le32(0));
    let cat_one_varchar = f.clone();
    f.extend_from_slice(&wstr("T"));
    f.extend_from_slice(&1u64.to_le_bytes());
    f.extend_from_slice(&[0x11, 0xff, 0xff, 0xff, 0x7f]);
    binary_case(&mut cx, &mut rep, "crafted", &f, "VARCHAR value with length prefix ff ff ff 7f (2 GiB) and no bytes");
    // P2 counts of 2^32-1 with nothing behind them
    for pos in 0..5 {
        let mut f = header();
        for _ in 0..pos {
            f.extend_from_slice(&le32(0));
        }
        f.extend_from_slice(&[0xff; 4]);
        binary_case(&mut cx, &mut rep, "crafted", &f, &format!("section count #{} = ff ff ff ff", pos));
    }
    // P3 row count 2^64-1 for a one-column table, then end of file
    let mut f = cat_one_varchar.clone();
    f.extend_from_slice(&wstr("T"));
    f.extend_from_slice(&u64::MAX.to_le_bytes());
    binary_case(&mut cx, &mut rep, "crafted", &f, "row count ff..ff, no rows");
    // P4 zero-column table with a huge row count: rows consume no input; the repaired loader must
    //    reject the data block (model: C20_zero_column_data_rejected) — a time-out here is a violation
    {
        let mut f = header();
        f.extend_from_slice(&le32(0));
        f.extend_from_slice(&le32(0));
        f.extend_from_slice(&le32(1));
        f.extend_from_slice(&wstr("Z"));
        f.extend_from_slice(&le32(0));
        f.extend_from_slice(&le32(0));
        f.extend_from_slice(&le32(0));
        f.extend_from_slice(&wstr("Z"));
        let base = f.clone();
        for n in [u64::MAX, 1, 1 << 40] {
            let mut f = base.clone();
            f.extend_from_slice(&n.to_le_bytes());
            binary_case(&mut cx, &mut rep, "crafted_zero_column", &f, &format!("table Z without columns, data block claiming {} rows", n));
        }
        let mut f = base.clone();
        f.extend_from_slice(&0u64.to_le_bytes());
        binary_case(&mut cx, &mut rep, "crafted_zero_column", &f, "table Z without columns, 0 rows (loads)");
    }
    // P5 trigger WHEN nested beyond the reader's bound: an error (model: C20_probe_400000_nested), never
    //    a stack overflow; and the boundary itself: 41 levels load, 42 do not
    {
        let mut pre = header();
        for _ in 0..4 {
            pre.extend_from_slice(&le32(0));
        }
        pre.extend_from_slice(&le32(1));
        pre.extend_from_slice(&wstr("TR"));
        pre.extend_from_slice(&wstr("T"));
        pre.extend_from_slice(&[1, 0, 0, 1]);
        for (n, tag) in [(400_000usize, 0x06u8), (400_000, 0x03), (42, 0x06), (41, 0x06), (40, 0x06), (1, 0x06)] {
            let mut f = pre.clone();
            for _ in 0..n {
                f.push(tag);
                if tag == 0x03 {
                    f.push(0); // unary operator NOT
                }
            }
            f.push(0x07); // Wildcard
            if tag == 0x06 {
                f.extend(std::iter::repeat(0u8).take(n)); // `negated` of each IsNull
            }
            f.push(0); // action type
            f.extend_from_slice(&wstr("SELECT 1"));
            binary_case(&mut cx, &mut rep, "crafted_when_depth", &f, &format!("trigger WHEN = {} nested expression tags {:02x} around a wildcard", n, tag));
        }
    }
    // P5b SQL dump: a failing statement longer than 100 bytes with a multi-byte character across byte 100
    {
        let stmt = format!("INSERT INTO NOSUCH VALUES ('{}漢漢漢');\n", "x".repeat(71));
        other_case(&mut cx, &mut rep, "sql", "sql", "crafted", stmt.as_bytes(), "failing statement whose 100th byte is inside a multi-byte character");
    }
    // P6 tiny inputs, all formats
    for b in [&b""[..], b"V", b"VBSQL", b"VBSQL\x02", b"{", b"{}", b"\x28\xb5\x2f\xfd", b"\x28\xb5\x2f\xfd\x00\x00", b"CREATE", b"'", b"INSERT INTO t VALUES ('"] {
        binary_case(&mut cx, &mut rep, "tiny", b, "tiny input");
        other_case(&mut cx, &mut rep, "compressed", "vbsqlz", "tiny", b, "tiny input");
        other_case(&mut cx, &mut rep, "json", "json", "tiny", b, "tiny input");
        other_case(&mut cx, &mut rep, "sql", "sql", "tiny", b, "tiny input");
        other_case(&mut cx, &mut rep, "auto", "db", "tiny", b, "tiny input (Database::load, format detection)");
    }

    // ---- valid files from generated databases, then damage ---------------------------------------
    let ndb = args.n(5, 120);
    let budget_trunc = args.n(500, 300_000);
    for di in 0..ndb {
        let mut r = rng.fork();
        let mut g = gen_db(&mut r, 5, &[]);
        // add a trigger-free, small shape: keep the file small enough for exhaustive truncation
        let origin = format!("database script:\n{}", g.script.join("\n"));
        let files: Vec<(Fmt, Vec<u8>)> = [Fmt::Binary, Fmt::Compressed, Fmt::Json]
            .iter()
            .filter_map(|f| {
                let p = cx.dir.join(format!("valid.{}", f.ext()));
                f.save(&g.db.db, &p).ok()?;
                Some((*f, std::fs::read(&p).ok()?))
            })
            .collect();
        let sqlp = cx.dir.join("valid.sql");
        let sql = g.db.db.save_sql_dump(&sqlp).ok().and_then(|_| std::fs::read(&sqlp).ok());
        for (f, bytes) in &files {
            rep.count(&format!("valid_file_{}_bytes_{}", f.name(), match bytes.len() { 0..=255 => "<256", 256..=1023 => "256-1023", 1024..=4095 => "1K-4K", _ => ">=4K" }));
            match f {
                Fmt::Binary => {
                    binary_case(&mut cx, &mut rep, "valid", bytes, &origin);
                    // every truncation point (exhaustive while the budget lasts, then sampled)
                    let step = if (bytes.len() as u64) <= budget_trunc / ndb.max(1) { 1 } else { (bytes.len() as u64 * ndb / budget_trunc).max(1) as usize };
                    let mut cut = 0;
                    while cut < bytes.len() {
                        binary_case(&mut cx, &mut rep, "truncated", &bytes[..cut], &format!("{}\ntruncated to {} of {} bytes", origin, cut, bytes.len()));
                        cut += if step == 1 { 1 } else { 1 + r.below(2 * step as u64 - 1) as usize };
                    }
                    // structure-aware substitutions
                    let lay = cx.m.ask(&format!("layout {}", hex(bytes)));
                    let fields: Vec<(String, usize, usize)> = Sx::parse(&lay)
                        .and_then(|s| s.as_list().map(|l| l.to_vec()))
                        .unwrap_or_default()
                        .iter()
                        .filter_map(|x| {
                            let l = x.as_list()?;
                            Some((l[0].as_atom()?.to_string(), l[1].as_atom()?.parse().ok()?, l[2].as_atom()?.parse().ok()?))
                        })
                        .collect();
                    if fields.is_empty() {
                        rep.fail(FailKind::ModelDiff, None, "the model cannot lay out a file written by save_binary", &format!("{}\nfile: {}\nmodel: {}", origin, hex(bytes), lay.chars().take(300).collect::<String>()));
                    }
                    let mut targets: Vec<(String, usize)> = vec![];
                    for (k, off, len) in &fields {
                        if matches!(k.as_str(), "tag" | "len" | "typelen" | "count" | "flag" | "version" | "magic") {
                            targets.push((k.clone(), *off));
                            if *len > 1 {
                                targets.push((k.clone(), off + len - 1));
                            }
                        }
                    }
                    let per_file = args.n(120, 30_000) as usize;
                    if targets.len() * 5 > per_file {
                        r.shuffle(&mut targets);
                        targets.truncate(per_file / 5);
                    }
                    for (k, off) in &targets {
                        let orig = bytes[*off];
                        let mut subs = vec![0u8, 1, 0xff, 0x7f, orig ^ 1, orig.wrapping_add(1)];
                        if k == "tag" {
                            subs.extend_from_slice(&[0x11, 0x30, 0x31, 0x20, 0x02, 0x09]);
                        }
                        subs.sort();
                        subs.dedup();
                        for s in subs {
                            if s == orig {
                                continue;
                            }
                            let mut b = bytes.clone();
                            b[*off] = s;
                            binary_case(&mut cx, &mut rep, &format!("subst_{}", k), &b, &format!("{}\nbyte {} ({}) {:02x} -> {:02x}", origin, off, k, orig, s));
                        }
                    }
                    // random bit flips anywhere
                    for _ in 0..args.n(30, 2000) {
                        let mut b = bytes.clone();
                        let i = r.below(b.len() as u64) as usize;
                        b[i] ^= 1 << r.below(8);
                        binary_case(&mut cx, &mut rep, "bitflip", &b, &format!("{}\nbit flip at byte {}", origin, i));
                    }
                }
                _ => {
                    let (name, ext) = (f.name(), f.ext());
                    other_case(&mut cx, &mut rep, name, ext, "valid", bytes, &origin);
                    for _ in 0..args.n(25, 1500) {
                        let cut = r.below(bytes.len() as u64) as usize;
                        other_case(&mut cx, &mut rep, name, ext, "truncated", &bytes[..cut], &format!("{}\ntruncated to {}", origin, cut));
                        let mut b = bytes.clone();
                        let i = r.below(b.len() as u64) as usize;
                        b[i] ^= 1 << r.below(8);
                        other_case(&mut cx, &mut rep, name, ext, "bitflip", &b, &format!("{}\nbit flip at byte {}", origin, i));
                        let mut b = bytes.clone();
                        let i = r.below(b.len() as u64) as usize;
                        b[i] = r.next() as u8;
                        other_case(&mut cx, &mut rep, name, ext, "subst", &b, &format!("{}\nbyte {} replaced", origin, i));
                    }
                }
            }
        }
        if let Some(bytes) = sql {
            other_case(&mut cx, &mut rep, "sql", "sql", "valid", &bytes, &origin);
            for _ in 0..args.n(15, 800) {
                let cut = r.below(bytes.len() as u64) as usize;
                other_case(&mut cx, &mut rep, "sql", "sql", "truncated", &bytes[..cut], &format!("{}\ntruncated to {}", origin, cut));
                let mut b = bytes.clone();
                let i = r.below(b.len() as u64) as usize;
                b[i] = *r.pick(&[b'\'', b'(', b')', b';', b'-', b'\\', 0xff, 0x00, b'"', b'\n']);
                other_case(&mut cx, &mut rep, "sql", "sql", "subst", &b, &format!("{}\nbyte {} replaced", origin, i));
            }
        }
        let _ = di;
    }

    // ---- column type texts: every persistable parameterised type, structure-aware corruption -------
    // Fixture A: one column per type shape `format_data_type` can write and `parse_data_type` re-reads
    // (enumerated from vibesql_types::DataType / persistence/save.rs); fixture B: the shapes it writes but
    // cannot re-read (INTERVAL qualifiers, BIT, user-defined, CLOB/BLOB/NULL) and the lossy ones.
    {
        use vibesql_types::{DataType as D, IntervalField as IF};
        let fixture = |name: &str, types: Vec<D>, with_rows: bool, r: &mut Rng| -> Option<Vec<u8>> {
            let name = &name.to_uppercase();
            let mut db = Database::new();
            let cols: Vec<vibesql_catalog::ColumnSchema> = types
                .iter()
                .enumerate()
                .map(|(i, t)| vibesql_catalog::ColumnSchema { name: format!("K{}", i), data_type: t.clone(), nullable: i % 3 != 0, default_value: None })
                .collect();
            db.create_table(vibesql_catalog::TableSchema::new(name.to_string(), cols.clone())).ok()?;
            if with_rows {
                for _ in 0..2 {
                    let vals: Vec<V> = cols.iter().map(|c| gen_value(r, &c.data_type, c.nullable)).collect();
                    let _ = std::panic::catch_unwind(std::panic::AssertUnwindSafe(|| db.insert_row(name, vibesql_storage::Row::new(vals))));
                }
            }
            let p = cx_dir_tmp(name);
            db.save_binary(&p).ok()?;
            std::fs::read(&p).ok()
        };
        fn cx_dir_tmp(name: &str) -> std::path::PathBuf {
            std::path::PathBuf::from(std::env::var("VERIF_DIR").unwrap_or_else(|_| "/verif".into())).join(".run").join(format!("c20-fixture-{}-{}.vbsql", name, std::process::id()))
        }
        let types_a = vec![
            D::Integer,
            D::Numeric { precision: 10, scale: 2 },
            D::Decimal { precision: 8, scale: 3 },
            D::Numeric { precision: 38, scale: 0 },
            D::Varchar { max_length: Some(40) },
            D::Varchar { max_length: None },
            D::Character { length: 6 },
            D::Float { precision: 24 },
            D::Float { precision: 53 },
            D::Timestamp { with_timezone: true },
            D::Timestamp { with_timezone: false },
            D::Time { with_timezone: false },
            D::Date,
            D::DoublePrecision,
            D::Unsigned,
            D::Smallint,
            D::Bigint,
            D::Real,
            D::Boolean,
        ];
        let types_b = vec![
            D::Integer,
            D::Interval { start_field: IF::Year, end_field: None },
            D::Interval { start_field: IF::Year, end_field: Some(IF::Month) },
            D::Interval { start_field: IF::Day, end_field: Some(IF::Second) },
            D::Time { with_timezone: true },
            D::Name,
            D::Bit { length: Some(4) },
            D::Bit { length: None },
            D::UserDefined { type_name: "TINYINT".into() },
            D::UserDefined { type_name: "my type(1,2)".into() },
            D::CharacterLargeObject,
            D::BinaryLargeObject,
            D::Null,
        ];
        let dict: Vec<&[u8]> = vec![
            b"NUMERIC(10  2)", b"NUMERIC(10)", b"NUMERIC(", b"NUMERIC()", b"NUMERIC(,)", b"NUMERIC(,2)", b"NUMERIC(10,)", b"NUMERIC(10,2,3)",
            b"NUMERIC(10, 2", b"NUMERIC(999, 2)", b"NUMERIC(-1, 2)", b"NUMERIC(+1,+2)", b"NUMERIC", b"NUMERIC )", b"numeric(10, 2)", b"NUMERIC(NUMERIC(7, 1))",
            b"NUMERIC(\t5\t,\n6\r)", b"DECIMAL(,)", b"DECIMAL(", b"DECIMAL(5)", b"DECIMAL()", b"DECIMAL", b"DECIMAL(5 1)", b"DECIMAL(5;1)", b"decimal(255,256)",
            b"VARCHAR(", b"VARCHAR()", b"VARCHAR(x)", b"VARCHAR(-1)", b"VARCHAR(18446744073709551615)", b"VARCHAR(18446744073709551616)", b"VARCHAR(4", b"VARCHARX",
            b"VARCHAR (4)", b"VARCHAR(4))))", b"VARCHAR(+4)", b"VARCHAR( 4)", b"CHAR(x)", b"CHAR(", b"CHAR()", b"CHAR", b"CHAR(0)", b"CHAR(99999999999999999999999)",
            b"CHARACTER(3)", b"CHAR(CHAR(3))", b"FLOAT(", b"FLOAT()", b"FLOAT(256)", b"FLOAT(255)", b"FLOAT(x)", b"FLOAT", b"FLOAT(2,3)", b"TIMESTAMP(", b"TIMESTAMP(6)",
            b"TIMESTAMP WITH", b"TIMESTAMP WITH TIME ZONE ", b"TIMESTAMP  WITH TIME ZONE", b"DATETIME", b"TIME(", b"TIME(3)", b"TIME WITH TIME ZONE", b"INTERVAL YEAR TO",
            b"INTERVAL YEAR TO MONTH", b"INTERVAL Year", b"INTERVAL", b"INTERVAL ", b"BIT(", b"BIT(4)", b"BIT", b"", b" ", b"(", b")", b",", b"INTEGER ", b" INTEGER", b"INT",
            b"DOUBLE", b"DOUBLE  PRECISION", b"BIGINT UNSIGNED ", b"NULL", b"CLOB", b"BLOB", b"mytype", b"\x00", b"\xc3\xbf", b"numeric(\xc4\xb1)", b"VARCHAR(\xef\xbc\x94)",
        ];
        let subs: [u8; 9] = [b' ', b',', b'(', b')', b'0', b'9', b'A', b'x', 0x7f];
        let splice = |bytes: &[u8], lo: usize, off: usize, len: usize, new: &[u8], prefix: Option<u32>| -> Vec<u8> {
            let mut b = bytes[..lo].to_vec();
            b.extend_from_slice(&le32(prefix.unwrap_or(new.len() as u32)));
            b.extend_from_slice(new);
            b.extend_from_slice(&bytes[off + len..]);
            b
        };
        // fixtures: (description, bytes, class) — class 0: parameterised re-readable type (full streams),
        // 1: plain re-readable type, 2: written-but-not-re-readable / lossy type, 3: all of A in one table
        let quick = args.quick();
        let mut fixtures: Vec<(String, Vec<u8>, u8)> = vec![];
        match fixture("FXA", types_a.clone(), true, &mut rng) {
            Some(b) => fixtures.push(("fixture A: one table with every re-readable type".into(), b, 3)),
            None => rep.fail(FailKind::Oracle, None, "cannot build the column-type fixture through the storage API", "create_table / save_binary failed"),
        }
        for (i, t) in types_a.iter().enumerate().skip(1) {
            let param = matches!(t, D::Numeric { .. } | D::Decimal { .. } | D::Varchar { max_length: Some(_) } | D::Character { .. } | D::Float { .. });
            if let Some(b) = fixture(&format!("A{}", i), vec![t.clone()], false, &mut rng) {
                fixtures.push((format!("single-column table of type {:?}", t), b, if param { 0 } else { 1 }));
            }
            let _ = std::fs::remove_file(cx_dir_tmp(&format!("A{}", i)));
        }
        for (i, t) in types_b.iter().enumerate().skip(1) {
            if let Some(b) = fixture(&format!("B{}", i), vec![t.clone()], false, &mut rng) {
                fixtures.push((format!("single-column table of type {:?} (not re-readable / lossy)", t), b, 2));
            }
            let _ = std::fs::remove_file(cx_dir_tmp(&format!("B{}", i)));
        }
        let _ = std::fs::remove_file(cx_dir_tmp("FXA"));
        rep.add("type_fixture_files", fixtures.len() as u64);
        let mut dict_runs = 0;
        for (what, bytes, class) in &fixtures {
            binary_case(&mut cx, &mut rep, "valid", bytes, what);
            let lay = cx.m.ask(&format!("layout {}", hex(bytes)));
            let fields: Vec<(String, usize, usize)> = Sx::parse(&lay)
                .and_then(|s| s.as_list().map(|l| l.to_vec()))
                .unwrap_or_default()
                .iter()
                .filter_map(|x| {
                    let l = x.as_list()?;
                    Some((l[0].as_atom()?.to_string(), l[1].as_atom()?.parse().ok()?, l[2].as_atom()?.parse().ok()?))
                })
                .collect();
            // (typelen offset, type offset, type length)
            let mut tys: Vec<(usize, usize, usize)> = vec![];
            for w in fields.windows(2) {
                if w[0].0 == "typelen" && w[1].0 == "type" {
                    tys.push((w[0].1, w[1].1, w[1].2));
                }
            }
            rep.add("type_text_fields_located", tys.len() as u64);
            if tys.is_empty() {
                rep.fail(FailKind::ModelDiff, None, "the model's layout finds no column type text in a fixture file", &format!("{}\nfile: {}\nmodel: {}", what, hex(bytes), lay.chars().take(300).collect::<String>()));
            }
            if *class == 3 {
                // the multi-column file: the dictionary on its NUMERIC(10, 2) column only (context: other columns follow)
                tys = tys.into_iter().skip(1).take(1).collect();
            }
            for (lo, off, len) in &tys {
                let text = String::from_utf8_lossy(&bytes[*off..*off + *len]).to_string();
                let origin = |m: String| format!("{}\ncolumn type text {:?} at byte {}: {}", what, text, off, m);
                if *class != 3 {
                    // (a) every byte of the type text × the ASCII set, length kept
                    //     (quick: the full set on parameterised types, a rotating third of it elsewhere)
                    for i in 0..*len {
                        for (k, s) in subs.iter().enumerate() {
                            if bytes[off + i] == *s || (quick && *class != 0 && (k + i) % 3 != 0) {
                                continue;
                            }
                            let mut b = bytes.clone();
                            b[off + i] = *s;
                            binary_case(&mut cx, &mut rep, "type_subst", &b, &origin(format!("byte {} -> {:02x}", i, s)));
                        }
                    }
                    // (b) delete / insert one byte, length prefix fixed up
                    for i in 0..*len {
                        let mut t = bytes[*off..*off + *len].to_vec();
                        t.remove(i);
                        binary_case(&mut cx, &mut rep, "type_delete", &splice(bytes, *lo, *off, *len, &t, None), &origin(format!("byte {} deleted", i)));
                    }
                    for i in 0..=*len {
                        for k in 0..(if quick && *class != 0 { 1 } else if quick { 2 } else { subs.len() }) {
                            let s = subs[(i + k * 4) % subs.len()];
                            let mut t = bytes[*off..*off + *len].to_vec();
                            t.insert(i, s);
                            binary_case(&mut cx, &mut rep, "type_insert", &splice(bytes, *lo, *off, *len, &t, None), &origin(format!("{:02x} inserted at {}", s, i)));
                        }
                    }
                    // (c) the length prefix alone
                    //     (parameterised types: every value 0..=len+2, so the text is cut at every position)
                    let deltas: Vec<i64> = if *class == 0 || !quick { (-(*len as i64)..=2).chain([*len as i64]).collect() } else { vec![-2, -1, 1, 2, -(*len as i64), *len as i64] };
                    for d in deltas {
                        let nl = (*len as i64 + d).max(0) as u32;
                        if nl as usize == *len {
                            continue;
                        }
                        let b = splice(bytes, *lo, *off, *len, &bytes[*off..*off + *len], Some(nl));
                        binary_case(&mut cx, &mut rep, "type_lenprefix", &b, &origin(format!("length prefix {} -> {}", len, nl)));
                    }
                }
                // (d) near-miss dictionary: the outcome depends on the replacement, not on the replaced type,
                //     so quick runs it on the multi-column file and on the first single-column file only
                if *class == 3 || dict_runs < 2 || !quick {
                    dict_runs += 1;
                    for w in dict.iter() {
                        binary_case(&mut cx, &mut rep, "type_dictionary", &splice(bytes, *lo, *off, *len, w, None), &origin(format!("replaced by {:?}", String::from_utf8_lossy(w))));
                    }
                }
            }
        }
        // crafted: CHAR(n) with a huge n read from the file — padding the first row to n characters
        // would allocate n bytes for a file of ~100 bytes
        {
            let mut db = Database::new();
            let cols = vec![vibesql_catalog::ColumnSchema { name: "C".into(), data_type: D::Character { length: 6 }, nullable: true, default_value: None }];
            let _ = db.create_table(vibesql_catalog::TableSchema::new("HC".to_string(), cols));
            let _ = db.insert_row("HC", vibesql_storage::Row::new(vec![V::Character("ab".into())]));
            let p = cx_dir_tmp("HC");
            if db.save_binary(&p).is_ok() {
                let bytes = std::fs::read(&p).unwrap_or_default();
                let _ = std::fs::remove_file(&p);
                if let Some(pos) = bytes.windows(7).position(|w| w == b"CHAR(6)") {
                    for n in ["4000000000", "18446744073709551615", "1099511627776", "70000"] {
                        let new = format!("CHAR({})", n);
                        let b = splice(&bytes, pos - 4, pos, 7, new.as_bytes(), None);
                        cx.n += 1;
                        let path = cx.dir.join("hugechar.vbsql");
                        std::fs::write(&path, &b).unwrap();
                        let out = cx.w.load("binary", &path);
                        rep.case(&format!("crafted huge char {}", n), true);
                        rep.count(&format!("binary_crafted_huge_char_{}", out.class()));
                        if !out.clean() {
                            rep.fail(FailKind::Oracle, None, &format!("load_binary: {} on a {}-byte file whose column type is CHAR({}) with one row", out.class(), b.len(), n), &format!("file bytes (hex): {}\noutcome: {:?}", hex(&b), out));
                        }
                    }
                } else {
                    rep.fail(FailKind::Oracle, None, "CHAR(6) type text not found in the saved fixture", &hex(&bytes));
                }
            }
        }
        // crafted: JSON file with a NAME column holding > 128 bytes of multi-byte text
        {
            let mut db = Database::new();
            let cols = vec![vibesql_catalog::ColumnSchema { name: "N".into(), data_type: D::Name, nullable: true, default_value: None }];
            let _ = db.create_table(vibesql_catalog::TableSchema::new("NM".to_string(), cols));
            let _ = db.insert_row("NM", vibesql_storage::Row::new(vec![V::Varchar("MARKER".into())]));
            let p = cx.dir.join("name.json");
            if db.save_json(&p).is_ok() {
                let json = std::fs::read_to_string(&p).unwrap_or_default();
                for long in ["é".repeat(100), format!("a{}", "漢".repeat(60)), "x".repeat(200), "😀".repeat(33)] {
                    let j = json.replace("MARKER", &long);
                    other_case(&mut cx, &mut rep, "json", "json", "crafted", j.as_bytes(), "NAME column with a value longer than 128 bytes of multi-byte text");
                }
            }
        }
        // the same dictionary through the JSON and SQL-dump loaders (their own type parsers), oracle only
        {
            let mut db = Db::new();
            db.keep_log = false;
            db.exec("CREATE TABLE JT (A INTEGER, N NUMERIC(10,2), S VARCHAR(40), C CHAR(6), F FLOAT(24), TS TIMESTAMP WITH TIME ZONE)");
            db.exec("INSERT INTO JT VALUES (1, 2.5, 'x', 'ab', 1.5, NULL)");
            let pj = cx.dir.join("types.json");
            let ps = cx.dir.join("types.sql");
            let json = db.db.save_json(&pj).ok().and_then(|_| std::fs::read_to_string(&pj).ok()).unwrap_or_default();
            let sql = db.db.save_sql_dump(&ps).ok().and_then(|_| std::fs::read_to_string(&ps).ok()).unwrap_or_default();
            for w in dict.iter().filter_map(|w| std::str::from_utf8(w).ok()) {
                for ty in if args.quick() { &["NUMERIC", "VARCHAR"][..] } else { &["NUMERIC", "VARCHAR", "CHAR", "FLOAT", "TIMESTAMP WITH TIME ZONE"][..] } {
                    let needle = format!("\"type\": \"{}\"", ty);
                    if json.contains(&needle) {
                        let esc: String = w.chars().map(|c| if c == '"' || c == '\\' || c.is_control() { ' ' } else { c }).collect();
                        let j = json.replacen(&needle, &format!("\"type\": \"{}\"", esc), 1);
                        other_case(&mut cx, &mut rep, "json", "json", "type_dictionary", j.as_bytes(), &format!("JSON column type {} replaced by {:?}", ty, w));
                    }
                }
                for ty in if args.quick() { &["NUMERIC(10, 2)"][..] } else { &["NUMERIC(10, 2)", "VARCHAR(40)", "CHAR(6)"][..] } {
                    if sql.contains(ty) {
                        let q = sql.replacen(ty, w, 1);
                        other_case(&mut cx, &mut rep, "sql", "sql", "type_dictionary", q.as_bytes(), &format!("SQL dump column type {} replaced by {:?}", ty, w));
                    }
                }
            }
        }
    }
    // ---- triggers with WHEN conditions: every expression tag, counts / tags / flags corrupted ----------
    {
        use vibesql_ast::{
            BinaryOperator as B, CaseWhen, CharacterUnit, Expression as E, FrameBound, FrameUnit, FulltextMode, IntervalUnit, PseudoTable, TrimPosition, UnaryOperator as U,
            WindowFrame, WindowFunctionSpec, WindowSpec,
        };
        let lit = |i: i64| E::Literal(V::Integer(i));
        let st = |x: &str| E::Literal(V::Varchar(x.into()));
        let col = |c: &str| E::ColumnRef { table: Some("T".into()), column: c.into() };
        let bx = |e: E| Box::new(e);
        let and = |a: E, b: E| E::BinaryOp { op: B::And, left: Box::new(a), right: Box::new(b) };
        let whens: Vec<(&str, E)> = vec![
            (
                "function/aggregate/operators",
                and(
                    E::BinaryOp { op: B::GreaterThan, left: bx(E::Function { name: "UPPER".into(), args: vec![col("S"), lit(1), st("é")], character_unit: Some(CharacterUnit::Characters) }), right: bx(st("x")) },
                    and(
                        E::UnaryOp { op: U::Not, expr: bx(E::IsNull { expr: bx(col("A")), negated: true }) },
                        E::BinaryOp { op: B::Equal, left: bx(E::AggregateFunction { name: "COUNT".into(), distinct: true, args: vec![E::Wildcard] }), right: bx(E::Function { name: "F0".into(), args: vec![], character_unit: None }) },
                    ),
                ),
            ),
            (
                "case/inlist/between",
                and(
                    E::Case {
                        operand: Some(bx(col("A"))),
                        when_clauses: vec![CaseWhen { conditions: vec![lit(1), lit(2)], result: E::Literal(V::Boolean(true)) }, CaseWhen { conditions: vec![lit(3)], result: E::Literal(V::Null) }],
                        else_result: Some(bx(E::Literal(V::Boolean(false)))),
                    },
                    and(
                        E::InList { expr: bx(col("A")), values: vec![lit(1), lit(-2), E::Literal(V::Double(1.5))], negated: true },
                        E::Between { expr: bx(col("A")), low: bx(lit(0)), high: bx(lit(9)), negated: false, symmetric: true },
                    ),
                ),
            ),
            (
                "cast/position/trim/like",
                and(
                    E::Like { expr: bx(E::Cast { expr: bx(col("A")), data_type: vibesql_types::DataType::Varchar { max_length: Some(40) } }), pattern: bx(st("a%")), negated: false },
                    and(
                        E::BinaryOp { op: B::LessThan, left: bx(E::Position { substring: bx(st("b")), string: bx(col("S")), character_unit: Some(CharacterUnit::Octets) }), right: bx(E::Cast { expr: bx(lit(1)), data_type: vibesql_types::DataType::Numeric { precision: 10, scale: 2 } }) },
                        E::BinaryOp { op: B::Equal, left: bx(E::Trim { position: Some(TrimPosition::Leading), removal_char: Some(bx(st(" "))), string: bx(col("S")) }), right: bx(E::Trim { position: None, removal_char: None, string: bx(col("S")) }) },
                    ),
                ),
            ),
            (
                "current/interval/leaves",
                and(
                    E::BinaryOp { op: B::LessThan, left: bx(E::CurrentDate), right: bx(E::BinaryOp { op: B::Plus, left: bx(E::CurrentTimestamp { precision: None }), right: bx(E::Interval { value: bx(lit(5)), unit: IntervalUnit::Day, leading_precision: Some(2), fractional_precision: Some(6) }) }) },
                    and(
                        E::BinaryOp { op: B::NotEqual, left: bx(E::CurrentTime { precision: Some(3) }), right: bx(E::Default) },
                        E::BinaryOp {
                            op: B::Concat,
                            left: bx(E::BinaryOp { op: B::Concat, left: bx(E::DuplicateKeyValue { column: "A".into() }), right: bx(E::NextValue { sequence_name: "SEQ".into() }) }),
                            right: bx(E::BinaryOp { op: B::Concat, left: bx(E::SessionVariable { name: "v".into() }), right: bx(E::PseudoVariable { pseudo_table: PseudoTable::New, column: "A".into() }) }),
                        },
                    ),
                ),
            ),
            (
                "match/window",
                and(
                    E::MatchAgainst { columns: vec!["S".into(), "A".into()], search_modifier: bx(st("word")), mode: FulltextMode::Boolean },
                    E::BinaryOp {
                        op: B::GreaterThan,
                        left: bx(E::WindowFunction {
                            function: WindowFunctionSpec::Aggregate { name: "SUM".into(), args: vec![col("A")] },
                            over: WindowSpec { partition_by: Some(vec![col("S"), col("A")]), order_by: None, frame: Some(WindowFrame { unit: FrameUnit::Rows, start: FrameBound::Preceding(bx(lit(1))), end: Some(FrameBound::Following(bx(lit(2)))) }) },
                        }),
                        right: bx(E::WindowFunction { function: WindowFunctionSpec::Ranking { name: "RANK".into(), args: vec![] }, over: WindowSpec { partition_by: None, order_by: None, frame: None } }),
                    },
                ),
            ),
        ];
        let quick = args.quick();
        rep.add("trigger_when_fixtures", whens.len() as u64);
        for (wi, (what, when)) in whens.iter().enumerate() {
            let mut db = Database::new();
            let cols = vec![
                vibesql_catalog::ColumnSchema { name: "A".into(), data_type: vibesql_types::DataType::Integer, nullable: true, default_value: None },
                vibesql_catalog::ColumnSchema { name: "S".into(), data_type: vibesql_types::DataType::Varchar { max_length: None }, nullable: true, default_value: None },
            ];
            let _ = db.create_table(vibesql_catalog::TableSchema::new("T".to_string(), cols));
            let trig = vibesql_catalog::TriggerDefinition::new(
                format!("TR{}", wi),
                vibesql_ast::TriggerTiming::After,
                if wi % 2 == 0 { vibesql_ast::TriggerEvent::Update(Some(vec!["A".into(), "S".into()])) } else { vibesql_ast::TriggerEvent::Insert },
                "T".to_string(),
                vibesql_ast::TriggerGranularity::Row,
                Some(Box::new(when.clone())),
                vibesql_ast::TriggerAction::RawSql("INSERT INTO T VALUES (1, 'x')".into()),
            );
            if let Err(e) = db.catalog.create_trigger(trig) {
                rep.fail(FailKind::Oracle, None, "cannot create the trigger fixture", &format!("{:?}", e));
                continue;
            }
            let p = cx.dir.join("trig.vbsql");
            if let Err(e) = db.save_binary(&p) {
                rep.fail(FailKind::Oracle, None, "save_binary of a database with a trigger WHEN condition failed", &format!("{}: {:?}", what, e));
                continue;
            }
            let bytes = std::fs::read(&p).unwrap_or_default();
            let origin = format!("trigger fixture '{}': table T(A INTEGER, S VARCHAR), AFTER trigger TR{} with WHEN {:?}", what, wi, when);
            binary_case(&mut cx, &mut rep, "valid", &bytes, &origin);
            // where the trigger section is
            let sec = cx.m.ask(&format!("sections {}", hex(&bytes)));
            let offs: Vec<usize> = Sx::parse(&sec).and_then(|s| s.as_list().map(|l| l[1..].iter().filter_map(|x| x.as_atom().and_then(|a| a.parse().ok())).collect())).unwrap_or_default();
            if offs.len() != 6 {
                rep.fail(FailKind::ModelDiff, None, "the model cannot read the catalog of a file with a trigger WHEN condition written by save_binary", &format!("{}\nfile: {}\nmodel: {}", origin, hex(&bytes), sec));
                continue;
            }
            let (lo, hi) = (offs[4], offs[5]);
            rep.add("trigger_section_bytes", (hi - lo) as u64);
            // every truncation point inside the trigger section
            for cut in lo..hi {
                if quick && cut % 2 == 1 {
                    continue;
                }
                binary_case(&mut cx, &mut rep, "trigger_truncated", &bytes[..cut], &format!("{}\ntruncated to {} of {} bytes", origin, cut, bytes.len()));
            }
            // every byte of the trigger section × a substitution set (ff always: counts become huge)
            for i in lo..hi {
                let orig = bytes[i];
                let all = [0xffu8, 0x7f, 0, 1, 2, 5, 0x1e, orig.wrapping_add(1), orig ^ 1, orig ^ 0x80];
                let mut subs: Vec<u8> = if quick { vec![0xff, all[1 + (i * 4 + i / 9) % 9]] } else { all.to_vec() };
                subs.sort();
                subs.dedup();
                for sb in subs {
                    if sb == orig {
                        continue;
                    }
                    let mut b = bytes.clone();
                    b[i] = sb;
                    binary_case(&mut cx, &mut rep, "trigger_subst", &b, &format!("{}\nbyte {} (trigger section {}..{}) {:02x} -> {:02x}", origin, i, lo, hi, orig, sb));
                }
            }
        }
    }
    // ---- every VALUE of the data section re-read under every other type tag; near-miss payload texts -------
    {
        use vibesql_types::DataType as D;
        let texts: Vec<String> = [
            "1-6 YEAR TO", "TO", "1 DAY TO ", "A B TO", "1 2 3 TO", "x y to", "1-6 YEAR TO      ", "1 DAY TO TO", "TO TO TO", "漢 字 TO", "1-6 YEAR TO MONTH",
            "5 12:30:45 DAY TO SECOND", "1 YEAR TO MONTH", "99999999999999999999 YEAR", "5", "-5 DAY", "1-6", "3 04:05:06.007", "2024-13-45", "2024-02-30", "2024-01-01",
            "9999999999-01-01", "-1-1-1", "--", "-", "", " ", "25:61:61", "12:00", "12:00:00.", "12:00:00.05", "12:00:00.1234567890123", "00:00:00.-1", "12:00:00.ééééé",
            ":", "::", "2024-01-01 25:00:00", "2024-01-01T00:00:00", "2024-01-01 00:00:00+", "2024-01-01 00:00:00+99:99", "2024-01-01 00:00:00.5-08:00", "2024-01-01 ",
            "1e999", "NaN", "007", "é", "\u{10ffff}", "a'b",
        ]
        .iter()
        .map(|x| x.to_string())
        .collect();
        // fixture V: one VARCHAR column, one row per text; fixture W: typed columns with one row
        let mut fx: Vec<(String, Vec<u8>)> = vec![];
        {
            let mut db = Database::new();
            let _ = db.create_table(vibesql_catalog::TableSchema::new("NV".to_string(), vec![vibesql_catalog::ColumnSchema { name: "S".into(), data_type: D::Varchar { max_length: None }, nullable: true, default_value: None }]));
            for t in &texts {
                let _ = db.insert_row("NV", vibesql_storage::Row::new(vec![V::Varchar(t.clone())]));
            }
            let p = cx.dir.join("nv.vbsql");
            if db.save_binary(&p).is_ok() {
                fx.push(("VARCHAR column holding the near-miss temporal / numeric texts".into(), std::fs::read(&p).unwrap_or_default()));
            }
        }
        {
            let mut db = Database::new();
            let types = [D::Integer, D::Smallint, D::Bigint, D::Unsigned, D::Numeric { precision: 10, scale: 2 }, D::Float { precision: 24 }, D::Real, D::DoublePrecision, D::Character { length: 12 }, D::Varchar { max_length: None }, D::Boolean, D::Date, D::Time { with_timezone: false }, D::Timestamp { with_timezone: false }];
            let cols: Vec<vibesql_catalog::ColumnSchema> = types.iter().enumerate().map(|(i, t)| vibesql_catalog::ColumnSchema { name: format!("W{}", i), data_type: t.clone(), nullable: true, default_value: None }).collect();
            let _ = db.create_table(vibesql_catalog::TableSchema::new("TW".to_string(), cols.clone()));
            let row = vec![
                V::Integer(-5), V::Smallint(7), V::Bigint(1 << 40), V::Unsigned(u64::MAX), V::Numeric(0.05), V::Float(1.5), V::Real(-0.0), V::Double(f64::NAN), V::Character("1 DAY TO".into()), V::Varchar("1-6 YEAR TO".into()), V::Boolean(true),
                V::Date(vibesql_types::Date::new(2024, 2, 29).unwrap()), V::Time(vibesql_types::Time::new(12, 0, 0, 50_000_000).unwrap()),
                V::Timestamp(vibesql_types::Timestamp::new(vibesql_types::Date::new(1999, 12, 31).unwrap(), vibesql_types::Time::new(23, 59, 59, 1).unwrap())),
            ];
            let _ = db.insert_row("TW", vibesql_storage::Row::new(row));
            let p = cx.dir.join("tw.vbsql");
            if db.save_binary(&p).is_ok() {
                fx.push(("one row with a value of every storable type".into(), std::fs::read(&p).unwrap_or_default()));
            }
        }
        let all_tags: [u8; 16] = [0x00, 0x01, 0x02, 0x03, 0x04, 0x05, 0x06, 0x07, 0x08, 0x10, 0x11, 0x20, 0x30, 0x31, 0x32, 0x33];
        let quick = args.quick();
        for (what, bytes) in &fx {
            binary_case(&mut cx, &mut rep, "valid", bytes, what);
            let lay = cx.m.ask(&format!("layout {}", hex(bytes)));
            let tags: Vec<usize> = Sx::parse(&lay)
                .and_then(|s| s.as_list().map(|l| l.to_vec()))
                .unwrap_or_default()
                .iter()
                .filter_map(|x| {
                    let l = x.as_list()?;
                    if l[0].as_atom()? == "tag" { l[1].as_atom()?.parse().ok() } else { None }
                })
                .collect();
            rep.add("value_tags_located", tags.len() as u64);
            if tags.is_empty() {
                rep.fail(FailKind::ModelDiff, None, "the model's layout finds no value tag in a fixture file", &format!("{}\nfile: {}\nmodel: {}", what, hex(bytes), lay.chars().take(300).collect::<String>()));
            }
            for (ti, off) in tags.iter().enumerate() {
                for t in all_tags {
                    // quick: the four text-parsed tags on every value, the others on every third value
                    let textual = matches!(t, 0x30..=0x33);
                    if t == bytes[*off] || (quick && !textual && ti % 3 != (t as usize) % 3) {
                        continue;
                    }
                    let mut b = bytes.clone();
                    b[*off] = t;
                    binary_case(&mut cx, &mut rep, "value_retag", &b, &format!("{}\nvalue #{}: type tag at byte {} {:02x} -> {:02x}", what, ti, off, bytes[*off], t));
                }
            }
        }
        // the same texts through the JSON loader: every typed cell's text replaced (oracle only)
        {
            let mut db = Database::new();
            let types = [D::Integer, D::Date, D::Time { with_timezone: false }, D::Timestamp { with_timezone: false }, D::Interval { start_field: vibesql_types::IntervalField::Year, end_field: Some(vibesql_types::IntervalField::Month) }, D::Numeric { precision: 10, scale: 2 }, D::Varchar { max_length: None }, D::Character { length: 4 }, D::Name];
            let cols: Vec<vibesql_catalog::ColumnSchema> = types.iter().enumerate().map(|(i, t)| vibesql_catalog::ColumnSchema { name: format!("J{}", i), data_type: t.clone(), nullable: true, default_value: None }).collect();
            let _ = db.create_table(vibesql_catalog::TableSchema::new("TJ".to_string(), cols));
            let _ = db.insert_row(
                "TJ",
                vibesql_storage::Row::new(vec![
                    V::Integer(1), V::Date(vibesql_types::Date::new(2024, 2, 29).unwrap()), V::Time(vibesql_types::Time::new(12, 0, 0, 50_000_000).unwrap()),
                    V::Timestamp(vibesql_types::Timestamp::new(vibesql_types::Date::new(1999, 12, 31).unwrap(), vibesql_types::Time::new(23, 59, 59, 1).unwrap())),
                    V::Interval(vibesql_types::Interval::new("1-6 YEAR TO MONTH".into())), V::Numeric(2.5), V::Varchar("MARKV".into()), V::Character("MARK".into()), V::Varchar("MARKN".into()),
                ]),
            );
            let pj = cx.dir.join("cells.json");
            if db.save_json(&pj).is_ok() {
                let json = std::fs::read_to_string(&pj).unwrap_or_default();
                other_case(&mut cx, &mut rep, "json", "json", "valid", json.as_bytes(), "JSON fixture with DATE / TIME / TIMESTAMP / INTERVAL / NUMERIC / string cells");
                let cells = ["\"2024-02-29\"", "\"12:00:00.05\"", "\"1999-12-31 23:59:59.000000001\"", "\"1-6 YEAR TO MONTH\"", "\"MARKV\"", "\"MARK\"", "\"MARKN\"", "2.5"];
                let mut found = 0;
                for cell in cells {
                    if !json.contains(cell) {
                        continue;
                    }
                    found += 1;
                    for t in &texts {
                        let esc: String = t.chars().map(|c| if c == '"' || c == '\\' || c.is_control() { ' ' } else { c }).collect();
                        let j = json.replacen(cell, &format!("\"{}\"", esc), 1);
                        other_case(&mut cx, &mut rep, "json", "json", "cell_text", j.as_bytes(), &format!("JSON cell {} replaced by {:?}", cell, t));
                    }
                    // words blanked / removed
                    let inner = cell.trim_matches('"');
                    let words: Vec<&str> = inner.split(' ').collect();
                    for wi in 0..words.len() {
                        let removed: Vec<&str> = words.iter().enumerate().filter(|(i, _)| *i != wi).map(|(_, w)| *w).collect();
                        let blanked: Vec<String> = words.iter().enumerate().map(|(i, w)| if i == wi { " ".repeat(w.len()) } else { w.to_string() }).collect();
                        for v in [removed.join(" "), blanked.join(" ")] {
                            let j = json.replacen(cell, &format!("\"{}\"", v), 1);
                            other_case(&mut cx, &mut rep, "json", "json", "cell_words", j.as_bytes(), &format!("JSON cell {} -> {:?}", cell, v));
                        }
                    }
                }
                rep.add("json_cells_located", found);
                if found < 6 {
                    rep.fail(FailKind::Oracle, None, "the JSON fixture does not contain the expected typed cells", &json);
                }
            }
        }
    }
    // ---- prefix indexes over populated string data: every numeric field of the index section ------------
    {
        let mut g = GenDb { db: Db::new(), script: vec![], tables: vec![] };
        g.db.keep_log = false;
        for sql in [
            "CREATE TABLE PEOPLE (ID INTEGER, NAME VARCHAR(40), C CHAR(8), N INTEGER)",
            "CREATE INDEX I1 ON PEOPLE (NAME(1))",
            "CREATE INDEX I2 ON PEOPLE (NAME(2) DESC)",
            "CREATE INDEX I4 ON PEOPLE (NAME(4), N)",
            "CREATE INDEX I8 ON PEOPLE (C(8), NAME)",
            "CREATE INDEX IM ON PEOPLE (N, NAME(2), C(1))",
        ] {
            g.script.push(format!("{};", sql));
            let o = g.db.exec(sql);
            if !o.is_ok() {
                rep.fail(FailKind::Oracle, None, "cannot build the prefix-index fixture", &format!("{} => {}", sql, o.brief()));
            }
        }
        for (i, (name, c)) in [("alice", "ab"), ("éloïse", "漢字"), ("al", "x"), ("", ""), ("漢字漢字漢", "abcdefgh"), ("😀😀", "é")].iter().enumerate() {
            insert_row(&mut g, "PEOPLE", vec![V::Integer(i as i64), V::Varchar(name.to_string()), V::Character(c.to_string()), V::Integer((i % 3) as i64)]);
        }
        insert_row(&mut g, "PEOPLE", vec![V::Integer(99), V::Null, V::Null, V::Null]);
        let origin = format!("prefix-index fixture:\n{}", g.script.join("\n"));
        let quick = args.quick();
        // binary: the index section's fields
        let pb = cx.dir.join("people.vbsql");
        if g.db.db.save_binary(&pb).is_ok() {
            let bytes = std::fs::read(&pb).unwrap_or_default();
            binary_case(&mut cx, &mut rep, "valid", &bytes, &origin);
            let sec = cx.m.ask(&format!("sections {}", hex(&bytes)));
            let offs: Vec<usize> = Sx::parse(&sec).and_then(|s| s.as_list().map(|l| l[1..].iter().filter_map(|x| x.as_atom().and_then(|a| a.parse().ok())).collect())).unwrap_or_default();
            let lay = cx.m.ask(&format!("layout {}", hex(&bytes)));
            let fields: Vec<(String, usize, usize)> = Sx::parse(&lay)
                .and_then(|s| s.as_list().map(|l| l.to_vec()))
                .unwrap_or_default()
                .iter()
                .filter_map(|x| {
                    let l = x.as_list()?;
                    Some((l[0].as_atom()?.to_string(), l[1].as_atom()?.parse().ok()?, l[2].as_atom()?.parse().ok()?))
                })
                .collect();
            if offs.len() != 6 || fields.is_empty() {
                rep.fail(FailKind::ModelDiff, None, "the model cannot lay out a file with prefix indexes written by save_binary", &format!("{}\nfile: {}\nsections: {}\nlayout: {}", origin, hex(&bytes), sec, lay.chars().take(200).collect::<String>()));
            } else {
                let (lo, hi) = (offs[3], offs[4]);
                let numeric: Vec<&(String, usize, usize)> = fields.iter().filter(|(k, off, _)| *off >= lo && *off < hi && matches!(k.as_str(), "count" | "len" | "flag" | "prefix")).collect();
                rep.add("index_section_numeric_fields", numeric.len() as u64);
                rep.add("index_section_prefix_fields", numeric.iter().filter(|f| f.0 == "prefix").count() as u64);
                for (k, off, len) in numeric.iter().map(|f| (&f.0, f.1, f.2)) {
                    let orig = &bytes[off..off + len];
                    let val = orig.iter().rev().fold(0u64, |a, b| (a << 8) | *b as u64);
                    let put = |v: u64| -> Vec<u8> {
                        let mut b = bytes.clone();
                        for i in 0..len {
                            b[off + i] = (v >> (8 * i)) as u8;
                        }
                        b
                    };
                    let max = if len >= 8 { u64::MAX } else { (1u64 << (8 * len)) - 1 };
                    let mut vals = vec![0u64, 1, max, val.wrapping_add(1) & max, val.wrapping_sub(1) & max, max >> 1];
                    // every single-bit flip of the field (prefix lengths: all 64; others in quick: the low byte)
                    let bits = if !quick { 8 * len } else if k == "prefix" { 16 } else { 8 };
                    for bit in 0..bits {
                        vals.push(val ^ (1u64 << bit));
                    }
                    if k == "prefix" {
                        vals.extend([val ^ (1 << 31), val ^ (1 << 32), val ^ (1 << 63), 2, 3, 4, 8, 16, 1 << 32]);
                    }
                    vals.sort();
                    vals.dedup();
                    for v in vals {
                        if v == val {
                            continue;
                        }
                        binary_case(&mut cx, &mut rep, &format!("index_field_{}", k), &put(v), &format!("{}\nindex section field {} at byte {} (width {}): {} -> {}", origin, k, off, len, val, v));
                    }
                }
            }
        }
        // compressed: the same file with a prefix length set to 0 cannot be produced without re-compressing;
        // the valid file and blind damage go through the oracle
        let pz = cx.dir.join("people.vbsqlz");
        if g.db.db.save_compressed(&pz).is_ok() {
            let bytes = std::fs::read(&pz).unwrap_or_default();
            other_case(&mut cx, &mut rep, "compressed", "vbsqlz", "valid", &bytes, &origin);
            for i in 0..bytes.len() {
                if quick && i % 4 != 0 {
                    continue;
                }
                let mut b = bytes.clone();
                b[i] ^= 1 << (i % 8);
                other_case(&mut cx, &mut rep, "compressed", "vbsqlz", "bitflip", &b, &format!("{}\nbit flip at byte {}", origin, i));
            }
        }
        // JSON: every "prefix_length" value replaced
        let pj = cx.dir.join("people.json");
        if g.db.db.save_json(&pj).is_ok() {
            let json = std::fs::read_to_string(&pj).unwrap_or_default();
            other_case(&mut cx, &mut rep, "json", "json", "valid", json.as_bytes(), &origin);
            let needle = "\"prefix_length\": ";
            let positions: Vec<usize> = json.match_indices(needle).map(|(i, _)| i + needle.len()).collect();
            rep.add("json_prefix_length_fields", positions.len() as u64);
            if positions.len() < 6 {
                rep.fail(FailKind::Oracle, None, "save_json does not write the prefix lengths of the fixture's indexes", &json);
            }
            for p in positions {
                let end = p + json[p..].find(|c: char| c == ',' || c == '\n' || c == '}').unwrap_or(0);
                for v in ["0", "-1", "1e99", "\"4\"", "null", "18446744073709551615", "18446744073709551616", "1", "3", "0.5", "[]", "true", "00", "4294967296"] {
                    let j = format!("{}{}{}", &json[..p], v, &json[end..]);
                    other_case(&mut cx, &mut rep, "json", "json", "prefix_length", j.as_bytes(), &format!("{}\nJSON prefix_length {} -> {}", origin, &json[p..end], v));
                }
            }
        }
    }
    // ---- arbitrary byte strings --------------------------------------------------------------------
    for _ in 0..args.n(150, 20000) {
        let n = r_len(&mut rng);
        let mut b: Vec<u8> = (0..n).map(|_| if rng.chance(1, 3) { rng.below(3) as u8 } else { rng.next() as u8 }).collect();
        match rng.below(4) {
            0 => {
                let mut h = header();
                h.append(&mut b);
                binary_case(&mut cx, &mut rep, "arbitrary_after_header", &h, "valid header followed by arbitrary bytes");
            }
            1 => binary_case(&mut cx, &mut rep, "arbitrary", &b, "arbitrary bytes"),
            2 => {
                other_case(&mut cx, &mut rep, "json", "json", "arbitrary", &b, "arbitrary bytes");
                other_case(&mut cx, &mut rep, "compressed", "vbsqlz", "arbitrary", &b, "arbitrary bytes");
            }
            _ => {
                other_case(&mut cx, &mut rep, "auto", "db", "arbitrary", &b, "arbitrary bytes (Database::load)");
                other_case(&mut cx, &mut rep, "sql", "sql", "arbitrary", &b, "arbitrary bytes");
            }
        }
    }
    rep.extra.insert("worker_processes_spawned".into(), serde_json::json!(cx.w.spawned));
    rep.extra.insert("subprocess_loads".into(), serde_json::json!(cx.n));
    rep.assumptions.push("compressed, JSON and SQL-dump loaders are exercised by the direct oracle only (zstd, serde_json and the SQL parser are not modelled)".into());
    rep.assumptions.push("a file the model reads but load_binary rejects with a database-level error (duplicate names, unknown type text, missing table/column, unparsable temporal text, constraint) counts as a clean failure".into());
    std::process::exit(rep.finish());
}

fn r_len(r: &mut Rng) -> usize {
    match r.below(4) {
        0 => r.below(8) as usize,
        1 => r.below(64) as usize,
        _ => r.below(400) as usize,
    }
}
